#include <dispenso/small_buffer_allocator.h>
#include <cstdio>
#include <set>
#include <thread>
#include <vector>
// A thread_local object constructed before the thread's first allocator call is destroyed after the
// allocator's per-thread data; its destructor allocates.
static std::vector<char*> g_late;      // blocks handed out by the late alloc (never freed)
struct Late {
  ~Late() {
    for (int i = 0; i < 3; ++i) g_late.push_back(dispenso::allocSmallBuffer<64>());
  }
};
int main() {
  std::thread t([] {
    thread_local Late late;            // constructed first => destroyed last
    (void)&late;
    std::vector<char*> v;
    for (int i = 0; i < 10; ++i) v.push_back(dispenso::allocSmallBuffer<64>());
    for (char* p : v) dispenso::deallocSmallBuffer<64>(p);   // cache of this thread now holds blocks
  });
  t.join();
  // the exited thread's cache went back to the central store; allocate everything the central store has
  std::set<char*> mine;
  for (int i = 0; i < 400; ++i) mine.insert(dispenso::allocSmallBuffer<64>());
  int dup = 0;
  for (char* p : g_late) if (mine.count(p)) { ++dup; std::printf("block %p handed out twice (late thread_local destructor and main)\n", (void*)p); }
  std::printf("late=%zu dup=%d\n", g_late.size(), dup);
  return dup ? 1 : 0;
}
