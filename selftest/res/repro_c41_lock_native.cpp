#include <dispenso/small_buffer_allocator.h>
#include <atomic>
#include <thread>
#include <vector>
#include <cstdio>
int main() {
  std::atomic<bool> stop{false};
  std::atomic<size_t> sink{0};
  std::vector<std::thread> ts;
  for (int d = 0; d < 2; ++d) ts.emplace_back([&] { while (!stop.load()) sink += dispenso::approxBytesAllocatedSmallBuffer<256>(); });
  std::vector<std::thread> as;
  for (int a = 0; a < 4; ++a) as.emplace_back([&] {
    // allocate without freeing: every 128 allocations need a new slab
    for (int i = 0; i < 400000; ++i) { char* p = dispenso::allocSmallBuffer<256>(); p[0] = 1; }
  });
  for (auto& t : as) t.join();
  stop = true;
  for (auto& t : ts) t.join();
  size_t expect = (4 * 400000 / 128);
  std::printf("bytes %zu slabs-reported %zu (>= %zu expected) sink %zu\n", dispenso::approxBytesAllocatedSmallBuffer<256>(),
              dispenso::approxBytesAllocatedSmallBuffer<256>() / 32768, expect, sink.load() & 1);
}
