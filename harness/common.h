// Shared helpers for the verification harnesses (C++17).
#pragma once
#include <cinttypes>
#include <cstdint>
#include <cstdio>
#include <cstdlib>
#include <cstring>
#include <string>
#include <vector>

namespace vh {

struct SplitMix {
  uint64_t s;
  explicit SplitMix(uint64_t seed) : s(seed * 0x9E3779B97F4A7C15ull + 0x1234567ull) {}
  uint64_t next() {
    s += 0x9E3779B97F4A7C15ull;
    uint64_t z = s;
    z = (z ^ (z >> 30)) * 0xBF58476D1CE4E5B9ull;
    z = (z ^ (z >> 27)) * 0x94D049BB133111EBull;
    return z ^ (z >> 31);
  }
  uint64_t below(uint64_t n) { return n ? next() % n : 0; }
  bool coin() { return next() & 1; }
  int64_t range(int64_t lo, int64_t hi) {  // inclusive
    return lo + static_cast<int64_t>(below(static_cast<uint64_t>(hi - lo) + 1));
  }
};

inline const char* argOr(int argc, char** argv, int i, const char* d) { return i < argc ? argv[i] : d; }
inline long long argInt(int argc, char** argv, int i, long long d) {
  return i < argc ? std::strtoll(argv[i], nullptr, 10) : d;
}

// lifetime-tracked element type
struct TrackStats {
  long long constructed = 0, destroyed = 0, live = 0, doubleDestroy = 0, useDead = 0;
};
inline TrackStats& trackStats() {
  static TrackStats s;
  return s;
}

struct Tracked {
  static constexpr uint32_t kAlive = 0xA11CE5u, kDead = 0xDEADu, kMoved = 0x30FEDu;
  int v;
  uint32_t state;
  Tracked() : v(0), state(kAlive) { ++trackStats().constructed; ++trackStats().live; }
  Tracked(int x) : v(x), state(kAlive) { ++trackStats().constructed; ++trackStats().live; }
  // the source's liveness is read before any member of *this is written: the source may alias *this
  static int readSrc(const Tracked& o) { if (o.state == kDead) ++trackStats().useDead; return o.v; }
  Tracked(const Tracked& o) : v(readSrc(o)), state(kAlive) {
    ++trackStats().constructed; ++trackStats().live;
  }
  Tracked(Tracked&& o) noexcept : v(readSrc(o)), state(kAlive) {
    if (&o != this) { o.state = kMoved; o.v = -1; }
    ++trackStats().constructed; ++trackStats().live;
  }
  Tracked& operator=(const Tracked& o) {
    if (state == kDead || o.state == kDead) ++trackStats().useDead;
    v = o.v; state = kAlive; return *this;
  }
  Tracked& operator=(Tracked&& o) noexcept {
    if (state == kDead || o.state == kDead) ++trackStats().useDead;
    v = o.v; state = kAlive;
    if (&o != this) { o.state = kMoved; o.v = -1; }
    return *this;
  }
  ~Tracked() {
    if (state == kDead) ++trackStats().doubleDestroy;
    state = kDead; ++trackStats().destroyed; --trackStats().live;
  }
  bool operator==(const Tracked& o) const { return v == o.v; }
  bool operator!=(const Tracked& o) const { return v != o.v; }
  bool operator<(const Tracked& o) const { return v < o.v; }
};

}  // namespace vh
