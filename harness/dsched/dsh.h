// helpers shared by dsched harnesses
#pragma once
#include <unistd.h>
#include <cstdio>
#include <string>
#include "common.h"
#include "dsched/dsched.h"

namespace dsh {

// print the recorded trace as a block the Python side replays through the Lean model
inline void emitTrace(const char* protoAndParams, const std::string& desc) {
  std::printf("TRACE-BEGIN %s\n", protoAndParams);
  for (const auto& e : dsched::trace()) {
    if (e.kind == dsched::K_THREAD_START || e.kind == dsched::K_THREAD_END) continue;
    if (e.kind == dsched::K_FENCE && !e.addr) {
      std::printf("T %d fence - %d 0 0 0\n", e.tid, (int)e.mo);
      continue;
    }
    std::printf("T %s\n", dsched::fmt(e).c_str());
  }
  std::printf("TRACE-END %s\n", desc.c_str());
}

struct StuckCtx {
  std::string signature;   // PFAIL signature to print when the run deadlocks / livelocks
  std::string detail;
  std::string proto;       // if non-empty, the partial trace is emitted too
};
inline StuckCtx& stuckCtx() { static StuckCtx c; return c; }

inline void installStuckHandler() {
  dsched::setStuckHandler([](const dsched::RunInfo& i) {
    auto& c = stuckCtx();
    std::string rep = i.report;
    for (auto& ch : rep) if (ch == '\n') ch = ';';
    std::printf("PFAIL %s | %s %s after %ld steps: %s\n", c.signature.c_str(),
                i.outcome == dsched::DEADLOCK ? "deadlock" : "livelock", c.detail.c_str(), i.steps, rep.c_str());
    for (const auto& e : dsched::trace()) std::printf("STUCKTRACE %s\n", dsched::fmt(e).c_str());
  });
}

}  // namespace dsh

#define DS_CALL(...) dsched::note("call " __VA_ARGS__)
#define DS_RET(...) dsched::note("ret " __VA_ARGS__)
