// helpers shared by dsched harnesses
#pragma once
#include <unistd.h>
#include <atomic>
#include <cstring>
#include <cstdio>
#include <string>
#include "common.h"
#include "dsched/dsched.h"

namespace dsh {

// print the recorded trace as a block the Python side replays through the Lean model
inline void emitTrace(const char* protoAndParams, const std::string& desc) {
  std::printf("TRACE-BEGIN %s\n", protoAndParams);
  for (const auto& e : dsched::trace()) {
    if (e.kind == dsched::K_THREAD_START || e.kind == dsched::K_THREAD_END) continue;
    if (e.kind == dsched::K_FENCE && !e.addr) {
      std::printf("T %d fence - %d 0 0 0\n", e.tid, (int)e.mo);
      continue;
    }
    std::printf("T %s\n", dsched::fmt(e).c_str());
  }
  std::printf("TRACE-END %s\n", desc.c_str());
}

struct StuckCtx {
  std::string signature;   // PFAIL signature to print when the run deadlocks / livelocks
  std::string detail;
  std::string proto;       // if non-empty, the partial trace is emitted too
};
inline StuckCtx& stuckCtx() { static StuckCtx c; return c; }

inline void installStuckHandler() {
  dsched::setStuckHandler([](const dsched::RunInfo& i) {
    auto& c = stuckCtx();
    std::string rep = i.report;
    for (auto& ch : rep) if (ch == '\n') ch = ';';
    std::printf("PFAIL %s | %s %s after %ld steps: %s\n", c.signature.c_str(),
                i.outcome == dsched::DEADLOCK ? "deadlock" : "livelock", c.detail.c_str(), i.steps, rep.c_str());
    for (const auto& e : dsched::trace()) std::printf("STUCKTRACE %s\n", dsched::fmt(e).c_str());
  });
}

// Element type whose only member is an atomic: constructing an element is an atomic store of its
// tag and moving it out is an atomic exchange with the moved-from marker -1, so element accesses are
// scheduling points and appear in the trace. Lifetimes are counted (plain counters: only one
// thread runs at a time under dsched).
struct AtomPayload {
  // lifetime ledger, kept in the runtime (see dsched::ghostAdd)
  static long live() { return dsched::ghostGet(0); }
  static long constructed() { return dsched::ghostGet(1); }
  static void born() { dsched::ghostAdd(0, 1); dsched::ghostAdd(1, 1); }
  std::atomic<int> v;
  AtomPayload() { v.store(-2, std::memory_order_relaxed); born(); }
  explicit AtomPayload(int x) { v.store(x, std::memory_order_relaxed); born(); }
  AtomPayload(AtomPayload&& o) noexcept {
    v.store(o.v.exchange(-1, std::memory_order_relaxed), std::memory_order_relaxed); born();
  }
  AtomPayload(const AtomPayload& o) { v.store(o.v.load(std::memory_order_relaxed), std::memory_order_relaxed); born(); }
  AtomPayload& operator=(AtomPayload&& o) noexcept {
    v.store(o.v.exchange(-1, std::memory_order_relaxed), std::memory_order_relaxed);
    return *this;
  }
  AtomPayload& operator=(const AtomPayload& o) {
    v.store(o.v.load(std::memory_order_relaxed), std::memory_order_relaxed);
    return *this;
  }
  // The destructor is a scheduling point (an atomic op on a dummy that is never traced) and then
  // scribbles the "destroyed" marker with a plain write: a destructor that runs late on a slot that
  // has meanwhile been re-constructed corrupts the new element, which the oracles then see.
  static std::atomic<int>& dummy() { static std::atomic<int> d{0}; return d; }
  ~AtomPayload() {
    dummy().fetch_add(1, std::memory_order_relaxed);
    { int m = -3; std::memcpy(static_cast<void*>(&v), &m, sizeof m); }
    dsched::ghostAdd(0, -1);
  }
  int get() const { return v.load(std::memory_order_relaxed); }
};

}  // namespace dsh

// A table of ints kept in the runtime's cell array (see dsched::cellSet): use it like std::vector<int> for
// bookkeeping that several managed threads read and write.
namespace dsh {
struct CellRef {
  int idx;
  operator int() const { return dsched::cellGet(idx); }
  CellRef& operator=(int v) { dsched::cellSet(idx, v); return *this; }
  CellRef& operator=(const CellRef& o) { dsched::cellSet(idx, dsched::cellGet(o.idx)); return *this; }
  int operator++(int) { int v = dsched::cellGet(idx); dsched::cellSet(idx, v + 1); return v; }
};
struct CellVec {
  int base = 0, n = 0;
  CellVec() {}
  CellVec(int b, int len, int init = 0) : base(b), n(len) { for (int i = 0; i < len; ++i) dsched::cellSet(b + i, init); }
  CellRef operator[](int i) const { return CellRef{base + i}; }
};
}  // namespace dsh

#define DS_CALL(...) dsched::note("call " __VA_ARGS__)
#define DS_RET(...) dsched::note("ret " __VA_ARGS__)
