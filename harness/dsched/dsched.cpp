// dsched runtime. Compiled WITHOUT -fsanitize=thread; linked into harness executables whose other
// translation units were compiled WITH it (instrumentation only, no libtsan).
#include "dsched.h"

#include <dlfcn.h>
#include <errno.h>
#include <linux/futex.h>
#include <pthread.h>
#include <sched.h>
#include <semaphore.h>
#include <stdarg.h>
#include <stdio.h>
#include <stdlib.h>
#include <string.h>
#include <sys/syscall.h>
#include <sys/time.h>
#include <time.h>
#include <unistd.h>

#include <algorithm>
#include <atomic>
#include <map>

namespace dsched {
namespace {

long rawSyscall(long n, long a1 = 0, long a2 = 0, long a3 = 0, long a4 = 0, long a5 = 0, long a6 = 0) {
  long ret;
  register long r10 __asm__("r10") = a4;
  register long r8 __asm__("r8") = a5;
  register long r9 __asm__("r9") = a6;
  __asm__ volatile("syscall"
                   : "=a"(ret)
                   : "a"(n), "D"(a1), "S"(a2), "d"(a3), "r"(r10), "r"(r8), "r"(r9)
                   : "rcx", "r11", "memory");
  return ret;
}

enum TState { T_RUNNABLE, T_BLK_FUTEX, T_BLK_JOIN, T_BLK_MUTEX, T_BLK_COND, T_BLK_SEM, T_SLEEP, T_FINISHED };

struct Thr {
  int id = -1;
  TState state = T_RUNNABLE;
  std::atomic<int> go{0};
  const void* waitAddr = nullptr;
  int joinTarget = -1;
  bool timed = false;
  uint64_t deadline = 0;
  uint64_t waitStart = 0;
  bool timedOut = false;
  bool woken = false;
  bool intr = false;
  uint64_t arrival = 0; // FIFO order for wakes
  bool yielded = false;
  int priority = 0;
  long loadStreak = 0;
  uintptr_t lastPlainElem = 0;
  int lastPlainKind = -1;
  void* (*fn)(void*) = nullptr;
  void* arg = nullptr;
  void* ret = nullptr;
  pthread_t pth{};
  const char* what = "";
  int noPreempt = 0;   // > 0: scheduling points do not switch threads (harness hook bodies)
};

struct Rng {
  uint64_t s = 1;
  uint64_t next() {
    s += 0x9E3779B97F4A7C15ull;
    uint64_t z = s;
    z = (z ^ (z >> 30)) * 0xBF58476D1CE4E5B9ull;
    z = (z ^ (z >> 27)) * 0x94D049BB133111EBull;
    return z ^ (z >> 31);
  }
  uint64_t below(uint64_t n) { return n ? next() % n : 0; }
};

struct MutexRec { int owner = -1; int depth = 0; };

struct Sched {
  bool active = false;
  Options opt;
  Rng rng;
  std::vector<Thr*> thr;
  Thr* cur = nullptr;
  uint64_t vtime = 1000000000ull;
  bool spinYield = false;
  uint64_t arrivals = 0;
  RunInfo info;
  std::vector<Event> trace;
  std::map<uintptr_t, std::pair<size_t, std::string>> names;
  std::map<uintptr_t, std::pair<size_t, size_t>> plain;  // start -> (bytes, elemSize)
  uintptr_t plainLo = ~(uintptr_t)0, plainHi = 0;
  std::map<const void*, MutexRec> mutexes;
  std::map<const void*, long> sems;
  size_t prefixPos = 0;
  int preemptions = 0;
  std::vector<long> pctChange;
  std::function<void(const RunInfo&)> stuck;
  long rr = 0;
};

Sched G;
thread_local Thr* self = nullptr;

void realFutexWait(std::atomic<int>* a, int v) { rawSyscall(SYS_futex, (long)a, FUTEX_WAIT_PRIVATE, v, 0, 0, 0); }
void realFutexWake(std::atomic<int>* a) { rawSyscall(SYS_futex, (long)a, FUTEX_WAKE_PRIVATE, 1, 0, 0, 0); }

void waitTurn(Thr* t) {
  while (t->go.load(std::memory_order_acquire) == 0) realFutexWait(&t->go, 0);
  t->go.store(0, std::memory_order_relaxed);
}
void switchTo(Thr* next) {
  G.cur = next;
  ++G.info.switches;
  next->go.store(1, std::memory_order_release);
  realFutexWake(&next->go);
}

bool managed() { return G.active && self != nullptr && self->state != T_FINISHED; }

const char* stateName(TState s) {
  switch (s) {
    case T_RUNNABLE: return "runnable";
    case T_BLK_FUTEX: return "futex-wait";
    case T_BLK_JOIN: return "join";
    case T_BLK_MUTEX: return "mutex";
    case T_BLK_COND: return "condvar";
    case T_BLK_SEM: return "semaphore";
    case T_SLEEP: return "sleep";
    case T_FINISHED: return "finished";
  }
  return "?";
}

std::string nameOf(const void* addr) {
  uintptr_t a = (uintptr_t)addr;
  auto it = G.names.upper_bound(a);
  if (it != G.names.begin()) {
    --it;
    if (a >= it->first && a < it->first + it->second.first) {
      char buf[160];
      if (a == it->first) snprintf(buf, sizeof buf, "%s", it->second.second.c_str());
      else snprintf(buf, sizeof buf, "%s+%zu", it->second.second.c_str(), (size_t)(a - it->first));
      return buf;
    }
  }
  return "";
}

void logEvent(Kind k, int mo, int size, const void* addr, uint64_t operand, uint64_t result, uint64_t aux,
              const char* note = nullptr) {
  if (!G.opt.recordTrace) return;
  if (addr && !G.opt.traceAll && k != K_NOTE) {
    uintptr_t a = (uintptr_t)addr;
    auto it = G.names.upper_bound(a);
    if (it == G.names.begin()) return;
    --it;
    if (!(a >= it->first && a < it->first + it->second.first)) return;
  }
  Event e;
  e.tid = self ? self->id : -1;
  e.kind = k; e.mo = (uint8_t)mo; e.size = (uint8_t)size; e.addr = addr;
  e.operand = operand; e.result = result; e.aux = aux;
  if (note) e.note = note;
  G.trace.push_back(std::move(e));
}

std::string report() {
  std::string r;
  char buf[256];
  for (Thr* t : G.thr) {
    std::string nm = t->waitAddr ? nameOf(t->waitAddr) : "";
    snprintf(buf, sizeof buf, "  thread %d: %s%s%s %s%s\n", t->id, stateName(t->state), t->timed ? " (timed)" : "",
             nm.empty() ? "" : (" on " + nm).c_str(), t->what, t->state == T_BLK_JOIN ? (" target=" + std::to_string(t->joinTarget)).c_str() : "");
    r += buf;
  }
  return r;
}

[[noreturn]] void stuckExit(Outcome o) {
  G.info.outcome = o;
  G.info.report = report();
  G.active = false;
  if (G.stuck) G.stuck(G.info);
  else {
    printf("DSCHED-%s after %ld steps\n%s", o == DEADLOCK ? "DEADLOCK" : "LIVELOCK", G.info.steps, G.info.report.c_str());
  }
  fflush(stdout);
  _exit(0);
}

// make timed waiters whose deadline has passed runnable
void expireTimers() {
  for (Thr* t : G.thr) {
    if (t->timed && t->state != T_RUNNABLE && t->state != T_FINISHED && t->deadline <= G.vtime) {
      t->timedOut = true;
      t->timed = false;
      if (t->state == T_BLK_FUTEX) {  // the waiter leaves the futex queue now: record it here
        Thr* saved = self; self = t; logEvent(K_FUTEX_WAIT_RET, 0, 4, t->waitAddr, 0, ETIMEDOUT, 0); self = saved;
      }
      ++G.info.timeoutsFired;
      if (t->deadline - t->waitStart >= G.opt.backstopNs) ++G.info.backstopsFired;
      t->state = T_RUNNABLE;
    }
  }
}

int decide(int n) { // n >= 1 options; records the choice
  int c = 0;
  if (n > 1) {
    if (G.prefixPos < G.opt.prefix.size()) {
      c = G.opt.prefix[G.prefixPos];
      if (c >= n) c = n - 1;
    } else if (G.opt.strategy == DFS) {
      c = 0;
    } else {
      c = (int)G.rng.below(n);
    }
  }
  if (n > 1 || G.opt.strategy == DFS) {
    // only real decisions are recorded
    if (n > 1) { G.info.choices.push_back({c, n}); ++G.prefixPos; }
  }
  return c;
}

// choose the next thread to run. `me` may be non-runnable (blocked / finished).
Thr* pick(Thr* me, bool yielding) {
  expireTimers();
  if (G.opt.spuriousPerMille > 0 && G.opt.strategy != DFS)
    for (Thr* t : G.thr)
      if (t->state == T_BLK_FUTEX && (int)G.rng.below(1000) < G.opt.spuriousPerMille) {
        t->intr = true;      // a signal interrupts the wait: futex returns -1 / EINTR
        t->timed = false;
        t->state = T_RUNNABLE;
        // the waiter leaves the futex queue now: record it at this point of the trace
        { Thr* saved = self; self = t; logEvent(K_FUTEX_WAIT_RET, 0, 4, t->waitAddr, 0, EINTR, 0); self = saved; }
      }
  std::vector<Thr*> run;
  for (Thr* t : G.thr) if (t->state == T_RUNNABLE) run.push_back(t);
  if (G.opt.spinJump && G.spinYield && run.size() == 1 && run[0] == me) {
    // the only runnable thread is spinning on loads: only the passage of time can change what it reads
    Thr* best = nullptr;
    for (Thr* t : G.thr) if (t->timed && t->state != T_FINISHED && t->state != T_RUNNABLE && (!best || t->deadline < best->deadline)) best = t;
    if (best && best->deadline > G.vtime) {
      G.vtime = best->deadline;
      expireTimers();
      run.clear();
      for (Thr* t : G.thr) if (t->state == T_RUNNABLE) run.push_back(t);
    }
  }
  if (run.empty()) {
    // everybody blocked: advance virtual time to the earliest deadline
    Thr* best = nullptr;
    for (Thr* t : G.thr) if (t->timed && t->state != T_FINISHED && (!best || t->deadline < best->deadline)) best = t;
    if (!best) stuckExit(DEADLOCK);
    G.vtime = std::max(G.vtime, best->deadline);
    expireTimers();
    for (Thr* t : G.thr) if (t->state == T_RUNNABLE) run.push_back(t);
  }
  bool meRunnable = me && me->state == T_RUNNABLE;
  if (G.info.steps > G.opt.livelockAfter) stuckExit(LIVELOCK);
  if (G.info.steps > G.opt.fairAfter) {
    // fair round-robin phase: a correct program terminates here
    ++G.rr;
    if (meRunnable && !yielding && (G.rr % 8) != 0) return me;
    size_t k = 0;
    if (me) for (size_t i = 0; i < run.size(); ++i) if (run[i]->id > me->id) { k = i; break; }
    return run[k];
  }
  if (run.size() == 1) return run[0];
  switch (G.opt.strategy) {
    case RANDOM: {
      if (G.prefixPos < G.opt.prefix.size()) break; // replay: fall to generic decision below
      if (meRunnable && !yielding && (int)G.rng.below(100) < G.opt.stickiness) return me;
      std::vector<Thr*> cand;
      for (Thr* t : run) if (!(yielding && t == me)) cand.push_back(t);
      int c = (int)G.rng.below(cand.size());
      return cand[c];
    }
    case PCT: {
      for (long cp : G.pctChange) if (cp == G.info.steps && meRunnable) me->priority = -(int)(G.info.steps);
      if (yielding && meRunnable) me->priority -= 1000000; // a yielding thread drops below everybody
      Thr* best = nullptr;
      for (Thr* t : run) if (!best || t->priority > best->priority) best = t;
      return best;
    }
    case DFS: break;
  }
  // DFS / replay: options ordered: current first (if it may continue), then the others by id
  std::vector<Thr*> opts;
  if (meRunnable && !yielding) opts.push_back(me);
  bool canPreempt = !(meRunnable && !yielding) || G.preemptions < G.opt.preemptionBound;
  if (canPreempt || opts.empty())
    for (Thr* t : run) if (t != me) opts.push_back(t);
  if (opts.empty()) opts.push_back(me);
  int c = decide((int)opts.size());
  if (meRunnable && !yielding && opts[c] != me) ++G.preemptions;
  return opts[c];
}

void schedPoint(bool yielding = false) {
  if (!managed()) return;
  Thr* me = self;
  if (me->noPreempt > 0) return;
  ++G.info.steps;
  G.vtime += 50;
  Thr* next = pick(me, yielding);
  if (next != me) {
    switchTo(next);
    waitTurn(me);
  }
}

// block the calling thread in `st`; returns when it has been made runnable and scheduled again
void block(TState st, const void* addr, bool timed, uint64_t deadline, const char* what) {
  Thr* me = self;
  me->state = st;
  me->waitAddr = addr;
  me->timed = timed;
  me->deadline = deadline;
  me->waitStart = G.vtime;
  me->timedOut = false;
  me->woken = false;
  me->intr = false;
  me->arrival = ++G.arrivals;
  me->what = what;
  ++G.info.steps;
  Thr* next = pick(me, false);
  if (next != me) {
    switchTo(next);
    waitTurn(me);
  }
  me->waitAddr = nullptr;
  me->what = "";
  me->timed = false;
}

// wake up to n threads blocked in state st on addr; returns number woken
uint64_t lastWokenMask = 0;
int wakeWaiters(TState st, const void* addr, int n) {
  lastWokenMask = 0;
  std::vector<Thr*> ws;
  for (Thr* t : G.thr) if (t->state == st && t->waitAddr == addr) ws.push_back(t);
  std::sort(ws.begin(), ws.end(), [](Thr* a, Thr* b) { return a->arrival < b->arrival; });
  int woken = 0;
  while (woken < n && !ws.empty()) {
    size_t k = 0;
    if (G.opt.randomWake && ws.size() > 1) {
      if (G.opt.strategy == DFS || G.prefixPos < G.opt.prefix.size()) k = (size_t)decide((int)ws.size());
      else k = (size_t)G.rng.below(ws.size());
    }
    Thr* t = ws[k];
    ws.erase(ws.begin() + (long)k);
    t->state = T_RUNNABLE;
    t->woken = true;
    t->timed = false;
    if (t->id < 63) lastWokenMask |= (1ull << t->id);
    ++woken;
  }
  return woken;
}

struct Finisher {
  Thr* t = nullptr;
  ~Finisher() {
    if (!t) return;
    Thr* me = t;
    if (G.active && me->state != T_FINISHED) {
      logEvent(K_THREAD_END, 0, 0, nullptr, 0, 0, 0);
      me->state = T_FINISHED;
      for (Thr* o : G.thr) if (o->state == T_BLK_JOIN && o->joinTarget == me->id) o->state = T_RUNNABLE;
      ++G.info.steps;
      Thr* next = pick(me, false);
      self = nullptr;
      switchTo(next);
    }
  }
};
thread_local Finisher finisher;

void* trampoline(void* p) {
  Thr* t = (Thr*)p;
  self = t;
  finisher.t = t; // constructed first => destroyed after the thread_locals user code creates
  waitTurn(t);
  logEvent(K_THREAD_START, 0, 0, nullptr, 0, 0, 0);
  t->ret = t->fn(t->arg);
  return t->ret;
}

using create_fn = int (*)(pthread_t*, const pthread_attr_t*, void* (*)(void*), void*);
using join_fn = int (*)(pthread_t, void**);
template <typename F>
F real(const char* name) {
  static std::map<std::string, void*> cache;
  void* p = dlsym(RTLD_NEXT, name);
  return (F)p;
}

uint64_t tsToNs(const struct timespec* ts) { return (uint64_t)ts->tv_sec * 1000000000ull + (uint64_t)ts->tv_nsec; }

} // namespace

// ------------------------------------------------------------------ public API
int tid() { return (G.active && self) ? self->id : -1; }
uint64_t nowNs() { return G.vtime; }
bool active() { return G.active; }
const std::vector<Event>& trace() { return G.trace; }
void setStuckHandler(std::function<void(const RunInfo&)> h) { G.stuck = std::move(h); }
void nameRegion(const void* addr, size_t bytes, const char* name) { G.names[(uintptr_t)addr] = {bytes, name}; }
void clearNames() { G.names.clear(); G.plain.clear(); G.plainLo = ~(uintptr_t)0; G.plainHi = 0; }
void namePlainRegion(const void* addr, size_t bytes, size_t elemSize, const char* name) {
  nameRegion(addr, bytes, name);
  uintptr_t a = (uintptr_t)addr;
  G.plain[a] = {bytes, elemSize};
  if (a < G.plainLo) G.plainLo = a;
  if (a + bytes > G.plainHi) G.plainHi = a + bytes;
}

void noPreempt(bool on) { if (G.active && self) self->noPreempt += on ? 1 : -1; }
long backstopsSoFar() { return G.info.backstopsFired; }
long timeoutsSoFar() { return G.info.timeoutsFired; }
static int g_cells[1 << 17];
void cellSet(int i, int v) { g_cells[i & ((1 << 17) - 1)] = v; }
int cellGet(int i) { return g_cells[i & ((1 << 17) - 1)]; }
void cellsClear(int from, int n) { for (int i = 0; i < n; ++i) g_cells[(from + i) & ((1 << 17) - 1)] = 0; }
static long g_ghost[32];
void ghostAdd(int slot, long delta) { g_ghost[slot & 31] += delta; }
long ghostGet(int slot) { return g_ghost[slot & 31]; }
void note(const char* f, ...) {
  char buf[512];
  va_list ap;
  va_start(ap, f);
  vsnprintf(buf, sizeof buf, f, ap);
  va_end(ap);
  logEvent(K_NOTE, 0, 0, nullptr, 0, 0, 0, buf);
}

static const char* kindName(Kind k) {
  static const char* n[] = {"load", "store", "xchg", "fadd", "fsub", "fand", "for", "fxor", "cas_ok", "cas_fail", "fence",
                            "futex_wait", "futex_wait_ret", "futex_wake", "note", "thread_start", "thread_end", "yield", "timeout",
                            "pload", "pstore"};
  return n[k];
}

std::string fmt(const Event& e) {
  char buf[700];
  if (e.kind == K_NOTE) {
    snprintf(buf, sizeof buf, "%d %s", e.tid, e.note.c_str());
    return buf;
  }
  std::string nm = e.addr ? nameOf(e.addr) : "-";
  if (nm.empty()) nm = "?";
  auto sx = [&](uint64_t v) -> long long {
    if (e.kind == K_FUTEX_WAKE || e.kind == K_FUTEX_WAIT_RET) return (long long)v;
    switch (e.size) {
      case 1: return (long long)(int8_t)v;
      case 2: return (long long)(int16_t)v;
      case 4: return (long long)(int32_t)v;
      default: return (long long)v;
    }
  };
  long long aux = (e.kind == K_FUTEX_WAIT) ? (long long)e.aux : sx(e.aux);
  snprintf(buf, sizeof buf, "%d %s %s %d %lld %lld %lld", e.tid, kindName(e.kind), nm.c_str(), (int)e.mo,
           sx(e.operand), sx(e.result), aux);
  return buf;
}

void dumpTrace(const char* prefix) {
  for (const Event& e : G.trace) printf("%s %s\n", prefix, fmt(e).c_str());
}

RunInfo run(const Options& opt, const std::function<void()>& body) {
  for (Thr* t : G.thr) delete t;
  G.thr.clear();
  G.opt = opt;
  G.rng.s = opt.seed * 0x2545F4914F6CDD1Dull + 77;
  G.info = RunInfo();
  G.trace.clear();
  G.mutexes.clear();
  G.sems.clear();
  G.prefixPos = 0;
  G.preemptions = 0;
  G.arrivals = 0;
  G.rr = 0;
  G.vtime = 1000000000ull;
  G.pctChange.clear();
  if (opt.strategy == PCT)
    for (int i = 0; i < opt.pctDepth; ++i) G.pctChange.push_back(1 + (long)G.rng.below((uint64_t)opt.pctLength));
  Thr* t0 = new Thr();
  t0->id = 0;
  t0->priority = (int)G.rng.below(1000) + 1000;
  G.thr.push_back(t0);
  G.cur = t0;
  Thr* saved = self;
  self = t0;
  G.active = true;
  body();
  // let remaining managed threads (detached / still exiting) run to completion if they can
  if (self == t0) {
    bool others = true;
    int guard = 0;
    while (others && guard++ < 100000) {
      others = false;
      for (Thr* t : G.thr) if (t != t0 && t->state == T_RUNNABLE) others = true;
      if (others) schedPoint(true);
    }
  }
  G.active = false;
  self = saved;
  return G.info;
}

long explore(Options opt, const std::function<void()>& body, const std::function<bool(const RunInfo&)>& after,
             long maxRuns, bool* exhausted) {
  opt.strategy = DFS;
  std::vector<int> prefix;
  long runs = 0;
  if (exhausted) *exhausted = false;
  while (runs < maxRuns) {
    opt.prefix = prefix;
    RunInfo info = run(opt, body);
    ++runs;
    if (!after(info)) return runs;
    // next schedule: increment the deepest choice that still has an alternative
    std::vector<std::pair<int, int>> ch = info.choices;
    while (!ch.empty() && ch.back().first + 1 >= ch.back().second) ch.pop_back();
    if (ch.empty()) {
      if (exhausted) *exhausted = true;
      return runs;
    }
    prefix.clear();
    for (size_t i = 0; i + 1 < ch.size(); ++i) prefix.push_back(ch[i].first);
    prefix.push_back(ch.back().first + 1);
  }
  return runs;
}

} // namespace dsched

// ====================================================================== interposed libc / pthread
using namespace dsched;

extern "C" {

long syscall(long number, ...) {
  va_list ap;
  va_start(ap, number);
  long a1 = va_arg(ap, long), a2 = va_arg(ap, long), a3 = va_arg(ap, long), a4 = va_arg(ap, long),
       a5 = va_arg(ap, long), a6 = va_arg(ap, long);
  va_end(ap);
  if (number == SYS_futex && managed()) {
    int op = (int)a2 & ~(FUTEX_PRIVATE_FLAG | FUTEX_CLOCK_REALTIME);
    int* addr = (int*)a1;
    if (op == FUTEX_WAIT || op == FUTEX_WAIT_BITSET) {
      int expected = (int)a3;
      const struct timespec* ts = (const struct timespec*)a4;
      schedPoint();
      int curv = __atomic_load_n(addr, __ATOMIC_SEQ_CST);
      logEvent(K_FUTEX_WAIT, 0, 4, addr, (uint32_t)expected, (uint32_t)curv, ts ? tsToNs(ts) : 0);
      if (curv != expected) {
        logEvent(K_FUTEX_WAIT_RET, 0, 4, addr, 0, EAGAIN, 0);
        errno = EAGAIN;
        return -1;
      }
      bool timed = ts != nullptr;
      uint64_t dl = 0;
      if (timed) dl = (op == FUTEX_WAIT) ? G.vtime + tsToNs(ts) : tsToNs(ts);
      block(T_BLK_FUTEX, addr, timed, dl, "futex");
      if (self->timedOut) {
        errno = ETIMEDOUT;
        return -1;
      }
      if (self->intr) {
        errno = EINTR;
        return -1;
      }
      logEvent(K_FUTEX_WAIT_RET, 0, 4, addr, 0, 0, 0);
      return 0;
    }
    if (op == FUTEX_WAKE || op == FUTEX_WAKE_BITSET) {
      schedPoint();
      int n = (int)a3;
      int w = wakeWaiters(T_BLK_FUTEX, addr, n);
      logEvent(K_FUTEX_WAKE, 0, 4, addr, (uint64_t)n, (uint64_t)w, lastWokenMask);
      return w;
    }
  }
  long r = rawSyscall(number, a1, a2, a3, a4, a5, a6);
  if (r < 0 && r > -4096) {
    errno = (int)-r;
    return -1;
  }
  return r;
}

int pthread_create(pthread_t* th, const pthread_attr_t* attr, void* (*fn)(void*), void* arg) {
  static create_fn realCreate = real<create_fn>("pthread_create");
  if (!managed()) return realCreate(th, attr, fn, arg);
  schedPoint();
  Thr* t = new Thr();
  t->id = (int)G.thr.size();
  t->fn = fn;
  t->arg = arg;
  t->priority = (int)G.rng.below(1000) + 1000;
  G.thr.push_back(t);
  int rc = realCreate(th, attr, trampoline, t);
  t->pth = *th;
  if (rc != 0) t->state = T_FINISHED;
  return rc;
}

int pthread_join(pthread_t th, void** ret) {
  static join_fn realJoin = real<join_fn>("pthread_join");
  if (managed()) {
    schedPoint();
    Thr* target = nullptr;
    for (Thr* t : G.thr) if (t->id != 0 && pthread_equal(t->pth, th)) target = t;
    if (target && target->state != T_FINISHED) {
      self->joinTarget = target->id;
      block(T_BLK_JOIN, nullptr, false, 0, "join");
    }
  }
  return realJoin(th, ret);
}

int pthread_mutex_lock(pthread_mutex_t* m) {
  static auto realLock = real<int (*)(pthread_mutex_t*)>("pthread_mutex_lock");
  if (!managed()) return realLock(m);
  schedPoint();
  for (;;) {
    MutexRec& r = G.mutexes[m];
    if (r.owner == -1) { r.owner = self->id; r.depth = 1; return 0; }
    if (r.owner == self->id) { ++r.depth; return 0; }
    block(T_BLK_MUTEX, m, false, 0, "mutex");
  }
}

int pthread_mutex_trylock(pthread_mutex_t* m) {
  static auto realTry = real<int (*)(pthread_mutex_t*)>("pthread_mutex_trylock");
  if (!managed()) return realTry(m);
  schedPoint();
  MutexRec& r = G.mutexes[m];
  if (r.owner == -1) { r.owner = self->id; r.depth = 1; return 0; }
  return EBUSY;
}

int pthread_mutex_unlock(pthread_mutex_t* m) {
  static auto realUnlock = real<int (*)(pthread_mutex_t*)>("pthread_mutex_unlock");
  if (!managed()) return realUnlock(m);
  auto it = G.mutexes.find(m);
  if (it == G.mutexes.end() || it->second.owner != self->id) return realUnlock(m);
  if (--it->second.depth == 0) {
    it->second.owner = -1;
    wakeWaiters(T_BLK_MUTEX, m, 1 << 30);
  }
  schedPoint();
  return 0;
}

static int condWaitCommon(pthread_cond_t* c, pthread_mutex_t* m, bool timed, uint64_t deadline) {
  pthread_mutex_unlock(m);
  block(T_BLK_COND, c, timed, deadline, "condvar");
  bool to = self->timedOut;
  pthread_mutex_lock(m);
  return to ? ETIMEDOUT : 0;
}

int pthread_cond_wait(pthread_cond_t* c, pthread_mutex_t* m) {
  static auto realF = real<int (*)(pthread_cond_t*, pthread_mutex_t*)>("pthread_cond_wait");
  if (!managed()) return realF(c, m);
  return condWaitCommon(c, m, false, 0);
}

int pthread_cond_timedwait(pthread_cond_t* c, pthread_mutex_t* m, const struct timespec* abstime) {
  static auto realF = real<int (*)(pthread_cond_t*, pthread_mutex_t*, const struct timespec*)>("pthread_cond_timedwait");
  if (!managed()) return realF(c, m, abstime);
  return condWaitCommon(c, m, true, tsToNs(abstime));
}

int pthread_cond_clockwait(pthread_cond_t* c, pthread_mutex_t* m, clockid_t clk, const struct timespec* abstime) {
  static auto realF = real<int (*)(pthread_cond_t*, pthread_mutex_t*, clockid_t, const struct timespec*)>("pthread_cond_clockwait");
  if (!managed()) return realF(c, m, clk, abstime);
  return condWaitCommon(c, m, true, tsToNs(abstime));
}

int pthread_cond_signal(pthread_cond_t* c) {
  static auto realF = real<int (*)(pthread_cond_t*)>("pthread_cond_signal");
  if (!managed()) return realF(c);
  schedPoint();
  wakeWaiters(T_BLK_COND, c, 1);
  return 0;
}

int pthread_cond_broadcast(pthread_cond_t* c) {
  static auto realF = real<int (*)(pthread_cond_t*)>("pthread_cond_broadcast");
  if (!managed()) return realF(c);
  schedPoint();
  wakeWaiters(T_BLK_COND, c, 1 << 30);
  return 0;
}

// semaphores: fully virtualised while managed (state kept in our table, keyed by address)
int sem_init(sem_t* s, int pshared, unsigned value) {
  static auto realF = real<int (*)(sem_t*, int, unsigned)>("sem_init");
  int rc = realF(s, pshared, value);
  if (G.active) G.sems[s] = (long)value;
  return rc;
}
int sem_destroy(sem_t* s) {
  static auto realF = real<int (*)(sem_t*)>("sem_destroy");
  if (G.active) G.sems.erase(s);
  return realF(s);
}
int sem_post(sem_t* s) {
  static auto realF = real<int (*)(sem_t*)>("sem_post");
  if (!managed() || !G.sems.count(s)) return realF(s);
  schedPoint();
  ++G.sems[s];
  wakeWaiters(T_BLK_SEM, s, 1);
  return 0;
}
int sem_wait(sem_t* s) {
  static auto realF = real<int (*)(sem_t*)>("sem_wait");
  if (!managed() || !G.sems.count(s)) return realF(s);
  schedPoint();
  while (G.sems[s] <= 0) block(T_BLK_SEM, s, false, 0, "sem");
  --G.sems[s];
  return 0;
}
int sem_trywait(sem_t* s) {
  static auto realF = real<int (*)(sem_t*)>("sem_trywait");
  if (!managed() || !G.sems.count(s)) return realF(s);
  schedPoint();
  if (G.sems[s] <= 0) { errno = EAGAIN; return -1; }
  --G.sems[s];
  return 0;
}
int sem_timedwait(sem_t* s, const struct timespec* abstime) {
  static auto realF = real<int (*)(sem_t*, const struct timespec*)>("sem_timedwait");
  if (!managed() || !G.sems.count(s)) return realF(s, abstime);
  schedPoint();
  while (G.sems[s] <= 0) {
    block(T_BLK_SEM, s, true, tsToNs(abstime), "sem");
    if (self->timedOut && G.sems[s] <= 0) { errno = ETIMEDOUT; return -1; }
  }
  --G.sems[s];
  return 0;
}

int sched_yield(void) {
  if (!managed()) return (int)rawSyscall(SYS_sched_yield);
  self->yielded = true;
  schedPoint(true);
  return 0;
}

static void sleepFor(uint64_t ns) {
  block(T_SLEEP, nullptr, true, G.vtime + ns, "sleep");
}

int nanosleep(const struct timespec* req, struct timespec* rem) {
  if (!managed()) return (int)rawSyscall(SYS_nanosleep, (long)req, (long)rem);
  sleepFor(tsToNs(req));
  if (rem) { rem->tv_sec = 0; rem->tv_nsec = 0; }
  return 0;
}
int clock_nanosleep(clockid_t clk, int flags, const struct timespec* req, struct timespec* rem) {
  if (!managed()) {
    long r = rawSyscall(SYS_clock_nanosleep, (long)clk, (long)flags, (long)req, (long)rem);
    return r < 0 ? (int)-r : 0;
  }
  uint64_t t = tsToNs(req);
  if (flags & TIMER_ABSTIME) t = t > G.vtime ? t - G.vtime : 0;
  sleepFor(t);
  return 0;
}
int usleep(useconds_t us) {
  if (!managed()) {
    struct timespec ts = {(time_t)(us / 1000000), (long)(us % 1000000) * 1000};
    return (int)rawSyscall(SYS_nanosleep, (long)&ts, 0);
  }
  sleepFor((uint64_t)us * 1000);
  return 0;
}

int clock_gettime(clockid_t clk, struct timespec* ts) {
  if (!managed()) {
    long r = rawSyscall(SYS_clock_gettime, (long)clk, (long)ts);
    if (r < 0) { errno = (int)-r; return -1; }
    return 0;
  }
  G.vtime += 200;
  expireTimers();
  ts->tv_sec = (time_t)(G.vtime / 1000000000ull);
  ts->tv_nsec = (long)(G.vtime % 1000000000ull);
  return 0;
}

int gettimeofday(struct timeval* tv, void* tz) {
  if (!managed()) return (int)rawSyscall(SYS_gettimeofday, (long)tv, (long)tz);
  G.vtime += 200;
  tv->tv_sec = (time_t)(G.vtime / 1000000000ull);
  tv->tv_usec = (long)((G.vtime % 1000000000ull) / 1000);
  return 0;
}

// plain (non-atomic) access to a registered plain region
static void plainAccess(const void* addr, size_t n, bool isWrite) {
  uintptr_t a = (uintptr_t)addr;
  if (a + n <= G.plainLo || a >= G.plainHi) return;   // cheap reject first: also taken before G is constructed
  if (!managed()) return;
  auto it = G.plain.upper_bound(a);
  if (it == G.plain.begin()) return;
  --it;
  if (a >= it->first + it->second.first) return;
  size_t es = it->second.second;
  uintptr_t first = it->first + ((a - it->first) / es) * es;
  uintptr_t last = it->first + ((a + (n ? n - 1 : 0) - it->first) / es) * es;
  for (uintptr_t e = first; e <= last && e < it->first + it->second.first; e += es) {
    int k = isWrite ? 1 : 0;
    if (self->lastPlainElem == e && self->lastPlainKind == k) continue;  // same element, same kind: one event
    schedPoint(false);
    self->lastPlainElem = e; self->lastPlainKind = k;
    logEvent(isWrite ? K_PSTORE : K_PLOAD, 0, (int)(es > 255 ? 255 : es), (const void*)e, 0, 0, 0);
  }
}

// ---------------------------------------------------------------- __tsan_* interface
void __tsan_init() {}
void __tsan_func_entry(void*) {}
void __tsan_func_exit() {}
void __tsan_ignore_thread_begin() {}
void __tsan_ignore_thread_end() {}
#define DS_PLAIN(n)                                              \
  void __tsan_read##n(void* a) { plainAccess(a, n, false); }      \
  void __tsan_write##n(void* a) { plainAccess(a, n, true); }      \
  void __tsan_unaligned_read##n(void* a) { plainAccess(a, n, false); }  \
  void __tsan_unaligned_write##n(void* a) { plainAccess(a, n, true); }  \
  void __tsan_read##n##_pc(void* a, void*) { plainAccess(a, n, false); } \
  void __tsan_write##n##_pc(void* a, void*) { plainAccess(a, n, true); }
DS_PLAIN(1) DS_PLAIN(2) DS_PLAIN(4) DS_PLAIN(8) DS_PLAIN(16)
void __tsan_read_range(void* a, unsigned long n) { plainAccess(a, n, false); }
void __tsan_write_range(void* a, unsigned long n) { plainAccess(a, n, true); }
void __tsan_vptr_update(void**, void*) {}
void __tsan_vptr_read(void**) {}
void __tsan_acquire(void*) {}
void __tsan_release(void*) {}
void* __tsan_memcpy(void* d, const void* s, unsigned long n) { plainAccess(s, n, false); plainAccess(d, n, true); return memcpy(d, s, n); }
void* __tsan_memset(void* d, int c, unsigned long n) { return memset(d, c, n); }
void* __tsan_memmove(void* d, const void* s, unsigned long n) { plainAccess(s, n, false); plainAccess(d, n, true); return memmove(d, s, n); }

// clang's TSan pass lowers struct copies to plain `memcpy`/`memmove` calls (libtsan intercepts them);
// interpose them so that copies into / out of registered plain regions are seen
void* memcpy(void* d, const void* s, size_t n) {
  plainAccess(s, n, false);
  plainAccess(d, n, true);
  void* ret = d;
  __asm__ volatile("rep movsb" : "+D"(d), "+S"(s), "+c"(n) : : "memory");
  return ret;
}
void* memmove(void* d, const void* s, size_t n) {
  plainAccess(s, n, false);
  plainAccess(d, n, true);
  void* ret = d;
  if ((uintptr_t)d <= (uintptr_t)s || (uintptr_t)d >= (uintptr_t)s + n) {
    __asm__ volatile("rep movsb" : "+D"(d), "+S"(s), "+c"(n) : : "memory");
  } else {
    char* dd = (char*)d + n - 1;
    const char* ss = (const char*)s + n - 1;
    __asm__ volatile("std\n\trep movsb\n\tcld" : "+D"(dd), "+S"(ss), "+c"(n) : : "memory");
  }
  return ret;
}

void AnnotateIgnoreReadsBegin(const char*, int) {}
void AnnotateIgnoreReadsEnd(const char*, int) {}
void AnnotateIgnoreWritesBegin(const char*, int) {}
void AnnotateIgnoreWritesEnd(const char*, int) {}
void AnnotateNewMemory(const char*, int, const volatile void*, long) {}
void AnnotateHappensBefore(const char*, int, const volatile void*) {}
void AnnotateHappensAfter(const char*, int, const volatile void*) {}

static inline void spinHeuristic(bool isLoad) {
  if (!managed()) return;
  self->lastPlainKind = -1;
  if (isLoad) {
    if (++self->loadStreak >= 24) { self->loadStreak = 0; G.spinYield = true; schedPoint(true); G.spinYield = false; return; }
  } else {
    self->loadStreak = 0;
  }
  schedPoint(false);
}

#define DS_ATOMIC(bits, T)                                                                                   \
  T __tsan_atomic##bits##_load(const volatile T* a, int mo) {                                                \
    spinHeuristic(true);                                                                                     \
    T v = __atomic_load_n(a, __ATOMIC_SEQ_CST);                                                              \
    logEvent(K_LOAD, mo, bits / 8, (const void*)a, 0, (uint64_t)v, 0);                                       \
    return v;                                                                                                \
  }                                                                                                          \
  void __tsan_atomic##bits##_store(volatile T* a, T v, int mo) {                                             \
    spinHeuristic(false);                                                                                    \
    __atomic_store_n(a, v, __ATOMIC_SEQ_CST);                                                                \
    logEvent(K_STORE, mo, bits / 8, (const void*)a, (uint64_t)v, 0, 0);                                      \
  }                                                                                                          \
  T __tsan_atomic##bits##_exchange(volatile T* a, T v, int mo) {                                             \
    spinHeuristic(false);                                                                                    \
    T o = __atomic_exchange_n(a, v, __ATOMIC_SEQ_CST);                                                       \
    logEvent(K_XCHG, mo, bits / 8, (const void*)a, (uint64_t)v, (uint64_t)o, 0);                             \
    return o;                                                                                                \
  }                                                                                                          \
  T __tsan_atomic##bits##_fetch_add(volatile T* a, T v, int mo) {                                            \
    spinHeuristic(false);                                                                                    \
    T o = __atomic_fetch_add(a, v, __ATOMIC_SEQ_CST);                                                        \
    logEvent(K_FADD, mo, bits / 8, (const void*)a, (uint64_t)v, (uint64_t)o, 0);                             \
    return o;                                                                                                \
  }                                                                                                          \
  T __tsan_atomic##bits##_fetch_sub(volatile T* a, T v, int mo) {                                            \
    spinHeuristic(false);                                                                                    \
    T o = __atomic_fetch_sub(a, v, __ATOMIC_SEQ_CST);                                                        \
    logEvent(K_FSUB, mo, bits / 8, (const void*)a, (uint64_t)v, (uint64_t)o, 0);                             \
    return o;                                                                                                \
  }                                                                                                          \
  T __tsan_atomic##bits##_fetch_and(volatile T* a, T v, int mo) {                                            \
    spinHeuristic(false);                                                                                    \
    T o = __atomic_fetch_and(a, v, __ATOMIC_SEQ_CST);                                                        \
    logEvent(K_FAND, mo, bits / 8, (const void*)a, (uint64_t)v, (uint64_t)o, 0);                             \
    return o;                                                                                                \
  }                                                                                                          \
  T __tsan_atomic##bits##_fetch_or(volatile T* a, T v, int mo) {                                             \
    spinHeuristic(false);                                                                                    \
    T o = __atomic_fetch_or(a, v, __ATOMIC_SEQ_CST);                                                         \
    logEvent(K_FOR, mo, bits / 8, (const void*)a, (uint64_t)v, (uint64_t)o, 0);                              \
    return o;                                                                                                \
  }                                                                                                          \
  T __tsan_atomic##bits##_fetch_xor(volatile T* a, T v, int mo) {                                            \
    spinHeuristic(false);                                                                                    \
    T o = __atomic_fetch_xor(a, v, __ATOMIC_SEQ_CST);                                                        \
    logEvent(K_FXOR, mo, bits / 8, (const void*)a, (uint64_t)v, (uint64_t)o, 0);                             \
    return o;                                                                                                \
  }                                                                                                          \
  T __tsan_atomic##bits##_fetch_nand(volatile T* a, T v, int mo) {                                           \
    spinHeuristic(false);                                                                                    \
    T o = __atomic_fetch_nand(a, v, __ATOMIC_SEQ_CST);                                                       \
    return o;                                                                                                \
  }                                                                                                          \
  int __tsan_atomic##bits##_compare_exchange_strong(volatile T* a, T* c, T v, int mo, int fmo) {             \
    spinHeuristic(false);                                                                                    \
    T exp = *c;                                                                                              \
    bool ok = __atomic_compare_exchange_n(a, c, v, false, __ATOMIC_SEQ_CST, __ATOMIC_SEQ_CST);               \
    logEvent(ok ? K_CAS_OK : K_CAS_FAIL, ok ? mo : fmo, bits / 8, (const void*)a, (uint64_t)v,               \
             (uint64_t)(ok ? exp : *c), (uint64_t)exp);                                                      \
    return ok;                                                                                               \
  }                                                                                                          \
  int __tsan_atomic##bits##_compare_exchange_weak(volatile T* a, T* c, T v, int mo, int fmo) {               \
    return __tsan_atomic##bits##_compare_exchange_strong(a, c, v, mo, fmo);                                  \
  }                                                                                                          \
  T __tsan_atomic##bits##_compare_exchange_val(volatile T* a, T c, T v, int mo, int fmo) {                   \
    __tsan_atomic##bits##_compare_exchange_strong(a, &c, v, mo, fmo);                                        \
    return c;                                                                                                \
  }

DS_ATOMIC(8, unsigned char)
DS_ATOMIC(16, unsigned short)
DS_ATOMIC(32, unsigned int)
DS_ATOMIC(64, unsigned long)

void __tsan_atomic_thread_fence(int mo) {
  spinHeuristic(false);
  __atomic_thread_fence(__ATOMIC_SEQ_CST);
  logEvent(K_FENCE, mo, 0, nullptr, 0, 0, 0);
}
void __tsan_atomic_signal_fence(int) {}

} // extern "C"
