// dsched: a deterministic user-level scheduler for real C++ code.
//
// The code under test is compiled with clang's ThreadSanitizer *instrumentation only*
// (-fsanitize=thread at compile time) and linked against this runtime instead of libtsan, so every
// atomic operation, fence, futex syscall, mutex/condvar/semaphore operation, thread create/join,
// yield, sleep and clock read becomes a scheduling point at which exactly one thread may proceed.
// It is used (a) to produce traces of the real code's atomic events for validation against the Lean
// models, and (b) to search for schedules on which a property fails. It is NOT a proof.
#pragma once
#include <cstddef>
#include <cstdint>
#include <functional>
#include <string>
#include <utility>
#include <vector>

namespace dsched {

enum Strategy { RANDOM = 0, PCT = 1, DFS = 2 };

struct Options {
  uint64_t seed = 1;
  Strategy strategy = RANDOM;
  int stickiness = 60;          // RANDOM: percent chance to keep running the current thread
  int pctDepth = 3;             // PCT: number of priority change points
  long pctLength = 2000;        // PCT: assumed run length for placing change points
  long fairAfter = 200000;      // after this many steps the run switches to round-robin
  long livelockAfter = 3000000; // after this many steps the run is reported as livelock
  bool randomWake = true;       // futex/cond/sem wake picks waiters at random (else FIFO)
  int preemptionBound = 2;      // DFS: max preemptions of a runnable thread
  bool recordTrace = true;      // keep the event log
  bool traceAll = false;        // log events on unnamed addresses too
  uint64_t backstopNs = 50000000ull; // a timed wait at least this long counts as a backstop
  int spuriousPerMille = 0;     // per scheduling decision: chance that a futex waiter returns EINTR (signal)
  bool spinJump = false;        // a thread spinning on loads (24 in a row) while nobody else can run: advance
                                // virtual time to the earliest pending deadline instead of 50 ns per load
  std::vector<int> prefix;      // DFS / replay: forced choices
};

enum Kind : uint8_t {
  K_LOAD, K_STORE, K_XCHG, K_FADD, K_FSUB, K_FAND, K_FOR, K_FXOR, K_CAS_OK, K_CAS_FAIL, K_FENCE,
  K_FUTEX_WAIT, K_FUTEX_WAIT_RET, K_FUTEX_WAKE, K_NOTE, K_THREAD_START, K_THREAD_END, K_YIELD,
  K_TIMEOUT, K_PLOAD, K_PSTORE
};

struct Event {
  int tid;
  Kind kind;
  uint8_t mo;       // declared memory order (std::memory_order numbering) or 0
  uint8_t size;     // bytes
  const void* addr;
  uint64_t operand; // store value / rmw operand / cas desired / futex expected / wake count
  uint64_t result;  // value observed (load, rmw previous, cas observed) / futex return / woken
  uint64_t aux;     // cas expected
  std::string note;
};

enum Outcome { OK = 0, DEADLOCK = 1, LIVELOCK = 2 };

struct RunInfo {
  Outcome outcome = OK;
  long steps = 0;
  long switches = 0;
  long timeoutsFired = 0;   // timed waits that ended by (virtual) timeout
  long backstopsFired = 0;  // … of which were at least Options::backstopNs long
  std::vector<std::pair<int, int>> choices; // (choice, number of options) at every decision
  std::string report;       // for DEADLOCK/LIVELOCK: what every thread was doing
};

// Runs `body` as managed thread 0 under the scheduler and returns when it returns.
// On DEADLOCK/LIVELOCK the stuck handler is called (default: print report) and the process exits
// via _exit(0) after flushing stdout, because the stuck threads cannot be unwound.
RunInfo run(const Options& opt, const std::function<void()>& body);

// Systematic (stateless DFS, preemption-bounded) exploration: calls `body` repeatedly, each time
// under the next schedule; `after` is called after each run; returns the number of runs. Stops when
// the tree is exhausted, `maxRuns` is reached, or `after` returns false.
long explore(Options opt, const std::function<void()>& body,
             const std::function<bool(const RunInfo&)>& after, long maxRuns, bool* exhausted = nullptr);

void setStuckHandler(std::function<void(const RunInfo&)> h);

// Ghost counters kept inside the (uninstrumented, opaque) runtime.  Harness bookkeeping that several
// managed threads update must not live in plain variables of the instrumented harness: the compiler
// may legally keep a plain variable in a register across a relaxed atomic on a non-escaping object,
// and the scheduler switches threads exactly there, so updates would be lost.
// … and a larger array of int cells for per-task / per-set bookkeeping tables (131072 cells)
void cellSet(int index, int value);
int cellGet(int index);
void cellsClear(int from, int n);
void ghostAdd(int slot, long delta);
long ghostGet(int slot);
void note(const char* fmt, ...);                               // harness marker into the trace
void nameRegion(const void* addr, size_t bytes, const char* name);
// a region of plain (non-atomic) elements of `elemSize` bytes: every plain read/write of an element is a
// scheduling point and is logged (once per element per run of accesses) as pload/pstore name+elemOffset
void namePlainRegion(const void* addr, size_t bytes, size_t elemSize, const char* name);
void clearNames();
const std::vector<Event>& trace();
std::string fmt(const Event& e);                               // "tid kind name+off mo operand result aux"
void dumpTrace(const char* prefix);                            // prints every event as "<prefix> …"
int tid();                                                     // managed thread id, -1 if unmanaged
uint64_t nowNs();                                              // virtual time
// while on, atomic operations of the calling thread are not scheduling points (for observation hooks
// that must stay atomic with the operation they report); do not block inside
void noPreempt(bool on);
long backstopsSoFar();                                         // timed waits >= backstopNs that ended by timeout in the current run
long timeoutsSoFar();
bool active();

} // namespace dsched
