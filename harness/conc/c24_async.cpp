// C24: AsyncRequest under the deterministic scheduler; traces validated against the Lean model,
// the harness checks: every value returned by getUpdate() was emplaced, and at most once.
// usage: c24_async <seed> <scenarios>
#include <atomic>
#include <map>
#include <optional>
#include <thread>
#include <vector>
#define private public
#include <dispenso/async_request.h>
#undef private
#include "dsched/dsh.h"

struct Payload {
  std::atomic<int> v;
  explicit Payload(int x) { v.store(x, std::memory_order_relaxed); }
  Payload(Payload&& o) noexcept { v.store(o.v.exchange(-1, std::memory_order_relaxed), std::memory_order_relaxed); }
  Payload(const Payload& o) { v.store(o.v.load(std::memory_order_relaxed), std::memory_order_relaxed); }
  Payload& operator=(Payload&& o) noexcept { v.store(o.v.exchange(-1, std::memory_order_relaxed), std::memory_order_relaxed); return *this; }
};

int main(int argc, char** argv) {
  uint64_t seed = vh::argInt(argc, argv, 1, 1);
  long long N = vh::argInt(argc, argv, 2, 200);
  vh::SplitMix rng(seed);
  dsh::installStuckHandler();
  long long cases = 0;
  for (long long it = 0; it < N; ++it) {
    dsched::Options o;
    o.seed = seed * 7919 + it;
    o.strategy = (it % 4 == 3) ? dsched::PCT : dsched::RANDOM;
    o.stickiness = 20 + (int)rng.below(70);
    int consumers = (int)rng.range(1, 3), producers = (int)rng.range(1, 3), rounds = (int)rng.range(1, 3);
    std::string desc = "async consumers=" + std::to_string(consumers) + " producers=" + std::to_string(producers) +
        " rounds=" + std::to_string(rounds) + " seed=" + std::to_string(o.seed);
    auto& c = dsh::stuckCtx();
    c.signature = "AsyncRequest operation never returns";
    c.detail = desc;
    std::vector<int> emplaced, returned;
    int badValue = 0;
    dsched::clearNames();
    dsched::run(o, [&] {
      dispenso::AsyncRequest<Payload> req;
      dsched::nameRegion(&req.state_, sizeof(req.state_), "state");
      dsched::nameRegion(&req.obj_, sizeof(int), "obj");
      std::vector<std::thread> ths;
      for (int ci = 0; ci < consumers; ++ci)
        ths.emplace_back([&] {
          for (int r = 0; r < rounds; ++r) {
            DS_CALL("requestUpdate");
            req.requestUpdate();
            DS_RET("requestUpdate 0 0");
            for (int k = 0; k < 2; ++k) {
              DS_CALL("getUpdate");
              auto u = req.getUpdate();
              int val = u ? u->v.load(std::memory_order_relaxed) : 0;
              DS_RET("getUpdate %d %d", u ? 1 : 0, val);
              if (u) returned.push_back(val);
            }
          }
        });
      for (int pi = 0; pi < producers; ++pi)
        ths.emplace_back([&, pi] {
          for (int r = 0; r < rounds + 1; ++r) {
            DS_CALL("updateRequested");
            bool need = req.updateRequested();
            DS_RET("updateRequested %d 0", need ? 1 : 0);
            int tag = 100 * (pi + 1) + r;
            DS_CALL("tryEmplaceUpdate %d", tag);
            bool ok = req.tryEmplaceUpdate(tag);
            DS_RET("tryEmplaceUpdate %d 0", ok ? 1 : 0);
            if (ok) emplaced.push_back(tag);
          }
        });
      for (auto& t : ths) t.join();
    });
    ++cases;
    std::map<int, int> cnt;
    for (int v : returned) {
      ++cnt[v];
      bool wasEmplaced = false;
      for (int e : emplaced) wasEmplaced |= (e == v);
      if (!wasEmplaced) ++badValue;
    }
    bool dup = false;
    for (auto& kv : cnt) dup |= kv.second > 1;
    if (dup || badValue || returned.size() > emplaced.size())
      std::printf("PFAIL AsyncRequest getUpdate delivered a value twice or a value never emplaced | %s returned=%zu emplaced=%zu bad=%d\n",
                  desc.c_str(), returned.size(), emplaced.size(), badValue);
    std::printf("NT c%d p%d r%d ret%zu emp%zu\n", consumers, producers, rounds, returned.size(), emplaced.size());
    dsh::emitTrace("asyncreq", desc);
  }
  std::printf("STAT cases %lld\n", cases);
  std::fflush(stdout);
  _exit(0);
}
