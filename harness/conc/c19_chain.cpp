// C19: then-chains and combinators of dispenso::Future under the deterministic scheduler.
//
// Part 1 (traced, "futchain" plug-in): one antecedent Future<int>; 1..5 continuations are added with
// then() from 1..3 threads before, while and after a dedicated thread (or a waiter, inline) completes
// the antecedent.  Every continuation goes to its own recording schedulable, which bumps the named
// dispatch counter disp[k] and keeps the closure; the closures are run afterwards.  The trace of
// status_, thenChain_ and disp[] events is replayed through the Lean model.
//
// Part 2 (oracle only): then() with ImmediateInvoker / ThreadPool / NewThreadInvoker / TaskSet /
// ConcurrentTaskSet, chains of continuations, when_all (vector and tuple), when_any (vector and tuple)
// and their task-set variants over inputs that complete in random order, get() racing with the
// completion.  Checked: every continuation ran exactly once and found its antecedent ready; the
// when_all result is ready only after all inputs, holds them in input order; the when_any result is
// the index of a ready input; taskSet.wait() returning implies the result future is ready.
// usage: c19_chain <seed> <scenarios>
#include <atomic>
#include <chrono>
#include <condition_variable>
#include <cstring>
#include <deque>
#include <functional>
#include <future>
#include <memory>
#include <mutex>
#include <optional>
#include <stdexcept>
#include <thread>
#include <tuple>
#include <vector>
#define private public
#define protected public
#include <dispenso/future.h>
#include <dispenso/thread_pool.h>
#include <dispenso/task_set.h>
#undef private
#undef protected
#include "dsched/dsh.h"

enum { G_BASE = 2 };  // ghost slots: 2.. per-continuation run counts (8), 12 notReady, 13 misc failures
static long gget(int s) { return dsched::ghostGet(s); }
static void gset0(int s) { dsched::ghostAdd(s, -dsched::ghostGet(s)); }
enum { G_NOTREADY = 12, G_BAD = 13, G_ANTE_RUNS = 14, G_INPUT_DONE = 16 /* ..23 */ };

using FutI = dispenso::Future<int>;
using ImplI = dispenso::detail::FutureImplBase<int>;
static ImplI* implOf(const FutI& f) { void* p; std::memcpy(&p, &f, sizeof p); return static_cast<ImplI*>(p); }
template <class I> static int peekStatus(I* i) { int v; std::memcpy(&v, static_cast<void*>(&i->status_), sizeof v); return v; }

struct Gated {
  dispenso::OnceFunction saved;
  void schedule(dispenso::OnceFunction f) { saved = std::move(f); }
  void schedule(dispenso::OnceFunction f, dispenso::ForceQueuingTag) { saved = std::move(f); }
};

// a Schedulable that records the dispatch (named counter) and keeps the closure for later
struct RecSched {
  std::atomic<int>* ctr = nullptr;
  std::vector<dispenso::OnceFunction>* q = nullptr;
  template <typename F> void schedule(F&& f) { ctr->fetch_add(1, std::memory_order_relaxed); q->emplace_back(std::forward<F>(f)); }
  template <typename F> void schedule(F&& f, dispenso::ForceQueuingTag) { schedule(std::forward<F>(f)); }
};

static void emitTraceNoFence(const char* protoAndParams, const std::string& desc) {
  std::printf("TRACE-BEGIN %s\n", protoAndParams);
  for (const auto& e : dsched::trace()) {
    if (e.kind == dsched::K_THREAD_START || e.kind == dsched::K_THREAD_END || e.kind == dsched::K_FENCE) continue;
    std::printf("T %s\n", dsched::fmt(e).c_str());
  }
  std::printf("TRACE-END %s\n", desc.c_str());
}

static long long statDirect = 0, statPushed = 0, statRecheck = 0, statCasFail = 0;

// ------------------------------------------------------------------ part 1: traced chain scenarios
static void chainScenario(uint64_t seed, long long it, vh::SplitMix& rng) {
  int nCont = (int)rng.range(1, 5), nAdders = (int)rng.range(1, 3), nWaiters = rng.below(3) == 0 ? (int)rng.range(1, 2) : 0;
  int waitSpin = (int)rng.below(40);
  long runDelay = rng.below(2) == 0 ? (long)rng.range(1000, 200000) : 0;
  int fnWork = (int)rng.below(4) == 0 ? 0 : (int)rng.range(3, 60), runSpin = (int)rng.below(30);
  std::vector<long> addDelay(nCont);
  std::vector<int> owner(nCont);
  std::vector<bool> async(nCont);
  for (int k = 0; k < nCont; ++k) {
    owner[k] = (int)rng.below(nAdders);
    addDelay[k] = rng.below(4) == 0 ? (long)rng.range(1000, 300000) : 0;
    async[k] = rng.coin();
  }
  dsched::Options o;
  o.seed = seed * 1000003 + it;
  o.strategy = (it % 3 == 2) ? dsched::PCT : dsched::RANDOM;
  o.stickiness = 15 + (int)rng.below(75);
  if (it % 5 == 4) o.spuriousPerMille = 10;
  if (it % 4 == 1) {   // burst: many concurrent pushes on a not-yet-ready antecedent, frequent switches
    nCont = (int)rng.range(4, 8); nAdders = 3; nWaiters = 0; runDelay = (long)rng.range(20000, 100000);
    owner.assign(nCont, 0); addDelay.assign(nCont, 0); async.assign(nCont, false);
    for (int k = 0; k < nCont; ++k) owner[k] = k % 3;
    o.strategy = dsched::RANDOM; o.stickiness = (int)rng.below(15);
  }
  std::string desc = "chain conts=" + std::to_string(nCont) + " adders=" + std::to_string(nAdders) + " waiters=" +
      std::to_string(nWaiters) + " runDelay=" + std::to_string(runDelay) + " seed=" + std::to_string(o.seed);
  auto& sctx = dsh::stuckCtx();
  sctx.signature = "then-chain scenario: a thread never returns";
  sctx.detail = desc;
  for (int g = G_BASE; g < 24; ++g) gset0(g);
  int dispEnd[8] = {0};
  int contVal[8] = {0};
  dsched::clearNames();
  dsched::run(o, [&] {
    std::atomic<int> disp[8];
    for (auto& d : disp) d.store(0, std::memory_order_relaxed);
    std::atomic<int> dummy{0}, go{0};
    std::vector<dispenso::OnceFunction> queue;
    queue.reserve(16);
    std::vector<RecSched> rs(nCont);
    for (int k = 0; k < nCont; ++k) { rs[k].ctr = &disp[k]; rs[k].q = &queue; }
    Gated gated;
    FutI ante([&dummy, fnWork]() { dsched::ghostAdd(G_ANTE_RUNS, 1); for (int i = 0; i < fnWork; ++i) dummy.fetch_add(1, std::memory_order_relaxed); return 41; },
              gated);
    ImplI* impl = implOf(ante);
    dsched::nameRegion(&impl->status_, sizeof(int), "status");
    dsched::nameRegion(&impl->thenChain_, sizeof(void*), "chain");
    dsched::nameRegion(&disp[0], sizeof(disp), "disp");
    std::vector<std::optional<FutI>> results(nCont);
    std::vector<std::thread> ths;
    for (int a = 0; a < nAdders; ++a)
      ths.emplace_back([&, a] {
        while (go.load(std::memory_order_relaxed) == 0) std::this_thread::yield();
        for (int k = 0; k < nCont; ++k) {
          if (owner[k] != a) continue;
          if (addDelay[k]) std::this_thread::sleep_for(std::chrono::nanoseconds(addDelay[k]));
          DS_CALL("then %d", k);
          results[k].emplace(ante.then(
              [k, impl](FutI&& f) {
                dsched::ghostAdd(G_BASE + k, 1);
                if (peekStatus(impl) != 2) dsched::ghostAdd(G_NOTREADY, 1);
                int v = 0;
                std::memcpy(&v, impl->resultBuf_, sizeof v);   // the antecedent's value, read without an event
                (void)f;
                return v + k;
              },
              rs[k], async[k] ? std::launch::async : dispenso::kNotAsync));
          DS_RET("then 0");
        }
      });
    for (int w = 0; w < nWaiters; ++w)
      ths.emplace_back([&] {
        while (go.load(std::memory_order_relaxed) == 0) std::this_thread::yield();
        for (int i = 0; i < waitSpin; ++i) dummy.fetch_add(1, std::memory_order_relaxed);
        DS_CALL("wait");
        ante.wait();
        if (peekStatus(impl) != 2) dsched::ghostAdd(G_BAD, 1);
        DS_RET("wait 0");
      });
    ths.emplace_back([&] {
      while (go.load(std::memory_order_relaxed) == 0) std::this_thread::yield();
      if (runDelay) std::this_thread::sleep_for(std::chrono::nanoseconds(runDelay));
      for (int i = 0; i < runSpin; ++i) dummy.fetch_add(1, std::memory_order_relaxed);
      DS_CALL("run");
      gated.saved();
      DS_RET("run 0");
    });
    go.store(1, std::memory_order_relaxed);
    for (auto& t : ths) t.join();
    // run the dispatched continuation closures; each one waits on (the ready) antecedent first
    for (auto& fn : queue) {
      DS_CALL("wait");
      fn();
      DS_RET("wait 0");
    }
    for (int k = 0; k < nCont; ++k) {
      dispEnd[k] = disp[k].load(std::memory_order_relaxed);   // (an event on disp+k after the last call: see below)
      contVal[k] = -1;
    }
  });
  // NOTE: the final disp[k].load above is a named event outside any call; the emit below drops events after the
  // last "ret" of thread 0 by cutting the trace there.
  bool bad = false;
  std::string why;
  if (gget(G_ANTE_RUNS) != 1) { bad = true; why += " antecedent-runs=" + std::to_string(gget(G_ANTE_RUNS)); }
  for (int k = 0; k < nCont; ++k) {
    if (gget(G_BASE + k) != 1) { bad = true; why += " cont" + std::to_string(k) + "-runs=" + std::to_string(gget(G_BASE + k)); }
    if (dispEnd[k] != 1) { bad = true; why += " cont" + std::to_string(k) + "-dispatched=" + std::to_string(dispEnd[k]); }
  }
  if (bad) std::printf("PFAIL then() continuation not dispatched / run exactly once | %s%s\n", desc.c_str(), why.c_str());
  if (gget(G_NOTREADY)) std::printf("PFAIL then() continuation ran before its antecedent was ready | %s\n", desc.c_str());
  if (gget(G_BAD)) std::printf("PFAIL wait() returned before the antecedent was ready | %s\n", desc.c_str());
  std::printf("NT chain c%d a%d w%d d%ld\n", nCont, nAdders, nWaiters, runDelay ? 1L : 0L);
  // emit the trace up to the last note (the final counter reads of the harness are not part of any call)
  std::printf("TRACE-BEGIN futchain\n");
  size_t last = 0, idx = 0;
  for (const auto& e : dsched::trace()) { ++idx; if (e.kind == dsched::K_NOTE) last = idx; }
  idx = 0;
  for (const auto& e : dsched::trace()) {
    if (++idx > last) break;
    if (e.kind == dsched::K_THREAD_START || e.kind == dsched::K_THREAD_END || e.kind == dsched::K_FENCE) continue;
    std::string l = dsched::fmt(e);
    std::printf("T %s\n", l.c_str());
    if (l.find("cas_fail chain") != std::string::npos) ++statCasFail;
    if (l.find("cas_ok chain") != std::string::npos) ++statPushed;   // pushes and detaches
  }
  std::printf("TRACE-END %s\n", desc.c_str());
}

// ------------------------------------------------------------------ part 2: combinators, oracle only
struct InputCtl {   // an input future whose completion the scenario controls
  Gated gate;
  std::optional<FutI> fut;
};

static void combScenario(uint64_t seed, long long it, vh::SplitMix& rng) {
  int kind = (int)rng.below(8);   // 0 when_all vec, 1 when_all tuple, 2 when_any vec, 3 when_any tuple, 4..7 same with a task set
  bool withTs = kind >= 4;
  int base = kind % 4;
  bool cts = rng.coin();
  int n = base == 1 || base == 3 ? 3 : (int)rng.range(0, 5);
  int poolThreads = (int)rng.range(1, 3);
  int nReadyBefore = n ? (int)rng.below(n + 1) : 0;   // inputs completed before the combinator is built
  bool getRaces = rng.coin();
  std::vector<int> order(n);
  for (int i = 0; i < n; ++i) order[i] = i;
  for (int i = n - 1; i > 0; --i) std::swap(order[i], order[rng.below(i + 1)]);
  dsched::Options o;
  o.seed = seed * 7000003 + it;
  o.strategy = (it % 3 == 2) ? dsched::PCT : dsched::RANDOM;
  o.stickiness = 15 + (int)rng.below(75);
  static const char* names[] = {"when_all-vec", "when_all-tuple", "when_any-vec", "when_any-tuple"};
  std::string desc = std::string("comb ") + names[base] + (withTs ? (cts ? " cts" : " ts") : "") + " n=" + std::to_string(n) +
      " readyBefore=" + std::to_string(nReadyBefore) + " getRaces=" + std::to_string(getRaces) + " seed=" + std::to_string(o.seed);
  auto& sctx = dsh::stuckCtx();
  sctx.signature = "combinator scenario: a thread never returns";
  sctx.detail = desc;
  for (int g = G_BASE; g < 24; ++g) gset0(g);
  std::string fail;
  dsched::clearNames();
  dsched::Options oo = o;
  oo.recordTrace = false;
  dsched::run(oo, [&] {
    dispenso::ThreadPool pool(poolThreads);
    std::optional<dispenso::TaskSet> ts;
    std::optional<dispenso::ConcurrentTaskSet> ctsS;
    if (withTs) { if (cts) ctsS.emplace(pool); else ts.emplace(pool); }
    std::vector<InputCtl> in(n);
    for (int i = 0; i < n; ++i)
      in[i].fut.emplace([i]() { dsched::ghostAdd(G_INPUT_DONE + i, 1); return 100 + i; }, in[i].gate);
    auto complete = [&](int i) { in[i].gate.saved(); };
    for (int j = 0; j < nReadyBefore; ++j) complete(order[j]);
    auto allDone = [&] { for (int i = 0; i < n; ++i) if (gget(G_INPUT_DONE + i) != 1) return false; return true; };
    const bool lastLate = rng.coin();
    std::thread completer([&] {
      for (int j = nReadyBefore; j < n; ++j) {
        // a late last input: a result that becomes ready one input too early is then observed by get()
        if (lastLate && j == n - 1) std::this_thread::sleep_for(std::chrono::microseconds(80));
        else if (j % 2) std::this_thread::yield();
        complete(order[j]);
      }
    });
    auto checkAllVec = [&](const std::vector<FutI>& v) {
      if ((int)v.size() != n) fail += " size";
      for (int i = 0; i < (int)v.size() && i < n; ++i) {
        if (implOf(v[i]) != implOf(*in[i].fut)) fail += " order@" + std::to_string(i);
        if (peekStatus(implOf(v[i])) != 2) fail += " input-not-ready@" + std::to_string(i);
      }
      if (!allDone()) fail += " result-ready-before-all-inputs";
    };
    if (base == 0) {
      std::vector<FutI> ins;
      for (auto& c : in) ins.push_back(*c.fut);
      auto res = withTs ? (cts ? dispenso::when_all(*ctsS, ins.begin(), ins.end()) : dispenso::when_all(*ts, ins.begin(), ins.end()))
                        : dispenso::when_all(ins.begin(), ins.end());
      if (withTs && !getRaces) {
        completer.join();
        if (cts) ctsS->wait(); else ts->wait();
        if (!res.is_ready()) fail += " taskset-wait-returned-but-result-not-ready";
      }
      const auto& v = res.get();
      checkAllVec(v);
    } else if (base == 1) {
      auto res = withTs ? (cts ? dispenso::when_all(*ctsS, *in[0].fut, *in[1].fut, *in[2].fut) : dispenso::when_all(*ts, *in[0].fut, *in[1].fut, *in[2].fut))
                        : dispenso::when_all(*in[0].fut, *in[1].fut, *in[2].fut);
      if (withTs && !getRaces) {
        completer.join();
        if (cts) ctsS->wait(); else ts->wait();
        if (!res.is_ready()) fail += " taskset-wait-returned-but-result-not-ready";
      }
      const auto& tup = res.get();
      if (implOf(std::get<0>(tup)) != implOf(*in[0].fut) || implOf(std::get<1>(tup)) != implOf(*in[1].fut) ||
          implOf(std::get<2>(tup)) != implOf(*in[2].fut)) fail += " tuple-order";
      if (!allDone()) fail += " result-ready-before-all-inputs";
    } else {
      std::vector<FutI> ins;
      for (auto& c : in) ins.push_back(*c.fut);
      dispenso::Future<size_t> res = base == 2
          ? (withTs ? (cts ? dispenso::when_any(*ctsS, ins.begin(), ins.end()) : dispenso::when_any(*ts, ins.begin(), ins.end()))
                    : dispenso::when_any(ins.begin(), ins.end()))
          : (withTs ? (cts ? dispenso::when_any(*ctsS, *in[0].fut, *in[1].fut, *in[2].fut) : dispenso::when_any(*ts, *in[0].fut, *in[1].fut, *in[2].fut))
                    : dispenso::when_any(*in[0].fut, *in[1].fut, *in[2].fut));
      if (withTs && !getRaces && n > 0) {
        completer.join();
        if (cts) ctsS->wait(); else ts->wait();
        if (!res.is_ready()) fail += " taskset-wait-returned-but-result-not-ready";
      }
      size_t w = res.get();
      if (n == 0) { if (w != SIZE_MAX) fail += " empty-when_any-not-SIZE_MAX"; }
      else if (w >= (size_t)n) fail += " winner-out-of-range=" + std::to_string(w);
      else if (gget(G_INPUT_DONE + (int)w) != 1 || peekStatus(implOf(*in[w].fut)) != 2) fail += " winner-not-ready=" + std::to_string(w);
      if (res.get() != w) fail += " winner-changed";
    }
    if (completer.joinable()) completer.join();
    if (withTs) { if (cts) ctsS->wait(); else ts->wait(); }
    for (int i = 0; i < n; ++i)
      if (gget(G_INPUT_DONE + i) != 1) fail += " input" + std::to_string(i) + "-runs=" + std::to_string(gget(G_INPUT_DONE + i));
  });
  if (!fail.empty()) std::printf("PFAIL when_all / when_any result does not respect readiness or order | %s:%s\n", desc.c_str(), fail.c_str());
  std::printf("NT %s%s n%d b%d g%d\n", names[base], withTs ? (cts ? "-cts" : "-ts") : "", n, nReadyBefore, getRaces);
}

// then() through real schedulables: every continuation exactly once, after its antecedent
static void thenScenario(uint64_t seed, long long it, vh::SplitMix& rng) {
  int sched = (int)rng.below(5);  // 0 immediate 1 pool 2 newthread 3 taskset 4 concurrent taskset
  int depth = (int)rng.range(1, 3), fan = (int)rng.range(1, 3);
  bool lateRun = rng.coin(), inlineGet = rng.coin(), notDeferred = rng.coin();
  dsched::Options o;
  o.seed = seed * 9000011 + it;
  o.strategy = (it % 3 == 2) ? dsched::PCT : dsched::RANDOM;
  o.stickiness = 15 + (int)rng.below(75);
  o.recordTrace = false;
  static const char* sn[] = {"immediate", "pool", "newthread", "taskset", "ctaskset"};
  std::string desc = std::string("then sched=") + sn[sched] + " depth=" + std::to_string(depth) + " fan=" + std::to_string(fan) +
      " lateRun=" + std::to_string(lateRun) + " inlineGet=" + std::to_string(inlineGet) + " notDeferred=" + std::to_string(notDeferred) +
      " seed=" + std::to_string(o.seed);
  auto& sctx = dsh::stuckCtx();
  sctx.signature = "then scenario: a thread never returns";
  sctx.detail = desc;
  for (int g = G_BASE; g < 24; ++g) gset0(g);
  std::string fail;
  dsched::clearNames();
  dsched::run(o, [&] {
    dispenso::ThreadPool pool((size_t)rng.range(1, 3));
    std::optional<dispenso::TaskSet> ts;
    std::optional<dispenso::ConcurrentTaskSet> ctsS;
    if (sched == 3) ts.emplace(pool);
    if (sched == 4) ctsS.emplace(pool);
    Gated gate;
    dispenso::NewThreadInvoker nt;
    FutI root([]() { dsched::ghostAdd(G_ANTE_RUNS, 1); return 1; }, gate);
    std::vector<FutI> leaves;
    int id = 0;
    auto addThen = [&](FutI& a, int myId) -> FutI {
      ImplI* ai = implOf(a);
      auto fn = [myId, ai](FutI&& f) {
        dsched::ghostAdd(G_BASE + myId, 1);
        if (peekStatus(ai) != 2) dsched::ghostAdd(G_NOTREADY, 1);
        return f.get() + 1;
      };
      // half of the scenarios pass the non-default policies explicitly (kNotDeferred: timed waits must not run the
      // continuation, but get() / wait() still may, and the continuation must still see a ready antecedent)
      if (notDeferred) {
        switch (sched) {
          case 0: return a.then(fn, dispenso::kImmediateInvoker, dispenso::kNotAsync, dispenso::kNotDeferred);
          case 1: return a.then(fn, pool, dispenso::kNotAsync, dispenso::kNotDeferred);
          case 2: return a.then(fn, nt, dispenso::kNotAsync, dispenso::kNotDeferred);
          case 3: return a.then(fn, *ts, dispenso::kNotAsync, dispenso::kNotDeferred);
          default: return a.then(fn, *ctsS, dispenso::kNotAsync, dispenso::kNotDeferred);
        }
      }
      switch (sched) {
        case 0: return a.then(fn, dispenso::kImmediateInvoker);
        case 1: return a.then(fn, pool);
        case 2: return a.then(fn, nt);
        case 3: return a.then(fn, *ts);
        default: return a.then(fn, *ctsS);
      }
    };
    std::thread runner;
    if (!lateRun) gate.saved();
    else runner = std::thread([&] { std::this_thread::yield(); gate.saved(); });
    for (int f = 0; f < fan && id < 8; ++f) {
      FutI cur = root;
      for (int d = 0; d < depth && id < 8; ++d) cur = addThen(cur, id++);
      leaves.push_back(cur);
    }
    if (sched >= 3 && !inlineGet) {
      if (runner.joinable()) runner.join();
      if (sched == 3) ts->wait(); else ctsS->wait();
      for (auto& l : leaves) if (!l.is_ready()) fail += " taskset-wait-returned-but-continuation-not-ready";
    }
    for (size_t i = 0; i < leaves.size(); ++i)
      if (leaves[i].get() != 1 + depth && !(id >= 8)) fail += " value";
    if (runner.joinable()) runner.join();
    if (sched == 2) dispenso::detail::drainNewThreadInvokerThreads();
    if (sched == 3) ts->wait();
    if (sched == 4) ctsS->wait();
    for (int k = 0; k < id; ++k) if (gget(G_BASE + k) != 1) fail += " cont" + std::to_string(k) + "-runs=" + std::to_string(gget(G_BASE + k));
    if (gget(G_ANTE_RUNS) != 1) fail += " root-runs=" + std::to_string(gget(G_ANTE_RUNS));
    if (gget(G_NOTREADY)) fail += " continuation-before-antecedent-ready";
  });
  if (!fail.empty()) std::printf("PFAIL then() continuation through a real schedulable: not exactly once / not after the antecedent | %s:%s\n", desc.c_str(), fail.c_str());
  std::printf("NT then-%s d%d f%d l%d g%d\n", sn[sched], depth, fan, lateRun, inlineGet);
}

// ------------------------------------------------------------------ part 3: traced when_all / when_any
// (needs the observation hooks "fut.when_all" / "fut.when_any" in dispenso/detail/future_impl2.h; when the
// tree under test does not have them the scenarios still run, with the oracle only)
static bool gHookArmed = false;
static int gHookFired = 0;
extern "C" void dispenso_verif_hook(const char* what, const void* obj, long a, long b) {
  (void)b;
  if (!gHookArmed) return;
  if (!std::strcmp(what, "fut.when_all")) {
    dsched::nameRegion(reinterpret_cast<void*>(a), sizeof(size_t), "cw");
    void* p; std::memcpy(&p, obj, sizeof p);
    auto* impl = static_cast<dispenso::detail::FutureImplBase<std::vector<FutI>>*>(p);
    dsched::nameRegion(&impl->status_, sizeof(int), "rstatus");
    gHookFired = 1;
  } else if (!std::strcmp(what, "fut.when_any")) {
    dsched::nameRegion(reinterpret_cast<void*>(a), sizeof(size_t), "cw");
    void* p; std::memcpy(&p, obj, sizeof p);
    auto* impl = static_cast<dispenso::detail::FutureImplBase<size_t>*>(p);
    dsched::nameRegion(&impl->status_, sizeof(int), "rstatus");
    gHookFired = 2;
  }
}

static long long statWhenTraced = 0, statWhenUntraced = 0;

static void whenTraced(uint64_t seed, long long it, vh::SplitMix& rng) {
  const bool any = rng.coin();
  const int n = (int)rng.range(1, 4);
  const int pre = (int)rng.below(n + 1);
  const int getters = (int)rng.below(3);
  std::vector<int> order(n);
  for (int i = 0; i < n; ++i) order[i] = i;
  for (int i = n - 1; i > 0; --i) std::swap(order[i], order[rng.below(i + 1)]);
  std::vector<int> gKind(getters), spin(n);
  for (auto& g : gKind) g = (int)rng.below(2);
  for (auto& x : spin) x = (int)rng.below(25);
  dsched::Options o;
  o.seed = seed * 5000011 + it;
  o.strategy = (it % 3 == 2) ? dsched::PCT : dsched::RANDOM;
  o.stickiness = 10 + (int)rng.below(80);
  if (it % 5 == 4) o.spuriousPerMille = 10;
  std::string desc = std::string(any ? "when_any" : "when_all") + " traced n=" + std::to_string(n) + " pre=" + std::to_string(pre) +
      " getters=" + std::to_string(getters) + " seed=" + std::to_string(o.seed);
  auto& sctx = dsh::stuckCtx();
  sctx.signature = "traced when_all / when_any scenario: a thread never returns";
  sctx.detail = desc;
  for (int g = G_BASE; g < 24; ++g) gset0(g);
  std::string fail;
  gHookFired = 0;
  dsched::clearNames();
  dsched::run(o, [&] {
    std::vector<dispenso::CompletionEvent> gate(n);
    std::atomic<int> started{0}, dummy{0};
    std::vector<Gated> g(n);
    std::vector<FutI> ins;
    ins.reserve(n);
    for (int i = 0; i < n; ++i)
      ins.emplace_back([&, i]() { started.fetch_add(1, std::memory_order_relaxed); gate[i].wait(); dsched::ghostAdd(G_INPUT_DONE + i, 1); return 100 + i; },
                       g[i]);
    std::vector<std::thread> H;
    for (int i = 0; i < n; ++i) H.emplace_back([&, i] { g[i].saved(); });
    while (started.load(std::memory_order_relaxed) < n) std::this_thread::yield();
    for (int i = 0; i < n; ++i) {
      std::string nm = "in" + std::to_string(i);
      dsched::nameRegion(&implOf(ins[i])->status_, sizeof(int), nm.c_str());
    }
    for (int j = 0; j < pre; ++j) {
      gate[order[j]].notify();
      while (peekStatus(implOf(ins[order[j]])) != 2) std::this_thread::yield();
    }
    gHookArmed = true;
    std::optional<dispenso::Future<std::vector<FutI>>> resAll;
    std::optional<dispenso::Future<size_t>> resAny;
    if (any) resAny.emplace(dispenso::when_any(ins.begin(), ins.end()));
    else resAll.emplace(dispenso::when_all(ins.begin(), ins.end()));
    gHookArmed = false;
    std::vector<std::thread> G;
    for (int k = 0; k < getters; ++k)
      G.emplace_back([&, k] {
        for (int i = 0; i < spin[k % n]; ++i) dummy.fetch_add(1, std::memory_order_relaxed);
        if (any) {
          dispenso::Future<size_t> mine(*resAny);
          DS_CALL("get");
          size_t w = mine.get();
          if (w >= (size_t)n || peekStatus(implOf(ins[w])) != 2) dsched::ghostAdd(G_BAD, 1);
          DS_RET("get %d", (int)w);
        } else {
          dispenso::Future<std::vector<FutI>> mine(*resAll);
          if (gKind[k] == 0) {
            DS_CALL("wait");
            mine.wait();
            for (int i = 0; i < n; ++i) if (peekStatus(implOf(ins[i])) != 2) dsched::ghostAdd(G_BAD, 1);
            DS_RET("wait 0");
          } else {
            DS_CALL("is_ready");
            bool r = mine.is_ready();
            if (r) for (int i = 0; i < n; ++i) if (peekStatus(implOf(ins[i])) != 2) dsched::ghostAdd(G_BAD, 1);
            DS_RET("is_ready %d", r ? 1 : 0);
          }
        }
      });
    for (int j = pre; j < n; ++j) {
      for (int i = 0; i < spin[j]; ++i) dummy.fetch_add(1, std::memory_order_relaxed);
      gate[order[j]].notify();
    }
    for (auto& t : H) t.join();
    for (auto& t : G) t.join();
    if (any) {
      if (!resAny->is_ready()) fail += " result-not-ready-after-all-inputs";
    } else {
      if (!resAll->is_ready()) fail += " result-not-ready-after-all-inputs";
      else {
        const auto& v = resAll->get();
        for (int i = 0; i < n; ++i) if (implOf(v[i]) != implOf(ins[i])) fail += " order@" + std::to_string(i);
      }
    }
  });
  if (gget(G_BAD)) fail += " result-ready-before-inputs";
  if (!fail.empty()) std::printf("PFAIL when_all / when_any result does not respect readiness or order | %s:%s\n", desc.c_str(), fail.c_str());
  std::printf("NT %s-traced n%d p%d g%d\n", any ? "when_any" : "when_all", n, pre, getters);
  if (gHookFired) {
    ++statWhenTraced;
    // cut the trace at the last note / the last event of a library thread: the final is_ready()/get() of the
    // harness (outside any call) are not part of the protocol
    std::string p = std::string(any ? "whenany " : "whenall ") + std::to_string(n);
    std::printf("TRACE-BEGIN %s\n", p.c_str());
    size_t idx = 0, stop = dsched::trace().size();
    // events of thread 0 after the joins: find the last event that is not from thread 0
    for (size_t i2 = dsched::trace().size(); i2 > 0; --i2)
      if (dsched::trace()[i2 - 1].tid != 0) { stop = i2; break; }
    for (const auto& e : dsched::trace()) {
      if (++idx > stop) break;
      if (e.kind == dsched::K_THREAD_START || e.kind == dsched::K_THREAD_END || e.kind == dsched::K_FENCE) continue;
      std::printf("T %s\n", dsched::fmt(e).c_str());
    }
    std::printf("TRACE-END %s\n", desc.c_str());
  } else {
    ++statWhenUntraced;
  }
}

int main(int argc, char** argv) {
  uint64_t seed = vh::argInt(argc, argv, 1, 1);
  long long N = vh::argInt(argc, argv, 2, 100);
  long long M = vh::argInt(argc, argv, 3, N);
  vh::SplitMix rng(seed);
  dsh::installStuckHandler();
  long long cases = 0;
  for (long long it = 0; it < N; ++it) { chainScenario(seed, it, rng); ++cases; }
  for (long long it = 0; it < M; ++it) { combScenario(seed, it, rng); ++cases; thenScenario(seed, it, rng); ++cases; }
  long long W = vh::argInt(argc, argv, 4, M);
  for (long long it = 0; it < W; ++it) { whenTraced(seed, it, rng); ++cases; }
  std::printf("STAT cases %lld\nSTAT chain_cas_ok %lld\nSTAT chain_cas_fail %lld\nSTAT when_traced %lld\nSTAT when_hooks_missing %lld\n",
              cases, statPushed, statCasFail, statWhenTraced, statWhenUntraced);
  std::fflush(stdout);
  _exit(0);
}
