// C27 / C28 / C29: real dispenso pipelines under the deterministic scheduler.
//
// Every scenario builds a pipeline (1..4 stages, stage limits 1..3 / unlimited / plain functions,
// filtering stages returning OpResult or std::optional, pool sizes 0..3, 0..12 items, optionally stages
// that throw) and runs it on a fresh ThreadPool inside dsched::run.  Multi-stage scenarios use a
// white-box replica of dispenso::pipeline()'s four statements (tools/props/pipe_common.py checks that
// pipeline.h still consists of exactly those statements) so that the schedulers' counters and the task
// set's words can be named; their atomic operations and the notes of the stage functions form the
// trace that the Lean model (Model/Pipeline.lean) must accept.  A fraction of the scenarios calls the
// real dispenso::pipeline() (oracle only).
//
// Oracle (independent of the model; evaluated on the notes of the run):
//   per (stage,item) invocation counts, the value each stage received, per-stage in-flight maxima,
//   no stage activity after pipeline() returned, first exception rethrown, item ledger
//   (constructed == destroyed) after the pool is gone, pool usable afterwards.
//
// usage: c27_pipeline <seed> <scenarios> <mode> [first [verbose [forced-scenario]]]   mode: 0 no exceptions, 1 with exceptions, 2 mixed
#include <atomic>
#include <map>
#include <optional>
#include <set>
#include <stdexcept>
#include <thread>
#include <vector>
#define private public
#define protected public
#include <dispenso/pipeline.h>
#undef private
#undef protected
#include "dsched/dsh.h"

namespace {

constexpr int kMaxStages = 4;
constexpr long kNoLimit = -1;

struct StageError {
  int stage;
  int tag;
};

struct Scn {
  int nStages = 2;             // including the generator
  long limit[kMaxStages] = {1, 1, 1, 1};   // kNoLimit = unlimited
  bool wrapped[kMaxStages] = {true, true, true, true};  // dispenso::stage(f, limit) or a plain functor (serial)
  int kind[kMaxStages] = {0, 0, 0, 0};     // middle stages: 0 transform, 1 OpResult filter, 2 optional filter
  int pool = 2;
  int items = 4;
  int salt = 0;
  int throwStage[2] = {-1, -1};
  int throwTag[2] = {-1, -1};
  bool real = false;           // call dispenso::pipeline() itself
  int loadMul = 32;            // ThreadPool's poolLoadMultiplier (1: callers run tasks inline as soon as work is queued)
  std::string str() const {
    std::string r = "st=" + std::to_string(nStages) + " lim=";
    for (int i = 0; i < nStages; ++i)
      r += (limit[i] == kNoLimit ? std::string("U") : std::to_string(limit[i])) + (wrapped[i] ? "" : "p") + (i + 1 < nStages ? "," : "");
    r += " kind=";
    for (int i = 1; i + 1 < nStages; ++i) r += std::to_string(kind[i]);
    r += " pool=" + std::to_string(pool) + " items=" + std::to_string(items) + " salt=" + std::to_string(salt);
    for (int k = 0; k < 2; ++k)
      if (throwStage[k] >= 0) r += " throw=" + std::to_string(throwStage[k]) + "@" + std::to_string(throwTag[k]);
    if (real) r += " real";
    if (loadMul != 32) r += " mul=" + std::to_string(loadMul);
    return r;
  }
};

Scn* g_scn = nullptr;
std::atomic<int> g_next{0};
std::atomic<int> g_spin{0};

// lifetime ledger: ghost slot 0 = live Item objects (all states), slot 1 = constructed
struct Item {
  int tag;
  long val;
  int st;  // 1 holds a value, 0 moved-from, 2 consumed by a stage
  Item(int t, long v) : tag(t), val(v), st(1) { born(); }
  Item(Item&& o) noexcept : tag(o.tag), val(o.val), st(o.st) {
    o.st = 0;
    born();
  }
  Item(const Item& o) : tag(o.tag), val(o.val), st(o.st) {
    born();
    if (st == 1) dsched::note("copy %d", tag);
  }
  Item& operator=(Item&& o) noexcept {
    if (st == 1) dsched::note("drop %d", tag);
    tag = o.tag; val = o.val; st = o.st; o.st = 0;
    return *this;
  }
  Item& operator=(const Item& o) {
    if (st == 1) dsched::note("drop %d", tag);
    tag = o.tag; val = o.val; st = o.st;
    if (st == 1) dsched::note("copy %d", tag);
    return *this;
  }
  ~Item() {
    if (st == 1) dsched::note("drop %d", tag);
    st = 3;
    dsched::ghostAdd(0, -1);
  }
  static void born() { dsched::ghostAdd(0, 1); dsched::ghostAdd(1, 1); }
};

long stageFn(int s, long v) { return v * 7 + s; }
long genVal(int tag) { return 1000 + tag; }
bool filtered(const Scn& c, int s, int tag) { return c.kind[s] != 0 && ((tag * 5 + s * 3 + c.salt) % 3 == 0); }
bool throwsAt(const Scn& c, int s, int tag) {
  for (int k = 0; k < 2; ++k)
    if (c.throwStage[k] == s && c.throwTag[k] == tag) return true;
  return false;
}
// value stage s must receive for `tag`
long expectIn(const Scn& c, int s, int tag) {
  long v = genVal(tag);
  for (int j = 1; j < s; ++j) v = stageFn(j, v);
  (void)c;
  return v;
}

void spin(int tag, int s) {
  int k = 1 + ((tag + s) & 1);
  for (int i = 0; i < k; ++i) g_spin.fetch_add(1, std::memory_order_relaxed);
}

// body common to all non-generator stages; returns 1 pass, 0 filtered; throws StageError
int runStage(int s, Item& in) {
  const Scn& c = *g_scn;
  int tag = in.tag;
  dsched::note("b %d %d %d", s, tag, (in.st == 1 && in.val == expectIn(c, s, tag)) ? 1 : 0);
  in.st = 2;
  spin(tag, s);
  if (throwsAt(c, s, tag)) {
    dsched::note("e %d %d 2", s, tag);
    throw StageError{s, tag};
  }
  bool f = filtered(c, s, tag);
  dsched::note("e %d %d %d", s, tag, f ? 0 : 1);
  return f ? 0 : 1;
}

struct Gen {
  dispenso::OpResult<Item> operator()() const {
    const Scn& c = *g_scn;
    dsched::note("gb");
    int tag = g_next.fetch_add(1, std::memory_order_relaxed);
    spin(tag, 0);
    if (tag >= c.items) {
      dsched::note("ge -1");
      return {};
    }
    if (throwsAt(c, 0, tag)) {
      dsched::note("ge -2 %d", tag);
      throw StageError{0, tag};
    }
    dsched::note("ge %d", tag);
    return Item(tag, genVal(tag));
  }
};
struct XT {
  int s;
  Item operator()(Item in) const {
    runStage(s, in);
    return Item(in.tag, stageFn(s, in.val));
  }
};
struct XF {
  int s;
  dispenso::OpResult<Item> operator()(Item in) const {
    if (!runStage(s, in)) return {};
    return Item(in.tag, stageFn(s, in.val));
  }
};
struct XO {
  int s;
  std::optional<Item> operator()(Item in) const {
    if (!runStage(s, in)) return std::nullopt;
    return Item(in.tag, stageFn(s, in.val));
  }
};
struct Sink {
  int s;
  void operator()(Item in) const { runStage(s, in); }
};
struct Single {
  bool operator()() const {
    const Scn& c = *g_scn;
    int tag = g_next.fetch_add(1, std::memory_order_relaxed);
    if (tag >= c.items) return false;
    dsched::note("b 0 %d 1", tag);
    spin(tag, 0);
    if (throwsAt(c, 0, tag)) {
      dsched::note("e 0 %d 2", tag);
      throw StageError{0, tag};
    }
    dsched::note("e 0 %d 1", tag);
    return true;
  }
};

ssize_t lim(long l) { return l == kNoLimit ? dispenso::kStageNoLimit : (ssize_t)l; }

// ---- naming of the schedulers' words (white-box)
template <typename P>
auto nameFrom(P& p, int s, int) -> decltype((void)p.pipeNext_, void()) {
  char nm[16];
  std::snprintf(nm, sizeof nm, "res%d", s);
  dsched::nameRegion(&p.tasks_.impl_->resources_, sizeof(p.tasks_.impl_->resources_), nm);
  std::snprintf(nm, sizeof nm, "out%d", s);
  dsched::nameRegion(&p.tasks_.impl_->outstanding_, sizeof(p.tasks_.impl_->outstanding_), nm);
  nameFrom(p.pipeNext_, s + 1, 0);
}
template <typename P>
void nameFrom(P& p, int s, long) {  // the sink pipe
  char nm[16];
  std::snprintf(nm, sizeof nm, "res%d", s);
  dsched::nameRegion(&p.tasks_.impl_->resources_, sizeof(p.tasks_.impl_->resources_), nm);
  std::snprintf(nm, sizeof nm, "out%d", s);
  dsched::nameRegion(&p.tasks_.impl_->outstanding_, sizeof(p.tasks_.impl_->outstanding_), nm);
}

// the four statements of dispenso::pipeline(ThreadPool&, Stages&&...) with the words named in between
template <typename... Stages>
void replicaPipeline(dispenso::ThreadPool& pool, Stages&&... sIn) {
  struct Unname {  // declared first: runs after ~pipes and ~tasks
    ~Unname() { dsched::note("gone"); }  // names stay until the trace has been printed
  } un;
  (void)un;
  dispenso::ConcurrentTaskSet tasks(pool);
  auto pipes = dispenso::detail::makePipes(tasks, std::forward<Stages>(sIn)...);
  dsched::nameRegion(&tasks.outstandingTaskCount_, sizeof(tasks.outstandingTaskCount_), "otc");
  dsched::nameRegion(&tasks.guardException_, sizeof(tasks.guardException_), "guard");
  dsched::nameRegion(&tasks.canceled_, sizeof(tasks.canceled_), "canc");
  nameFrom(pipes.pipeNext_, 1, 0);
  // "fin": execute()/wait() are over (normally or by an exception); from here on `pipes` and `tasks`
  // are destroyed, so nothing of this pipeline may still be running
  struct Fin {
    ~Fin() { dsched::note("fin"); }
  } fin;
  (void)fin;
  pipes.execute();
  pipes.wait();
}

template <typename... Stages>
void callPipeline(dispenso::ThreadPool& pool, bool real, Stages&&... s) {
  if (real)
    dispenso::pipeline(pool, std::forward<Stages>(s)...);
  else
    replicaPipeline(pool, std::forward<Stages>(s)...);
}

template <typename G, typename... Rest>
void withGen(dispenso::ThreadPool& pool, const Scn& c, Rest&&... rest) {
  (void)sizeof(G);
  if (c.wrapped[0])
    callPipeline(pool, c.real, dispenso::stage(Gen{}, lim(c.limit[0])), std::forward<Rest>(rest)...);
  else
    callPipeline(pool, c.real, Gen{}, std::forward<Rest>(rest)...);
}

template <typename F>
void withSink(const Scn& c, int s, F&& f) {
  if (c.wrapped[s])
    f(dispenso::stage(Sink{s}, lim(c.limit[s])));
  else
    f(Sink{s});
}
template <typename F>
void withMid(const Scn& c, int s, F&& f) {
  if (!c.wrapped[s]) {
    if (c.kind[s] == 0) f(XT{s}); else f(XF{s});
    return;
  }
  switch (c.kind[s]) {
    case 0: f(dispenso::stage(XT{s}, lim(c.limit[s]))); break;
    case 1: f(dispenso::stage(XF{s}, lim(c.limit[s]))); break;
    default: f(dispenso::stage(XO{s}, lim(c.limit[s]))); break;
  }
}

void runScenarioPipeline(dispenso::ThreadPool& pool, const Scn& c) {
  switch (c.nStages) {
    case 1:
      if (c.wrapped[0]) dispenso::pipeline(pool, dispenso::stage(Single{}, lim(c.limit[0])));
      else dispenso::pipeline(pool, Single{});
      break;
    case 2:
      withSink(c, 1, [&](auto&& sk) { withGen<int>(pool, c, std::move(sk)); });
      break;
    case 3:
      withMid(c, 1, [&](auto&& m1) {
        withSink(c, 2, [&](auto&& sk) { withGen<int>(pool, c, std::move(m1), std::move(sk)); });
      });
      break;
    default:
      withMid(c, 1, [&](auto&& m1) {
        withMid(c, 2, [&](auto&& m2) {
          // four-stage pipelines: generator and sink always stage()-wrapped (limits instantiations)
          callPipeline(pool, c.real, dispenso::stage(Gen{}, lim(c.limit[0])), std::move(m1), std::move(m2),
                       dispenso::stage(Sink{3}, lim(c.limit[3])));
        });
      });
      break;
  }
}

Scn makeScenario(vh::SplitMix& rng, int mode, long long it) {
  Scn c;
  int r = (int)rng.below(100);
  c.nStages = r < 6 ? 1 : r < 36 ? 2 : r < 76 ? 3 : 4;
  for (int s = 0; s < c.nStages; ++s) {
    int q = (int)rng.below(10);
    c.wrapped[s] = q != 0;
    if (!c.wrapped[s]) c.limit[s] = 1;
    else c.limit[s] = q <= 3 ? 1 : q <= 5 ? 2 : q <= 7 ? 3 : kNoLimit;
    if (s > 0 && s + 1 < c.nStages) {
      int k = (int)rng.below(10);
      c.kind[s] = k < 4 ? 0 : k < 8 ? 1 : 2;
      if (!c.wrapped[s] && c.kind[s] == 2) c.kind[s] = 1;
    }
  }
  if (c.nStages == 4) c.wrapped[0] = c.wrapped[3] = true;
  c.pool = (int)rng.below(4);
  c.items = (int)rng.below(13);
  if (rng.below(8) == 0) c.items = (int)rng.below(3);
  c.salt = (int)rng.below(3);
  bool exc = mode == 1 || (mode == 2 && (it % 2 == 1));
  if (exc && c.items > 0) {
    int n = rng.below(4) == 0 ? 2 : 1;
    for (int k = 0; k < n; ++k) {
      c.throwStage[k] = (int)rng.below(c.nStages);
      int w = (int)rng.below(3);  // first / middle / last
      c.throwTag[k] = w == 0 ? 0 : w == 1 ? c.items / 2 : c.items - 1;
      if (rng.below(3) == 0) c.throwTag[k] = (int)rng.below(c.items);
    }
  }
  c.real = c.nStages > 1 && rng.below(6) == 0;
  if (rng.below(4) == 0) c.loadMul = 1;
  return c;
}

struct Note {
  int tid;
  std::vector<std::string> tok;
};

std::vector<std::string> splitWs(const std::string& s) {
  std::vector<std::string> r;
  size_t i = 0;
  while (i < s.size()) {
    while (i < s.size() && s[i] == ' ') ++i;
    size_t j = i;
    while (j < s.size() && s[j] != ' ') ++j;
    if (j > i) r.push_back(s.substr(i, j - i));
    i = j;
  }
  return r;
}

}  // namespace

int main(int argc, char** argv) {
  uint64_t seed = vh::argInt(argc, argv, 1, 1);
  long long N = vh::argInt(argc, argv, 2, 50);
  int mode = (int)vh::argInt(argc, argv, 3, 0);
  long long first = vh::argInt(argc, argv, 4, 0);
  bool verbose = vh::argInt(argc, argv, 5, 0) != 0;
  dsh::installStuckHandler();
  long long cases = 0, traced = 0, threwRuns = 0, evTotal = 0;
  for (long long it = first; it < first + N; ++it) {
    vh::SplitMix rng(seed * 1000003ull + (uint64_t)it * 7919ull + 17);
    Scn c = makeScenario(rng, mode, it);
    if (argc > 6) {  // forced scenario: nStages,pool,items,l0,l1,l2,l3,k1,k2,throwStage,throwTag,real,loadMul (limits: 0 = unlimited, <0 = plain)
      long v[13] = {2, 2, 4, 1, 1, 1, 1, 0, 0, -1, -1, 0, 32};
      const char* q = argv[6];
      for (int k = 0; k < 13 && *q; ++k) {
        v[k] = std::strtol(q, const_cast<char**>(&q), 10);
        if (*q == ',') ++q;
      }
      c = Scn();
      c.nStages = (int)v[0]; c.pool = (int)v[1]; c.items = (int)v[2];
      for (int k = 0; k < 4; ++k) {
        c.wrapped[k] = v[3 + k] >= 0;
        c.limit[k] = v[3 + k] == 0 ? kNoLimit : v[3 + k] < 0 ? 1 : v[3 + k];
      }
      c.kind[1] = (int)v[7]; c.kind[2] = (int)v[8];
      c.throwStage[0] = (int)v[9]; c.throwTag[0] = (int)v[10];
      c.real = v[11] != 0;
      c.loadMul = (int)v[12];
    }
    g_scn = &c;
    g_next.store(0);
    dsched::Options o;
    o.seed = seed * 7919 + it;
    o.strategy = (it % 4 == 3) ? dsched::PCT : dsched::RANDOM;
    o.stickiness = 10 + (int)rng.below(85);
    o.pctDepth = 2 + (int)rng.below(4);
    std::string desc = c.str() + " it=" + std::to_string(it) + " seed=" + std::to_string(seed);
    auto& sc = dsh::stuckCtx();
    sc.signature = "pipeline() never returns";
    sc.detail = desc;
    dsched::clearNames();
    long live0 = dsched::ghostGet(0);
    long cons0 = dsched::ghostGet(1);
    int outcome = 0;  // 0 returned, 1 threw StageError, 2 other exception
    StageError got{-1, -1};
    int sunk2 = 0;
    dsched::RunInfo info = dsched::run(o, [&] {
      dispenso::ThreadPool pool(c.pool, (size_t)c.loadMul);
      try {
        runScenarioPipeline(pool, c);
      } catch (const StageError& e) {
        outcome = 1;
        got = e;
      } catch (...) {
        outcome = 2;
      }
      dsched::note("ret %d %d %d", outcome, got.stage, got.tag);
      // the pool must still be usable: a second, plain pipeline on the same pool
      int n2 = 0;
      std::atomic<int> sunk{0};
      try {
        dispenso::pipeline(
            pool,
            [&]() -> dispenso::OpResult<int> { if (n2 < 5) return n2++; return {}; },
            [&](int) { sunk.fetch_add(1, std::memory_order_relaxed); });
      } catch (...) {
        sunk.store(-100);
      }
      sunk2 = sunk.load();
    });
    (void)info;
    ++cases;
    if (outcome != 0) ++threwRuns;
    // ------------------------------------------------------------------ oracle (from the notes)
    const auto& tr = dsched::trace();
    evTotal += (long long)tr.size();
    std::map<std::pair<int, int>, int> begun, ended;   // (stage, tag)
    std::map<std::pair<int, int>, int> result;         // (stage, tag) -> 1 pass 0 filtered 2 threw
    std::vector<int> infl(kMaxStages, 0), inflMax(kMaxStages, 0);
    int genInfl = 0, genInflMax = 0;
    std::set<int> generated;
    std::vector<std::string> fails;
    bool returned = false, afterReturn = false, badValue = false, copied = false;
    int drops = 0;
    int firstThrowStage = -1, firstThrowTag = -1;
    bool genAfterObserved = false;
    for (const auto& e : tr) {
      if (e.kind != dsched::K_NOTE) continue;
      auto tk = splitWs(e.note);
      if (tk.empty()) continue;
      if (tk[0] == "ret" || tk[0] == "fin") { returned = true; continue; }
      if (returned) {
        if (tk[0] == "b" || tk[0] == "e" || tk[0] == "gb" || tk[0] == "ge") afterReturn = true;
        continue;
      }
      if (tk[0] == "gb") { if (++genInfl > genInflMax) genInflMax = genInfl; }
      else if (tk[0] == "ge") {
        --genInfl;
        int t = std::atoi(tk[1].c_str());
        if (t >= 0) { if (!generated.insert(t).second) fails.push_back("generator produced tag twice"); }
        if (t == -2 && firstThrowStage < 0) { firstThrowStage = 0; firstThrowTag = std::atoi(tk[2].c_str()); }
      } else if (tk[0] == "b") {
        int s = std::atoi(tk[1].c_str()), t = std::atoi(tk[2].c_str());
        ++begun[{s, t}];
        if (tk[3] != "1") badValue = true;
        if (++infl[s] > inflMax[s]) inflMax[s] = infl[s];
        if (c.nStages == 1) generated.insert(t);
      } else if (tk[0] == "e") {
        int s = std::atoi(tk[1].c_str()), t = std::atoi(tk[2].c_str()), r = std::atoi(tk[3].c_str());
        ++ended[{s, t}];
        result[{s, t}] = r;
        --infl[s];
        if (r == 2 && firstThrowStage < 0) { firstThrowStage = s; firstThrowTag = t; }
      } else if (tk[0] == "drop") ++drops;
      else if (tk[0] == "copy") copied = true;
    }
    (void)genAfterObserved;
    bool anyThrow = firstThrowStage >= 0;
    // C27: exactly-once delivery (checked only when nothing threw)
    int delivered = 0;
    if (!anyThrow && c.nStages > 1) {
      if ((int)generated.size() != c.items) fails.push_back("generator ran " + std::to_string(generated.size()) + " of " + std::to_string(c.items) + " items");
      for (int t : generated) {
        bool alive = true;
        for (int s = 1; s < c.nStages; ++s) {
          int b = begun.count({s, t}) ? begun[{s, t}] : 0;
          if (alive && b != 1) { fails.push_back("item " + std::to_string(t) + " passed stage " + std::to_string(s) + " " + std::to_string(b) + " times"); break; }
          if (!alive && b != 0) { fails.push_back("item " + std::to_string(t) + " reached stage " + std::to_string(s) + " after being filtered"); break; }
          if (alive && result[{s, t}] == 0) alive = false;
        }
        if (alive) ++delivered;
      }
    }
    if (!anyThrow && c.nStages == 1 && c.pool > 0 && (int)generated.size() != c.items)
      fails.push_back("single stage ran " + std::to_string(generated.size()) + " of " + std::to_string(c.items));
    std::string sigDeliver = "pipeline item not delivered exactly once through every stage";
    for (auto& f : fails) std::printf("PFAIL %s | %s: %s\n", sigDeliver.c_str(), desc.c_str(), f.c_str());
    // never twice, also with exceptions
    for (auto& kv : begun)
      if (kv.second > 1)
        std::printf("PFAIL pipeline stage processed an item twice | %s: stage %d item %d x%d\n", desc.c_str(), kv.first.first, kv.first.second, kv.second);
    if (badValue) std::printf("PFAIL pipeline stage received a value that is not its predecessor's output | %s\n", desc.c_str());
    if (copied) std::printf("PFAIL pipeline copied an item holding a value | %s\n", desc.c_str());
    if (afterReturn) std::printf("PFAIL pipeline stage ran after pipeline() returned | %s\n", desc.c_str());
    // C28
    for (int s = 1; s < c.nStages; ++s) {
      long L = c.limit[s];
      if (L != kNoLimit && inflMax[s] > L)
        std::printf("PFAIL pipeline stage exceeded its concurrency limit | %s: stage %d max %d limit %ld\n", desc.c_str(), s, inflMax[s], L);
    }
    {
      long L = c.limit[0];
      int m = c.nStages == 1 ? inflMax[0] : genInflMax;
      if (L != kNoLimit && m > L)
        std::printf("PFAIL pipeline generator exceeded its concurrency limit | %s: max %d limit %ld\n", desc.c_str(), m, L);
    }
    // C29
    if (anyThrow) {
      if (outcome != 1) std::printf("PFAIL pipeline swallowed a stage exception | %s: outcome %d\n", desc.c_str(), outcome);
      else if (c.nStages > 1 && (got.stage != firstThrowStage || got.tag != firstThrowTag) && c.throwStage[1] < 0)
        std::printf("PFAIL pipeline rethrew an exception that is not the one thrown | %s\n", desc.c_str());
    } else if (outcome != 0) {
      std::printf("PFAIL pipeline threw although no stage threw | %s\n", desc.c_str());
    }
    long liveNow = dsched::ghostGet(0) - live0;
    if (liveNow != 0)
      std::printf("PFAIL pipeline item objects not released (constructed != destroyed) | %s: live=%ld constructed=%ld drops=%d\n",
                  desc.c_str(), liveNow, dsched::ghostGet(1) - cons0, drops);
    if (sunk2 != 5) std::printf("PFAIL pool not usable after pipeline | %s: second pipeline delivered %d of 5\n", desc.c_str(), sunk2);
    std::printf("NT st%d p%d n%d u%d x%d%d d%d t%d\n", c.nStages, c.pool, c.items,
                (int)(c.limit[0] == kNoLimit) + 2 * (int)(c.nStages > 1 && c.limit[1] == kNoLimit), c.throwStage[0], c.throwStage[1],
                delivered, outcome);
    if (verbose) std::printf("SCN %s outcome=%d delivered=%d drops=%d steps=%ld\n", desc.c_str(), outcome, delivered, drops, info.steps);
    // ------------------------------------------------------------------ trace for the model
    if (c.nStages > 1 && !c.real) {
      ++traced;
      std::string params = "pipe " + std::to_string(c.nStages - 1) + " " + std::to_string(c.pool) + " " +
          std::to_string(c.limit[0] == kNoLimit ? 0 : c.limit[0]);
      for (int s = 1; s < c.nStages; ++s) params += " " + std::to_string(c.limit[s] == kNoLimit ? 0 : c.limit[s]);
      for (int s = 1; s < c.nStages; ++s) params += " " + std::to_string(s + 1 < c.nStages ? (c.kind[s] != 0 ? 1 : 0) : 0);
      std::printf("TRACE-BEGIN %s\n", params.c_str());
      for (const auto& e : tr) {
        if (e.kind != dsched::K_NOTE && e.kind > dsched::K_CAS_FAIL) continue;  // only notes and atomic operations on named words
        std::printf("T %s\n", dsched::fmt(e).c_str());
        if (e.kind == dsched::K_NOTE && e.note == "gone") break;
      }
      std::printf("T 0 end\n");
      std::printf("TRACE-END %s\n", desc.c_str());
    }
  }
  std::printf("STAT cases %lld\n", cases);
  std::printf("STAT traced %lld\n", traced);
  std::printf("STAT threw %lld\n", threwRuns);
  std::printf("STAT events %lld\n", evTotal);
  std::fflush(stdout);
  _exit(0);
}
