// C18 / C20: dispenso::Future shared state under the deterministic scheduler.
// Every scenario creates one traced Future<Payload> (status_, refCount_, the Result object in
// resultBuf_, the functor's invocation counter and, for task-set futures, the set's outstanding
// count are named), hands one copy to each of 1..4 threads which call wait / get / wait_for /
// wait_until / is_ready / copy / destroy in random order while the pool, a new thread, a dedicated
// thread or (ImmediateInvoker) the constructor runs the scheduled closure.  The trace of atomic and
// futex events is replayed through the Lean model (future plug-in); the harness itself checks:
// the functor ran exactly once, every get() returned the one Result object (address and tag) or
// rethrew, no wait returned before the future was ready, a timed wait ran the functor only with the
// deferred policy, reported a timeout only after the requested (virtual) time, the Result and the
// functor were destroyed exactly once.
// usage: c18_future <seed> <scenarios>
#include <atomic>
#include <chrono>
#include <condition_variable>
#include <cstring>
#include <deque>
#include <functional>
#include <future>
#include <memory>
#include <mutex>
#include <optional>
#include <stdexcept>
#include <thread>
#include <tuple>
#include <vector>
#define private public
#define protected public
#include <dispenso/future.h>
#include <dispenso/thread_pool.h>
#include <dispenso/task_set.h>
#undef private
#undef protected
#include "dsched/dsh.h"

// ghost slots (kept inside the dsched runtime)
enum { G_RUNS = 2, G_PAY_LIVE = 3, G_PAY_BORN = 4, G_FN_DEAD = 5, G_BADTIMED = 6, G_EARLY = 7, G_BADGET = 8,
       G_INTIMED_RUN = 9, G_EARLYTO = 10 };
static long gget(int s) { return dsched::ghostGet(s); }
static void gset0(int s) { dsched::ghostAdd(s, -dsched::ghostGet(s)); }

struct Payload {
  std::atomic<int> v;
  explicit Payload(int x) { v.store(x, std::memory_order_relaxed); dsched::ghostAdd(G_PAY_LIVE, 1); dsched::ghostAdd(G_PAY_BORN, 1); }
  Payload(const Payload&) = delete;
  ~Payload() { v.store(-3, std::memory_order_relaxed); dsched::ghostAdd(G_PAY_LIVE, -1); }
};

struct FnTracker {   // counts destructions of the functor object that was moved into the impl
  bool armed = true;
  FnTracker() = default;
  FnTracker(FnTracker&& o) noexcept : armed(o.armed) { o.armed = false; }
  FnTracker(const FnTracker& o) : armed(o.armed) {}
  ~FnTracker() { if (armed) dsched::ghostAdd(G_FN_DEAD, 1); }
};

struct Gated {  // a Schedulable that keeps the closure until the harness releases it
  dispenso::OnceFunction saved;
  bool has = false;
  void schedule(dispenso::OnceFunction f) { saved = std::move(f); has = true; }
  void schedule(dispenso::OnceFunction f, dispenso::ForceQueuingTag) { saved = std::move(f); has = true; }
};

struct VClock {  // the virtual clock, for wait_until; every read is marked in the trace
  using duration = std::chrono::nanoseconds;
  using rep = duration::rep;
  using period = duration::period;
  using time_point = std::chrono::time_point<VClock>;
  static constexpr bool is_steady = true;
  static time_point now() {
    uint64_t n = dsched::nowNs();
    dsched::note("clock %llu", (unsigned long long)n);
    return time_point(duration((long long)n));
  }
};

static long long gStat[8];
// like dsh::emitTrace, without the address-less fence events (thread pool internals; the Future code has none)
static void emitTraceNoFence(const char* protoAndParams, const std::string& desc) {
  std::printf("TRACE-BEGIN %s\n", protoAndParams);
  for (const auto& e : dsched::trace()) {
    if (e.kind == dsched::K_THREAD_START || e.kind == dsched::K_THREAD_END || e.kind == dsched::K_FENCE) continue;
    std::string l = dsched::fmt(e);
    std::printf("T %s\n", l.c_str());
    if (l.find("cas_ok status") != std::string::npos) ++gStat[0];
    if (l.find("cas_fail status") != std::string::npos) ++gStat[1];
    if (e.kind == dsched::K_FUTEX_WAIT) ++gStat[2];
    if (e.kind == dsched::K_FUTEX_WAIT_RET && e.result == 110) ++gStat[3];
    if (e.kind == dsched::K_FUTEX_WAIT_RET && e.result == 4) ++gStat[4];
    if (l.find("store result 0 -3") != std::string::npos) ++gStat[5];
  }
  std::printf("TRACE-END %s\n", desc.c_str());
}

using Fut = dispenso::Future<Payload>;
using Impl = dispenso::detail::FutureImplBase<Payload>;
static Impl* implOf(const Fut& f) { void* p; std::memcpy(&p, &f, sizeof p); return static_cast<Impl*>(p); }
// read the status word without an atomic operation (no scheduling point, no trace event)
static int peekStatus(Impl* i) { int v; std::memcpy(&v, static_cast<void*>(&i->status_), sizeof v); return v; }

enum Kind { K_MANUAL = 0, K_POOL, K_NEWTHREAD, K_IMMEDIATE, K_TASKSET, K_CTASKSET, K_TS_DIRECT, K_NKINDS };
static const char* kindName[] = {"manual", "pool", "newthread", "immediate", "taskset", "ctaskset", "ts-direct"};

struct Scenario {
  int kind, poolThreads, waiters, val;
  long fnSleepNs = 0, releaseDelayNs = 0;
  bool deferred, throws, asyncPol;
  std::vector<std::vector<int>> ops;   // per thread (index 0 = main): op codes
  std::vector<long> opArg;             // flattened args (ns)
  std::string str() const {
    std::string s = std::string("future kind=") + kindName[kind] + " pool=" + std::to_string(poolThreads) + " waiters=" +
        std::to_string(waiters) + " deferred=" + std::to_string(deferred) + " throws=" + std::to_string(throws) +
        " fnSleep=" + std::to_string(fnSleepNs) + " delay=" + std::to_string(releaseDelayNs) + " ops=";
    for (auto& v : ops) { for (int o : v) s += char('a' + o); s += "/"; }
    return s;
  }
};
enum Op { O_WAIT = 0, O_GET, O_WAITFOR, O_WAITUNTIL, O_READY, O_COPYDROP, O_NOPS };

struct Ctx {
  const Scenario* sc;
  Impl* impl = nullptr;
  std::atomic<int>* runsCtr = nullptr;
  bool traced = true;
};
static thread_local int tlInTimed = 0;   // this thread is inside wait_for / wait_until

static void doOp(Ctx& c, Fut& f, int op, long arg) {
  const bool tr = c.traced;
  switch (op) {
    case O_WAIT: {
      if (tr) DS_CALL("wait");
      f.wait();
      if (gget(G_RUNS) != 1 || peekStatus(c.impl) != 2) dsched::ghostAdd(G_EARLY, 1);
      if (tr) DS_RET("wait 0");
      break;
    }
    case O_GET: {
      if (tr) DS_CALL("get");
      int got;
      try {
        const Payload& r = f.get();
        got = r.v.load(std::memory_order_relaxed);
        if (static_cast<const void*>(&r) != static_cast<const void*>(c.impl->resultBuf_) || got != c.sc->val || c.sc->throws)
          dsched::ghostAdd(G_BADGET, 1);
      } catch (const std::runtime_error&) {
        got = -1;
        if (!c.sc->throws) dsched::ghostAdd(G_BADGET, 1);
      }
      if (gget(G_RUNS) != 1) dsched::ghostAdd(G_EARLY, 1);
      if (tr) DS_RET("get %d", got);
      break;
    }
    case O_WAITFOR: {
      if (tr) DS_CALL("wait_for %ld", arg);
      uint64_t t0 = dsched::nowNs();
      if (tr) dsched::note("clock %llu", (unsigned long long)t0);
      tlInTimed = 1;
      auto st = f.wait_for(std::chrono::nanoseconds(arg));
      tlInTimed = 0;
      uint64_t t1 = dsched::nowNs();
      bool ready = st == std::future_status::ready;
      if (ready && (gget(G_RUNS) != 1 || peekStatus(c.impl) != 2)) dsched::ghostAdd(G_EARLY, 1);
      if (!ready && arg > 0 && t1 - t0 < (uint64_t)arg) dsched::ghostAdd(G_EARLYTO, 1);
      if (tr) dsched::note("clock %llu", (unsigned long long)t1);
      if (tr) DS_RET("wait_for %d", ready ? 1 : 0);
      break;
    }
    case O_WAITUNTIL: {
      uint64_t t0 = dsched::nowNs();
      long long abs = (long long)t0 + arg;
      if (tr) DS_CALL("wait_until %lld", abs);
      tlInTimed = 1;
      auto st = f.wait_until(VClock::time_point(VClock::duration(abs)));
      tlInTimed = 0;
      uint64_t t1 = dsched::nowNs();
      bool ready = st == std::future_status::ready;
      if (ready && (gget(G_RUNS) != 1 || peekStatus(c.impl) != 2)) dsched::ghostAdd(G_EARLY, 1);
      if (!ready && (long long)t1 < abs) dsched::ghostAdd(G_EARLYTO, 1);
      if (tr) dsched::note("clock %llu", (unsigned long long)t1);
      if (tr) DS_RET("wait_until %d", ready ? 1 : 0);
      break;
    }
    case O_READY: {
      if (tr) DS_CALL("is_ready");
      bool r = f.is_ready();
      if (r && gget(G_RUNS) != 1) dsched::ghostAdd(G_EARLY, 1);
      if (tr) DS_RET("is_ready %d", r ? 1 : 0);
      break;
    }
    case O_COPYDROP: {
      if (tr) DS_CALL("copy");
      Fut c2(f);
      if (tr) DS_RET("copy 0");
      if (tr) DS_CALL("drop");
      c2 = Fut();
      if (tr) DS_RET("drop 0");
      break;
    }
  }
}

int main(int argc, char** argv) {
  uint64_t seed = vh::argInt(argc, argv, 1, 1);
  long long N = vh::argInt(argc, argv, 2, 100);
  long long only = vh::argInt(argc, argv, 3, -1);
  vh::SplitMix rng(seed);
  dsh::installStuckHandler();
  long long cases = 0, timeouts = 0;
  for (long long it = 0; it < N; ++it) {
    Scenario sc;
    sc.kind = (int)rng.below(K_NKINDS);
    sc.poolThreads = (int)rng.range(1, 3);
    sc.waiters = (int)rng.range(1, 4);
    sc.deferred = rng.below(3) != 0;
    sc.throws = rng.below(5) == 0;
    sc.asyncPol = rng.coin();
    sc.val = 100 + (int)rng.below(900);
    sc.fnSleepNs = rng.below(3) == 0 ? (long)rng.range(10000, 600000) : 0;
    sc.releaseDelayNs = rng.below(3) == 0 ? (long)rng.range(10000, 300000) : 0;
    sc.ops.resize(sc.waiters + 1);
    std::vector<std::vector<long>> args(sc.waiters + 1);
    for (int w = 0; w <= sc.waiters; ++w) {
      int n = (int)rng.range(w == 0 ? 0 : 1, 3);
      for (int k = 0; k < n; ++k) {
        int op = (int)rng.below(O_NOPS);
        long a = 0;
        if (op == O_WAITFOR) a = rng.below(5) == 0 ? (rng.coin() ? 0 : -5000) : (long)rng.range(1000, 400000);
        if (op == O_WAITUNTIL) a = rng.below(5) == 0 ? -3000 : (long)rng.range(1000, 400000);
        if (op == O_COPYDROP) a = 0;
        sc.ops[w].push_back(op);
        args[w].push_back(a);
      }
    }
    const int runnerDelay = (int)rng.below(6);
    dsched::Options o;
    o.seed = seed * 1000003 + it;
    o.strategy = (it % 3 == 2) ? dsched::PCT : dsched::RANDOM;
    o.stickiness = 20 + (int)rng.below(70);
    if (it % 5 >= 3) o.spuriousPerMille = 40;
    if (only >= 0 && it != only) continue;
    std::string desc = sc.str() + " seed=" + std::to_string(o.seed) + " it=" + std::to_string(it);
    auto& sctx = dsh::stuckCtx();
    sctx.signature = "a Future waiter (or the task set) never returns";
    sctx.detail = desc;
    for (int g = G_RUNS; g <= G_EARLYTO; ++g) gset0(g);
    const bool traced = sc.kind != K_TS_DIRECT;
    const bool hasTsc = sc.kind == K_TASKSET || sc.kind == K_CTASKSET || sc.kind == K_TS_DIRECT;
    std::vector<int> tids(sc.waiters + 2, -1);
    std::string params;
    bool tsReadyAfterWait = true;
    dsched::clearNames();
    dsched::RunInfo info = dsched::run(o, [&] {
      std::atomic<int> runsCtr{0};
      std::atomic<int> dummy{0};
      std::atomic<int> go{0}, registered{0};
      dispenso::ThreadPool pool(sc.poolThreads);
      std::optional<dispenso::TaskSet> ts;
      std::optional<dispenso::ConcurrentTaskSet> cts;
      if (sc.kind == K_TASKSET || sc.kind == K_TS_DIRECT) ts.emplace(pool);
      if (sc.kind == K_CTASKSET) cts.emplace(pool);
      Ctx ctx; ctx.sc = &sc; ctx.runsCtr = &runsCtr; ctx.traced = traced;
      std::vector<Fut> slots(sc.waiters + 1);
      Gated gated;
      std::vector<std::thread> ths;
      for (int w = 1; w <= sc.waiters; ++w)
        ths.emplace_back([&, w] {
          tids[w] = dsched::tid();
          registered.fetch_add(1, std::memory_order_relaxed);
          while (go.load(std::memory_order_relaxed) == 0) std::this_thread::yield();
          for (size_t k = 0; k < sc.ops[w].size(); ++k) doOp(ctx, slots[w], sc.ops[w][k], args[w][k]);
          if (traced) DS_CALL("drop");
          slots[w] = Fut();
          if (traced) DS_RET("drop 0");
        });
      std::thread runner;
      const bool manual = sc.kind == K_MANUAL || sc.kind == K_TASKSET || sc.kind == K_CTASKSET;
      if (manual)
        runner = std::thread([&] {
          tids[sc.waiters + 1] = dsched::tid();
          registered.fetch_add(1, std::memory_order_relaxed);
          while (go.load(std::memory_order_relaxed) == 0) std::this_thread::yield();
          for (int k = runnerDelay; k > 0; --k) dummy.fetch_add(1, std::memory_order_relaxed);
          if (sc.releaseDelayNs) std::this_thread::sleep_for(std::chrono::nanoseconds(sc.releaseDelayNs));
          DS_CALL("run");
          gated.saved();
          DS_RET("run 0");
        });
      while (registered.load(std::memory_order_relaxed) < sc.waiters + (manual ? 1 : 0)) std::this_thread::yield();
      // the functor: bump the invocation counter, do a little work, return / throw
      FnTracker trk;
      auto fn = [&runsCtr, &dummy, &sc, trk = std::move(trk)]() -> Payload {
        runsCtr.fetch_add(1, std::memory_order_relaxed);
        dsched::ghostAdd(G_RUNS, 1);
        if (tlInTimed) dsched::ghostAdd(G_INTIMED_RUN, 1);
        for (int k = 0; k < 3; ++k) dummy.fetch_add(1, std::memory_order_relaxed);
        if (sc.fnSleepNs) std::this_thread::sleep_for(std::chrono::nanoseconds(sc.fnSleepNs));
        if (sc.throws) throw std::runtime_error("functor failed");
        return Payload(sc.val);
      };
      std::launch ap = sc.asyncPol ? std::launch::async : dispenso::kNotAsync;
      std::launch dp = sc.deferred ? std::launch::deferred : dispenso::kNotDeferred;
      int pre = 0;
      if (sc.kind == K_IMMEDIATE) {
        slots[0] = Fut(std::move(fn), dispenso::kImmediateInvoker, ap, dp);
        pre = 1;
      } else if (sc.kind == K_TASKSET) {
        dispenso::detail::TaskSetInterceptionInvoker<dispenso::TaskSet> inv(*ts);
        slots[0] = Fut(std::move(fn), inv, ap, dp);
        gated.saved = std::move(inv.savedOffFn);
      } else if (sc.kind == K_CTASKSET) {
        dispenso::detail::TaskSetInterceptionInvoker<dispenso::ConcurrentTaskSet> inv(*cts);
        slots[0] = Fut(std::move(fn), inv, ap, dp);
        gated.saved = std::move(inv.savedOffFn);
      } else if (sc.kind == K_TS_DIRECT) {
        slots[0] = Fut(std::move(fn), *ts, ap, dp);
      } else {
        slots[0] = Fut(std::move(fn), gated, ap, dp);
      }
      for (int w = 1; w <= sc.waiters; ++w) slots[w] = slots[0];
      Impl* impl = implOf(slots[0]);
      ctx.impl = impl;
      if (traced) {
        dsched::nameRegion(&impl->status_, sizeof(int), "status");
        dsched::nameRegion(&impl->refCount_, sizeof(impl->refCount_), "ref");
        dsched::nameRegion(impl->resultBuf_, sizeof(int), "result");
        dsched::nameRegion(&runsCtr, sizeof(runsCtr), "runs");
        if (sc.kind == K_TASKSET) dsched::nameRegion(&ts->outstandingTaskCount_, sizeof(ssize_t), "tsc");
        if (sc.kind == K_CTASKSET) dsched::nameRegion(&cts->outstandingTaskCount_, sizeof(ssize_t), "tsc");
      }
      // trace parameters: cfg, clock, pre-run, handles per thread id
      int maxTid = 0;
      for (int t : tids) maxTid = std::max(maxTid, t);
      std::vector<int> hs(maxTid + 1, 0);
      hs[0] = 1;
      for (int w = 1; w <= sc.waiters; ++w) hs[tids[w]] = 1;
      params = "future " + std::to_string(sc.val) + " " + std::to_string(sc.throws) + " " +
          std::to_string((sc.kind == K_TASKSET || sc.kind == K_CTASKSET) ? 1 : 0) + " " + std::to_string(sc.deferred) + " " +
          std::to_string((unsigned long long)dsched::nowNs()) + " " + std::to_string(pre);
      for (int h : hs) params += " " + std::to_string(h);
      go.store(1, std::memory_order_relaxed);
      if (sc.releaseDelayNs && (sc.kind == K_POOL || sc.kind == K_NEWTHREAD))
        std::this_thread::sleep_for(std::chrono::nanoseconds(sc.releaseDelayNs));
      if (sc.kind == K_POOL) pool.schedule(std::move(gated.saved));
      if (sc.kind == K_NEWTHREAD) dispenso::NewThreadInvoker().schedule(std::move(gated.saved));
      for (size_t k = 0; k < sc.ops[0].size(); ++k) doOp(ctx, slots[0], sc.ops[0][k], args[0][k]);
      if (sc.kind == K_TS_DIRECT) {
        bool okw = ts->wait();
        (void)okw;
        if (peekStatus(impl) != 2 || gget(G_RUNS) != 1) tsReadyAfterWait = false;
      }
      if (sc.kind == K_TASKSET || sc.kind == K_CTASKSET) {
        DS_CALL("ts_wait");
        if (ts) ts->wait(); else cts->wait();
        if (peekStatus(impl) != 2 || gget(G_RUNS) != 1) tsReadyAfterWait = false;
        DS_RET("ts_wait 0");
      }
      if (traced) DS_CALL("drop");
      slots[0] = Fut();
      if (traced) DS_RET("drop 0");
      for (auto& t : ths) t.join();
      if (runner.joinable()) runner.join();
      if (sc.kind == K_NEWTHREAD) dispenso::detail::drainNewThreadInvokerThreads();
      if (sc.kind == K_TASKSET || sc.kind == K_CTASKSET) {
        DS_CALL("ts_wait");
        ts.reset(); cts.reset();
        DS_RET("ts_wait 0");
      }
    });
    ++cases;
    timeouts += info.timeoutsFired;
    auto fail = [&](const char* sig, const std::string& extra) { std::printf("PFAIL %s | %s %s\n", sig, desc.c_str(), extra.c_str()); };
    if (gget(G_RUNS) != 1) fail("Future functor did not run exactly once", "runs=" + std::to_string(gget(G_RUNS)));
    if (gget(G_EARLY)) fail("Future wait/get/is_ready reported ready before the functor had run", "");
    if (gget(G_BADGET)) fail("Future get() returned a different object / value or the wrong exception behaviour", "");
    if (gget(G_INTIMED_RUN) && !sc.deferred) fail("Future timed wait ran the functor although the future is not deferred", "");
    if (gget(G_EARLYTO)) fail("Future timed wait reported timeout before the requested time elapsed", "");
    if (!tsReadyAfterWait) fail("task set wait() returned but the result future is not ready", "");
    if (gget(G_PAY_LIVE) != 0 || gget(G_PAY_BORN) != (sc.throws ? 0 : 1))
      fail("Future result object not constructed/destroyed exactly once", "live=" + std::to_string(gget(G_PAY_LIVE)) + " born=" + std::to_string(gget(G_PAY_BORN)));
    if (gget(G_FN_DEAD) != 1) fail("Future functor object not destroyed exactly once", "dead=" + std::to_string(gget(G_FN_DEAD)));
    std::printf("NT %s w%d d%d t%d %s\n", kindName[sc.kind], sc.waiters, sc.deferred, sc.throws, sc.str().substr(sc.str().find("ops=")).c_str());
    if (traced) emitTraceNoFence(params.c_str(), desc);
  }
  std::printf("STAT cases %lld\nSTAT sched_timeouts %lld\n", cases, timeouts);
  std::printf("STAT status_cas_won %lld\nSTAT status_cas_lost %lld\nSTAT futex_waits %lld\nSTAT futex_timeouts %lld\n"
              "STAT futex_eintr %lld\nSTAT result_destroyed %lld\n", gStat[0], gStat[1], gStat[2], gStat[3], gStat[4], gStat[5]);
  std::fflush(stdout);
  _exit(0);
}
