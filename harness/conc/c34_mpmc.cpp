// C34: MpmcRingBuffer under the deterministic scheduler.
// usage: c34_mpmc <seed> <scenarios>
#include <map>
#include <thread>
#include <vector>
#include "dsched/dsh.h"
#define private public
#include <dispenso/mpmc_ring_buffer.h>
#undef private

using dsh::AtomPayload;
static long long cases = 0;

template <size_t Cap, bool Pow2>
static void scenario(uint64_t seed, vh::SplitMix& rng, long long it) {
  using Ring = dispenso::MpmcRingBuffer<AtomPayload, Cap, Pow2>;
  constexpr size_t K = Ring::kBufferSize;
  dsched::Options o;
  o.seed = seed * 15485863 + it;
  o.strategy = (it % 4 == 3) ? dsched::PCT : dsched::RANDOM;
  o.stickiness = 15 + (int)rng.below(75);
  int producers = (int)rng.range(1, 3), consumers = (int)rng.range(1, 3);
  int opsPer = (int)rng.range(1, 5);
  std::string desc = "mpmc cap=" + std::to_string(Cap) + " K=" + std::to_string(K) + " producers=" +
      std::to_string(producers) + " consumers=" + std::to_string(consumers) + " ops=" + std::to_string(opsPer) +
      " seed=" + std::to_string(o.seed);
  auto& c = dsh::stuckCtx();
  c.signature = "MpmcRingBuffer operation never returns";
  c.detail = desc;
  std::vector<int> pushedOk, poppedVals;
  int bad = 0;
  std::string badWhy;
  long liveBefore = AtomPayload::live();
  std::vector<std::vector<int>> plans(producers);
  for (auto& p : plans)
    for (int i = 0; i < opsPer; ++i) p.push_back(rng.below(3) == 0 ? (int)rng.range(2, (int)K + 1) : 0);
  dsched::clearNames();
  dsched::run(o, [&] {
    {
      Ring ring;
      dsched::nameRegion(&ring.head_, 8, "head");
      dsched::nameRegion(&ring.tail_, 8, "tail");
      static char names[64][2][16];
      for (size_t i = 0; i < K; ++i) {
        std::snprintf(names[i][0], 16, "seq%zu", i);
        std::snprintf(names[i][1], 16, "data%zu", i);
        dsched::nameRegion(&ring.slots_[i].seq, 8, names[i][0]);
        dsched::nameRegion(&ring.slots_[i].data, sizeof(int), names[i][1]);
      }
      std::vector<std::thread> ths;
      for (int p = 0; p < producers; ++p)
        ths.emplace_back([&, p] {
          int tag = 1000 * (p + 1);
          for (int k : plans[p]) {
            if (k == 0) {
              DS_CALL("try_push %d", tag);
              bool ok = ring.try_push(AtomPayload(tag));
              if (ok) pushedOk.push_back(tag);
              DS_RET("try_push %d", ok ? 1 : 0);
              ++tag;
            } else {
              std::vector<AtomPayload> items;
              std::string a;
              for (int j = 0; j < k; ++j) { items.emplace_back(tag + j); a += " " + std::to_string(tag + j); }
              dsched::note("call try_push_batch%s", a.c_str());
              size_t n = ring.try_push_batch(items.data(), items.size());
              for (size_t j = 0; j < n; ++j) pushedOk.push_back(tag + (int)j);
              DS_RET("try_push_batch %zu", n);
              tag += k;
            }
          }
        });
      for (int q = 0; q < consumers; ++q)
        ths.emplace_back([&, q] {
          for (int i = 0; i < opsPer + 1; ++i) {
            if (i % 3 == 2) {
              DS_CALL("size");
              size_t s = ring.size();
              DS_RET("size %zu", s);
              (void)s;  // size() reads head and tail separately: under concurrent pushes and pops it is only approximate
            }
            AtomPayload item;
            alignas(AtomPayload) char raw[sizeof(AtomPayload)];
            DS_CALL("try_pop");
            bool ok;
            int val = 0;
            if (q % 2 == 0) {
              ok = ring.try_pop(item);
              if (ok) val = item.get();
            } else {
              ok = ring.try_pop_into(reinterpret_cast<AtomPayload*>(raw));
              if (ok) {
                auto* pv = reinterpret_cast<AtomPayload*>(raw);
                val = pv->get();
                pv->~AtomPayload();
              }
            }
            if (ok) poppedVals.push_back(val);
            DS_RET("try_pop %d%s", ok ? 1 : 0, ok ? (" " + std::to_string(val)).c_str() : "");
          }
        });
      for (auto& t : ths) t.join();
      // quiescent: pop succeeds iff non-empty, push succeeds iff not full
      DS_CALL("size");
      size_t sz = ring.size();
      DS_RET("size %zu", sz);
      if (sz != pushedOk.size() - poppedVals.size()) { ++bad; badWhy = "size() differs from pushes - pops at quiescence"; }
      int filler = 9000;
      size_t room = Ring::capacity() - sz, filled = 0;
      for (;;) {
        DS_CALL("try_push %d", filler);
        bool ok = ring.try_push(AtomPayload(filler));
        DS_RET("try_push %d", ok ? 1 : 0);
        if (!ok) break;
        pushedOk.push_back(filler++);
        ++filled;
        if (filled > K + 2) break;
      }
      if (filled != room) { ++bad; badWhy = "quiescent push acceptance differs from free space"; }
      size_t expectLeft = pushedOk.size() - poppedVals.size(), drained = 0;
      size_t leave = rng.below(3) == 0 ? std::min<size_t>(expectLeft, 1 + rng.below(2)) : 0;
      if (rng.below(4) == 0) leave = expectLeft;   // destroy the ring while it is exactly full
      while (leave == 0 || drained + leave < expectLeft) {  // leave == 0: pop until a pop fails
        AtomPayload item;
        DS_CALL("try_pop");
        bool ok = ring.try_pop(item);
        int val = ok ? item.get() : 0;
        DS_RET("try_pop %d%s", ok ? 1 : 0, ok ? (" " + std::to_string(val)).c_str() : "");
        if (!ok) break;
        poppedVals.push_back(val);
        ++drained;
      }
      if (leave == 0 && drained != expectLeft) { ++bad; badWhy = "quiescent pop count differs from contents"; }
      DS_CALL("dtor");
    }
    DS_RET("dtor");
  });
  ++cases;
  std::map<int, int> cnt;
  for (int v : poppedVals) ++cnt[v];
  bool dup = false, alien = false;
  for (auto& kv : cnt) {
    dup |= kv.second > 1;
    bool found = false;
    for (int p : pushedOk) found |= (p == kv.first);
    alien |= !found;
  }
  // per-producer order among all pops of one run must be increasing (FIFO in claim order implies it)
  if (dup || alien) std::printf("PFAIL MpmcRingBuffer delivered an element twice or one never pushed | %s\n", desc.c_str());
  if (bad) std::printf("PFAIL MpmcRingBuffer capacity/quiescence contract violated | %s why=%s\n", desc.c_str(), badWhy.c_str());
  if (AtomPayload::live() != liveBefore)
    std::printf("PFAIL MpmcRingBuffer element lifetimes unbalanced | %s live=%ld\n", desc.c_str(), AtomPayload::live() - liveBefore);
  std::printf("NT K%zu P%d C%d p%zu c%zu\n", K, producers, consumers, pushedOk.size(), poppedVals.size());
  std::string p = "mpmc " + std::to_string(K);
  dsh::emitTrace(p.c_str(), desc);
}

int main(int argc, char** argv) {
  uint64_t seed = vh::argInt(argc, argv, 1, 1);
  long long N = vh::argInt(argc, argv, 2, 200);
  vh::SplitMix rng(seed);
  dsh::installStuckHandler();
  for (long long it = 0; it < N; ++it) {
    switch (it % 5) {
      case 0: scenario<2, false>(seed, rng, it); break;
      case 1: scenario<3, false>(seed, rng, it); break;
      case 2: scenario<4, true>(seed, rng, it); break;
      case 3: scenario<8, true>(seed, rng, it); break;
      case 4: scenario<5, false>(seed, rng, it); break;
    }
  }
  std::printf("STAT cases %lld\n", cases);
  std::fflush(stdout);
  _exit(0);
}
