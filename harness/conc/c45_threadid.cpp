// C45: threadId() under the deterministic scheduler: concurrently created threads, repeated calls.
// usage: c45_threadid <seed> <scenarios>
#include <dispenso/thread_id.h>
#include <set>
#include <thread>
#include <vector>
#include "dsched/dsh.h"

namespace dispenso { extern std::atomic<uint64_t> nextThread; }

int main(int argc, char** argv) {
  uint64_t seed = vh::argInt(argc, argv, 1, 1);
  long long N = vh::argInt(argc, argv, 2, 100);
  vh::SplitMix rng(seed);
  dsh::installStuckHandler();
  long long cases = 0;
  for (long long it = 0; it < N; ++it) {
    dsched::Options o;
    o.seed = seed * 86028121 + it;
    o.strategy = (it % 3 == 2) ? dsched::PCT : dsched::RANDOM;
    o.stickiness = 10 + (int)rng.below(80);
    int nthreads = (int)rng.range(1, it % 10 == 9 ? 64 : 8), calls = (int)rng.range(1, 4);
    std::string desc = "threadid threads=" + std::to_string(nthreads) + " calls=" + std::to_string(calls) + " seed=" + std::to_string(o.seed);
    auto& c = dsh::stuckCtx();
    c.signature = "threadId never returns";
    c.detail = desc;
    std::vector<std::vector<uint64_t>> ids(nthreads);
    uint64_t start = *reinterpret_cast<volatile uint64_t*>(&dispenso::nextThread);
    dsched::clearNames();
    dsched::nameRegion(&dispenso::nextThread, 8, "next");
    dsched::run(o, [&] {
      std::vector<std::thread> ths;
      for (int ti = 0; ti < nthreads; ++ti)
        ths.emplace_back([&, ti] {
          for (int k = 0; k < calls; ++k) {
            DS_CALL("threadId");
            uint64_t id = dispenso::threadId();
            DS_RET("threadId %llu", (unsigned long long)id);
            ids[ti].push_back(id);
          }
        });
      for (auto& t : ths) t.join();
    });
    ++cases;
    std::set<uint64_t> seen;
    bool stable = true, unique = true;
    for (auto& v : ids) {
      for (auto x : v) stable &= (x == v[0]);
      unique &= seen.insert(v[0]).second;
    }
    if (!stable) std::printf("PFAIL threadId changed during the lifetime of a thread | %s\n", desc.c_str());
    if (!unique) std::printf("PFAIL threadId returned the same value for two distinct threads | %s\n", desc.c_str());
    std::printf("NT t%d c%d\n", nthreads, calls);
    std::string p = "threadid " + std::to_string(start);
    dsh::emitTrace(p.c_str(), desc);
  }
  std::printf("STAT cases %lld\n", cases);
  std::fflush(stdout);
  _exit(0);
}
