// C46: inline execution depth.  Chains of tasks in which every body schedules its successor through one
// API path, on an overloaded pool (so that the library keeps choosing to run the successor inline), under
// the deterministic scheduler.  The inline-decision hooks and the body begin/end markers are replayed
// through the Lean depth-guard model (Model/InlineDepth.lean); the oracle measures how deep bodies nest
// on one thread's stack and requires a bound that does not grow with the chain length.
// usage: c46_inline <seed> <scenarios> [start]
#include <atomic>
#include <chrono>
#include <thread>
#include <vector>
#define private public
#define protected public
#include <dispenso/task_set.h>
#include <dispenso/thread_pool.h>
#undef private
#undef protected
#include "dsched/dsh.h"

extern "C" void dispenso_verif_hook(const char* what, const void*, long a, long b) {
  if (dsched::tid() < 0) return;
  bool inl = !std::strcmp(what, "pool.inline") || !std::strcmp(what, "pool.inline0") || !std::strcmp(what, "ts.inline");
  bool guard = !std::strcmp(what, "ts.guard");
  if (!inl && !guard) return;
  dsched::noPreempt(true);
  if (inl) dsched::note("h %s 0", what);
  else dsched::note("h ts.guard 0 %ld %ld", a, b);
  dsched::noPreempt(false);
}

namespace {

const char* kPaths[] = {"pool.schedule", "taskset.schedule", "cts.light.schedule", "cts.heavy.schedule", "pool.scheduleBulk",
                        "taskset.scheduleBulk", "cts.scheduleBulk"};
constexpr int kNumPaths = 7;

struct Ctx {
  dispenso::ThreadPool* pool;
  dispenso::TaskSet* ts;
  dispenso::ConcurrentTaskSet* ctsL;
  dispenso::ConcurrentTaskSet* ctsH;
  int path;
  std::atomic<int>* release;
  int mainTid;
};
Ctx* g = nullptr;
thread_local int t_depth = 0;

void bumpMax(int d) { if (d > dsched::ghostGet(11)) dsched::ghostAdd(11, d - dsched::ghostGet(11)); }

struct Link {
  int id, left;
  void operator()() const {
    dsched::note("begin %d", id);
    ++t_depth;
    bumpMax(t_depth);
    dsched::ghostAdd(12, 1);
    if (left > 0) {
      Link next{id + 1, left - 1};
      int path = g->path;
      // a TaskSet may only be used by its owning thread: links that ended up on a worker continue on the concurrent set
      if ((path == 1 || path == 5) && dsched::tid() != g->mainTid) path = path == 1 ? 2 : 6;
      switch (path) {
        case 0: g->pool->schedule(next); break;
        case 1: g->ts->schedule(next); break;
        case 2: g->ctsL->schedule(next); break;
        case 3: g->ctsH->schedule(next); break;
        case 4: g->pool->scheduleBulk(1, [&](size_t) { return next; }); break;
        case 5: g->ts->scheduleBulk(1, [&](size_t) { return next; }); break;
        default: g->ctsL->scheduleBulk(1, [&](size_t) { return next; }); break;
      }
    }
    --t_depth;
    dsched::note("end %d", id);
  }
};

}  // namespace

int main(int argc, char** argv) {
  uint64_t seed = vh::argInt(argc, argv, 1, 1);
  long long N = vh::argInt(argc, argv, 2, 50);
  long long start = vh::argInt(argc, argv, 3, 0);
  dsh::installStuckHandler();
  long long cases = 0;
  for (long long it = start; it < N; ++it) {
    vh::SplitMix rng(seed * 1000003ULL + (uint64_t)it);
    std::printf("SCN %lld\n", it);
    dsched::Options o;
    o.seed = seed * 32452843ULL + it;
    o.strategy = dsched::RANDOM;
    o.stickiness = 40 + (int)rng.below(55);
    int n = (int)rng.below(3);                       // 0, 1 or 2 pool threads
    int path = (int)rng.below(kNumPaths);
    int len = 40 + (int)rng.below(160);              // chain length
    std::string desc = std::string("inline threads=") + std::to_string(n) + " path=" + kPaths[path] + " chain=" + std::to_string(len) +
        " seed=" + std::to_string(o.seed);
    auto& c = dsh::stuckCtx();
    c.signature = "chain of inline-scheduled tasks never completes";
    c.detail = desc;
    dsched::ghostAdd(11, -dsched::ghostGet(11));
    dsched::ghostAdd(12, -dsched::ghostGet(12));
    dsched::clearNames();
    dsched::run(o, [&] {
      dispenso::ThreadPool pool((size_t)n, 1);       // load multiplier 1: overloaded as soon as > n tasks are pending
      {
        // the task sets use load multiplier 0: they prefer inline execution as soon as anything is outstanding
        dispenso::TaskSet ts(pool, (ssize_t)0);
        dispenso::ConcurrentTaskSet ctsL(pool, dispenso::TaskCost::kLightweight, (ssize_t)0);
        dispenso::ConcurrentTaskSet ctsH(pool, dispenso::TaskCost::kHeavy, (ssize_t)0);
        std::atomic<int> release{0};
        Ctx ctx{&pool, &ts, &ctsL, &ctsH, path, &release, dsched::tid()};
        g = &ctx;
        // fillers keep the pool's pending-work counter high until the chain is done
        for (int f = 0; n > 0 && f < 2 * n + 2; ++f)
          pool.schedule([&release] { while (!release.load(std::memory_order_acquire)) std::this_thread::yield(); },
                        dispenso::ForceQueuingTag());
        // one more outstanding task per set so that the sets are "over their load factor"
        if (n > 0) {
          auto filler = [&release] { while (!release.load(std::memory_order_acquire)) std::this_thread::yield(); };
          ts.schedule(filler, dispenso::ForceQueuingTag());
          ctsL.schedule(filler, dispenso::ForceQueuingTag());
          ctsH.schedule(filler, dispenso::ForceQueuingTag());
        }
        Link first{1, len - 1};
        first();   // the chain starts on the main thread
        release.store(1, std::memory_order_release);
        ts.wait();
        ctsL.wait();
        ctsH.wait();
        // directly scheduled links may still be queued: wait for all bodies
        for (int spin = 0; spin < 100000 && dsched::ghostGet(12) < len; ++spin) std::this_thread::sleep_for(std::chrono::microseconds(200));
      }
    });
    ++cases;
    long maxDepth = dsched::ghostGet(11), ran = dsched::ghostGet(12);
    if (ran != len) std::printf("PFAIL chain link did not run exactly once | %s ran=%ld\n", desc.c_str(), ran);
    if (maxDepth > 34) {
      if (n == 0)
        std::printf("PFAIL zero-thread pool nests inline execution without bound | %s max_depth=%ld\n", desc.c_str(), maxDepth);
      else
        std::printf("PFAIL inline execution depth grows with the number of tasks | %s max_depth=%ld\n", desc.c_str(), maxDepth);
    }
    std::printf("NT n%d.p%d.l%d.d%ld\n", n, path, len / 40, maxDepth > 34 ? 99 : maxDepth / 8);
    dsh::emitTrace("inlinedepth", desc);
  }
  std::printf("STAT cases %lld\n", cases);
  std::fflush(stdout);
  _exit(0);
}
