// C07 / C09: wake-ups of parked pool workers, under the deterministic scheduler with virtual time.
//  C07: all workers parked, one producer submits through one API path; every task must have been started
//       by a pool thread before a short (2 ms, virtual) delay expires and without any worker's idle-sleep
//       backstop (100 ms) firing.  Virtual time only advances when no thread can run, so "started before
//       the delay expired" means "started without waiting for a timer".
//  C09: the pool is destroyed / resized / switched between signalling and polling while its workers are
//       busy, spinning, parking or parked; the operation must finish without a backstop firing.
// When dispenso carries the `wake.*` observation hooks, the atomic operations on the pool's first wake state
// (sleep masks, totalSleeping, group epochs, running flags) and its futex calls are traced, from construction
// until its threads have been joined, and replayed through the Lean wake model (plug-in `wake`).
// usage: c07_wake <seed> <scenarios> <mode>   mode 7: C07, 9: C09
#include <atomic>
#include <chrono>
#include <thread>
#include <vector>
#define private public
#define protected public
#include <dispenso/parallel_for.h>
#include <dispenso/task_set.h>
#include <dispenso/thread_pool.h>
#undef private
#undef protected
#include "dsched/dsh.h"

namespace {

using namespace std::chrono;

// ---- trace of the wake protocol of the pool's first PoolWakeState --------------------------------------------
// Needs the `wake.*` observation hooks in dispenso (call / return markers of the wake-state operations, of the
// worker loop's guard and park sequence and of the stop path).  Tracking starts at the first such hook for the
// wake state the pool was constructed with and ends when its threads have been joined; without the hooks in the
// tree nothing is traced (and the check says so).
struct WakeTrack {
  dispenso::ThreadPool* pool = nullptr;
  const void* ws = nullptr;
  bool active = false, done = false, usable = false;
  int n = 0, g = 0;
  std::vector<char> runNamed;
  std::string desc;
};
WakeTrack g_wt;

void nameRunFlags() {
  char nm[32];
  size_t i = 0;
  for (auto& t : g_wt.pool->threads_) {
    if (i < g_wt.runNamed.size() && !g_wt.runNamed[i]) {
      std::snprintf(nm, sizeof nm, "run%zu", i);
      dsched::nameRegion(&t.running_, sizeof(t.running_), nm);
      g_wt.runNamed[i] = 1;
    }
    ++i;
  }
}

void activateTracking() {
  auto* ws = static_cast<dispenso::detail::PoolWakeState*>(const_cast<void*>(g_wt.ws));
  g_wt.active = true;
  g_wt.n = ws->numThreads();
  g_wt.g = ws->groupSize();
  g_wt.runNamed.assign((size_t)g_wt.n, 0);
  char nm[32];
  dsched::nameRegion(&ws->totalSleeping_, sizeof(ws->totalSleeping_), "total");
  dsched::nameRegion(&ws->nextWakeGroup_, sizeof(ws->nextWakeGroup_), "nwg");
  for (int g = 0; g < ws->numGroups(); ++g) {
    std::snprintf(nm, sizeof nm, "mask%d", g);
    dsched::nameRegion(&ws->groupStates_[(size_t)g].sleepMask, 8, nm);
    std::snprintf(nm, sizeof nm, "ep%d", g);
    dsched::nameRegion(&ws->waiterBlocks_[(size_t)g].waiter, 4, nm);
  }
  nameRunFlags();
}

bool eq(const char* a, const char* b) { return std::strcmp(a, b) == 0; }

// wait (in virtual time) until every worker of the pool is blocked in its timed futex wait
bool waitAllParked(dispenso::ThreadPool& pool, int n) {
  for (int i = 0; i < 400; ++i) {
    auto* ws = pool.wakeState_.load(std::memory_order_relaxed);
    if (ws && ws->totalSleeping() == n) {
      // one more short sleep: it can only expire when every other thread is blocked
      std::this_thread::sleep_for(microseconds(200));
      ws = pool.wakeState_.load(std::memory_order_relaxed);
      if (ws->totalSleeping() == n) return true;
    }
    std::this_thread::sleep_for(microseconds(100));
  }
  return false;
}

const char* kPaths[] = {"pool.schedule.fq", "pool.scheduleBulk", "taskset.schedule.fq", "taskset.scheduleBulk",
                        "taskset.scheduleBulk.fq", "cts.light.schedule.fq", "cts.heavy.schedule.fq", "cts.light.scheduleBulk",
                        "cts.heavy.scheduleBulk", "parallel_for.nowait.static", "parallel_for.nowait.auto", "taskset.schedule"};
constexpr int kNumPaths = 12;

}  // namespace

extern "C" void dispenso_verif_hook(const char* what, const void* obj, long a, long b) {
  (void)b;
  if (dsched::tid() < 0) return;
  if (eq(what, "pool.ctor")) {
    if (!g_wt.pool) {
      g_wt.pool = const_cast<dispenso::ThreadPool*>(static_cast<const dispenso::ThreadPool*>(obj));
      dsched::noPreempt(true);
      g_wt.ws = g_wt.pool->wakeState_.load(std::memory_order_relaxed);
      g_wt.usable = g_wt.ws && g_wt.pool->enableEpochWaiter_.load(std::memory_order_relaxed) &&
          g_wt.pool->sleepLengthUs_.load(std::memory_order_relaxed) > 0;
      dsched::noPreempt(false);
    }
    return;
  }
  if (std::strncmp(what, "wake.", 5) != 0 || !g_wt.usable || g_wt.done || obj != g_wt.ws) return;
  dsched::noPreempt(true);
  if (!g_wt.active) activateTracking();
  if (eq(what, "wake.call.start")) { nameRunFlags(); dsched::note("call wStart %ld", a); }
  else if (eq(what, "wake.ret.start")) dsched::note("ret wStart %ld", a);
  else if (eq(what, "wake.call.run")) dsched::note("call wRun");
  else if (eq(what, "wake.ret.run")) dsched::note("ret wRun %ld", a);
  else if (eq(what, "wake.call.park")) dsched::note("call wPark");
  else if (eq(what, "wake.ret.park")) dsched::note("ret wPark %ld", a);
  else if (eq(what, "wake.call.claim")) dsched::note("call claimAndWakeOne");
  else if (eq(what, "wake.ret.claim")) dsched::note("ret claimAndWakeOne %ld", a);
  else if (eq(what, "wake.call.range")) dsched::note("call wakeRange %ld", a);
  else if (eq(what, "wake.ret.range")) dsched::note("ret wakeRange 0");
  else if (eq(what, "wake.call.seed")) dsched::note("call cascadeWakeSeed %ld", a);
  else if (eq(what, "wake.ret.seed")) dsched::note("ret cascadeWakeSeed %ld", a);
  else if (eq(what, "wake.call.cascade")) dsched::note("call cascadeWake %ld", a);
  else if (eq(what, "wake.ret.cascade")) dsched::note("ret cascadeWake 0");
  else if (eq(what, "wake.call.total")) dsched::note("call totalSleeping");
  else if (eq(what, "wake.ret.total")) dsched::note("ret totalSleeping %ld", a);
  else if (eq(what, "wake.stop.begin")) { nameRunFlags(); dsched::note("call stopAll"); }
  else if (eq(what, "wake.stop.end")) dsched::note("ret stopAll 0");
  else if (eq(what, "wake.joined")) {
    // the complete life of the pool's first wake state: construction .. threads joined.  Printed here because
    // event names are resolved when the trace is printed and the addresses may be reused afterwards.
    g_wt.done = true;
    char params[48];
    std::snprintf(params, sizeof params, "wake %d %d", g_wt.n, g_wt.g);
    dsh::emitTrace(params, g_wt.desc);
    dsched::clearNames();
  }
  dsched::noPreempt(false);
}

int main(int argc, char** argv) {
  uint64_t seed = vh::argInt(argc, argv, 1, 1);
  long long N = vh::argInt(argc, argv, 2, 100);
  int mode = (int)vh::argInt(argc, argv, 3, 7);
  long long start = vh::argInt(argc, argv, 4, 0);
  dsh::installStuckHandler();
  long long cases = 0, parkedOk = 0, traced = 0;
  for (long long it = start; it < N; ++it) {
    vh::SplitMix rng(seed * 1000003ULL + (uint64_t)it);
    std::printf("SCN %lld\n", it);
    dsched::Options o;
    o.seed = seed * 7919 + it;
    o.strategy = (it % 4 == 3) ? dsched::PCT : dsched::RANDOM;
    o.stickiness = 30 + (int)rng.below(60);
    o.randomWake = true;
    int n = 1 + (int)rng.below(4);                 // pool threads (one wake group of 8)
    if (rng.below(6) == 0) n = 9 + (int)rng.below(3);  // two wake groups
    int path = (int)rng.below(kNumPaths);
    int k = 1 + (int)rng.below((uint64_t)n + 1);  // tasks in a bulk submission
    std::string desc = std::string(mode == 7 ? "wake " : "shutdown ") + "threads=" + std::to_string(n) + " path=" + kPaths[path] +
        " tasks=" + std::to_string(k) + " seed=" + std::to_string(o.seed);
    auto& c = dsh::stuckCtx();
    c.signature = mode == 7 ? "submission to an idle pool never completes" : "pool shutdown / resize never returns";
    c.detail = desc;
    std::vector<int> started(64, 0), startedByPool(64, 0);
    int mainTid = -1;
    long bsSubmit = 0, bsOp = 0, bsBeforeDtor = -1;
    bool allParked = false, notStarted = false, inRingOfParked = false, inStealRing = false, hintCleared = false;
    int opKind = (int)rng.below(3);   // C09: 0 destructor, 1 resize, 2 setSignalingWake
    int when = (int)rng.below(6);     // C09: 0 after all parked, 1 right after a submission, 2 while busy, 3 immediately, 4/5 all parked, then a submission, then the operation
    dsched::clearNames();
    g_wt = WakeTrack();
    g_wt.desc = desc;
    dsched::run(o, [&] {
      mainTid = dsched::tid();
      auto body = [&](int i) {
        return [&, i] {
          started[i] = 1;
          if (dsched::tid() != mainTid) startedByPool[i] = 1;
        };
      };
      {
        dispenso::ThreadPool pool((size_t)n);
        dispenso::TaskSet ts(pool);
        dispenso::ConcurrentTaskSet ctsL(pool, dispenso::TaskCost::kLightweight);
        dispenso::ConcurrentTaskSet ctsH(pool, dispenso::TaskCost::kHeavy);
        int total = 0;
        auto submit = [&] {
          switch (path) {
            case 0: pool.schedule(body(0), dispenso::ForceQueuingTag()); total = 1; break;
            case 1: pool.scheduleBulk((size_t)k, [&](size_t i) { return body((int)i); }); total = k; break;
            case 2: ts.schedule(body(0), dispenso::ForceQueuingTag()); total = 1; break;
            case 3: ts.scheduleBulk((size_t)k, [&](size_t i) { return body((int)i); }); total = k; break;
            case 4: ts.scheduleBulk((size_t)k, [&](size_t i) { return body((int)i); }, dispenso::ForceQueuingTag()); total = k; break;
            case 5: ctsL.schedule(body(0), dispenso::ForceQueuingTag()); total = 1; break;
            case 6: ctsH.schedule(body(0), dispenso::ForceQueuingTag()); total = 1; break;
            case 7: ctsL.scheduleBulk((size_t)k, [&](size_t i) { return body((int)i); }); total = k; break;
            case 8: ctsH.scheduleBulk((size_t)k, [&](size_t i) { return body((int)i); }); total = k; break;
            case 9:
            case 10: {
              dispenso::ParForOptions opt;
              opt.wait = false;
              opt.defaultChunking = path == 9 ? dispenso::ParForChunking::kStatic : dispenso::ParForChunking::kAuto;
              total = k;
              dispenso::parallel_for(ts, 0, k, [&](int i) { started[i] = 1; if (dsched::tid() != mainTid) startedByPool[i] = 1; }, opt);
              break;
            }
            default: ts.schedule(body(0)); total = 1; break;
          }
        };
        if (mode == 7) {
          allParked = waitAllParked(pool, n);
          if (allParked) {
            long bs0 = dsched::backstopsSoFar();
            submit();
            std::this_thread::sleep_for(milliseconds(2));
            int missing = 0;
            for (int i = 0; i < total; ++i) if (!started[i]) { notStarted = true; ++missing; }
            bsSubmit = dsched::backstopsSoFar() - bs0;
            if (notStarted) {
              size_t inRings = 0;
              for (size_t r = 0; r < pool.rings_.size(); ++r) inRings += pool.rings_[r].size();
              inRingOfParked = inRings >= (size_t)missing;
              size_t inSteal = 0;
              for (size_t r = 0; r < pool.stealRings_.size(); ++r) inSteal += pool.stealRings_[r].size();
              inStealRing = !inRingOfParked && inSteal >= (size_t)missing;
              hintCleared = !inRingOfParked && !inStealRing && pool.work_.size_approx() >= (size_t)missing &&
                  !pool.centralQueueNonEmpty_.load(std::memory_order_relaxed);
            }
          }
          ts.wait();
          ctsL.wait();
          ctsH.wait();
        } else {
          if (when == 0 || when >= 4) allParked = waitAllParked(pool, n);
          if (when == 1 || when == 2 || when >= 4) submit();
          if (when == 5) for (int y = (int)rng.below(30); y > 0; --y) std::this_thread::yield();
          if (when == 2) std::this_thread::yield();
          // task sets must be complete before the pool changes under them only for the destructor
          long bs0 = dsched::backstopsSoFar();
          if (opKind == 1) {
            pool.resize((ssize_t)rng.below(4));
            bsOp = dsched::backstopsSoFar() - bs0;
          } else if (opKind == 2) {
            pool.setSignalingWake(rng.below(2) == 0, 100000);
            bsOp = dsched::backstopsSoFar() - bs0;
          }
          ts.wait();
          ctsL.wait();
          ctsH.wait();
          if (opKind == 0) bsBeforeDtor = dsched::backstopsSoFar();
        }
        // destructors: task sets first (declared after the pool), then the pool
      }
      if (bsBeforeDtor >= 0) bsOp = dsched::backstopsSoFar() - bsBeforeDtor;
    });
    ++cases;
    if (allParked) ++parkedOk;
    if (mode == 7 && allParked) {
      if (notStarted && inRingOfParked)
        std::printf("PFAIL task pushed to the ring of a parked worker while the group wake-up woke other members | %s backstops=%ld\n",
                    desc.c_str(), bsSubmit);
      else if (notStarted && inStealRing)
        std::printf("PFAIL placed task pushed to a steal ring after its group was woken and went back to sleep | %s backstops=%ld\n",
                    desc.c_str(), bsSubmit);
      else if (notStarted && hintCleared)
        std::printf("PFAIL task left in the central queue with the non-empty hint cleared by a racing worker | %s backstops=%ld\n",
                    desc.c_str(), bsSubmit);
      else if (notStarted || bsSubmit > 0)
        std::printf("PFAIL work submitted to an idle pool was not started without the sleep backstop | %s not_started=%d backstops=%ld\n",
                    desc.c_str(), (int)notStarted, bsSubmit);
    }
    if (mode == 9 && bsOp > 0)
      std::printf("PFAIL pool destruction / resize / wake-mode switch needed a worker's sleep backstop to finish | %s op=%d when=%d backstops=%ld\n",
                  desc.c_str(), opKind, when, bsOp);
    std::printf("NT m%d.n%d.p%d.k%d.o%d.w%d\n", mode, n > 4 ? 9 : n, path, k > 4 ? 4 : k, mode == 9 ? opKind : 0, mode == 9 ? when : 0);
    if (g_wt.active && g_wt.done) ++traced;
  }
  std::printf("STAT cases %lld\nSTAT all_parked %lld\nSTAT pool_traces %lld\n", cases, parkedOk, traced);
  std::fflush(stdout);
  _exit(0);
}
