// C21 (and the untimed part of C20): CompletionEvent and Latch under the deterministic scheduler.
// Every scenario's trace of atomic/futex events is validated against the Lean model; the harness
// itself checks the property: no wait returns early, every waiter returns (no deadlock).
// usage: c21_event <seed> <scenarios> <mode: random|dfs>
#include <dispenso/completion_event.h>
#include <dispenso/latch.h>
#include <atomic>
#include <thread>
#include <vector>
#include "dsched/dsh.h"

static long long cases = 0, dfsRuns = 0;

struct LatchScenario {
  int count;
  std::vector<int> downs;       // count_down amounts (sum + arrivers == count)
  int arrivers;                 // arrive_and_wait callers
  int waiters;                  // wait() callers
  int pollers;                  // try_wait pollers
  std::string str() const {
    std::string s = "latch count=" + std::to_string(count) + " downs=";
    for (int d : downs) s += std::to_string(d) + ",";
    s += " arrivers=" + std::to_string(arrivers) + " waiters=" + std::to_string(waiters) + " pollers=" + std::to_string(pollers);
    return s;
  }
};

static void runLatch(const LatchScenario& sc) {
  dispenso::Latch latch(static_cast<uint32_t>(sc.count));
  dsched::nameRegion(&latch, sizeof(int), "status");
  int remaining = sc.count;  // ghost: harness-side view of the count (updated after each decrement returns)
  int early = 0;
  std::vector<std::thread> ths;
  for (int d : sc.downs)
    ths.emplace_back([&, d] {
      DS_CALL("count_down %d", d);
      remaining -= d;  // the decrement takes effect no later than the call's first atomic op
      latch.count_down(static_cast<uint32_t>(d));
      DS_RET("count_down 0");
    });
  for (int i = 0; i < sc.arrivers; ++i)
    ths.emplace_back([&] {
      DS_CALL("arrive_and_wait");
      remaining -= 1;
      latch.arrive_and_wait();
      if (remaining != 0) ++early;
      DS_RET("arrive_and_wait 0");
    });
  for (int i = 0; i < sc.waiters; ++i)
    ths.emplace_back([&] {
      DS_CALL("latch_wait");
      latch.wait();
      if (remaining != 0) ++early;
      DS_RET("latch_wait 0");
    });
  for (int i = 0; i < sc.pollers; ++i)
    ths.emplace_back([&] {
      for (int k = 0; k < 3; ++k) {
        DS_CALL("try_wait");
        bool r = latch.try_wait();
        if (r && remaining != 0) ++early;
        DS_RET("try_wait %d", r ? 1 : 0);
        if (r) break;
      }
    });
  for (auto& t : ths) t.join();
  if (early) std::printf("PFAIL latch wait returned before the count reached zero | %s\n", sc.str().c_str());
}

struct EventScenario {
  int waiters, timedWaiters, pollers;
  bool lateNotify;
  std::string str() const {
    return "event waiters=" + std::to_string(waiters) + " timed=" + std::to_string(timedWaiters) + " pollers=" +
        std::to_string(pollers) + " late=" + std::to_string(lateNotify);
  }
};

static void runEvent(const EventScenario& sc, vh::SplitMix& rng) {
  dispenso::CompletionEvent ev;
  dsched::nameRegion(&ev, sizeof(int), "status");
  bool notified = false;  // ghost: set before notify() is called
  int early = 0;
  std::vector<std::thread> ths;
  ths.emplace_back([&] {
    if (sc.lateNotify) std::this_thread::sleep_for(std::chrono::microseconds(200));
    DS_CALL("notify");
    notified = true;
    ev.notify();
    DS_RET("notify 0");
  });
  for (int i = 0; i < sc.waiters; ++i)
    ths.emplace_back([&] {
      DS_CALL("wait");
      ev.wait();
      if (!notified) ++early;
      DS_RET("wait 0");
    });
  for (int i = 0; i < sc.timedWaiters; ++i) {
    long us = (long)rng.below(4) == 0 ? 0 : (long)rng.range(1, 400);
    bool neg = rng.below(6) == 0;
    ths.emplace_back([&, us, neg] {
      auto d = std::chrono::microseconds(neg ? -5 : us);
      DS_CALL("waitFor %d", d.count() > 0 ? 1 : 0);
      uint64_t t0 = dsched::nowNs();
      bool r = ev.waitFor(d);
      uint64_t t1 = dsched::nowNs();
      if (r && !notified) ++early;
      if (!r && d.count() > 0 && t1 - t0 < (uint64_t)d.count() * 1000ull)
        std::printf("PFAIL waitFor reported timeout before the requested time elapsed | requested_us=%ld elapsed_ns=%llu\n",
                    (long)d.count(), (unsigned long long)(t1 - t0));
      DS_RET("waitFor %d", r ? 1 : 0);
    });
  }
  for (int i = 0; i < sc.pollers; ++i)
    ths.emplace_back([&] {
      DS_CALL("completed");
      bool r = ev.completed();
      if (r && !notified) ++early;
      DS_RET("completed %d", r ? 1 : 0);
    });
  for (auto& t : ths) t.join();
  if (early) std::printf("PFAIL event wait/completed reported completion before notify | %s\n", sc.str().c_str());
}

int main(int argc, char** argv) {
  uint64_t seed = vh::argInt(argc, argv, 1, 1);
  long long N = vh::argInt(argc, argv, 2, 200);
  std::string mode = vh::argOr(argc, argv, 3, "random");
  vh::SplitMix rng(seed);
  dsh::installStuckHandler();
  for (long long it = 0; it < N; ++it) {
    dsched::Options o;
    o.seed = seed * 1000003 + it;
    o.strategy = (it % 3 == 2) ? dsched::PCT : dsched::RANDOM;
    o.stickiness = 30 + (int)rng.below(60);
    if (it % 5 >= 3) o.spuriousPerMille = 60;   // signals interrupting futex waits (EINTR)
    if (it % 2 == 0) {
      LatchScenario sc;
      sc.count = (int)rng.range(1, 6);
      int left = sc.count;
      sc.arrivers = (int)rng.below(std::min(left, 2) + 1);
      left -= sc.arrivers;
      while (left > 0) {
        int d = (int)rng.range(1, left);
        sc.downs.push_back(d);
        left -= d;
      }
      sc.waiters = (int)rng.range(sc.arrivers ? 0 : 1, 3);
      sc.pollers = (int)rng.below(2);
      auto& c = dsh::stuckCtx();
      c.signature = "latch waiter never returns although the count reached zero";
      c.detail = sc.str() + " seed=" + std::to_string(o.seed);
      dsched::clearNames();
      dsched::run(o, [&] { runLatch(sc); });
      ++cases;
      std::printf("NT %s\n", sc.str().c_str());
      std::string p = "event " + std::to_string(sc.count);
      dsh::emitTrace(p.c_str(), sc.str() + " seed=" + std::to_string(o.seed));
    } else {
      EventScenario sc;
      sc.waiters = (int)rng.below(3);
      sc.timedWaiters = (int)rng.below(3);
      sc.pollers = (int)rng.below(2);
      sc.lateNotify = rng.coin();
      auto& c = dsh::stuckCtx();
      c.signature = "event waiter never returns although notify() was called";
      c.detail = sc.str() + " seed=" + std::to_string(o.seed);
      dsched::clearNames();
      vh::SplitMix r2(o.seed);
      dsched::run(o, [&] { runEvent(sc, r2); });
      ++cases;
      std::printf("NT %s\n", sc.str().c_str());
      dsh::emitTrace("event 0", sc.str() + " seed=" + std::to_string(o.seed));
    }
  }
  int dfsBound = 2; long dfsMax = 1500;
  if (mode.rfind("dfs", 0) == 0) {
    std::sscanf(mode.c_str(), "dfs:%d:%ld", &dfsBound, &dfsMax);
    mode = "dfs";
  }
  if (mode == "dfs") {
    // systematic exploration of the small latch configurations (preemption bound 3)
    for (int count = 1; count <= 3; ++count)
      for (int split = 0; split < 3; ++split) {
        LatchScenario sc;
        sc.count = count;
        sc.arrivers = 0;
        if (split == 0) sc.downs = {count};
        else if (split == 1) { for (int i = 0; i < count; ++i) sc.downs.push_back(1); }
        else { sc.arrivers = 1; if (count > 1) sc.downs = {count - 1}; }
        sc.waiters = 1 + (split == 0); sc.pollers = 0;
        auto& c = dsh::stuckCtx();
        c.signature = "latch waiter never returns although the count reached zero";
        c.detail = sc.str() + " (dfs)";
        dsched::Options o;
        o.preemptionBound = dfsBound;
        bool ex = false;
        dsched::clearNames();
        long runs = dsched::explore(o, [&] { runLatch(sc); }, [&](const dsched::RunInfo&) { return true; }, dfsMax, &ex);
        dfsRuns += runs;
        std::printf("STAT dfs_runs %ld\nSTAT dfs_exhausted %d\n", runs, ex ? 1 : 0);
      }
  }
  std::printf("STAT cases %lld\n", cases);
  std::fflush(stdout);
  _exit(0);
}
