// C01/C02/C03/C04/C05/C08/C47: the real ThreadPool + TaskSet + ConcurrentTaskSet under the deterministic
// scheduler.  The guarded observation hooks (DISPENSO_VERIF_HOOK) and the harness's own call / body
// markers form an event trace that is replayed through the Lean ledger model (Model/Sched.lean);
// independent oracles check the property statements directly on what the implementation did.
// usage: c01_sched <seed> <scenarios> [flavour]   flavour: 0 mixed (default), 1 no-resize, 2 resize-heavy
#include <atomic>
#include <chrono>
#include <map>
#include <stdexcept>
#include <thread>
#include <vector>
#define private public
#define protected public
#include <dispenso/task_set.h>
#include <dispenso/thread_pool.h>
#undef private
#undef protected
#include "dsched/dsh.h"

namespace {

struct Book;
Book* g_book = nullptr;
thread_local int t_inResize = 0;
void noteCapture(int set);
dispenso::ThreadPool* g_pool = nullptr;
const void* g_sets[64];
int g_numSets = 0;

int setId(const void* p) {
  for (int i = g_numSets - 1; i >= 0; --i) if (g_sets[i] == p) return i + 1;  // latest registration of a reused address
  return 63;
}
int ringIdx(const void* p) {
  size_t n = g_pool->rings_.size();
  for (size_t i = 0; i < n; ++i) if (&g_pool->rings_[i] == p) return (int)i;
  return 999;
}
int stealIdx(const void* p) {
  size_t n = g_pool->stealRings_.size();
  for (size_t i = 0; i < n; ++i) if (&g_pool->stealRings_[i] == p) return (int)i;
  return 999;
}

bool eq(const char* a, const char* b) { return std::strcmp(a, b) == 0; }

}  // namespace

// the observation hook: one trace line per hook, emitted atomically with the operation it reports
extern "C" void dispenso_verif_hook(const char* what, const void* obj, long a, long b) {
  if (dsched::tid() < 0) return;
  if (std::strncmp(what, "wake.", 5) == 0) return;  // call markers of the wake protocol (C07 / C09), not ledger events
  dsched::noPreempt(true);
  if (eq(what, "pool.ctor")) g_pool = const_cast<dispenso::ThreadPool*>(static_cast<const dispenso::ThreadPool*>(obj));
  if (eq(what, "pool.resize.begin")) dsched::ghostAdd(16, 1);   // lets a scenario wait until a resize is under way
  if (eq(what, "pool.inline0") || eq(what, "pool.inline") || eq(what, "pool.take.central") || eq(what, "pool.resize.begin") ||
      eq(what, "pool.dtor.begin") || eq(what, "pool.dtor.end"))
    dsched::note("h %s", what);
  else if (eq(what, "pool.count") || eq(what, "pool.push.central") || eq(what, "pool.rings") || eq(what, "pool.resize.end") ||
           eq(what, "pool.ctor"))
    dsched::note("h %s %ld", what, a);
  else if (eq(what, "pool.push.ring")) dsched::note("h %s %ld %ld", what, a, b);
  else if (eq(what, "pool.push.steal")) dsched::note("h %s %ld %ld", what, a, b);
  else if (eq(what, "pool.take.ring")) dsched::note("h %s %ld", what, b);
  else if (eq(what, "pool.take.steal")) dsched::note("h %s %ld", what, b);
  else if (eq(what, "ts.inc")) dsched::note("h %s %d %ld", what, setId(obj), a);
  else if (eq(what, "ts.guard")) dsched::note("h %s %d %ld %ld", what, setId(obj), a, b);
  else if (eq(what, "ts.dec") || eq(what, "ts.inline") || eq(what, "ts.cancel") || eq(what, "ts.zero") || eq(what, "ts.capture") ||
           eq(what, "ts.rethrow"))
    dsched::note("h %s %d", what, setId(obj));
  else dsched::note("h unknown.%s", what);
  if (eq(what, "ts.capture")) noteCapture(setId(obj));
  dsched::noPreempt(false);
}

namespace {

constexpr int kMaxIds = 4096;

// per-scenario bookkeeping; all updates happen while exactly one managed thread runs, and only through
// opaque calls (std::vector / ghost counters), see dsched.h
struct Book {
  // tables live in the scheduler runtime's cell array (opaque accessors): see dsh::CellVec
  dsh::CellVec ran, ended, setOf, fq, submitter, inCall, ranOnCaller, subAfterCancelRet, byResizer;   // per task id
  dsh::CellVec cancelRet;       // per set: cancel() has returned
  dsh::CellVec everCancelled;
  dsh::CellVec excThrown, excSeen, captures, parentOf, excDirect;  // per set (parentOf: ParentCascadeCancel::kOn parent, 0 = none)
  int poolNeverZero = 1;
  Book() {
    int at = 0;
    auto mk = [&](int n, int init = 0) { dsh::CellVec v(at, n, init); at += n; return v; };
    ran = mk(kMaxIds); ended = mk(kMaxIds); setOf = mk(kMaxIds, -1); fq = mk(kMaxIds); submitter = mk(kMaxIds, -1);
    inCall = mk(kMaxIds); ranOnCaller = mk(kMaxIds); subAfterCancelRet = mk(kMaxIds); byResizer = mk(kMaxIds);
    cancelRet = mk(64); everCancelled = mk(64); excThrown = mk(64); excSeen = mk(64); captures = mk(64); parentOf = mk(64); excDirect = mk(64);
  }
};
void noteCapture(int set) { if (g_book && set < 64) g_book->captures[set]++; }
int newId() { dsched::ghostAdd(9, 1); return (int)dsched::ghostGet(9); }

struct Scn {
  vh::SplitMix* rng;
  int poolSize, loadMult, producers, flavour;
  bool throwing;
};

struct Actor;
void runOps(Actor& a, int nOps, int depth);
void chainStep(Actor& a, int left, int path);
void PoolApiFwd(Actor& a);   // force-queue one directly scheduled task

struct Actor {
  Scn* sc;
  vh::SplitMix rng;
  dispenso::ConcurrentTaskSet* shared;  // may be null
  int sharedId;
  int curSet = 0;   // set of the task body this actor runs in (0: not inside a set task)
  Actor(Scn* s, uint64_t seed, dispenso::ConcurrentTaskSet* sh, int shId) : sc(s), rng(seed), shared(sh), sharedId(shId) {}
};

// the set, or one of its kOn ancestors, was cancelled by a cancel() call that has returned
bool cancelledByReturnedCall(int set) {
  Book& b = *g_book;
  for (int s = set, n = 0; s > 0 && n < 8; s = b.parentOf[s], ++n) if (b.cancelRet[s]) return true;
  return false;
}
// the set may have been cancelled by any means (own / ancestor cancel(), own / ancestor exception)
bool mayBeCancelled(int set) {
  Book& b = *g_book;
  for (int s = set, n = 0; s > 0 && n < 8; s = b.parentOf[s], ++n) if (b.everCancelled[s] || b.excThrown[s]) return true;
  return false;
}

// a task body: marks begin/end, optionally does nested work, optionally throws
struct Body {
  int id;
  Scn* sc;
  dispenso::ConcurrentTaskSet* shared;
  int sharedId;
  int depth;
  bool thrower;
  uint64_t seed;
  int chainLeft = 0;     // > 0: this body schedules the next link of a chain through chainPath
  int chainPath = 0;     // 0 pool.schedule, 1 shared set schedule
  bool selfCancel = false;
  std::atomic<int>* hold = nullptr;   // filler: keeps running until *hold becomes non-zero
  int lingering = 0;                  // the body yields this many times before it ends (bodies that overlap waits / cancels)
  bool followUp = false;              // the body force-queues a directly scheduled follow-up task
  void operator()() {
    Book& b = *g_book;
    dsched::note("begin %d", id);
    b.ran[id]++;
    if (b.inCall[id] && b.submitter[id] == dsched::tid()) b.ranOnCaller[id] = 1;
    if (selfCancel) {
      // a task may cancel the set it runs in (only meaningful when it runs inside its package wrapper)
      dispenso::TaskSetBase* cur = dispenso::parentTaskSet();
      int s = b.setOf[id];
      if (cur && s > 0 && setId(cur) == s) {
        dsched::note("call cancel %d", s);
        b.everCancelled[s] = 1;
        cur->cancel();
        b.cancelRet[s] = 1;
        dsched::note("ret cancel %d", s);
      }
    }
    for (int y = 0; y < lingering; ++y) std::this_thread::yield();
    if (followUp) {
      Actor me(sc, seed ^ 0x9e3779b97f4a7c15ULL, shared, sharedId);
      PoolApiFwd(me);
    }
    if (hold) {
      while (!hold->load(std::memory_order_acquire)) std::this_thread::yield();
    } else if (chainLeft > 0) {
      Actor me(sc, seed, shared, sharedId);
      me.curSet = b.setOf[id] > 0 ? b.setOf[id] : 0;
      chainStep(me, chainLeft - 1, chainPath);
    } else if (depth > 0) {
      Actor me(sc, seed, shared, sharedId);
      me.curSet = b.setOf[id] > 0 ? b.setOf[id] : 0;
      runOps(me, 1 + (int)me.rng.below(2), depth - 1);
    }
    dsched::ghostAdd(13, 1);
    b.ended[id] = 1;
    dsched::note("end %d", id);
    if (thrower) {
      int s = b.setOf[id];
      if (s >= 0) b.excThrown[s]++;
      throw std::runtime_error("task");
    }
  }
};

Body mkBody(Actor& a, int set, bool fq, int depth, int afterCancel = -1) {
  Book& b = *g_book;
  int id = newId();
  b.setOf[id] = set;
  b.fq[id] = fq;
  b.submitter[id] = dsched::tid();
  b.byResizer[id] = t_inResize;   // submitted by a task that resize() itself is running on this thread
  // afterCancel: whether a cancel() of the set (or a cascading ancestor) had returned when the *call* started
  if (set > 0 && (afterCancel < 0 ? cancelledByReturnedCall(set) : afterCancel != 0)) b.subAfterCancelRet[id] = 1;
  bool thr = a.sc->throwing && set > 0 && a.rng.below(a.sc->flavour == 5 ? 3 : 5) == 0;
  // only task-set tasks do nested work: they finish before their set's wait(), hence before the pool dies
  bool nest = set > 0 && depth > 0 && a.rng.below(3) == 0;
  Body body{id, a.sc, a.shared, a.sharedId, nest ? depth : 0, thr, a.rng.next()};
  body.selfCancel = set > 0 && a.rng.below(thr ? 3 : 14) == 0;
  body.lingering = a.rng.below(a.sc->flavour == 5 ? 2 : 3) == 0 ? 1 + (int)a.rng.below(6) : 0;
  body.followUp = set > 0 && a.sc->flavour == 2 && a.rng.below(4) == 0;   // a thrower that cancels first: the exception must still be delivered
  return body;
}

template <typename F>
void guardedCall(int set, F&& f) {
  try {
    f();
  } catch (const std::runtime_error&) {
    // an unpackaged inline run may propagate the body's exception to the scheduling caller (documented)
    if (set > 0 && set < 64) g_book->excDirect[set]++;
  }
}

template <typename Set>
void singleOn(Actor& a, Set& ts, int set, bool fq, int depth) {
  Book& b = *g_book;
  Body body = mkBody(a, set, fq, depth);
  int id = body.id;
  b.inCall[id] = 1;
  dsched::note("call sched %d %d %d", set, id, fq ? 1 : 0);
  guardedCall(set, [&] {
    if (fq) ts.schedule(std::move(body), dispenso::ForceQueuingTag());
    else ts.schedule(std::move(body));
  });
  b.inCall[id] = 0;
  dsched::note("ret sched");
}

template <typename Set>
void bulkOn(Actor& a, Set& ts, int set, bool fq, int count, int depth) {
  Book& b = *g_book;
  std::vector<int> ids;
  int afterCancel = set > 0 && cancelledByReturnedCall(set) ? 1 : 0;
  dsched::note("call bulk %d %d", set, fq ? 1 : 0);
  bool gate = a.sc->flavour == 2 && set > 0 && a.rng.below(2) == 0;   // resize-heavy runs: let a resize finish inside the bulk call
  auto gen = [&](size_t) {
    if (gate) {
      gate = false;
      long e0 = dsched::ghostGet(15);
      for (int y = 0; y < 400 && dsched::ghostGet(15) < e0 + 1 + (long)(a.rng.below(2)); ++y) std::this_thread::yield();
    }
    Body body = mkBody(a, set, fq, depth, afterCancel);
    b.inCall[body.id] = 1;
    ids.push_back(body.id);
    dsched::note("gen %d", body.id);
    return body;
  };
  guardedCall(set, [&] {
    if (fq) ts.scheduleBulk((size_t)count, gen, dispenso::ForceQueuingTag());
    else ts.scheduleBulk((size_t)count, gen);
  });
  for (int id : ids) b.inCall[id] = 0;
  dsched::note("ret bulk");
}

template <typename Set>
void waitOn(Set& ts, int set, const std::vector<int>& mine, bool viaTry, vh::SplitMix& rng) {
  Book& b = *g_book;
  for (int round = 0;; ++round) {
    if (round >= 12) viaTry = false;   // tryWait reports false for a cancelled set even when everything completed
    dsched::note("call wait %d", set);
    bool done = true, exc = false;
    try {
      if (viaTry) done = ts.tryWait(1 + rng.below(3));
      else ts.wait();
    } catch (const std::runtime_error&) {
      exc = true;
      b.excSeen[set]++;
      // a rethrow happens only after the outstanding count was observed to be zero
    }
    if (done || exc) {
      // C02: every task scheduled to the set before the call has finished
      for (int id : mine) {
        if (b.setOf[id] == set && !b.ended[id] && b.ran[id])
          std::printf("PFAIL task-set wait returned while a task body was still running | set=%d id=%d\n", set, id);
        if (b.setOf[id] == set && !b.ran[id] && !mayBeCancelled(set))
          std::printf("PFAIL task-set wait returned before a scheduled task ran | set=%d id=%d parent=%d parent_cancelled=%d self_cancelled=%d at_event=%zu\n",
                      set, id, (int)b.parentOf[set], b.parentOf[set] > 0 ? (int)b.everCancelled[b.parentOf[set]] : -1, (int)b.everCancelled[set], dsched::trace().size());
      }
    }
    dsched::note("ret wait %d %d %d", set, (done || exc) ? 1 : 0, exc ? 1 : 0);
    if (done || exc || !viaTry) break;
    std::this_thread::yield();
  }
}

std::vector<int> idsOfSet(int set) {
  std::vector<int> r;
  int n = (int)dsched::ghostGet(9);
  for (int id = 1; id <= n && id < kMaxIds; ++id) if (g_book->setOf[id] == set) r.push_back(id);
  return r;
}

void localTaskSet(Actor& a, int depth) {
  Book& b = *g_book;
  if (g_numSets >= 60) return;
  int mult = a.rng.below(3) == 0 ? 0 : (a.rng.below(2) ? 1 : 4);   // small load factors force the inline paths
  bool concurrentKind = a.rng.below(3) == 0;
  bool heavy = a.rng.below(2) == 0;
  // inside a set task the new set may register with that task's set for cascading cancellation
  bool cascade = a.curSet > 0 && a.rng.below(2) == 0;
  auto pcc = cascade ? dispenso::ParentCascadeCancel::kOn : dispenso::ParentCascadeCancel::kOff;
  if (!concurrentKind) {
    dispenso::TaskSet ts(*g_pool, pcc, (ssize_t)mult);
    dsched::noPreempt(true);
    int set = ++g_numSets;
    g_sets[set - 1] = static_cast<dispenso::TaskSetBase*>(&ts);
    // the parent the library registered with (the set of the innermost *packaged* task on this thread, if any)
    b.parentOf[set] = ts.parent_ ? setId(ts.parent_) : 0;
    if (b.parentOf[set] == 63 || b.parentOf[set] == set) b.parentOf[set] = 0;
    dsched::noPreempt(false);
    int n = 1 + (int)a.rng.below(4);
    for (int i = 0; i < n; ++i) {
      int k = (int)a.rng.below(8);
      if (k < 3) singleOn(a, ts, set, false, depth);
      else if (k < 4) singleOn(a, ts, set, true, depth);
      else if (k < 6) bulkOn(a, ts, set, false, 1 + (int)a.rng.below(5), depth);
      else if (k < 7) bulkOn(a, ts, set, true, 1 + (int)a.rng.below(4), depth);
      else {
        dsched::note("call cancel %d", set);
        b.everCancelled[set] = 1;   // "may be cancelled" from the moment cancel() is entered …
        ts.cancel();
        b.cancelRet[set] = 1;       // … "cancel() has returned" only now
        dsched::note("ret cancel %d", set);
      }
    }
    waitOn(ts, set, idsOfSet(set), a.rng.below(3) == 0, a.rng);
    // the destructor waits again (nothing outstanding): bracket it as a wait call
    dsched::note("call wait %d", set);
    bool exc = false;
    try { ts.wait(); } catch (const std::runtime_error&) { exc = true; b.excSeen[set]++; }
    dsched::note("ret wait %d 1 %d", set, exc ? 1 : 0);
  } else {
    dispenso::ConcurrentTaskSet ts(*g_pool, pcc, (ssize_t)mult,
                                   heavy ? dispenso::TaskCost::kHeavy : dispenso::TaskCost::kLightweight);
    dsched::noPreempt(true);
    int set = ++g_numSets;
    g_sets[set - 1] = static_cast<dispenso::TaskSetBase*>(&ts);
    // the parent the library registered with (the set of the innermost *packaged* task on this thread, if any)
    b.parentOf[set] = ts.parent_ ? setId(ts.parent_) : 0;
    if (b.parentOf[set] == 63 || b.parentOf[set] == set) b.parentOf[set] = 0;
    dsched::noPreempt(false);
    int n = 1 + (int)a.rng.below(4);
    for (int i = 0; i < n; ++i) {
      int k = (int)a.rng.below(8);
      if (k < 3) singleOn(a, ts, set, false, depth);
      else if (k < 4) singleOn(a, ts, set, true, depth);
      else if (k < 6) bulkOn(a, ts, set, false, 1 + (int)a.rng.below(5), depth);
      else if (k < 7) bulkOn(a, ts, set, true, 1 + (int)a.rng.below(4), depth);
      else {
        dsched::note("call cancel %d", set);
        b.everCancelled[set] = 1;   // "may be cancelled" from the moment cancel() is entered …
        ts.cancel();
        b.cancelRet[set] = 1;       // … "cancel() has returned" only now
        dsched::note("ret cancel %d", set);
      }
    }
    waitOn(ts, set, idsOfSet(set), a.rng.below(3) == 0, a.rng);
    dsched::note("call wait %d", set);
    bool exc = false;
    try { ts.wait(); } catch (const std::runtime_error&) { exc = true; b.excSeen[set]++; }
    dsched::note("ret wait %d 1 %d", set, exc ? 1 : 0);
  }
}

// adapter so that the pool's own API can be driven by singleOn / bulkOn
struct PoolApi {
  template <typename F> void schedule(F&& f) { g_pool->schedule(std::forward<F>(f)); }
  template <typename F> void schedule(F&& f, dispenso::ForceQueuingTag t) { g_pool->schedule(std::forward<F>(f), t); }
  template <typename G> void scheduleBulk(size_t n, G&& g) { g_pool->scheduleBulk(n, std::forward<G>(g)); }
  template <typename G> void scheduleBulk(size_t n, G&& g, dispenso::ForceQueuingTag) { g_pool->scheduleBulk(n, std::forward<G>(g)); }
};

// one link of a chain: schedule the successor through the chosen path (the successor schedules its own successor …)
void chainStep(Actor& a, int left, int path) {
  PoolApi api;
  Book& b = *g_book;
  int set = path == 0 ? 0 : a.sharedId;
  Body body = mkBody(a, set, false, 0);
  body.thrower = false;
  body.selfCancel = false;
  body.chainLeft = left;
  body.chainPath = path;
  int id = body.id;
  b.inCall[id] = 1;
  dsched::note("call sched %d %d 0", set, id);
  guardedCall(set, [&] {
    if (path == 0) api.schedule(std::move(body));
    else a.shared->schedule(std::move(body));
  });
  b.inCall[id] = 0;
  dsched::note("ret sched");
}

void PoolApiFwd(Actor& a) {
  PoolApi api;
  singleOn(a, api, 0, true, 0);
}

void runOps(Actor& a, int nOps, int depth) {
  PoolApi api;
  for (int i = 0; i < nOps; ++i) {
    int k = (int)a.rng.below(10);
    if (k < 2) singleOn(a, api, 0, false, depth);
    else if (k < 4) singleOn(a, api, 0, true, depth);
    else if (k < 5) bulkOn(a, api, 0, false, 1 + (int)a.rng.below(5), depth);
    else if (k < 8) localTaskSet(a, depth);
    else if (a.shared) {
      if (a.rng.below(2)) singleOn(a, *a.shared, a.sharedId, a.rng.below(4) == 0, depth);
      else bulkOn(a, *a.shared, a.sharedId, a.rng.below(4) == 0, 1 + (int)a.rng.below(4), depth);
    } else singleOn(a, api, 0, false, depth);
  }
}

}  // namespace

int main(int argc, char** argv) {
  uint64_t seed = vh::argInt(argc, argv, 1, 1);
  long long N = vh::argInt(argc, argv, 2, 100);
  int flavour = (int)vh::argInt(argc, argv, 3, 0);
  long long start = vh::argInt(argc, argv, 4, 0);   // first scenario to run (the generator is advanced past the others)
  dsh::installStuckHandler();
  long long cases = 0, events = 0, backstops = 0;
  for (long long it = start; it < N; ++it) {
    vh::SplitMix rng(seed * 1000003ULL + (uint64_t)it);   // one generator per scenario: scenarios are independent
    std::printf("SCN %lld\n", it);
    dsched::Options o;
    o.seed = seed * 104729 + it;
    o.strategy = (it % 5 == 4) ? dsched::PCT : dsched::RANDOM;
    o.stickiness = 30 + (int)rng.below(65);
    Scn sc;
    sc.rng = &rng;
    sc.poolSize = (int)rng.below(4);                       // 0..3 threads
    sc.loadMult = rng.below(3) == 0 ? 1 : (rng.below(2) ? 2 : 32);
    sc.producers = (int)rng.below(3);                      // extra producer threads besides main
    sc.flavour = flavour;
    sc.throwing = rng.below(4) == 0;
    bool resizes = flavour == 2 || (flavour == 0 && rng.below(3) == 0);
    bool signaling = rng.below(4) != 0;
    bool chain = flavour == 3;                 // overloaded pool + chains of tasks scheduling their successor
    if (chain) {
      sc.poolSize = 1 + (int)rng.below(2);
      sc.loadMult = 1;
      sc.producers = 0;
      sc.throwing = false;
      resizes = false;
      signaling = true;
    }
    if (flavour == 5) {   // exception-heavy: every scenario throws, with lingering siblings
      sc.throwing = true;
      if (sc.poolSize == 0) sc.poolSize = 1 + (int)rng.below(3);
    }
    // resize(0) blocked in join() by a busy worker while a ring-routed bulk arrives; the resizer then drains the rings itself
    bool drainy = flavour == 2 && rng.below(5) == 0;
    if (drainy) {
      sc.poolSize = 2 + (int)rng.below(2);
      sc.loadMult = 32;
      sc.producers = 0;
      signaling = true;
    }
    bool sleepy = flavour == 4;   // workers are let to park between submissions: ring-routed bulk, then placed tasks through steal rings
    if (sleepy) {
      sc.poolSize = 2 + (int)rng.below(2);
      sc.loadMult = 32;
      sc.producers = (int)rng.below(2);
      resizes = false;
      signaling = true;
    }
    bool parkFirst = sleepy || (!chain && sc.poolSize > 0 && signaling && rng.below(3) == 0);   // workers asleep: proactive wake / steal rings
    std::string desc = "sched pool=" + std::to_string(sc.poolSize) + " load=" + std::to_string(sc.loadMult) +
        " producers=" + std::to_string(sc.producers) + " resizes=" + std::to_string(resizes) + " chain=" + std::to_string(chain) +
        " park=" + std::to_string(parkFirst) + " sleepy=" + std::to_string(sleepy) + " drainy=" + std::to_string(drainy) + " throwing=" +
        std::to_string(sc.throwing) + " signaling=" + std::to_string(signaling) + " seed=" + std::to_string(o.seed);
    auto& c = dsh::stuckCtx();
    c.signature = resizes ? "pool / task-set operation never returns while the pool is being resized"
                          : "pool / task-set operation never returns";
    c.detail = desc;
    Book book;
    g_book = &book;
    g_numSets = 0;
    dsched::ghostAdd(9, -dsched::ghostGet(9));
    long workAtQuiescence = 0;
    int stranded = 0;
    dsched::clearNames();
    dsched::RunInfo ri = dsched::run(o, [&] {
      {
        dsched::note("call resize");
        dispenso::ThreadPool pool((size_t)sc.poolSize, (size_t)sc.loadMult);
        g_pool = &pool;
        dsched::note("ret resize");
        if (!signaling && rng.below(2) == 0) {
          dsched::note("call resize");
          pool.setSignalingWake(false, 200);
          dsched::note("ret resize");
        }
        {
          if (parkFirst) {
            for (int i = 0; i < 300; ++i) {
              auto* ws = pool.wakeState_.load(std::memory_order_relaxed);
              if (ws && ws->totalSleeping() == sc.poolSize) break;
              std::this_thread::sleep_for(std::chrono::microseconds(100));
            }
          }
          dispenso::ConcurrentTaskSet shared(pool, (sleepy || rng.below(2)) ? dispenso::TaskCost::kHeavy : dispenso::TaskCost::kLightweight,
                                             (ssize_t)(chain ? 0 : (rng.below(2) ? 4 : 1)));
          int sharedId = ++g_numSets;
          g_sets[sharedId - 1] = static_cast<dispenso::TaskSetBase*>(&shared);
          std::atomic<int> release{0};
          if (chain) {
            // fillers keep the pool and the shared set over their load factors until the chain is done
            PoolApi api;
            Actor fa(&sc, rng.next(), &shared, sharedId);
            auto filler = [&](int set) {
              Body body = mkBody(fa, set, true, 0);
              body.thrower = false; body.selfCancel = false; body.hold = &release;
              int id = body.id;
              dsched::note("call sched %d %d 1", set, id);
              if (set == 0) api.schedule(std::move(body), dispenso::ForceQueuingTag());
              else shared.schedule(std::move(body), dispenso::ForceQueuingTag());
              dsched::note("ret sched");
            };
            for (int f = 0; f < 2 * sc.poolSize + 2; ++f) filler(0);
            filler(sharedId);
            int len = 36 + (int)fa.rng.below(30);
            long before = dsched::ghostGet(13);
            chainStep(fa, len - 1, (int)fa.rng.below(2));
            // the inline part of the chain is over (a link was queued or the chain ended): let the fillers go
            release.store(1, std::memory_order_release);
            for (int spinN = 0; spinN < 200000 && dsched::ghostGet(13) - before < len + 2 * sc.poolSize + 3; ++spinN)
              std::this_thread::sleep_for(std::chrono::microseconds(200));
          }
          std::vector<std::thread> ths;
          std::vector<Actor*> actors;
          for (int p = 0; p < sc.producers; ++p) {
            actors.push_back(new Actor(&sc, rng.next(), &shared, sharedId));
            Actor* ap = actors.back();
            ths.emplace_back([ap] { runOps(*ap, 1 + (int)ap->rng.below(4), 1); });
          }
          Actor mainA(&sc, rng.next(), &shared, sharedId);
          auto waitParked = [&] {
            for (int i = 0; i < 300; ++i) {
              auto* ws = pool.wakeState_.load(std::memory_order_relaxed);
              if (ws && ws->totalSleeping() == sc.poolSize) break;
              std::this_thread::sleep_for(std::chrono::microseconds(100));
            }
          };
          if (drainy) {
            PoolApi api;
            std::atomic<int> release{0};
            Body blocker = mkBody(mainA, 0, true, 0);
            blocker.thrower = false; blocker.selfCancel = false; blocker.lingering = 0; blocker.followUp = false; blocker.hold = &release;
            int bid = blocker.id;
            dsched::note("call sched 0 %d 1", bid);
            api.schedule(std::move(blocker), dispenso::ForceQueuingTag());
            dsched::note("ret sched");
            for (int i = 0; i < 2000 && !book.ran[bid]; ++i) std::this_thread::sleep_for(std::chrono::microseconds(100));
            long r0 = dsched::ghostGet(16);
            std::thread resizer([&] {
              book.poolNeverZero = 0;
              dsched::note("call resize");
              t_inResize = 1;
              pool.resize(0);
              t_inResize = 0;
              dsched::ghostAdd(15, 1);
              dsched::note("ret resize");
            });
            for (int i = 0; i < 2000 && dsched::ghostGet(16) == r0; ++i) std::this_thread::yield();
            {
              dispenso::TaskSet ts(pool);
              dsched::noPreempt(true);
              int set = ++g_numSets;
              g_sets[set - 1] = static_cast<dispenso::TaskSetBase*>(&ts);
              book.parentOf[set] = 0;
              dsched::noPreempt(false);
              bulkOn(mainA, ts, set, false, sc.poolSize, 0);
              release.store(1, std::memory_order_release);
              // let the resizer finish first: it drains the rings itself and runs the tasks (and their follow-ups)
              resizer.join();
              waitOn(ts, set, idsOfSet(set), false, mainA.rng);
              dsched::note("call wait %d", set);
              ts.wait();
              dsched::note("ret wait %d 1 0", set);
            }
          }
          if (sleepy) {
            // a ring-routed bulk (count about the pool size) makes the workers prefer their rings …
            {
              dispenso::TaskSet ts(pool);
              dsched::noPreempt(true);
              int set = ++g_numSets;
              g_sets[set - 1] = static_cast<dispenso::TaskSetBase*>(&ts);
              book.parentOf[set] = 0;
              dsched::noPreempt(false);
              bulkOn(mainA, ts, set, false, sc.poolSize, 0);
              waitOn(ts, set, idsOfSet(set), false, mainA.rng);
              dsched::note("call wait %d", set);
              ts.wait();
              dsched::note("ret wait %d 1 0", set);
            }
            // … then placed / plain tasks arrive while they are parked
            int rounds = 2 + (int)mainA.rng.below(3);
            for (int r = 0; r < rounds; ++r) {
              waitParked();
              if (mainA.rng.below(3) != 0) singleOn(mainA, shared, sharedId, mainA.rng.below(3) == 0, 0);
              else runOps(mainA, 1, 1);
            }
          }
          int steps = sleepy ? 0 : 1 + (int)mainA.rng.below(4);
          if (drainy) steps = (int)mainA.rng.below(2);
          for (int s = 0; s < steps; ++s) {
            if (resizes && mainA.rng.below(2) == 0) {
              int n = (int)mainA.rng.below(4);
              if (n == 0) book.poolNeverZero = 0;
              dsched::note("call resize");
              t_inResize = 1;
              pool.resize(n);
              t_inResize = 0;
              dsched::ghostAdd(15, 1);   // resize epoch: generators parked in a bulk call may go on
              dsched::note("ret resize");
            } else if (!chain && mainA.rng.below(8) == 0) {
              // cancel the shared set: sets created with ParentCascadeCancel::kOn inside its tasks are cancelled too
              dsched::note("call cancel %d", sharedId);
              book.everCancelled[sharedId] = 1;
              shared.cancel();
              book.cancelRet[sharedId] = 1;
              dsched::note("ret cancel %d", sharedId);
            } else {
              runOps(mainA, 1, 1);
            }
          }
          if (sc.poolSize == 0) book.poolNeverZero = 0;
          for (auto& t : ths) t.join();
          for (Actor* ap : actors) delete ap;
          waitOn(shared, sharedId, idsOfSet(sharedId), false, mainA.rng);
          dsched::note("call wait %d", sharedId);
          bool exc = false;
          try { shared.wait(); } catch (const std::runtime_error&) { exc = true; book.excSeen[sharedId]++; }
          dsched::note("ret wait %d 1 %d", sharedId, exc ? 1 : 0);
        }
        // quiescence: all task sets have been waited for; wait until the directly submitted tasks finished.
        // Half of the scenarios skip this and destroy the pool at once, with direct tasks possibly still
        // queued (~ThreadPool must run them) or sitting where only the destructor will find them.
        int nIds = (int)dsched::ghostGet(9);
        bool destroyAtOnce = rng.below(2) == 0;
        for (int spin = 0; !destroyAtOnce && spin < 20000; ++spin) {
          bool all = true;
          for (int id = 1; id <= nIds; ++id) if (book.setOf[id] == 0 && !book.ended[id]) all = false;
          if (all) break;
          std::this_thread::sleep_for(std::chrono::microseconds(300));   // lets virtual time pass: parked workers wake by their backstop
        }
        long w = 0;
        for (int spin = 0; !destroyAtOnce && spin < 4000; ++spin) {
          w = (long)pool.workRemaining_.load(std::memory_order_relaxed);
          if (w == 0) break;
          std::this_thread::sleep_for(std::chrono::microseconds(300));
        }
        bool allEnded = true;
        for (int id = 1; id <= nIds; ++id) if (book.setOf[id] == 0 && !book.ended[id]) allEnded = false;
        if (destroyAtOnce) {
          // no quiescence claim
        } else if (allEnded) {
          workAtQuiescence = w;
          if (w == 0) dsched::note("quiesce %ld", w);
        } else {
          // C03: a task sits where no thread will run it (only the destructor will)
          stranded = 1;
          bool fromResizer = false;
          for (int id = 1; id <= nIds; ++id) if (book.setOf[id] == 0 && !book.ended[id] && book.byResizer[id]) fromResizer = true;
          if (fromResizer)
            std::printf("PFAIL task scheduled by a task that resize() itself ran was left where no thread runs it | %s threads_now=%ld central_queue=%zu\n",
                        desc.c_str(), (long)pool.numThreads(), pool.work_.size_approx());
          else if (pool.numThreads() == 0 && pool.work_.size_approx() > 0)
            std::printf("PFAIL task stranded in the central queue of a pool resized to zero threads while it was being scheduled | %s central_queue=%zu\n",
                        desc.c_str(), pool.work_.size_approx());
          else
            std::printf("PFAIL task stranded: no thread runs it until the pool is destroyed | %s threads_now=%ld central_queue=%zu\n",
                        desc.c_str(), (long)pool.numThreads(), pool.work_.size_approx());
        }
        dsched::note("call pooldtor");
      }
      dsched::note("ret pooldtor");
      g_pool = nullptr;
    });
    ++cases;
    backstops += ri.backstopsFired;
    events += (long long)dsched::trace().size();
    int nIds = (int)dsched::ghostGet(9);
    // ---- oracles
    int direct = 0, setTasks = 0, skipped = 0;
    for (int id = 1; id <= nIds && id < kMaxIds; ++id) {
      int s = book.setOf[id];
      if (s == 0) {
        ++direct;
        if (book.ran[id] != 1)
          std::printf("PFAIL task handed to the pool did not run exactly once by the end of ~ThreadPool | %s id=%d ran=%d\n", desc.c_str(), id, (int)book.ran[id]);
      } else if (s > 0) {
        ++setTasks;
        if (book.ran[id] > 1)
          std::printf("PFAIL task-set task ran more than once | %s id=%d set=%d ran=%d\n", desc.c_str(), id, s, (int)book.ran[id]);
        if (book.ran[id] == 0) {
          ++skipped;
          if (!mayBeCancelled(s))
            std::printf("PFAIL task of a never-cancelled task set did not run | %s id=%d set=%d\n", desc.c_str(), id, s);
        }
        if (book.ran[id] && book.subAfterCancelRet[id])
          std::printf("PFAIL task scheduled after cancel() returned was executed | %s id=%d set=%d\n", desc.c_str(), id, s);
      }
      if (book.fq[id] && book.ranOnCaller[id] && book.poolNeverZero)
        std::printf("PFAIL ForceQueuingTag task ran on the scheduling caller before the call returned | %s id=%d set=%d\n", desc.c_str(), id, s);
    }
    for (int s = 1; s <= g_numSets; ++s) {
      if (book.excSeen[s] > book.excThrown[s])
        std::printf("PFAIL more exceptions delivered than thrown | %s set=%d seen=%d thrown=%d\n", desc.c_str(), s, (int)book.excSeen[s], (int)book.excThrown[s]);
      if (book.excSeen[s] > book.captures[s])
        std::printf("PFAIL more exceptions delivered than captured | %s set=%d seen=%d captured=%d\n", desc.c_str(), s, (int)book.excSeen[s], (int)book.captures[s]);
      if (book.excThrown[s] - book.excDirect[s] > 0 && book.excSeen[s] == 0)
        std::printf("PFAIL exception thrown by a task of the set was never delivered by wait | %s set=%d thrown=%d direct=%d\n", desc.c_str(), s,
                    (int)book.excThrown[s], (int)book.excDirect[s]);
      if (book.captures[s] > 0 && book.excSeen[s] == 0)
        std::printf("PFAIL captured exception never delivered by wait | %s set=%d captured=%d\n", desc.c_str(), s, (int)book.captures[s]);
    }
    if (workAtQuiescence != 0 && !stranded)
      std::printf("PFAIL pool pending-work counter not zero at quiescence | %s workRemaining=%ld\n", desc.c_str(), workAtQuiescence);
    std::printf("NT p%d.l%d.pr%d.rz%d.th%d.d%d.s%d.k%d\n", sc.poolSize, sc.loadMult, sc.producers, (int)resizes, (int)sc.throwing,
                direct > 6 ? 6 : direct, setTasks > 12 ? 12 : setTasks, skipped > 3 ? 3 : skipped);
    dsh::emitTrace("sched 0", desc);
  }
  std::printf("STAT cases %lld\nSTAT events %lld\nSTAT backstops_fired %lld\n", cases, events, backstops);
  std::fflush(stdout);
  _exit(0);
}
