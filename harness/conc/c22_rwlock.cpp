// C22: RWLock under the deterministic scheduler. 2..4 threads perform bounded sequences of
// lock operations that respect the usage contract (unlock what you hold; one upgrader at a time).
// usage: c22_rwlock <seed> <scenarios>
#include <thread>
#include <vector>
#include "dsched/dsh.h"
#define private public
#define protected public
#include <dispenso/rw_lock.h>
#undef private
#undef protected

static long long cases = 0;

int main(int argc, char** argv) {
  uint64_t seed = vh::argInt(argc, argv, 1, 1);
  long long N = vh::argInt(argc, argv, 2, 200);
  vh::SplitMix rng(seed);
  dsh::installStuckHandler();
  for (long long it = 0; it < N; ++it) {
    dsched::Options o;
    o.seed = seed * 49979687 + it;
    o.strategy = (it % 4 == 3) ? dsched::PCT : dsched::RANDOM;
    o.stickiness = 15 + (int)rng.below(75);
    int nthreads = (int)rng.range(2, 4), rounds = (int)rng.range(1, 3);
    std::string desc = "rwlock threads=" + std::to_string(nthreads) + " rounds=" + std::to_string(rounds) + " seed=" + std::to_string(o.seed);
    auto& c = dsh::stuckCtx();
    c.signature = "RWLock locker never proceeds although conflicts were released";
    c.detail = desc;
    int writersIn = 0, readersIn = 0, bad = 0;
    bool upgraderBusy = false;
    std::string badWhy;
    // lock_upgrade is only safe when a single thread can try to lock for write (rw_lock.h): in
    // upgrade scenarios thread 0 is the only writer/upgrader and the others only take shared locks
    bool upgradeMode = rng.below(3) == 0;
    desc += upgradeMode ? " mode=upgrade" : " mode=mixed";
    c.detail = desc;
    std::vector<std::vector<int>> plans(nthreads);
    for (int ti = 0; ti < nthreads; ++ti)
      for (int r = 0; r < rounds; ++r) {
        int k = (int)rng.below(12);
        if (upgradeMode && ti != 0) k = 2 + (k % 2) + 4 * ((k / 4) == 1 ? 0 : (k / 4));  // shared only, no conversion
        if (!upgradeMode && (k % 4) >= 2 && k / 4 == 1) k -= 4;                             // no upgrades in mixed mode
        plans[ti].push_back(k);
      }
    dsched::clearNames();
    dsched::run(o, [&] {
      dispenso::RWLock lk;
      dsched::nameRegion(&lk.event_, sizeof(int), "word");
      auto enterW = [&] { ++writersIn; if (writersIn != 1 || readersIn != 0) { ++bad; badWhy = "writer not exclusive"; } };
      auto leaveW = [&] { --writersIn; };
      auto enterR = [&] { ++readersIn; if (writersIn != 0) { ++bad; badWhy = "reader admitted while a writer holds the lock"; } };
      auto leaveR = [&] { --readersIn; };
      std::vector<std::thread> ths;
      for (int ti = 0; ti < nthreads; ++ti)
        ths.emplace_back([&, ti] {
          for (int k : plans[ti]) {
            int kind = k % 4;  // 0 lock, 1 try_lock, 2 lock_shared, 3 try_lock_shared
            int conv = k / 4;  // 0 plain, 1 convert (upgrade/downgrade), 2 plain
            bool w = false, r = false;
            if (kind == 0) { DS_CALL("lock"); lk.lock(); enterW(); DS_RET("lock 1"); w = true; }
            else if (kind == 1) { DS_CALL("try_lock"); bool ok = lk.try_lock(); if (ok) enterW(); DS_RET("try_lock %d", ok ? 1 : 0); w = ok; }
            else if (kind == 2) { DS_CALL("lock_shared"); lk.lock_shared(); enterR(); DS_RET("lock_shared 1"); r = true; }
            else { DS_CALL("try_lock_shared"); bool ok = lk.try_lock_shared(); if (ok) enterR(); DS_RET("try_lock_shared %d", ok ? 1 : 0); r = ok; }
            if (w && conv == 1) {
              DS_CALL("lock_downgrade");
              leaveW(); ++readersIn;  // from the call on we only claim shared access
              lk.lock_downgrade();
              if (writersIn != 0) { ++bad; badWhy = "writer present after downgrade"; }
              DS_RET("lock_downgrade 0");
              w = false; r = true;
            } else if (r && conv == 1 && !upgraderBusy) {
              upgraderBusy = true;
              DS_CALL("lock_upgrade");
              leaveR();
              lk.lock_upgrade();
              enterW();
              DS_RET("lock_upgrade 1");
              upgraderBusy = false;
              r = false; w = true;
            }
            if (w) { DS_CALL("unlock"); leaveW(); lk.unlock(); DS_RET("unlock 0"); }
            if (r) { DS_CALL("unlock_shared"); leaveR(); lk.unlock_shared(); DS_RET("unlock_shared 0"); }
          }
        });
      for (auto& t : ths) t.join();
      if (*reinterpret_cast<volatile int*>(&lk.event_) != 0) { ++bad; badWhy = "lock word not zero after all locks were released"; }
    });
    ++cases;
    if (bad) std::printf("PFAIL RWLock mutual exclusion / restore contract violated | %s why=%s\n", desc.c_str(), badWhy.c_str());
    std::string nt = "T" + std::to_string(nthreads) + " plan";
    for (auto& p : plans) { for (int k : p) nt += "." + std::to_string(k); nt += "|"; }
    std::printf("NT %s\n", nt.c_str());
    dsh::emitTrace("rwlock", desc);
  }
  std::printf("STAT cases %lld\n", cases);
  std::fflush(stdout);
  _exit(0);
}
