// C07 / C09, component level: the REAL dispenso::detail::PoolWakeState + EpochWaiter (Linux futex
// variant) + ThreadPool::PerThreadData::stop under the deterministic scheduler.
//
// Worker threads execute the park sequence of ThreadPool::threadLoopImpl<true> (thread_pool.cpp), which is
// replicated here because the loop is a private member that cannot run without a whole pool:
//     uint32_t epoch = ws->waiterFor(i).current();
//     while (data.running()) { ... ws->enterSleep(i); if (!data.running()) { ws->exitSleep(i); break; }
//                              epoch = waiterFor(i).waitFor(epoch, sleepLengthUs); ws->exitSleep(i); }
// (harness/conc/c07_wake.cpp exercises the real loop inside a real pool).  Producer threads call
// claimAndWakeOne / cascadeWake / wakeRange / cascadeWakeSeed / totalSleeping; the stopper executes the stop
// path of ~ThreadPool / resizeLocked: PerThreadData::stop() for every thread, then wakeAll().
// Every atomic operation on the wake state and every futex call is traced and replayed through the Lean
// model (plug-in `wake`).  Oracles:
//   C09  after stop + wakeAll returned every worker leaves its loop without any futex wait timing out;
//   C07  (component part that does hold) with every worker parked, a wake call makes at least as many workers
//        leave the futex as it claimed / counted, without a time-out.  Which members are woken is arbitrary:
//        `STAT wrong_member` counts claimAndWakeOne calls whose woken worker is not the claimed one.
// usage: c09_wakestate <seed> <scenarios> <mode: 0 mixed, 7 all-parked wake-ups, 9 stop at random moments> [first scenario]
#include <atomic>
#include <chrono>
#include <thread>
#include <vector>
#define private public
#define protected public
#include <dispenso/thread_pool.h>
#undef private
#undef protected
#include "dsched/dsh.h"

namespace {
using namespace std::chrono;
using dispenso::detail::PoolWakeState;
using PTD = dispenso::ThreadPool::PerThreadData;

constexpr uint64_t kSleepUs = 100000;  // the pool's DISPENSO_WAKE_BACKSTOP_US
constexpr int kParkedSlot = 8;         // ghost: workers inside waitFor
constexpr int kWokenSlot = 9;          // ghost: returns from waitFor
constexpr int kExitSlot = 10;          // ghost: workers that left the loop

struct Scn {
  int n, g, producers, opsPer, mode;
  bool spurious;
};

bool take(std::atomic<int>& c) {
  int v = c.load(std::memory_order_relaxed);
  while (v > 0)
    if (c.compare_exchange_weak(v, v - 1, std::memory_order_acq_rel)) return true;
  return false;
}

}  // namespace

int main(int argc, char** argv) {
  uint64_t seed = vh::argInt(argc, argv, 1, 1);
  long long NS = vh::argInt(argc, argv, 2, 100);
  int mode = (int)vh::argInt(argc, argv, 3, 0);
  long long start = vh::argInt(argc, argv, 4, 0);
  dsh::installStuckHandler();
  long long cases = 0, wrongMember = 0, allParkedCases = 0, claimedUnwokenAtStop = 0;
  for (long long it = start; it < NS; ++it) {
    vh::SplitMix rng(seed * 1000003ULL + (uint64_t)it);
    std::printf("SCN %lld\n", it);
    dsched::Options o;
    o.seed = seed * 7919 + it;
    o.strategy = (it % 4 == 3) ? dsched::PCT : dsched::RANDOM;
    o.stickiness = 30 + (int)rng.below(60);
    o.randomWake = true;
    Scn sc;
    sc.mode = mode ? mode : (rng.below(2) ? 7 : 9);
    sc.n = 1 + (int)rng.below(5);
    int gs[] = {1, 2, 3, 8, sc.n, 64};
    sc.g = gs[rng.below(6)];
    sc.producers = (int)rng.below(4);
    sc.opsPer = 1 + (int)rng.below(4);
    sc.spurious = sc.mode == 9 && rng.below(3) == 0;  // EINTR injection (not in the all-parked counting scenarios)
    if (sc.spurious) o.spuriousPerMille = 40;
    int wakeOp = (int)rng.below(4);           // mode 7: 0 claimAndWakeOne, 1 wakeRange, 2 cascadeWakeSeed, 3 cascadeWake
    int wakeArg = 1 + (int)rng.below((uint64_t)sc.n + 2);
    int stopWhen = (int)rng.below(4);         // mode 9: 0 immediately, 1 after some yields, 2 after the producers, 3 when all parked
    int numGroups = (sc.n + sc.g - 1) / sc.g;
    std::string desc = std::string(sc.mode == 7 ? "wake" : "stop") + " threads=" + std::to_string(sc.n) + " group=" +
        std::to_string(sc.g) + " producers=" + std::to_string(sc.producers) + " ops=" + std::to_string(sc.opsPer) +
        " spurious=" + std::to_string(sc.spurious) + " wakeOp=" + std::to_string(wakeOp) + " arg=" + std::to_string(wakeArg) +
        " stopWhen=" + std::to_string(stopWhen) + " seed=" + std::to_string(o.seed);
    auto& c = dsh::stuckCtx();
    c.signature = "worker still parked after stop + wakeAll returned (never leaves its loop)";
    c.detail = desc;
    long bsStop = 0, timeoutsStop = 0;
    long expectWoken = -1, gotWoken = 0, bsWake = 0;
    int claimed = -2;
    std::vector<int> wokenOrder;
    bool allParked = false, stoppedWithUnwoken = false;
    for (int s = kParkedSlot; s <= kExitSlot; ++s) dsched::ghostAdd(s, -dsched::ghostGet(s));
    dsched::clearNames();
    dsched::run(o, [&] {
      PoolWakeState ws(sc.n, sc.g);
      std::vector<PTD> data((size_t)sc.n);
      std::vector<std::atomic<int>> ring((size_t)sc.n);
      for (auto& r : ring) r.store(0, std::memory_order_relaxed);
      std::atomic<int> central{0};
      char nm[32];
      dsched::nameRegion(&ws.totalSleeping_, sizeof(ws.totalSleeping_), "total");
      dsched::nameRegion(&ws.nextWakeGroup_, sizeof(ws.nextWakeGroup_), "nwg");
      for (int g = 0; g < numGroups; ++g) {
        std::snprintf(nm, sizeof nm, "mask%d", g);
        dsched::nameRegion(&ws.groupStates_[(size_t)g].sleepMask, 8, nm);
        std::snprintf(nm, sizeof nm, "ep%d", g);
        dsched::nameRegion(&ws.waiterBlocks_[(size_t)g].waiter, 4, nm);
      }
      for (int i = 0; i < sc.n; ++i) {
        std::snprintf(nm, sizeof nm, "run%d", i);
        dsched::nameRegion(&data[(size_t)i].running_, sizeof(data[(size_t)i].running_), nm);
      }
      std::vector<std::thread> workers, producers;
      for (int i = 0; i < sc.n; ++i)
        workers.emplace_back([&, i] {
          vh::SplitMix wr(seed * 31 + (uint64_t)it * 7 + (uint64_t)i);
          PTD& d = data[(size_t)i];
          DS_CALL("wStart %d", i);
          uint32_t epoch = ws.waiterFor(i).current();
          DS_RET("wStart %u", epoch);
          int spins = 0, limit = 1 + (int)wr.below(4);
          for (;;) {
            DS_CALL("wRun");
            bool r = d.running_.load(std::memory_order_acquire);  // PerThreadData::running()
            DS_RET("wRun %d", r ? 1 : 0);
            if (!r) break;
            if (take(ring[(size_t)i]) || take(central)) { spins = 0; continue; }
            if (++spins < limit) { std::this_thread::yield(); continue; }
            spins = 0;
            limit = 1 + (int)wr.below(4);
            DS_CALL("wPark");
            ws.enterSleep(i);
            if (!d.running_.load(std::memory_order_acquire)) {
              ws.exitSleep(i);
              DS_RET("wPark 0");
              break;
            }
            dsched::ghostAdd(kParkedSlot, 1);
            epoch = ws.waiterFor(i).waitFor(epoch, kSleepUs);
            dsched::ghostAdd(kParkedSlot, -1);
            dsched::ghostAdd(kWokenSlot, 1);
            wokenOrder.push_back(i);
            ws.exitSleep(i);
            DS_RET("wPark %u", epoch);
          }
          dsched::ghostAdd(kExitSlot, 1);
        });
      auto waitAllParked = [&] {
        for (int k = 0; k < 300; ++k) {
          if (dsched::ghostGet(kParkedSlot) == sc.n) {
            // a short sleep can only expire when every other thread is blocked
            std::this_thread::sleep_for(microseconds(150));
            if (dsched::ghostGet(kParkedSlot) == sc.n) return true;
          }
          std::this_thread::sleep_for(microseconds(100));
        }
        return false;
      };
      auto producerOp = [&](vh::SplitMix& pr) {
        switch (pr.below(6)) {
          case 0:
          case 1: {
            DS_CALL("claimAndWakeOne");
            int idx = ws.claimAndWakeOne();
            DS_RET("claimAndWakeOne %d", idx);
            if (idx >= 0 && pr.coin()) ring[(size_t)idx].fetch_add(1, std::memory_order_release);
            else central.fetch_add(1, std::memory_order_release);
            break;
          }
          case 2: {
            int cnt = (int)pr.below((uint64_t)sc.n + 3) - 1;
            DS_CALL("wakeRange %d", cnt);
            ws.wakeRange(cnt);
            DS_RET("wakeRange 0");
            break;
          }
          case 3: {
            int cnt = (int)pr.below((uint64_t)sc.n + 3) - 1;
            DS_CALL("cascadeWakeSeed %d", cnt);
            bool cold = ws.cascadeWakeSeed(cnt);
            DS_RET("cascadeWakeSeed %d", cnt <= 0 ? 0 : (cold ? 1 : 0));
            break;
          }
          case 4: {
            int tg = (int)pr.below((uint64_t)numGroups);
            DS_CALL("cascadeWake %d", tg);
            ws.cascadeWake(tg);
            DS_RET("cascadeWake 0");
            break;
          }
          default: {
            DS_CALL("totalSleeping");
            int t = ws.totalSleeping();
            DS_RET("totalSleeping %d", t);
            break;
          }
        }
      };
      if (sc.mode == 7) {
        // every worker parked, then exactly one wake call by this thread
        allParked = waitAllParked();
        if (allParked) {
          long w0 = dsched::ghostGet(kWokenSlot), b0 = dsched::backstopsSoFar();
          size_t o0 = wokenOrder.size();
          switch (wakeOp) {
            case 0: {
              DS_CALL("claimAndWakeOne");
              claimed = ws.claimAndWakeOne();
              DS_RET("claimAndWakeOne %d", claimed);
              expectWoken = 1;
              break;
            }
            case 1:
              DS_CALL("wakeRange %d", wakeArg);
              ws.wakeRange(wakeArg);
              DS_RET("wakeRange 0");
              expectWoken = std::min(wakeArg, sc.n);
              break;
            case 2: {
              DS_CALL("cascadeWakeSeed %d", wakeArg);
              bool cold = ws.cascadeWakeSeed(wakeArg);
              DS_RET("cascadeWakeSeed %d", cold ? 1 : 0);
              expectWoken = std::min(wakeArg, sc.n);
              break;
            }
            default: {
              int tg = wakeArg % numGroups;
              DS_CALL("cascadeWake %d", tg);
              ws.cascadeWake(tg);
              DS_RET("cascadeWake 0");
              expectWoken = std::min(sc.g, sc.n - tg * sc.g);
              break;
            }
          }
          std::this_thread::sleep_for(milliseconds(2));
          gotWoken = dsched::ghostGet(kWokenSlot) - w0;
          bsWake = dsched::backstopsSoFar() - b0;
          if (wakeOp == 0 && claimed >= 0 && wokenOrder.size() > o0 && wokenOrder[o0] != claimed) ++wrongMember;
        }
        // further traffic before the stop
        for (int p = 0; p < sc.producers; ++p)
          producers.emplace_back([&, p] {
            vh::SplitMix pr(seed * 131 + (uint64_t)it * 17 + (uint64_t)p);
            for (int k = 0; k < sc.opsPer; ++k) producerOp(pr);
          });
        if (rng.coin()) for (auto& t : producers) t.join();
      } else {
        for (int p = 0; p < sc.producers; ++p)
          producers.emplace_back([&, p] {
            vh::SplitMix pr(seed * 131 + (uint64_t)it * 17 + (uint64_t)p);
            for (int k = 0; k < sc.opsPer; ++k) producerOp(pr);
          });
        if (stopWhen == 1) for (int y = (int)rng.below(40); y > 0; --y) std::this_thread::yield();
        if (stopWhen == 2) for (auto& t : producers) t.join();
        if (stopWhen == 3) allParked = waitAllParked();
      }
      // the stop path of ~ThreadPool / resizeLocked
      {
        // a worker blocked on the futex whose sleep-mask bit is already clear (claimed, wake went elsewhere)
        uint64_t anyMask = 0;
        for (int g = 0; g < numGroups; ++g) {  // plain peek (not an event of the protocol)
          uint64_t m;
          std::memcpy(&m, static_cast<const void*>(&ws.groupStates_[(size_t)g].sleepMask), sizeof m);
          anyMask |= m;
        }
        stoppedWithUnwoken = anyMask == 0 && dsched::ghostGet(kParkedSlot) > 0;
      }
      long b0 = dsched::backstopsSoFar(), t0 = dsched::timeoutsSoFar();
      DS_CALL("stopAll");
      for (auto& d : data) d.stop();
      ws.wakeAll();
      DS_RET("stopAll 0");
      for (auto& t : workers) t.join();
      bsStop = dsched::backstopsSoFar() - b0;
      timeoutsStop = dsched::timeoutsSoFar() - t0;
      for (auto& t : producers) if (t.joinable()) t.join();
    });
    ++cases;
    if (allParked) ++allParkedCases;
    if (stoppedWithUnwoken) ++claimedUnwokenAtStop;
    if (bsStop > 0)
      std::printf("PFAIL worker still parked after stop + wakeAll returned (left the futex only by its sleep backstop) | %s backstops=%ld timeouts=%ld\n",
                  desc.c_str(), bsStop, timeoutsStop);
    if (dsched::ghostGet(kExitSlot) != sc.n)
      std::printf("PFAIL worker still running after stop + wakeAll and join | %s exited=%ld\n", desc.c_str(), dsched::ghostGet(kExitSlot));
    if (sc.mode == 7 && allParked) {
      if (wakeOp == 0 && claimed < 0)
        std::printf("PFAIL claimAndWakeOne found no sleeper although every worker was parked with its sleep bit set | %s\n", desc.c_str());
      else if (gotWoken < expectWoken || bsWake > 0)
        std::printf("PFAIL wake call on an all-parked wake state released fewer workers than it claimed / counted | %s expected=%ld woken=%ld backstops=%ld\n",
                    desc.c_str(), expectWoken, gotWoken, bsWake);
    }
    std::printf("NT m%d.n%d.g%d.p%d.w%d.s%d.sp%d\n", sc.mode, sc.n, sc.g, sc.producers, sc.mode == 7 ? wakeOp : 0,
                sc.mode == 9 ? stopWhen : 0, (int)sc.spurious);
    char params[48];
    std::snprintf(params, sizeof params, "wake %d %d", sc.n, sc.g);
    dsh::emitTrace(params, desc);
  }
  std::printf("STAT cases %lld\nSTAT all_parked %lld\nSTAT wrong_member %lld\nSTAT claimed_unwoken_at_stop %lld\n", cases, allParkedCases,
              wrongMember, claimedUnwokenAtStop);
  std::fflush(stdout);
  _exit(0);
}
