// C25: dispenso::ResourcePool / Resource under the deterministic scheduler.
// 1..4 threads work on a pool of 1..4 resources through heap-allocated Resource handles: acquire() into a
// fresh handle, move construction, move assignment (over holding / empty / the same handle), destruction;
// some handles are acquired by the main thread and handed to the workers.  Per-thread limits on the number
// of resources held at once are chosen so that hold-and-wait cannot deadlock (sum of (limit-1) < size)
// while threads still contend and block.  The call/ret-level trace is replayed through the Lean model
// (plug-in `respool`); the oracle keeps per-resource holder counters and construction / destruction
// counters, and checks every decision of a thread to block on the semaphore (the fetch_sub on
// LightweightSemaphore::m_count that observes <= 0) against the resources that were certainly free.
// usage: c25_respool <seed> <scenarios>
#include <semaphore.h>
#include <algorithm>
#include <array>
#include <atomic>
#include <cassert>
#include <cerrno>
#include <chrono>
#include <climits>
#include <cstddef>
#include <cstdint>
#include <cstdlib>
#include <cstring>
#include <ctime>
#include <functional>
#include <limits>
#include <map>
#include <memory>
#include <mutex>
#include <set>
#include <thread>
#include <tuple>
#include <type_traits>
#include <utility>
#include <vector>
#define private public
#include <dispenso/resource_pool.h>
#undef private
#include "dsched/dsh.h"

// bookkeeping shared by managed threads: only through non-inlined functions
static std::vector<int> g_constructed, g_destroyed, g_holders;
static int g_totalHeld = 0, g_nextHid = 1, g_dtorStarted = 0;
static std::vector<std::string> g_bad;
__attribute__((noinline)) static void bad(const std::string& sig, const std::string& det) { g_bad.push_back(sig + " | " + det); }
__attribute__((noinline)) static int newHid() { return g_nextHid++; }
__attribute__((noinline)) static void onConstruct(int id) { if (id >= 0 && id < (int)g_constructed.size()) ++g_constructed[(size_t)id]; else bad("ResourcePool constructed an unexpected resource", std::to_string(id)); }
__attribute__((noinline)) static void onDestroy(int id) {
  if (id >= 0 && id < (int)g_destroyed.size()) ++g_destroyed[(size_t)id];
  if (!g_dtorStarted) bad("ResourcePool resource destroyed before the pool's destructor", std::to_string(id));
  if (id >= 0 && id < (int)g_holders.size() && g_holders[(size_t)id] != 0) bad("ResourcePool destroyed a resource that a handle still holds", std::to_string(id));
}
__attribute__((noinline)) static void onHold(int id, int size, const std::string& desc) {
  if (id < 0 || id >= size) { bad("ResourcePool acquire() returned an unknown resource", desc); return; }
  if (++g_holders[(size_t)id] > 1) bad("ResourcePool resource held by two handles at once", desc + " resource=" + std::to_string(id));
  if (++g_totalHeld > size) bad("ResourcePool more than size resources held", desc);
}
__attribute__((noinline)) static void onRelease(int id) { --g_holders[(size_t)id]; --g_totalHeld; }

struct Res {
  int id;
  std::atomic<int> touch{0};
  explicit Res(int i) : id(i) { DS_CALL("ctorT %d", id); onConstruct(id); }
  Res(const Res&) = delete;
  Res& operator=(const Res&) = delete;
  ~Res() { DS_CALL("dtorT %d", id); onDestroy(id); }
};
using H = dispenso::Resource<Res>;
using Pool = dispenso::ResourcePool<Res>;

struct Slot {
  H* h = nullptr;
  int hid = 0;
};
static int ridOf(const Slot& s) { return (s.h && s.h->resource_) ? s.h->resource_->id : -1; }
static void chk(const Slot& s) { if (s.h) DS_CALL("chk %d %d", s.hid, ridOf(s)); }

struct Plan {
  int ops = 0, limit = 1;
  uint64_t seed = 0;
  Slot given;  // a handle acquired by the main thread and handed over
};

static void work(Pool& pool, int size, const Plan& pl, const std::string& desc) {
  vh::SplitMix r(pl.seed);
  Slot s[3];
  s[0] = pl.given;
  auto holding = [&] { int n = 0; for (auto& x : s) n += ridOf(x) >= 0; return n; };
  auto destroy = [&](Slot& x) {
    int rid = ridOf(x);
    if (rid >= 0) { dsched::note("releasing %d", rid); onRelease(rid); }
    DS_CALL("destroy %d", x.hid);
    delete x.h;
    DS_RET("destroy");
    if (rid >= 0) dsched::note("free %d", rid);
    x.h = nullptr;
  };
  for (int i = 0; i < pl.ops; ++i) {
    int a = (int)r.below(3), b = (int)r.below(3);
    switch (r.below(8)) {
      case 0: case 1: case 2: {  // acquire into an empty slot
        if (s[a].h || holding() >= pl.limit) break;
        s[a].hid = newHid();
        DS_CALL("acquire %d", s[a].hid);
        s[a].h = new H(pool.acquire());
        int rid = ridOf(s[a]);
        DS_RET("acquire %d %d", s[a].hid, rid);
        dsched::note("held %d", rid);
        onHold(rid, size, desc);
        if (rid >= 0) {
          // use it: scheduling points while held; now and then long enough for a waiting thread to use up
          // its spin budget (MAX_SEMA_SPINS = 10000) and park on the kernel semaphore
          long n = (r.below(16) == 0) ? 10500 : 1;
          for (long k = 0; k < n; ++k) s[a].h->get().touch.fetch_add(1, std::memory_order_relaxed);
        }
        break;
      }
      case 3: {  // move construction into an empty slot
        if (!s[a].h || s[b].h) break;
        s[b].hid = newHid();
        DS_CALL("movector %d %d", s[b].hid, s[a].hid);
        s[b].h = new H(std::move(*s[a].h));
        DS_RET("movector");
        chk(s[a]); chk(s[b]);
        break;
      }
      case 4: case 5: {  // move assignment (a = std::move(b)), possibly onto itself
        if (!s[a].h || !s[b].h) break;
        int rid = ridOf(s[a]);
        bool recycles = (a != b && rid >= 0);
        if (recycles) { dsched::note("releasing %d", rid); onRelease(rid); }
        DS_CALL("moveassign %d %d", s[a].hid, s[b].hid);
        *s[a].h = std::move(*s[b].h);
        DS_RET("moveassign");
        if (recycles) dsched::note("free %d", rid);
        chk(s[a]); chk(s[b]);
        break;
      }
      default: {  // destruction
        if (!s[a].h) break;
        destroy(s[a]);
        break;
      }
    }
    for (auto& x : s) if (ridOf(x) >= 0) x.h->get().touch.fetch_add(1, std::memory_order_relaxed);
  }
  for (auto& x : s) if (x.h) destroy(x);
}

int main(int argc, char** argv) {
  uint64_t seed = (uint64_t)vh::argInt(argc, argv, 1, 1);
  long long N = vh::argInt(argc, argv, 2, 100);
  vh::SplitMix rng(seed);
  dsh::installStuckHandler();
  long long cases = 0;
  for (long long it = 0; it < N; ++it) {
    dsched::Options o;
    o.seed = seed * 48271 + (uint64_t)it;
    o.strategy = (it % 4 == 3) ? dsched::PCT : dsched::RANDOM;
    o.stickiness = 10 + (int)rng.below(80);
    o.pctLength = 4000;
    o.livelockAfter = 20000000;
    int size = 1 + (int)rng.below(4), nthreads = 1 + (int)rng.below(4);
    std::vector<Plan> plans((size_t)nthreads);
    int extra = (int)rng.below((uint64_t)size);  // sum of (limit - 1) <= size - 1: no hold-and-wait deadlock
    for (auto& p : plans) { p.ops = 3 + (int)rng.below(14); p.limit = 1; }
    for (int e = 0; e < extra; ++e) ++plans[rng.below((uint64_t)nthreads)].limit;
    int pre = (int)rng.below((uint64_t)std::min(size, nthreads) + 1);
    if (rng.below(2) == 0) pre = 0;
    for (size_t t = 0; t < plans.size(); ++t) plans[t].seed = o.seed * 131 + t;
    std::string desc = "respool size=" + std::to_string(size) + " threads=" + std::to_string(nthreads) + " extra=" + std::to_string(extra) +
        " pre=" + std::to_string(pre) + " scenario=" + std::to_string(it) + " seed=" + std::to_string(seed);
    auto& c = dsh::stuckCtx();
    c.signature = "ResourcePool operation never returns";
    c.detail = desc;
    g_constructed.assign((size_t)size, 0); g_destroyed.assign((size_t)size, 0); g_holders.assign((size_t)size, 0);
    g_totalHeld = 0; g_nextHid = 1; g_dtorStarted = 0; g_bad.clear();
    const void* semAddr = nullptr;
    dsched::clearNames();
    dsched::run(o, [&] {
      int next = 0;
      DS_CALL("ctor %d", size);
      Pool* pool = new Pool((size_t)size, [&] { return Res(next++); });
      DS_RET("ctor");
      semAddr = &pool->pool_.sema->m_count;
      dsched::nameRegion(semAddr, sizeof(pool->pool_.sema->m_count), "sema");
      for (int t = 0; t < pre; ++t) {
        Plan& p = plans[(size_t)t];
        p.given.hid = newHid();
        DS_CALL("acquire %d", p.given.hid);
        p.given.h = new H(pool->acquire());
        int rid = ridOf(p.given);
        DS_RET("acquire %d %d", p.given.hid, rid);
        dsched::note("held %d", rid);
        onHold(rid, size, desc);
      }
      std::vector<std::thread> ths;
      for (int t = 0; t < nthreads; ++t) ths.emplace_back([&, t] { work(*pool, size, plans[(size_t)t], desc); });
      for (auto& t : ths) t.join();
      g_dtorStarted = 1;
      DS_CALL("dtor");
      delete pool;
      DS_RET("dtor");
    });
    ++cases;
    // oracle 1: ledgers
    for (int i = 0; i < size; ++i) {
      if (g_constructed[(size_t)i] != 1) bad("ResourcePool resource not constructed exactly once", desc + " resource=" + std::to_string(i));
      if (g_destroyed[(size_t)i] != 1) bad("ResourcePool resource not destroyed exactly once by the pool's destruction", desc + " resource=" + std::to_string(i) + " destroyed=" + std::to_string(g_destroyed[(size_t)i]));
      if (g_holders[(size_t)i] != 0) bad("harness bookkeeping: holder count not zero at the end", desc);
    }
    // oracle 2: a thread decides to block only when no resource is certainly free and unclaimed
    {
      std::vector<int> state((size_t)size, 0);  // 0 free, 1 held, 2 being released
      std::set<int> inflight;
      long long parks = 0, waits = 0;
      std::map<int, int> callNo;
      std::set<std::pair<int, int>> waitedCall;
      bool inDtor = false;
      for (const auto& e : dsched::trace()) {
        if (e.kind == dsched::K_NOTE) {
          int x = 0, y = 0;
          if (std::sscanf(e.note.c_str(), "held %d", &x) == 1) { if (x >= 0 && x < size) state[(size_t)x] = 1; }
          else if (std::sscanf(e.note.c_str(), "releasing %d", &x) == 1) { if (x >= 0 && x < size) state[(size_t)x] = 2; }
          else if (std::sscanf(e.note.c_str(), "free %d", &x) == 1) { if (x >= 0 && x < size) state[(size_t)x] = 0; }
          else if (std::sscanf(e.note.c_str(), "call acquire %d", &x) == 1) { inflight.insert(e.tid); ++callNo[e.tid]; }
          else if (std::sscanf(e.note.c_str(), "ret acquire %d %d", &x, &y) == 2) inflight.erase(e.tid);
          else if (e.note == "call dtor") inDtor = true;
          continue;
        }
        // a wait: the acquiring thread looks at the semaphore count and finds no token (spin iteration,
        // failed tryWait, or the final fetch_sub after which it parks on the kernel semaphore)
        bool look = (e.kind == dsched::K_LOAD || e.kind == dsched::K_FSUB) && e.addr == semAddr && (int64_t)e.result <= 0;
        if (!look) continue;
        if (e.kind == dsched::K_FSUB) ++parks;
        if (waitedCall.insert(std::make_pair(e.tid, callNo[e.tid])).second) ++waits;
        int freeNow = 0;
        for (int st : state) freeNow += (st == 0);
        int others = (int)inflight.size() - (int)inflight.count(e.tid);
        if (inDtor) bad("ResourcePool destructor blocked", desc);
        else if (freeNow > others)
          bad("ResourcePool acquire() blocked although a resource was free",
              desc + " thread=" + std::to_string(e.tid) + " free=" + std::to_string(freeNow) + " otherAcquirers=" + std::to_string(others));
      }
      std::printf("STAT waiting_acquires %lld\nSTAT parked_acquires %lld\n", waits, parks);
      std::printf("NT s%d t%d e%d p%d w%lld b%lld\n", size, nthreads, extra, pre, std::min<long long>(waits, 3), std::min<long long>(parks, 2));
    }
    std::set<std::string> seen;
    for (auto& b : g_bad)
      if (seen.insert(b.substr(0, b.find(" | "))).second) std::printf("PFAIL %s\n", b.c_str());
    // only the call/ret events go to the model (the semaphore spins would be tens of thousands of lines)
    std::printf("TRACE-BEGIN respool %d\n", size);
    for (const auto& e : dsched::trace())
      if (e.kind == dsched::K_NOTE && (e.note.rfind("call ", 0) == 0 || e.note.rfind("ret ", 0) == 0))
        std::printf("T %d %s\n", e.tid, e.note.c_str());
    std::printf("TRACE-END %s\n", desc.c_str());
  }
  // ---- extra oracles without a trace (resource types / configurations the traced scenarios do not use)
  {
    // (a) resources larger than a cache line: storage of distinct resources must not overlap
    struct Big {
      char pad[168];
      int id;
      explicit Big(int i) : id(i) { std::memset(pad, i, sizeof pad); }
    };
    for (int size = 2; size <= 4; ++size) {
      int next = 0;
      dispenso::ResourcePool<Big> bp((size_t)size, [&] { return Big(next++); });
      std::vector<dispenso::Resource<Big>> hs;
      for (int i = 0; i < size; ++i) hs.push_back(bp.acquire());
      for (int i = 0; i < size; ++i)
        for (int j = i + 1; j < size; ++j) {
          auto a = reinterpret_cast<uintptr_t>(&hs[(size_t)i].get()), b = reinterpret_cast<uintptr_t>(&hs[(size_t)j].get());
          uintptr_t d = a > b ? a - b : b - a;
          if (d < sizeof(Big))
            std::printf("PFAIL ResourcePool resources overlap in memory | sizeof(T)=%zu size=%d distance=%zu\n", sizeof(Big), size, (size_t)d);
        }
      for (int i = 0; i < size; ++i) {
        bool ok = hs[(size_t)i].get().id >= 0 && hs[(size_t)i].get().id < size;
        for (char ch : hs[(size_t)i].get().pad) ok = ok && ch == (char)hs[(size_t)i].get().id;
        if (!ok) std::printf("PFAIL ResourcePool resource contents clobbered by a neighbour | sizeof(T)=%zu size=%d index=%d\n", sizeof(Big), size, i);
      }
    }
    // (b) two pools of the same type: move-assigning a handle of pool B onto a handle of pool A must give A's
    //     resource back to A (afterwards every resource of A can be acquired again) and leave B's count alone
    {
      struct Small { int pool, id; };
      int na = 0, nb = 0;
      dispenso::ResourcePool<Small> A(2, [&] { return Small{0, na++}; });
      dispenso::ResourcePool<Small> B(2, [&] { return Small{1, nb++}; });
      {
        auto ha = A.acquire();
        auto hb = B.acquire();
        ha = std::move(hb);   // A's resource goes home; ha now holds B's
        if (ha.get().pool != 1) std::printf("PFAIL ResourcePool move assignment across pools lost the source's resource | pool=%d\n", ha.get().pool);
        size_t freeA = A.pool_.size_approx(), freeB = B.pool_.size_approx();
        if (freeA != 2 || freeB != 1)
          std::printf("PFAIL ResourcePool move assignment across pools returned a resource to the wrong pool | freeA=%zu freeB=%zu\n", freeA, freeB);
      }
      if (A.pool_.size_approx() != 2 || B.pool_.size_approx() != 2)
        std::printf("PFAIL ResourcePool resource counts wrong after cross-pool handles were released | freeA=%zu freeB=%zu\n",
                    A.pool_.size_approx(), B.pool_.size_approx());
    }
  }
  std::printf("STAT cases %lld\n", cases);
  std::fflush(stdout);
  _exit(0);
}
