// C16: dispenso::parallel_invoke on ConcurrentTaskSet, flat calls of 1..8 functors and recursive
// divide-and-conquer trees (every inner node calls parallel_invoke on the same task set), pools of 0..3
// threads.  One source, two builds:
//   native (real threads; many programs; per-functor counters, thread ids and a global event order)
//   -DDSCHED=1 (the whole library under the deterministic scheduler: every atomic operation of the pool,
//   the task set and the queues is a scheduling point; optional pre-loading of the task set so that
//   schedule() takes its inline branch).
// Oracle (independent of the model): every functor invoked exactly once; the last functor of every call on
// the calling thread and finished before the call returned; everything finished when wait() returned.
// Tie: the event sequence (functor begin/end with thread ids, call return, wait return) is replayed through
// the Lean model (plug-in `pinvoke`).
// usage: c16_invoke <seed> <programs>
#include <algorithm>
#include <atomic>
#include <map>
#include <memory>
#include <mutex>
#include <thread>
#include <utility>
#include <vector>
#if defined(DSCHED)
#include "dsched/dsh.h"
#else
#include "common.h"
#include <unistd.h>
#include <signal.h>
#endif
#include <dispenso/parallel_invoke.h>
#include <dispenso/thread_pool.h>

struct Node {
  std::vector<int> kids;
  std::string path;      // "-" for the top-level call, else child indices joined by '.'
  std::atomic<int> count{0};
  std::atomic<int> done{0};
  int tid = -1;
  long beginSeq = -1, endSeq = -1;
  Node() {}
  Node(const Node& o) : kids(o.kids), path(o.path) {}
};

struct Ev { int tid; char kind; int node; };

struct World {
  std::vector<Node> nodes;     // nodes[0] = the top-level call site
  dispenso::ConcurrentTaskSet* ts = nullptr;
  std::mutex m;
  std::vector<Ev> log;
  std::map<std::thread::id, int> tids;
  int work = 0;                // scheduling points a leaf spends
  bool lvalues = false;        // pass named functors (lvalues) to parallel_invoke
  bool saturate = false;       // the preloaded tasks stay outstanding until the top-level call has returned
};

static World* W;

static int myTid() {
#if defined(DSCHED)
  return dsched::tid();
#else
  std::lock_guard<std::mutex> lk(W->m);
  auto id = std::this_thread::get_id();
  auto f = W->tids.find(id);
  if (f != W->tids.end()) return f->second;
  int t = (int)W->tids.size();
  W->tids[id] = t;
  return t;
#endif
}

static void logEv(char kind, int node) {
  int t = myTid();
  std::lock_guard<std::mutex> lk(W->m);
  W->log.push_back({t, kind, node});
  long seq = (long)W->log.size();
  if (kind == 'B') { W->nodes[node].tid = t; W->nodes[node].beginSeq = seq; }
  if (kind == 'E') W->nodes[node].endSeq = seq;
}

static void invokeKids(int id);

static void runNode(int id) {
  Node& n = W->nodes[id];
  n.count.fetch_add(1, std::memory_order_relaxed);
  logEv('B', id);
  for (int k = 0; k < W->work; ++k) n.done.load(std::memory_order_relaxed);   // a few scheduling points
  if (!n.kids.empty()) invokeKids(id);
  logEv('E', id);
  n.done.store(1, std::memory_order_release);
}

template <size_t... I>
static void invokeN(const std::vector<int>& k, std::index_sequence<I...>) {
  if (W->lvalues) {
    // the documented recursive idiom with named functors: they live in this frame, which returns before the
    // task set's wait(); parallel_invoke must have taken its own copies
    auto fs = std::make_tuple([c = k[I]] { runNode(c); }...);
    dispenso::parallel_invoke(*W->ts, std::get<I>(fs)...);
    return;
  }
  dispenso::parallel_invoke(*W->ts, [c = k[I]] { runNode(c); }...);
}

static void invokeKids(int id) {
  const std::vector<int>& k = W->nodes[id].kids;
  switch (k.size()) {
    case 1: invokeN(k, std::make_index_sequence<1>()); break;
    case 2: invokeN(k, std::make_index_sequence<2>()); break;
    case 3: invokeN(k, std::make_index_sequence<3>()); break;
    case 4: invokeN(k, std::make_index_sequence<4>()); break;
    case 5: invokeN(k, std::make_index_sequence<5>()); break;
    case 6: invokeN(k, std::make_index_sequence<6>()); break;
    case 7: invokeN(k, std::make_index_sequence<7>()); break;
    case 8: invokeN(k, std::make_index_sequence<8>()); break;
    default: std::abort();
  }
}

// a random program: `shape` 0 flat, 1 binary divide and conquer, 2 random arities, 3 a deep chain with side branches
// (through the last child: the inline path by design), 4 a deep chain through the FIRST child (the scheduled one: on a
// saturated set it is run inline under the depth guard, up to and beyond kMaxInlineDepth)
static void build(World& w, vh::SplitMix& rng, int shape, int budget) {
  w.nodes.clear();
  w.nodes.reserve((size_t)budget + 16);
  w.nodes.emplace_back();
  w.nodes[0].path = "-";
  struct Item { int id; int depth; };
  std::vector<Item> todo{{0, 0}};
  int maxDepth = shape == 0 ? 1 : shape == 1 ? 12 : shape == 2 ? 4 : shape == 3 ? 30 : 60;
  while (!todo.empty()) {
    size_t pick = shape >= 3 ? todo.size() - 1 : rng.below(todo.size());
    Item it = todo[pick];
    todo.erase(todo.begin() + (long)pick);
    int room = budget - (int)w.nodes.size();
    int n;
    if (it.id == 0) n = shape == 0 ? (int)rng.range(1, 8) : shape == 1 ? 2 : shape == 3 ? (int)rng.range(1, 3) : shape == 4 ? 2 : (int)rng.range(1, 8);
    else if (it.depth >= maxDepth || room <= 0) n = 0;
    else if (shape == 1) n = rng.below(8) == 0 ? 0 : 2;
    else if (shape == 3) n = (int)rng.range(1, 3);
    else if (shape == 4) n = 2;
    else n = rng.below(3) == 0 ? (int)rng.range(1, 8) : 0;
    if (it.id != 0 && n > room) n = room > 0 ? room : 0;
    for (int i = 0; i < n; ++i) {
      int c = (int)w.nodes.size();
      w.nodes.emplace_back();
      w.nodes[c].path = (it.id == 0 ? std::string() : w.nodes[it.id].path + ".") + std::to_string(i);
      w.nodes[it.id].kids.push_back(c);
      // in the chain shape only the last child goes deeper (the inline path), the others are leaves or small
      if (shape == 4) { if (i == 0) todo.push_back({c, it.depth + 1}); }
      else if (shape != 3 || i == n - 1 || rng.below(4) == 0) todo.push_back({c, it.depth + 1});
    }
  }
}

static void judge(World& w, const char* desc, bool waitedOk) {
  bool once = true, lastOk = true, fin = true;
  std::string why;
  for (size_t i = 1; i < w.nodes.size(); ++i) {
    if (w.nodes[i].count.load() != 1) { once = false; why += " count(" + w.nodes[i].path + ")=" + std::to_string(w.nodes[i].count.load()); }
    if (w.nodes[i].done.load(std::memory_order_acquire) != 1 || w.nodes[i].endSeq < 0) { fin = false; why += " unfinished(" + w.nodes[i].path + ")"; }
  }
  long waitedSeq = -1, retSeq = -1; int retTid = -1;
  for (size_t i = 0; i < w.log.size(); ++i) {
    if (w.log[i].kind == 'W') waitedSeq = (long)i + 1;
    if (w.log[i].kind == 'R') { retSeq = (long)i + 1; retTid = w.log[i].tid; }
  }
  for (size_t i = 0; i < w.nodes.size(); ++i) {
    const Node& n = w.nodes[i];
    if (n.kids.empty()) continue;
    const Node& last = w.nodes[n.kids.back()];
    int callerTid = i == 0 ? retTid : n.tid;
    long callEnd = i == 0 ? retSeq : n.endSeq;
    if (last.tid != callerTid || last.endSeq < 0 || last.endSeq > callEnd || (i != 0 && last.beginSeq < n.beginSeq)) {
      lastOk = false; why += " last(" + last.path + ") tid=" + std::to_string(last.tid) + " caller=" + std::to_string(callerTid);
    }
  }
  for (size_t i = 1; i < w.nodes.size(); ++i) if (w.nodes[i].endSeq > waitedSeq) { fin = false; why += " after-wait(" + w.nodes[i].path + ")"; }
  if (!once) std::printf("PFAIL parallel_invoke invoked a functor a number of times other than once | %s%s\n", desc, why.substr(0, 300).c_str());
  if (!lastOk) std::printf("PFAIL parallel_invoke did not run its last functor on the calling thread before returning | %s%s\n", desc, why.substr(0, 300).c_str());
  if (!fin || !waitedOk) std::printf("PFAIL parallel_invoke functor not finished when the task set's wait() returned | %s%s\n", desc, why.substr(0, 300).c_str());
}

static void emit(World& w, const char* desc) {
  int inner = 0;
  for (auto& n : w.nodes) if (!n.kids.empty()) ++inner;
  std::string hdr = "TRACE-BEGIN pinvoke " + std::to_string(inner);
  for (auto& n : w.nodes) if (!n.kids.empty()) hdr += " " + n.path + " " + std::to_string(n.kids.size());
  std::printf("%s\n", hdr.c_str());
  for (auto& e : w.log) {
    if (e.kind == 'B' || e.kind == 'E') std::printf("T %d %c %s\n", e.tid, e.kind, w.nodes[e.node].path.c_str());
    else std::printf("T %d %s\n", e.tid, e.kind == 'R' ? "ret" : "waited");
  }
  std::printf("T 0 end\nTRACE-END %s\n", desc);
}

static void theProgram(World& w, dispenso::ThreadPool& pool, int preload, bool lightweight) {
  std::unique_ptr<dispenso::ConcurrentTaskSet> ts(
      lightweight ? new dispenso::ConcurrentTaskSet(pool, dispenso::TaskCost::kLightweight) : new dispenso::ConcurrentTaskSet(pool));
  w.ts = ts.get();
  std::atomic<int> gate{0}, release{0};
  bool hold = w.saturate;
  for (int i = 0; i < preload; ++i)
    ts->schedule([&gate, &release, hold] {
      gate.fetch_add(1, std::memory_order_relaxed);
      while (hold && !release.load(std::memory_order_acquire)) std::this_thread::yield();
    }, dispenso::ForceQueuingTag());
  myTid();                       // the calling thread is thread 0
  invokeKids(0);
  logEv('R', 0);
  release.store(1, std::memory_order_release);
  ts->wait();
  logEv('W', 0);
  w.ts = nullptr;
}

#if !defined(DSCHED)
static char gLast[300] = "none";
static void onAlarm(int) {
  char buf[500];
  int n = std::snprintf(buf, sizeof buf, "PFAIL parallel_invoke program (or the task set's wait) never returns | %s\n", gLast);
  if (write(1, buf, (size_t)n)) {}
  _exit(0);
}
#endif

int main(int argc, char** argv) {
  uint64_t seed = vh::argInt(argc, argv, 1, 1);
  long long N = vh::argInt(argc, argv, 2, 100);
  vh::SplitMix rng(seed);
  long long cases = 0, functors = 0, deepest = 0, inlineRuns = 0, taskRuns = 0;
#if defined(DSCHED)
  dsh::installStuckHandler();
#else
  signal(SIGALRM, onAlarm);
  std::unique_ptr<dispenso::ThreadPool> pools[4];
  for (int i = 0; i < 4; ++i) pools[i].reset(new dispenso::ThreadPool((size_t)i));
#endif
  for (long long it = 0; it < N; ++it) {
    World w;
    W = &w;
    int shape = (int)rng.below(5);
#if defined(DSCHED)
    int budget = shape == 0 ? 9 : shape == 4 ? (int)rng.range(70, 130) : (int)rng.range(4, 40);
#else
    int budget = shape == 0 ? 9 : (int)rng.range(4, 400);
#endif
    build(w, rng, shape, budget);
    int poolN = (int)rng.below(4);
    int preload = rng.below(4) == 0 ? (int)rng.range(1, 4 * std::max(poolN, 1) + 4) : 0;
    if (shape == 4) { poolN = std::max(poolN, 1); preload = 4 * poolN + 4; }   // saturated set: scheduled functors run inline
    w.saturate = shape == 4;
    w.lvalues = rng.below(3) == 0;
    bool light = rng.below(4) == 0;
    w.work = (int)rng.below(4);
    char desc[300];
    int depth = 0;
    for (auto& n : w.nodes) depth = std::max(depth, (int)std::count(n.path.begin(), n.path.end(), '.') + (n.path == "-" ? 0 : 1));
#if defined(DSCHED)
    dsched::Options o;
    o.seed = seed * 104729 + (uint64_t)it;
    o.strategy = (it % 3 == 2) ? dsched::PCT : dsched::RANDOM;
    o.stickiness = 10 + (int)rng.below(85);
    o.pctDepth = 2 + (int)rng.below(4);
    o.recordTrace = false;
    std::snprintf(desc, sizeof desc, "invoke shape=%d functors=%zu depth=%d top=%zu pool=%d preload=%d light=%d dseed=%llu", shape, w.nodes.size() - 1, depth,
                  w.nodes[0].kids.size(), poolN, preload, light, (unsigned long long)o.seed);
    auto& sc = dsh::stuckCtx();
    sc.signature = "parallel_invoke program (or the task set's wait) never returns under the deterministic scheduler";
    sc.detail = desc;
    dsched::clearNames();
    dsched::run(o, [&] {
      dispenso::ThreadPool pool((size_t)poolN);
      theProgram(w, pool, preload, light);
    });
#else
    std::snprintf(desc, sizeof desc, "invoke shape=%d functors=%zu depth=%d top=%zu pool=%d preload=%d light=%d seed=%llu it=%lld", shape, w.nodes.size() - 1, depth,
                  w.nodes[0].kids.size(), poolN, preload, light, (unsigned long long)seed, it);
    std::snprintf(gLast, sizeof gLast, "%s", desc);
    alarm(30);
    theProgram(w, *pools[poolN], preload, light);
    alarm(0);
#endif
    ++cases;
    functors += (long long)w.nodes.size() - 1;
    deepest = std::max<long long>(deepest, depth);
    judge(w, desc, true);
    for (size_t i = 0; i < w.nodes.size(); ++i) {
      // a functor other than the last one that ran on the thread of its call site while that call was in
      // progress was run by schedule()'s inline branch; otherwise it was executed as a task
      const Node& n = w.nodes[i];
      for (size_t k = 0; k + 1 < n.kids.size(); ++k) {
        const Node& c = w.nodes[n.kids[k]];
        long callEnd = i == 0 ? (long)w.log.size() + 1 : n.endSeq;
        int callTid = i == 0 ? 0 : n.tid;
        bool inl = c.tid == callTid && c.endSeq < callEnd && w.nodes[n.kids.back()].beginSeq > c.endSeq;
        if (inl) ++inlineRuns; else ++taskRuns;
      }
    }
    emit(w, desc);
    std::printf("NT s%d n%zu d%d p%d pl%d\n", shape, std::min<size_t>(w.nodes.size() - 1, 12), std::min(depth, 8), poolN, preload > 0);
  }
  std::printf("STAT scheduled_functors_run_inline %lld\n", inlineRuns);
  std::printf("STAT scheduled_functors_run_as_tasks %lld\n", taskRuns);
  std::printf("STAT cases %lld\n", cases);
  std::printf("STAT functors %lld\n", functors);
  std::printf("STAT deepest_recursion %lld\n", deepest);
  std::fflush(stdout);
  _exit(0);
}
