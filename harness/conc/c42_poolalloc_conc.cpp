// C42 (concurrent layer): PoolAllocator from 2..4 threads under the deterministic scheduler.
// The trace of the spin-lock word is validated against the Lean model; the oracle checks that no
// chunk is handed out twice and every chunk lies inside a slab. usage: c42_poolalloc_conc <seed> <scenarios>
#include <set>
#include <thread>
#include <vector>
#include "dsched/dsh.h"
#define private public
#include <dispenso/pool_allocator.h>
#undef private

int main(int argc, char** argv) {
  uint64_t seed = vh::argInt(argc, argv, 1, 1);
  long long N = vh::argInt(argc, argv, 2, 200);
  vh::SplitMix rng(seed);
  dsh::installStuckHandler();
  long long cases = 0;
  for (long long it = 0; it < N; ++it) {
    dsched::Options o;
    o.seed = seed * 141650939 + it;
    o.strategy = (it % 4 == 3) ? dsched::PCT : dsched::RANDOM;
    o.stickiness = 15 + (int)rng.below(75);
    int nthreads = (int)rng.range(2, 4), ops = (int)rng.range(2, 6);
    // mostly tiny slabs; one case in four uses a slab of 64 KiB or more, one in four an odd chunk size
    static const size_t chunkSizes[] = {16, 16, 24, 13, 16384, 65536, 16, 40};
    size_t chunk = chunkSizes[rng.below(8)], k = 1 + rng.below(chunk == 16384 ? 6 : chunk > 16384 ? 2 : 4);
    if (chunk == 16384 && k < 4) k = 4;
    size_t allocSize = chunk * k;
    std::string desc = "poolalloc threads=" + std::to_string(nthreads) + " ops=" + std::to_string(ops) + " k=" + std::to_string(k) + " chunk=" + std::to_string(chunk) + " seed=" + std::to_string(o.seed);
    auto& c = dsh::stuckCtx();
    c.signature = "PoolAllocator alloc/dealloc never returns";
    c.detail = desc;
    bool bad = false;
    std::string badWhy;
    dsched::clearNames();
    dsched::run(o, [&] {
      std::vector<char*> slabs;
      std::set<char*> live;    // chunks currently handed out (ghost; one thread runs at a time)
      {
        dispenso::PoolAllocator pa(chunk, allocSize, [&](size_t n) -> void* { char* p = (char*)::malloc(n); slabs.push_back(p); return p; }, [&](void* p) { ::free(p); });
        dsched::nameRegion(&pa.backingAllocLock_, 4, "lock");
        std::vector<std::thread> ths;
        for (int t = 0; t < nthreads; ++t)
          ths.emplace_back([&, t] {
            std::vector<char*> mine;
            vh::SplitMix r2(o.seed * 31 + t);
            for (int i = 0; i < ops; ++i) {
              if (mine.empty() || r2.below(3) != 0) {
                DS_CALL("alloc");
                char* p = pa.alloc();
                DS_RET("alloc");
                if (!live.insert(p).second) { bad = true; badWhy = "chunk handed out twice without dealloc"; }
                bool inside = false;
                for (char* s : slabs) inside |= (p >= s && p + chunk <= s + allocSize && (size_t)(p - s) % chunk == 0);
                if (!inside) { bad = true; badWhy = "chunk outside every slab"; }
                mine.push_back(p);
              } else {
                char* p = mine.back(); mine.pop_back();
                live.erase(p);
                DS_CALL("dealloc");
                pa.dealloc(p);
                DS_RET("dealloc");
              }
            }
            for (char* p : mine) { live.erase(p); DS_CALL("dealloc"); pa.dealloc(p); DS_RET("dealloc"); }
          });
        for (auto& t : ths) t.join();
      }
    });
    ++cases;
    if (bad) std::printf("PFAIL PoolAllocator concurrent exclusivity violated | %s why=%s\n", desc.c_str(), badWhy.c_str());
    std::printf("NT t%d o%d k%zu c%zu\n", nthreads, ops, k, chunk);
    dsh::emitTrace("palloc", desc);
  }
  std::printf("STAT cases %lld\n", cases);
  std::fflush(stdout);
  _exit(0);
}
