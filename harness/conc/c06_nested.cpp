// C06: nested waits never deadlock through pool starvation.  Random acyclic programs whose tasks block
// only in dispenso waits (task-set wait from a task body on a set created by the body or on an earlier,
// fully scheduled ConcurrentTaskSet; waiting parallel_for inside tasks), on pools of 0..3 threads, under
// the deterministic scheduler.  Acyclicity is by construction: sets are numbered, and a task of set j only
// waits on sets it created itself or on shared sets with a smaller number whose scheduling has finished.
// Oracle: the program terminates (dsched reports deadlock / livelock otherwise) and every body ran once.
// usage: c06_nested <seed> <scenarios> [start]
#include <atomic>
#include <chrono>
#include <thread>
#include <vector>
#define private public
#define protected public
#include <dispenso/parallel_for.h>
#include <dispenso/task_set.h>
#include <dispenso/thread_pool.h>
#undef private
#undef protected
#include "dsched/dsh.h"

// record the scheduling events (pushes, takes) so that a stuck run shows where the unfinished task sits
extern "C" void dispenso_verif_hook(const char* what, const void*, long a, long b) {
  if (dsched::tid() < 0) return;
  if (std::strncmp(what, "pool.push", 9) == 0 || std::strncmp(what, "pool.take", 9) == 0) {
    dsched::noPreempt(true);
    dsched::note("h %s %ld %ld", what, a, b);
    dsched::noPreempt(false);
  }
}

namespace {

struct Prog {
  dispenso::ThreadPool* pool;
  std::vector<dispenso::ConcurrentTaskSet*> shared;  // numbered, scheduled to only by main, in order
  std::vector<int> sealed;                            // main has finished scheduling to shared[i]
  int bodies = 0;
  bool foreign = false;   // tasks may wait on earlier shared sets (scheduled by main), not only on sets they created
};
Prog* g = nullptr;

void counted() { dsched::ghostAdd(10, 1); }

struct Task {
  int level;        // index of the shared set this task belongs to (-1: child of a local set)
  int depth;
  uint64_t seed;
  void operator()() const {
    counted();
    vh::SplitMix rng(seed);
    int k = (int)rng.below(6);
    if (depth <= 0) return;
    if (k == 0 || k == 1) {
      // own child set (heavy or light ConcurrentTaskSet, or TaskSet), children may nest further
      int n = 1 + (int)rng.below(3);
      if (rng.below(2)) {
        dispenso::ConcurrentTaskSet cs(*g->pool, rng.below(2) ? dispenso::TaskCost::kHeavy : dispenso::TaskCost::kLightweight);
        for (int i = 0; i < n; ++i) cs.schedule(Task{-1, depth - 1, rng.next()}, rng.below(3) == 0);
        cs.wait();
      } else {
        dispenso::TaskSet ts(*g->pool);
        if (rng.below(2)) ts.scheduleBulk((size_t)n, [&](size_t) { return Task{-1, depth - 1, rng.next()}; });
        else for (int i = 0; i < n; ++i) ts.schedule(Task{-1, depth - 1, rng.next()});
        ts.wait();
      }
    } else if (k == 2 && level > 0 && g->foreign) {
      // wait on an earlier shared set whose scheduling has finished (legal: nobody schedules to it any more)
      int j = (int)rng.below((uint64_t)level);
      if (g->sealed[j]) g->shared[j]->wait();
    } else if (k == 3) {
      dispenso::TaskSet ts(*g->pool);
      dispenso::parallel_for(ts, 0, 1 + (int)rng.below(4), [](int) { counted(); });
    }
  }
};

}  // namespace

int main(int argc, char** argv) {
  uint64_t seed = vh::argInt(argc, argv, 1, 1);
  long long N = vh::argInt(argc, argv, 2, 100);
  long long start = vh::argInt(argc, argv, 3, 0);
  dsh::installStuckHandler();
  long long cases = 0;
  for (long long it = start; it < N; ++it) {
    vh::SplitMix rng(seed * 1000003ULL + (uint64_t)it);
    std::printf("SCN %lld\n", it);
    dsched::Options o;
    o.seed = seed * 15485863ULL + it;
    o.strategy = (it % 3 == 2) ? dsched::PCT : dsched::RANDOM;
    o.stickiness = 25 + (int)rng.below(70);
    int n = (int)rng.below(4);
    int sets = 1 + (int)rng.below(3);
    bool parkFirst = rng.below(2) == 0;
    bool foreign = rng.below(3) == 0;
    std::string desc = "nested pool=" + std::to_string(n) + " sets=" + std::to_string(sets) + " park=" + std::to_string(parkFirst) +
        " foreign_waits=" + std::to_string(foreign) +
        " seed=" + std::to_string(o.seed);
    auto& c = dsh::stuckCtx();
    c.signature = foreign ? "task waiting on a task set scheduled by another thread never returns (helping wait buried or starved the awaited task)"
                          : "fork-join program of nested waits never terminates";
    c.detail = desc;
    dsched::ghostAdd(10, -dsched::ghostGet(10));
    Prog prog;
    prog.foreign = foreign;
    g = &prog;
    dsched::clearNames();
    dsched::run(o, [&] {
      dispenso::ThreadPool pool((size_t)n);
      prog.pool = &pool;
      if (parkFirst && n > 0) {
        // let the workers park so that placed scheduling uses the proactive-wake / steal-ring path
        for (int i = 0; i < 200; ++i) {
          auto* ws = pool.wakeState_.load(std::memory_order_relaxed);
          if (ws && ws->totalSleeping() == n) break;
          std::this_thread::sleep_for(std::chrono::microseconds(100));
        }
      }
      std::vector<std::unique_ptr<dispenso::ConcurrentTaskSet>> owned;
      for (int s = 0; s < sets; ++s) {
        owned.emplace_back(new dispenso::ConcurrentTaskSet(
            pool, rng.below(2) ? dispenso::TaskCost::kHeavy : dispenso::TaskCost::kLightweight));
        prog.shared.push_back(owned.back().get());
        prog.sealed.push_back(0);
      }
      for (int s = 0; s < sets; ++s) {
        int m = 1 + (int)rng.below(3);
        for (int i = 0; i < m; ++i) prog.shared[s]->schedule(Task{s, 2, rng.next()}, rng.below(3) == 0);
        prog.sealed[s] = 1;
      }
      // main waits in a random order
      std::vector<int> order;
      for (int s = 0; s < sets; ++s) order.push_back(s);
      for (int s = sets - 1; s > 0; --s) std::swap(order[s], order[rng.below((uint64_t)s + 1)]);
      for (int s : order) prog.shared[s]->wait();
      owned.clear();
    });
    ++cases;
    std::printf("NT n%d.s%d.p%d.f%d.b%ld\n", n, sets, (int)parkFirst, (int)foreign, dsched::ghostGet(10) > 12 ? 12 : dsched::ghostGet(10));
  }
  std::printf("STAT cases %lld\n", cases);
  std::fflush(stdout);
  _exit(0);
}
