// C06: nested waits never deadlock through pool starvation.
// Random acyclic task programs whose tasks block only in dispenso waits, run on the REAL ThreadPool /
// TaskSet / ConcurrentTaskSet / Future / parallel_for under the deterministic scheduler, pools of 0..4
// threads.  A program is generated up front as explicit data (tasks with scripts: schedule a child into
// a set, bulk-schedule children, wait on a set (wait() or a tryWait loop), waiting parallel_for, launch a
// future and wait on it, wait on an earlier shared set) and then interpreted.
//   fork-join programs (foreign_waits=0): every wait is on a set / future the waiting task created and
//     scheduled into itself.  They must always terminate: a stuck run is a violation.
//   programs with foreign waits (foreign_waits=1, one third of the scenarios): tasks of shared set j may
//     also wait on an earlier shared ConcurrentTaskSet that main scheduled and sealed.  Still acyclic,
//     but the helping wait can bury or starve the awaited task: known finding.
// Tie: every scheduling event (schedule call brackets, pool push / take / inline hooks, body begin / end,
// wait brackets, atomic operations on the worker sleep mask, i.e. claims of parked workers) is logged and
// replayed through the Lean model (plug-in `nested`): a take from a tier the model says that role does
// not poll, a steal-ring push without a claimed idle worker, a wait returning while a member is
// unfinished, … is a correspondence failure.
// Oracle: the program terminates (dsched reports deadlock / livelock otherwise) and every body ran once.
// usage: c06_nested <seed> <scenarios> [start]
#include <atomic>
#include <chrono>
#include <map>
#include <memory>
#include <thread>
#include <vector>
#define private public
#define protected public
#include <dispenso/future.h>
#include <dispenso/parallel_for.h>
#include <dispenso/task_set.h>
#include <dispenso/thread_pool.h>
#undef private
#undef protected
#include "dsched/dsh.h"

namespace {

enum { K_SPAWN, K_BULK, K_WAIT, K_PFOR, K_FUT, K_FWAIT, K_FOREIGN, K_SEAL };
enum { S_TS, S_CTS_LIGHT, S_CTS_HEAVY, S_FUT, S_PFOR };

struct PAct {
  int k = 0;
  int set = -1;
  std::vector<int> kids;
  int n = 0;      // pfor range / wait mode (0 wait(), >0 tryWait(n) loop)
  int mode = 0;   // spawn: 0 plain, 1 ForceQueuingTag, 2 skipRecheck (CTS)
};
struct PSet { int kind; int mult; };
struct PTask { std::vector<PAct> script; int level = -1; };

struct Program {
  std::vector<PTask> tasks;
  std::vector<PSet> sets;
  std::vector<int> shared;   // set ids of the root's shared sets, in order
  bool foreign = false;
  int heavy = 0, bulk = 0, fut = 0, pfor = 0, foreignWaits = 0, inl = 0;
};

struct Gen {
  Program& P;
  vh::SplitMix& rng;
  int newTask(int level) { P.tasks.emplace_back(); P.tasks.back().level = level; return (int)P.tasks.size() - 1; }
  int newSet(int kind, int mult) { P.sets.push_back({kind, mult}); return (int)P.sets.size() - 1; }

  // a block "children into an own set, then wait"; returns the actions in order (spawns …, wait)
  void ownSet(int t, int depth, int level, std::vector<PAct>& pre, std::vector<PAct>& post) {
    int kind = (int)rng.below(3);
    if (kind == S_CTS_HEAVY) P.heavy++;
    int mult = rng.below(4) == 0 ? 1 : 4;   // small multiplier: the task-set inline paths
    if (mult == 1) P.inl++;
    int S = newSet(kind, mult);
    int n = 1 + (int)rng.below(3);
    std::vector<int> kids;
    for (int i = 0; i < n; ++i) {
      int c = newTask(level);
      kids.push_back(c);
    }
    if (rng.below(3) == 0) {
      PAct a; a.k = K_BULK; a.set = S; a.kids = kids; a.mode = (int)rng.below(2);
      pre.push_back(a);
      P.bulk++;
    } else {
      for (int c : kids) {
        PAct a; a.k = K_SPAWN; a.set = S; a.kids = {c}; a.mode = (int)rng.below(3);
        pre.push_back(a);
      }
    }
    PAct w; w.k = K_WAIT; w.set = S; w.n = rng.below(4) == 0 ? 1 + (int)rng.below(2) : 0;
    post.push_back(w);
    for (int c : kids) body(c, depth - 1, level);
  }

  void body(int t, int depth, int level) {
    if (depth <= 0) return;
    int blocks = (int)rng.below(3);
    for (int b = 0; b < blocks; ++b) {
      int k = (int)rng.below(8);
      std::vector<PAct> pre, post;
      if (k <= 2) {
        ownSet(t, depth, level, pre, post);
        if (rng.below(4) == 0) {   // a second set, live at the same time, waited first
          std::vector<PAct> pre2, post2;
          ownSet(t, depth, level, pre2, post2);
          pre.insert(pre.end(), pre2.begin(), pre2.end());
          post.insert(post.begin(), post2.begin(), post2.end());
        }
      } else if (k == 3) {
        PAct a; a.k = K_PFOR; a.set = newSet(S_PFOR, 4); a.n = 1 + (int)rng.below(5);
        pre.push_back(a);
        P.pfor++;
      } else if (k == 4 || k == 5) {
        int S = newSet(S_FUT, 0);
        int c = newTask(level);
        PAct a; a.k = K_FUT; a.set = S; a.kids = {c}; a.mode = (int)rng.below(3);   // 0 deferred, 1 async, 2 explicit kNotAsync + kNotDeferred
        pre.push_back(a);
        if (rng.below(2)) ownSet(t, depth, level, pre, post);   // other work between launch and wait
        PAct w; w.k = K_FWAIT; w.set = S;
        post.push_back(w);
        P.fut++;
        body(c, depth - 1, level);
      } else if (k == 6 && P.foreign && level > 0) {
        PAct a; a.k = K_FOREIGN; a.set = P.shared[rng.below((uint64_t)level)];
        pre.push_back(a);
        P.foreignWaits++;
      }
      auto& sc = P.tasks[t].script;
      sc.insert(sc.end(), pre.begin(), pre.end());
      sc.insert(sc.end(), post.begin(), post.end());
    }
  }

  void root(int nsets) {
    int r = newTask(-1);
    for (int s = 0; s < nsets; ++s) {
      int kind = rng.below(2) ? S_CTS_HEAVY : S_CTS_LIGHT;
      if (kind == S_CTS_HEAVY) P.heavy++;
      P.shared.push_back(newSet(kind, 4));
    }
    std::vector<std::vector<int>> kids(nsets);
    for (int s = 0; s < nsets; ++s) {
      int m = 1 + (int)rng.below(3);
      for (int i = 0; i < m; ++i) {
        int c = newTask(s);
        kids[s].push_back(c);
        PAct a; a.k = K_SPAWN; a.set = P.shared[s]; a.kids = {c}; a.mode = (int)rng.below(3);
        P.tasks[r].script.push_back(a);
      }
      PAct seal; seal.k = K_SEAL; seal.set = s;
      P.tasks[r].script.push_back(seal);
    }
    std::vector<int> order;
    for (int s = 0; s < nsets; ++s) order.push_back(s);
    for (int s = nsets - 1; s > 0; --s) std::swap(order[s], order[rng.below((uint64_t)s + 1)]);
    for (int s : order) {
      PAct w; w.k = K_WAIT; w.set = P.shared[s];
      P.tasks[r].script.push_back(w);
    }
    for (int s = 0; s < nsets; ++s)
      for (int c : kids[s]) body(c, 2, s);
  }
};

struct SetObj {
  std::unique_ptr<dispenso::TaskSet> ts;
  std::unique_ptr<dispenso::ConcurrentTaskSet> cts;
};

struct Run {
  Program* P = nullptr;
  dispenso::ThreadPool* pool = nullptr;
  std::vector<dispenso::ConcurrentTaskSet*> sharedObj;   // by shared index
  std::vector<int> sealed;
  std::map<const void*, int> pforSets;   // TaskSetBase* of a running parallel_for -> its set id
  long scn = 0;
};
Run* g = nullptr;

thread_local long tlWhoScn = -1;

// one trace note, atomic with the operation it reports; the first note of a thread in a scenario is
// preceded by "who <ring index>" (-1: not a pool thread)
template <typename... A>
void ev(const char* fmt, A... a) {
  dsched::noPreempt(true);
  if (tlWhoScn != g->scn) {
    tlWhoScn = g->scn;
    dsched::note("who %d", (int)dispenso::detail::PerPoolPerThreadInfo::ringIndex(g->pool));
  }
  dsched::note(fmt, a...);
  dsched::noPreempt(false);
}

void counted() { dsched::ghostAdd(10, 1); }

void runTask(int id);
struct Body {
  int id;
  void operator()() const { runTask(id); }
};

struct Frame {
  std::map<int, SetObj> sets;
  std::map<int, dispenso::Future<void>> futs;
  SetObj& get(int S) {
    auto it = sets.find(S);
    if (it != sets.end()) return it->second;
    SetObj& o = sets[S];
    const PSet& d = g->P->sets[S];
    if (d.kind == S_TS) o.ts.reset(new dispenso::TaskSet(*g->pool, (ssize_t)d.mult));
    else o.cts.reset(new dispenso::ConcurrentTaskSet(
        *g->pool, d.kind == S_CTS_HEAVY ? dispenso::TaskCost::kHeavy : dispenso::TaskCost::kLightweight, (ssize_t)d.mult));
    return o;
  }
};

void waitOn(SetObj& o, int S, int tries) {
  ev("call wait %d 1", S);
  if (tries == 0) {
    if (o.ts) o.ts->wait(); else o.cts->wait();
  } else {
    for (;;) {
      bool done = o.ts ? o.ts->tryWait((size_t)tries) : o.cts->tryWait((size_t)tries);
      if (done) break;
      std::this_thread::yield();
    }
  }
  ev("ret wait %d", S);
}

void exec(const PAct& a, Frame& fr, int self) {
  switch (a.k) {
    case K_SPAWN: {
      SetObj& o = fr.get(a.set);
      int c = a.kids[0];
      ev("call spawn %d %d", c, a.set);
      if (o.ts) {
        if (a.mode == 1) o.ts->schedule(Body{c}, dispenso::ForceQueuingTag());
        else o.ts->schedule(Body{c});
      } else {
        if (a.mode == 1) o.cts->schedule(Body{c}, dispenso::ForceQueuingTag());
        else o.cts->schedule(Body{c}, a.mode == 2);
      }
      ev("ret spawn");
      break;
    }
    case K_BULK: {
      SetObj& o = fr.get(a.set);
      ev("call bulk %d", a.set);
      auto gen = [&a](size_t i) {
        ev("gen %d", a.kids[i]);
        return Body{a.kids[i]};
      };
      if (o.ts) {
        if (a.mode == 1) o.ts->scheduleBulk(a.kids.size(), gen, dispenso::ForceQueuingTag());
        else o.ts->scheduleBulk(a.kids.size(), gen);
      } else {
        if (a.mode == 1) o.cts->scheduleBulk(a.kids.size(), gen, dispenso::ForceQueuingTag());
        else o.cts->scheduleBulk(a.kids.size(), gen);
      }
      ev("ret bulk");
      break;
    }
    case K_WAIT:
      waitOn(fr.get(a.set), a.set, a.n);
      break;
    case K_PFOR: {
      ev("call pfor %d", a.set);
      {
        dispenso::TaskSet ts(*g->pool);
        const void* key = static_cast<const void*>(static_cast<dispenso::TaskSetBase*>(&ts));
        g->pforSets[key] = a.set;
        dispenso::parallel_for(ts, 0, a.n, [](int) { counted(); });
        g->pforSets.erase(key);
      }
      ev("ret pfor %d", a.set);
      break;
    }
    case K_FUT: {
      int c = a.kids[0];
      ev("call spawn %d %d", c, a.set);
      if (a.mode == 2)
        // a future that timed waits must not run inline; wait() / get() still run a not-yet-started functor themselves
        fr.futs.emplace(a.set, dispenso::Future<void>(Body{c}, *g->pool, dispenso::kNotAsync, dispenso::kNotDeferred));
      else
        fr.futs.emplace(a.set, dispenso::async(*g->pool, a.mode ? std::launch::async : std::launch::deferred, Body{c}));
      ev("ret spawn");
      break;
    }
    case K_FWAIT: {
      ev("call wait %d 0", a.set);
      fr.futs.at(a.set).wait();
      ev("ret wait %d", a.set);
      break;
    }
    case K_FOREIGN: {
      // legal: main has finished scheduling to that set (nobody schedules to it any more)
      int idx = -1;
      for (size_t i = 0; i < g->P->shared.size(); ++i) if (g->P->shared[i] == a.set) idx = (int)i;
      if (idx >= 0 && g->sealed[idx]) {
        ev("call wait %d 1", a.set);
        g->sharedObj[idx]->wait();
        ev("ret wait %d", a.set);
      }
      break;
    }
    case K_SEAL:
      g->sealed[a.set] = 1;
      break;
  }
  (void)self;
}

void runTask(int id) {
  ev("begin %d", id);
  counted();
  {
    Frame fr;
    const auto& sc = g->P->tasks[id].script;
    if (id == 0) {
      // the root publishes its shared sets before scheduling into them
      for (size_t i = 0; i < g->P->shared.size(); ++i) g->sharedObj[i] = fr.get(g->P->shared[i]).cts.get();
    }
    for (const auto& a : sc) exec(a, fr, id);
  }
  ev("end %d", id);
}

bool eq(const char* a, const char* b) { return std::strcmp(a, b) == 0; }

}  // namespace

extern "C" void dispenso_verif_hook(const char* what, const void* obj, long a, long b) {
  if (dsched::tid() < 0 || !g || !g->pool) return;
  if (eq(what, "pool.push.central")) ev("h %s %ld", what, a);
  else if (eq(what, "pool.push.ring") || eq(what, "pool.push.steal")) ev("h %s %ld %ld", what, a, b);
  else if (eq(what, "pool.take.central")) ev("h %s %ld", what, a);
  else if (eq(what, "pool.take.ring") || eq(what, "pool.take.steal")) ev("h %s %ld %ld", what, a, b);
  else if (eq(what, "pool.inline") || eq(what, "pool.inline0") || eq(what, "ts.inline")) ev("h %s", what);
  else if (eq(what, "ts.dec")) {
    // the chunks of a parallel_for have no identity of their own: report the loop they belong to (-1: a task body)
    auto it = g->pforSets.find(obj);
    ev("h %s %d", what, it == g->pforSets.end() ? -1 : it->second);
  }
}

int main(int argc, char** argv) {
  uint64_t seed = vh::argInt(argc, argv, 1, 1);
  long long N = vh::argInt(argc, argv, 2, 100);
  long long start = vh::argInt(argc, argv, 3, 0);
  // a stuck run prints the PFAIL record and the history up to the point of detection (replayed through the
  // model by the check, which also asks the model whether its state is stuck and by which mechanism)
  dsched::setStuckHandler([](const dsched::RunInfo& i) {
    auto& c = dsh::stuckCtx();
    std::string rep = i.report;
    for (auto& ch : rep) if (ch == '\n') ch = ';';
    std::printf("PFAIL %s | %s %s after %ld steps: %s\n", c.signature.c_str(),
                i.outcome == dsched::DEADLOCK ? "deadlock" : "livelock", c.detail.c_str(), i.steps, rep.c_str());
    std::printf("STUCK-BEGIN %s\n", c.proto.c_str());
    for (const auto& e : dsched::trace()) {
      if (e.kind == dsched::K_THREAD_START || e.kind == dsched::K_THREAD_END || e.kind == dsched::K_FENCE) continue;
      std::printf("T %s\n", dsched::fmt(e).c_str());
    }
    std::printf("STUCK-END %s\n", c.detail.c_str());
  });
  long long cases = 0;
  long maxSteps = 0;
  for (long long it = start; it < N; ++it) {
    vh::SplitMix rng(seed * 1000003ULL + (uint64_t)it);
    std::printf("SCN %lld\n", it);
    dsched::Options o;
    o.seed = seed * 15485863ULL + it;
    o.strategy = (it % 3 == 2) ? dsched::PCT : dsched::RANDOM;
    o.stickiness = 25 + (int)rng.below(70);
    // completed runs need < 15 000 steps; 50 ns of virtual time pass per step, the workers' idle-sleep
    // backstop is set to 2 ms below (40 000 steps), so a parked worker wakes several times before a run is
    // declared stuck: wake-up latency (C07) cannot make a run look stuck here
    o.fairAfter = 100000;
    o.livelockAfter = 400000;
    int n = (int)rng.below(5);
    int nsets = 1 + (int)rng.below(3);
    bool parkFirst = rng.below(2) == 0;
    bool foreign = rng.below(3) == 0;
    Program P;
    P.foreign = foreign;
    {
      Gen gen{P, rng};
      gen.root(nsets);
    }
    std::string desc = "nested pool=" + std::to_string(n) + " sets=" + std::to_string(nsets) + " park=" + std::to_string(parkFirst) +
        " foreign_waits=" + std::to_string(foreign) + " tasks=" + std::to_string(P.tasks.size()) +
        " heavy=" + std::to_string(P.heavy) + " bulk=" + std::to_string(P.bulk) + " fut=" + std::to_string(P.fut) +
        " pfor=" + std::to_string(P.pfor) + " seed=" + std::to_string(o.seed);
    auto& c = dsh::stuckCtx();
    c.signature = foreign ? "task waiting on a task set scheduled by another thread never returns (helping wait buried or starved the awaited task)"
                          : "fork-join program of nested waits never terminates";
    c.detail = desc;
    char hdr[64];
    std::snprintf(hdr, sizeof hdr, "nested %d %d", n, foreign ? 0 : 1);
    c.proto = hdr;
    dsched::ghostAdd(10, -dsched::ghostGet(10));
    Run run;
    run.P = &P;
    run.scn = it;
    run.sharedObj.assign((size_t)nsets, nullptr);
    run.sealed.assign((size_t)nsets, 0);
    g = &run;
    dsched::clearNames();
    auto info = dsched::run(o, [&] {
      {
        dispenso::ThreadPool pool((size_t)n);
        run.pool = &pool;
        pool.sleepLengthUs_.store(2000, std::memory_order_release);
        if (n > 0) {
          auto* ws = pool.wakeState_.load(std::memory_order_relaxed);
          dsched::nameRegion(&ws->groupStates_[0].sleepMask, sizeof(uint64_t), "sleep0");
        }
        if (parkFirst && n > 0) {
          // let the workers park so that placed scheduling uses the proactive-wake / steal-ring path
          for (int i = 0; i < 200; ++i) {
            auto* ws = pool.wakeState_.load(std::memory_order_relaxed);
            if (ws && ws->totalSleeping() == n) break;
            std::this_thread::sleep_for(std::chrono::microseconds(100));
          }
        }
        runTask(0);
        ev("call pooldtor");
      }
      run.pool = nullptr;
      dsched::note("ret pooldtor");
    });
    ++cases;
    if (info.steps > maxSteps) maxSteps = info.steps;
    long bodies = dsched::ghostGet(10);
    long expect = (long)P.tasks.size();
    for (const auto& t : P.tasks) for (const auto& a : t.script) if (a.k == K_PFOR) expect += a.n;
    if (bodies != expect)
      std::printf("PFAIL task bodies of a nested-wait program did not run exactly once | %s ran=%ld expected=%ld\n", desc.c_str(), bodies, expect);
    dsh::emitTrace(hdr, desc);
    std::printf("NT n%d.f%d.h%d.b%d.u%d.p%d.i%d.t%zu\n", n, (int)foreign, P.heavy > 0, P.bulk > 0, P.fut > 0, P.pfor > 0, P.inl > 0,
                P.tasks.size() > 12 ? (size_t)12 : P.tasks.size());
  }
  std::printf("STAT cases %lld\n", cases);
  std::printf("STAT max_steps %ld\n", maxSteps);
  std::fflush(stdout);
  _exit(0);
}
