// C41 (concurrent layer): allocSmallBuffer<S> / deallocSmallBuffer<S> / approxBytesAllocatedSmallBuffer<S>
// from 2..4 threads under the deterministic scheduler: cross-thread frees through a shared pool of live
// blocks, threads that exit while others keep allocating (their cache goes back to the central store),
// late threads, concurrent diagnostics calls.  One process per scenario (the allocator's state is
// process-global), so every trace starts from the empty allocator.  The call/ret events and every atomic
// operation on `backingStoreLock` are replayed through the Lean model (plug-in `smallbuf`); the oracle
// keeps an ownership map of the addresses handed out (alignment, inside a slab, not live already,
// contents intact at deallocation) and recomputes the occupancy of the lock's critical section from
// the lock-word events.
// usage: c41_smallbuf_conc <seed> <scenarios> [only-scenario-index]
#include <sys/wait.h>
#include <unistd.h>
#include <algorithm>
#include <array>
#include <atomic>
#include <cassert>
#include <climits>
#include <cstddef>
#include <cstdint>
#include <cstdlib>
#include <cstring>
#include <functional>
#include <limits>
#include <map>
#include <memory>
#include <mutex>
#include <set>
#include <thread>
#include <tuple>
#include <type_traits>
#include <utility>
#include <vector>
#define private public
#include <dispenso/detail/small_buffer_allocator_impl.h>
#undef private
#include <dispenso/small_buffer_allocator.h>
#include "dsched/dsh.h"

// Runs a callback when the thread's thread_local objects are destroyed; constructed before the thread's
// first allocator call, hence destroyed after the allocator's own per-thread data.
struct LateHook {
  std::function<void()> fn;
  ~LateHook() { if (fn) fn(); }
};

struct Live {
  char* p;
  long long id;
  unsigned char tag;
};

// harness bookkeeping shared by the managed threads: only touched through these non-inlined functions
static std::vector<Live> g_pool;
static std::set<uintptr_t> g_liveAddr;
static std::vector<std::string> g_bad;
__attribute__((noinline)) static void bad(const std::string& sig, const std::string& det) { g_bad.push_back(sig + " | " + det); }
__attribute__((noinline)) static bool poolTake(uint64_t r, Live& out) {
  if (g_pool.empty()) return false;
  size_t k = static_cast<size_t>(r % g_pool.size());
  out = g_pool[k];
  g_pool[k] = g_pool.back();
  g_pool.pop_back();
  g_liveAddr.erase(reinterpret_cast<uintptr_t>(out.p));
  return true;
}
__attribute__((noinline)) static bool poolPut(const Live& l) {
  g_pool.push_back(l);
  return g_liveAddr.insert(reinterpret_cast<uintptr_t>(l.p)).second;
}
__attribute__((noinline)) static size_t poolSize() { return g_pool.size(); }

template <size_t S>
struct Scenario {
  using A = dispenso::detail::SmallBufferAllocator<S>;
  dispenso::detail::SmallBufferGlobals& G = dispenso::detail::getSmallBufferGlobals<S>();
  std::string desc;

  long long blockId(char* p, bool& ok) {
    ok = false;
    for (size_t c = 0; c < G.backingStore.size(); ++c) {
      char* b = G.backingStore[c];
      if (p >= b && p < b + A::kMallocBytes) {
        size_t off = static_cast<size_t>(p - b);
        ok = (off % S == 0);
        return static_cast<long long>(c * A::kBuffersPerMalloc + off / S);
      }
    }
    return -1;
  }

  void doAlloc(vh::SplitMix& r) {
    auto bnc = A::buffersAndCount();
    char** tl = std::get<0>(bnc);
    size_t& cnt = std::get<1>(bnc);
    size_t cnt0 = cnt;
    DS_CALL("alloc");
    char* p = dispenso::allocSmallBuffer<S>();
    size_t cnt1 = cnt;
    bool ok;
    long long id = blockId(p, ok);
    std::string line = "ret alloc " + std::to_string(id);
    if (cnt0 == 0) {
      line += " " + std::to_string(cnt1 + 1);
      for (size_t i = 0; i <= cnt1; ++i) { bool k; line += " " + std::to_string(blockId(tl[i], k)); }
    } else {
      line += " -1";
    }
    dsched::note("%s", line.c_str());
    uintptr_t a = reinterpret_cast<uintptr_t>(p);
    std::string where = desc + " block=" + std::to_string(id);
    if (id < 0 || !ok) bad("allocSmallBuffer returned a pointer that is not a block of a slab", where);
    if (a % S != 0) bad("allocSmallBuffer returned a misaligned block", where);
    unsigned char tag = static_cast<unsigned char>(1 + r.below(250));
    if (id >= 0) std::memset(p, tag, S);
    if (!poolPut(Live{p, id, tag})) bad("allocSmallBuffer returned a block that is already live (handed out twice)", where);
  }

  void doDealloc(vh::SplitMix& r) {
    Live l;
    if (!poolTake(r.next(), l)) return;
    for (size_t i = 0; i < S; ++i)
      if (static_cast<unsigned char>(l.p[i]) != l.tag) {
        bad("live small buffer was overwritten (block shared with another owner)", desc + " block=" + std::to_string(l.id));
        break;
      }
    DS_CALL("dealloc %lld", l.id);
    dispenso::deallocSmallBuffer<S>(l.p);
    DS_RET("dealloc %zu", std::get<1>(A::buffersAndCount()));
  }

  void doBytes() {
    size_t c0 = G.backingStore.size();
    DS_CALL("bytes");
    size_t v = dispenso::approxBytesAllocatedSmallBuffer<S>();
    DS_RET("bytes %zu", v);
    size_t c1 = G.backingStore.size();
    if (v % A::kMallocBytes != 0 || v / A::kMallocBytes < c0 || v / A::kMallocBytes > c1)
      bad("approxBytesAllocatedSmallBuffer is not kMallocBytes * slabs", desc + " value=" + std::to_string(v));
  }

  struct Plan {
    int ops, allocPct, bytesPct;
    uint64_t seed;
    int lateAllocs = 0;  // allocator calls from a thread_local destructor that runs after ~PerThreadQueuingData
  };

  // body of a worker thread: the plan, then thread exit (with the late calls, if any)
  void worker(const Plan& pl) {
    thread_local LateHook hook;
    if (pl.lateAllocs > 0) {
      hook.fn = [this, pl] {
        vh::SplitMix r(pl.seed * 77 + 1);
        for (int i = 0; i < pl.lateAllocs; ++i) doAlloc(r);
      };
      vh::SplitMix r(pl.seed * 79 + 3);
      doAlloc(r);  // the allocator's per-thread data exists before the hook runs
    }
    work(pl);
    // the exit event precedes the real return of the cache (~PerThreadQueuingData runs after this body,
    // the late calls of the hook after that): an enqueue is always linearised early
    DS_CALL("exit");
  }

  void work(const Plan& pl) {
    vh::SplitMix r(pl.seed);
    for (int i = 0; i < pl.ops; ++i) {
      int x = static_cast<int>(r.below(100));
      if (x < pl.bytesPct) doBytes();
      else if (x < pl.bytesPct + pl.allocPct || poolSize() == 0) doAlloc(r);
      else doDealloc(r);
    }
  }

  void run(uint64_t seed, long long it) {
    vh::SplitMix rng(seed * 7349 + static_cast<uint64_t>(it) * 31 + S);
    dsched::Options o;
    o.seed = seed * 2654435761ull + static_cast<uint64_t>(it);
    o.strategy = (it % 4 == 3) ? dsched::PCT : dsched::RANDOM;
    o.stickiness = 5 + static_cast<int>(rng.below(85));
    o.pctLength = 600;
    const int I = static_cast<int>(A::kIdealNumTLBuffers);
    int nthreads = 2 + static_cast<int>(rng.below(3));
    int warm = 0;
    switch (rng.below(4)) {
      case 0: warm = 0; break;
      case 1: warm = 1 + static_cast<int>(rng.below(static_cast<uint64_t>(I))); break;
      case 2: warm = I + static_cast<int>(rng.below(static_cast<uint64_t>(3 * I))); break;
      default: warm = 4 * I + static_cast<int>(rng.below(static_cast<uint64_t>(2 * I))); break;
    }
    int warmFree = static_cast<int>(rng.below(static_cast<uint64_t>(warm) + 1));
    bool diag = rng.below(2) == 0;
    bool late = rng.below(2) == 0;
    std::vector<Plan> plans;
    for (int t = 0; t < nthreads + (late ? 1 : 0); ++t) {
      Plan pl;
      bool small = rng.below(3) == 0;
      pl.ops = small ? 1 + static_cast<int>(rng.below(6)) : I / 2 + static_cast<int>(rng.below(static_cast<uint64_t>(5 * I)));
      pl.allocPct = 25 + static_cast<int>(rng.below(60));
      pl.bytesPct = static_cast<int>(rng.below(8));
      if (diag && t == 0) { pl.bytesPct = 60; pl.ops = 4 + static_cast<int>(rng.below(20)); }
      pl.seed = o.seed * 131 + static_cast<uint64_t>(t);
      pl.lateAllocs = (rng.below(3) == 0) ? 1 + static_cast<int>(rng.below(3)) : 0;
      plans.push_back(pl);
    }
    int tail = static_cast<int>(rng.below(static_cast<uint64_t>(3 * I)));
    desc = "smallbuf class=" + std::to_string(S) + " threads=" + std::to_string(nthreads) + " warm=" + std::to_string(warm) +
        "/" + std::to_string(warmFree) + " diag=" + std::to_string(diag) + " late=" + std::to_string(late) + " tail=" +
        std::to_string(tail) + " scenario=" + std::to_string(it) + " seed=" + std::to_string(seed);
    auto& c = dsh::stuckCtx();
    c.signature = "SmallBufferAllocator call never returns";
    c.detail = desc;
    dsched::clearNames();
    dsched::nameRegion(&G.backingStoreLock, sizeof(G.backingStoreLock), "lock");
    dsched::run(o, [&] {
      vh::SplitMix r0(o.seed * 17 + 5);
      for (int i = 0; i < warm; ++i) doAlloc(r0);
      for (int i = 0; i < warmFree; ++i) doDealloc(r0);
      std::vector<std::thread> ths;
      for (int t = 0; t < nthreads; ++t)
        ths.emplace_back([&, t] { worker(plans[static_cast<size_t>(t)]); });
      // the main thread keeps working while the others run
      Plan mp{static_cast<int>(r0.below(static_cast<uint64_t>(2 * I))), 50, 3, o.seed * 977, 0};
      work(mp);
      ths[0].join();
      if (late) ths.emplace_back([&] { worker(plans.back()); });
      for (size_t t = 1; t < ths.size(); ++t) ths[t].join();
      // after everybody has exited: the blocks their caches returned are handed out again
      Plan tp{tail, 70, 5, o.seed * 991, 0};
      work(tp);
      while (poolSize() > 0) doDealloc(r0);
    });
    // critical-section occupancy, recomputed from the lock-word events alone
    std::set<int> inside;
    long long entries = 0, contended = 0, refills = 0;
    for (const auto& e : dsched::trace()) {
      if (e.kind == dsched::K_NOTE) { if (e.note.rfind("ret alloc", 0) == 0 && e.note.find(" -1") == std::string::npos) ++refills; continue; }
      if (e.addr != &G.backingStoreLock) continue;
      bool enter = (e.kind == dsched::K_FADD && static_cast<uint32_t>(e.result) == 0) || e.kind == dsched::K_CAS_OK;
      if (e.kind == dsched::K_FADD && static_cast<uint32_t>(e.result) != 0) ++contended;
      if (e.kind == dsched::K_CAS_FAIL) ++contended;
      if (enter) {
        ++entries;
        if (!inside.empty())
          bad("backingStoreLock: two threads inside the critical section",
              desc + " thread " + std::to_string(e.tid) + " entered while thread " + std::to_string(*inside.begin()) + " was inside");
        inside.insert(e.tid);
      } else if (e.kind == dsched::K_STORE) {
        if (!inside.count(e.tid)) bad("backingStoreLock released by a thread that is not inside", desc);
        inside.erase(e.tid);
      }
    }
    if (G.backingStore.size() != static_cast<size_t>(std::count_if(dsched::trace().begin(), dsched::trace().end(), [&](const dsched::Event& e) {
          return e.addr == &G.backingStoreLock && e.kind == dsched::K_FADD && static_cast<uint32_t>(e.result) == 0; })))
      bad("backingStore does not hold one entry per slab obtained", desc);
    std::set<std::string> seen;
    for (auto& b : g_bad)
      if (seen.insert(b.substr(0, b.find(" | "))).second) std::printf("PFAIL %s\n", b.c_str());
    int lateThreads = 0;
    for (auto& pl : plans) lateThreads += pl.lateAllocs > 0;
    std::printf("STAT late_call_threads %d\n", lateThreads);
    std::printf("NT c%zu t%d w%d d%d l%d x%d e%lld k%lld r%lld\n", S, nthreads, warm > 0 ? (warm >= 4 * I ? 2 : 1) : 0, (int)diag, (int)late, std::min(lateThreads, 2),
                std::min<long long>(entries, 6), std::min<long long>(contended, 4), std::min<long long>(refills, 8));
    std::printf("STAT lock_entries %lld\nSTAT lock_contended %lld\nSTAT refills %lld\nSTAT slabs %zu\n", entries, contended, refills,
                G.backingStore.size());
    dsh::emitTrace(("smallbuf " + std::to_string(S)).c_str(), desc);
  }
};

int main(int argc, char** argv) {
  uint64_t seed = static_cast<uint64_t>(vh::argInt(argc, argv, 1, 1));
  long long N = vh::argInt(argc, argv, 2, 100);
  long long only = vh::argInt(argc, argv, 3, -1);
  long long cases = 0;
  for (long long it = 0; it < N; ++it) {
    if (only >= 0 && it != only) continue;
    std::fflush(stdout);
    pid_t pid = fork();
    if (pid == 0) {
      dsh::installStuckHandler();
      if (it % 2 == 0) { Scenario<256> sc; sc.run(seed, it); }
      else { Scenario<128> sc; sc.run(seed, it); }
      std::fflush(stdout);
      _exit(0);
    }
    int status = 0;
    waitpid(pid, &status, 0);
    ++cases;
    if (!WIFEXITED(status) || WEXITSTATUS(status) != 0)
      std::printf("PFAIL SmallBufferAllocator scenario terminated abnormally | scenario=%lld seed=%llu status=%d\n", it,
                  (unsigned long long)seed, status);
  }
  std::printf("STAT cases %lld\n", cases);
  std::fflush(stdout);
  return 0;
}
