// C26: TimedTask / TimedTaskScheduler under the deterministic scheduler with virtual time.
//
// Real code exercised: dispenso/timed_task.h, detail/timed_task_impl.h, timed_task.cpp (scheduler thread,
// priority queue, kickOffTask, addTimedTask), optionally dispenso::ThreadPool as the backing schedulable.
// dispenso::getTime() is replaced by the scheduler's virtual clock (timing.cpp is not linked): time unit
// = 2^-30 s ("tick"), so every comparison the library makes on doubles is exact integer arithmetic.
// TimedTaskScheduler::schedule() is replicated white-box (private constructor + addTimedTask) so that the
// impl's words can be named before addTimedTask runs.
//
// For every task one trace block (protocol `timedtask`) is printed: the projection of the run onto
// that impl.  Oracle (independent of the model): invocation log with virtual timestamps, flags sampled
// at invocation start, running counter at destructor return, a ledger for the function object living
// in `func`.
//
// usage: c26_timedtask <seed> <scenarios> [first-scenario]
#include <atomic>
#include <chrono>
#include <csignal>
#include <exception>
#include <functional>
#include <memory>
#include <mutex>
#include <optional>
#include <thread>
#include <type_traits>
#include <vector>
#define private public
#include <dispenso/timed_task.h>
#undef private
#include <dispenso/thread_pool.h>
#include "dsched/dsh.h"

// ------------------------------------------------------------------ virtual clock
static const double kTick = 1.0 / 1073741824.0;  // 2^-30 s
static const uint64_t kBufTicks = 10738;         // d * 2^-30 < 10e-6  <=>  d < 10738
static uint64_t nowTicks() {
  unsigned __int128 x = dsched::nowNs();
  x = x * 1073741824ull / 1000000000ull;
  return (uint64_t)x;
}
static uint64_t ticksToNs(uint64_t k) {
  unsigned __int128 x = k;
  x = x * 1000000000ull / 1073741824ull;
  return (uint64_t)x + 1;
}
namespace dispenso {
double getTime() {
  uint64_t k = nowTicks();
  if (dsched::tid() >= 0) dsched::note("time %llu", (unsigned long long)k);
  return (double)k * kTick;
}
}  // namespace dispenso

template <class T, class = void>
struct HasKickOff : std::false_type {};
template <class T>
struct HasKickOff<T, std::void_t<decltype(&T::kickOff)>> : std::true_type {};
static const bool kFixed = HasKickOff<dispenso::detail::TimedTaskImpl>::value;

// ------------------------------------------------------------------ oracle state
struct TaskCtx {
  int id = 0;
  // parameters
  uint64_t n0 = 1, first = 0, period = 0;
  bool steady = false;
  int mode = 0;          // 0 inline, 1 thread per wrap, 2 dispenso::ThreadPool
  int falseAt = 0;       // the falseAt-th invocation returns false (0: never)
  uint64_t fdurNs = 0;   // virtual duration of an invocation
  bool holdUntilFalse = false;  // the backing starts wraps 1.. only once an invocation has returned false (bounded)
  // ledger / counters (volatile: shared by managed threads, exactly one of which runs at a time)
  volatile long started = 0, running = 0, submitted = 0;
  volatile long cancelReturned = 0, dtorReturned = 0, falseReturned = 0, fnDestroyed = 0, fnCopies = 0;
  volatile long kickSeen = 0;
  std::shared_ptr<dispenso::detail::TimedTaskImpl> keep;
  std::string desc;
};

static std::vector<std::string>& pfails() { static std::vector<std::string> v; return v; }
static void pfail(const char* sig, const TaskCtx* t, const std::string& extra) {
  std::string line = std::string("PFAIL ") + sig + " | " + (t ? t->desc : std::string("?")) + " " + extra;
  for (auto& p : pfails()) if (p == line) return;
  pfails().push_back(line);
}
#define SIG_COUNT "TimedTask function invoked more than timesToRun times"
#define SIG_FALSE "TimedTask invocation started after an earlier invocation returned false"
#define SIG_FLAG "TimedTask invocation started while the cancelled flag was set"
#define SIG_CANCEL "TimedTask invocation started after cancel() returned"
#define SIG_EARLY "TimedTask invocation started before its first scheduled time (inside kSmallTimeBuffer)"
#define SIG_EARLY_HARD "TimedTask invocation started more than kSmallTimeBuffer before its first scheduled time"
#define SIG_DTOR_RUNNING "TimedTask destructor returned while an invocation was in progress"
#define SIG_DTOR_START "TimedTask invocation started after the non-detached destructor returned"
#define SIG_UAF "TimedTask func called or used after it was destroyed (kick-off racing ~TimedTask or a false return)"
#define SIG_UAF_EXEC "TimedTask function object destroyed while an invocation was executing"

static thread_local int tlWrap = -1;
static std::atomic<int>& dummyAtomic() { static std::atomic<int> d{0}; return d; }

static TaskCtx* g_tasks[4] = {nullptr, nullptr, nullptr, nullptr};
static int g_ntasks = 0;
static std::string g_scenario;

// the user function: its captured state is a ledger entry
struct Fn {
  static constexpr uint32_t kAlive = 0xA11CE5u, kDead = 0xDEADu;
  TaskCtx* t;
  volatile uint32_t magic;
  bool movedFrom;
  explicit Fn(TaskCtx* tc) : t(tc), magic(kAlive), movedFrom(false) {}
  Fn(Fn&& o) noexcept : t(o.t), magic(kAlive), movedFrom(false) { o.movedFrom = true; }
  Fn(const Fn& o) : t(o.t), magic(kAlive), movedFrom(false) { t->fnCopies = t->fnCopies + 1; }
  Fn& operator=(const Fn&) = delete;
  ~Fn() {
    if (!movedFrom && magic == kAlive) {
      // destruction of the live function object is a scheduling point
      dummyAtomic().fetch_add(1, std::memory_order_relaxed);
      t->fnDestroyed = t->fnDestroyed + 1;
    }
    magic = kDead;
  }
  bool operator()() const {
    // no scheduling point between the cancelled-check in `wrap` and these records
    TaskCtx* c = t;
    uint64_t nowK = nowTicks();
    if (magic != kAlive) { pfail(SIG_UAF, nullptr, g_scenario + " function object invoked after its destruction"); return false; }
    long idx = c->started;
    c->started = idx + 1;
    c->running = c->running + 1;
    uint32_t fl = *reinterpret_cast<volatile uint32_t*>(&c->keep->flags);
    char buf[160];
    std::snprintf(buf, sizeof buf, "invocation=%ld at=%llu first=%llu wrap=%d", idx, (unsigned long long)nowK,
                  (unsigned long long)c->first, tlWrap);
    if ((uint64_t)(idx + 1) > c->n0) pfail(SIG_COUNT, c, buf);
    if (fl & dispenso::detail::kFFlagsCancelled) pfail(SIG_FLAG, c, buf);
    if (c->falseReturned) pfail(SIG_FALSE, c, buf);
    if (c->cancelReturned) pfail(SIG_CANCEL, c, buf);
    if (c->dtorReturned) pfail(SIG_DTOR_START, c, buf);
    if (nowK + kBufTicks <= c->first) pfail(SIG_EARLY_HARD, c, buf);
    else if (nowK < c->first) pfail(SIG_EARLY, c, buf);
    dsched::note("k%d fstart %d %llu", c->id, tlWrap, (unsigned long long)nowK);
    // body
    if (c->fdurNs) std::this_thread::sleep_for(std::chrono::nanoseconds(c->fdurNs));
    else dummyAtomic().fetch_add(1, std::memory_order_relaxed);
    // end of the invocation
    if (magic != kAlive) pfail(SIG_UAF_EXEC, c, buf);
    c->running = c->running - 1;
    bool r = !(c->falseAt > 0 && idx + 1 == c->falseAt);
    if (!r) c->falseReturned = 1;
    dsched::note("k%d fret %d %d", c->id, tlWrap, r ? 1 : 0);
    return r;
  }
};

// the backing schedulable handed to the TimedTask (one per task, so that it knows the task)
struct Backing {
  TaskCtx* t;
  dispenso::ThreadPool* pool;
  std::vector<std::thread>* threads;
  template <typename F>
  void schedule(F&& f, dispenso::ForceQueuingTag tag) {
    // we are inside func's closure here: it must not have been destroyed
    TaskCtx* c = t;
    if (c->fnDestroyed) pfail(SIG_UAF, c, "sched.schedule(wrap) reached after func's closure was destroyed");
    int i = (int)c->submitted;
    c->submitted = i + 1;
    dsched::note("k%d submit %d", c->id, i);
    int id = c->id;
    if (c->mode == 0) {
      int saved = tlWrap;
      tlWrap = i;
      dsched::note("k%d wbegin %d", id, i);
      f();
      dsched::note("k%d wend %d", id, i);
      tlWrap = saved;
      return;
    }
    auto body = [c, id, i, w = f]() mutable {
      if (c->holdUntilFalse && i >= 1) {
        // a busy backing: this wrap gets to run only later (at most 2 ms later)
        uint64_t until = nowTicks() + 2000000;
        while (!c->falseReturned && nowTicks() < until) std::this_thread::yield();
      }
      tlWrap = i;
      dsched::note("k%d wbegin %d", id, i);
      w();
      dsched::note("k%d wend %d", id, i);
      tlWrap = -1;
    };
    if (c->mode == 1) threads->emplace_back(std::move(body));
    else pool->schedule(std::move(body), tag);
  }
};

// ------------------------------------------------------------------ trace projection
static void emitTask(const TaskCtx& t) {
  std::printf("TRACE-BEGIN timedtask %llu %llu %llu %d %d %llu %d\n", (unsigned long long)t.n0, (unsigned long long)t.first,
              (unsigned long long)t.period, t.steady ? 1 : 0, t.mode == 0 ? 1 : 0, (unsigned long long)kBufTicks, kFixed ? 1 : 0);
  std::string prefix = "k" + std::to_string(t.id);
  std::vector<std::pair<int, std::string>> pendingTime;  // tid -> last time note not yet printed
  std::string lastLine;
  long collapsed = 0;
  auto flush = [&](int tid) {
    for (auto& p : pendingTime)
      if (p.first == tid && !p.second.empty()) { std::printf("T %d %s\n", tid, p.second.c_str()); p.second.clear(); lastLine.clear(); }
  };
  for (const auto& e : dsched::trace()) {
    if (e.kind == dsched::K_THREAD_START || e.kind == dsched::K_THREAD_END) continue;
    if (e.kind == dsched::K_NOTE) {
      const std::string& n = e.note;
      if (n.compare(0, 5, "time ") == 0) {
        bool found = false;
        for (auto& p : pendingTime) if (p.first == e.tid) { p.second = n; found = true; }
        if (!found) pendingTime.push_back({e.tid, n});
      } else if (n.compare(0, prefix.size() + 1, prefix + " ") == 0) {
        flush(e.tid);
        lastLine.clear();
        std::printf("T %d %s\n", e.tid, n.c_str() + prefix.size() + 1);
      }
      continue;
    }
    if (!e.addr) continue;
    std::string f = dsched::fmt(e);  // "tid kind name[+off] mo operand result aux"
    size_t p1 = f.find(' '), p2 = f.find(' ', p1 + 1), p3 = f.find(' ', p2 + 1);
    if (p1 == std::string::npos || p2 == std::string::npos || p3 == std::string::npos) continue;
    std::string name = f.substr(p2 + 1, p3 - p2 - 1);
    if (name.compare(0, prefix.size() + 1, prefix + ".") != 0) continue;
    name = name.substr(prefix.size() + 1);
    size_t plus = name.find('+');
    if (plus != std::string::npos) name = name.substr(0, plus);
    flush(e.tid);
    // a spin of identical loads (the destructor waiting on inProgress) is one model step repeated: print it once
    std::string line = f.substr(0, p2) + " " + name + f.substr(p3);
    if (e.kind == dsched::K_LOAD && line == lastLine) { ++collapsed; continue; }
    lastLine = line;
    std::printf("T %s\n", line.c_str());
  }
  (void)collapsed;
  std::printf("TRACE-END %s\n", t.desc.c_str());
}

static void flushPfails() {
  for (auto& p : pfails()) std::printf("%s\n", p.c_str());
  pfails().clear();
}

// after a crash of the code under test the remaining scenarios run in a fresh process image
static const char* g_argv0 = nullptr;
static unsigned long long g_seed = 1;
static long long g_it = 0, g_end = 0, g_cases = 0, g_invocations = 0;
static void continueAfterCrash() {
  std::fflush(stdout);
  if (g_argv0 && g_it + 1 < g_end) {
    char a1[32], a2[32], a3[32], a4[32], a5[32];
    std::snprintf(a1, sizeof a1, "%llu", g_seed);
    std::snprintf(a2, sizeof a2, "%lld", g_end - (g_it + 1));
    std::snprintf(a3, sizeof a3, "%lld", g_it + 1);
    std::snprintf(a4, sizeof a4, "%lld", g_cases + 1);
    std::snprintf(a5, sizeof a5, "%lld", g_invocations);
    char* const args[] = {const_cast<char*>(g_argv0), a1, a2, a3, a4, a5, nullptr};
    execv(g_argv0, args);
  }
  std::printf("STAT cases %lld\nSTAT invocations %lld\n", g_cases + 1, g_invocations);
  std::fflush(stdout);
  _exit(0);
}

static void onTerminate() {
  // an exception escaped a thread: with this code it is std::bad_function_call from calling a cleared func
  const char* what = "unknown exception";
  const char* sig = "uncaught exception in a thread of the TimedTask scenario";
  try {
    if (auto ep = std::current_exception()) std::rethrow_exception(ep);
  } catch (const std::bad_function_call&) {
    sig = SIG_UAF;
    what = "std::bad_function_call: kickOffTask called func after it had been cleared";
  } catch (const std::exception& e) {
    what = e.what();
  } catch (...) {
  }
  flushPfails();
  std::printf("PFAIL %s | %s std::terminate in thread %d: %s\n", sig, g_scenario.c_str(), dsched::tid(), what);
  for (int k = 0; k < g_ntasks; ++k) if (g_tasks[k]) emitTask(*g_tasks[k]);
  continueAfterCrash();
}

static void onSegv(int sig) {
  // code as found: the kicker running on through func's freed closure typically dies on the clobbered
  // captured `sched` reference; attribute the crash to that only there
  bool destroyed = false;
  for (int k = 0; k < g_ntasks; ++k) if (g_tasks[k] && g_tasks[k]->fnDestroyed) destroyed = true;
  if (destroyed && !kFixed) {
    flushPfails();
    std::printf("PFAIL %s | %s signal %d in thread %d after func's closure had been destroyed\n", SIG_UAF, g_scenario.c_str(), sig,
                dsched::tid());
    continueAfterCrash();
  }
  std::signal(sig, SIG_DFL);
  std::raise(sig);
}

// ------------------------------------------------------------------ scenario
enum Op { OP_SLEEP, OP_CALLS, OP_CANCEL, OP_DETACH, OP_DTOR, OP_WAITKICK, OP_WAITSTART, OP_HELPER_CANCEL };
struct Step { Op op; uint64_t ticks; };

static void sleepTicks(uint64_t k) {
  if (k) std::this_thread::sleep_for(std::chrono::nanoseconds(ticksToNs(k)));
}

int main(int argc, char** argv) {
  uint64_t seed = vh::argInt(argc, argv, 1, 1);
  long long N = vh::argInt(argc, argv, 2, 100);
  long long firstScenario = vh::argInt(argc, argv, 3, 0);
  g_argv0 = argv[0];
  g_seed = seed;
  g_end = firstScenario + N;
  dsh::installStuckHandler();
  std::set_terminate(onTerminate);
  {
    // this image may have been exec'd from the SIGSEGV handler of its predecessor: unblock
    sigset_t ss;
    sigemptyset(&ss);
    sigaddset(&ss, SIGSEGV);
    sigaddset(&ss, SIGBUS);
    sigprocmask(SIG_UNBLOCK, &ss, nullptr);
  }
  std::signal(SIGSEGV, onSegv);
  std::signal(SIGBUS, onSegv);
  long long cases = vh::argInt(argc, argv, 4, 0), invocations = vh::argInt(argc, argv, 5, 0), backstops = 0;
  for (long long it = firstScenario; it < firstScenario + N; ++it) {
    g_it = it;
    g_cases = cases;
    g_invocations = invocations;
    vh::SplitMix rng(seed * 1000003ull + (uint64_t)it);
    dsched::Options o;
    o.seed = seed * 7919 + (uint64_t)it;
    o.strategy = (it % 5 == 4) ? dsched::PCT : dsched::RANDOM;
    o.stickiness = 30 + (int)rng.below(65);
    o.pctDepth = 2 + (int)rng.below(3);
    o.pctLength = 4000;
    o.spinJump = true;
    int ntasks = rng.below(4) == 0 ? 2 : 1;
    TaskCtx ctx[2];
    std::vector<Step> script[2];
    static const uint64_t offs[] = {0, 0, 5000, 10737, 10738, 10739, 30000, 60000, 300000, 700000, 2000000};
    static const uint64_t periods[] = {0, 3000, 20000, 120000, 600000};
    int pastFirst[2] = {0, 0};
    uint64_t offv[2] = {0, 0};
    for (int k = 0; k < ntasks; ++k) {
      TaskCtx& t = ctx[k];
      t.id = k;
      static const uint64_t n0s[] = {0, 1, 1, 1, 2, 3, 5, ~0ull};
      t.n0 = n0s[rng.below(8)];
      t.period = periods[rng.below(5)];
      if (t.n0 == ~0ull && t.period < 20000) t.period = 20000 + 100000 * rng.below(3);
      t.steady = rng.coin();
      t.mode = (int)rng.below(4);  // 0 inline, 1 thread per wrap, 2 pool(1), 3 pool(2)
      t.falseAt = rng.below(3) == 0 ? (int)rng.range(1, 3) : 0;
      switch (rng.below(4)) {
        case 0: t.fdurNs = 0; break;
        case 1: t.fdurNs = 2000; break;
        case 2: t.fdurNs = ticksToNs(t.period + t.period / 2 + 1000); break;
        default: t.fdurNs = 40000; break;
      }
      if (t.mode != 0 && rng.below(8) == 0) {
        // overlapping invocations, the first one returns false
        t.holdUntilFalse = true;
        t.mode = 1 + 2 * (int)rng.below(2);
        t.falseAt = 1;
        t.n0 = 2 + rng.below(3);
        t.period = periods[1 + rng.below(2)];
        t.fdurNs = ticksToNs(t.period * 2 + 1000);
      }
      pastFirst[k] = rng.below(6) == 0;
      offv[k] = offs[rng.below(sizeof offs / sizeof offs[0])];
      // owner script
      uint64_t span = offv[k] + t.period * 2 + 20000;
      auto rnd = [&](uint64_t m) { return m ? rng.below(m) : 0; };
      std::vector<Step>& s = script[k];
      switch (rng.below(9)) {
        case 0: s = {{OP_SLEEP, rnd(span)}, {OP_DTOR, 0}}; break;
        case 1: s = {{OP_WAITKICK, span + 100000}, {OP_DTOR, 0}}; break;
        case 2: s = {{OP_SLEEP, rnd(span)}, {OP_CANCEL, 0}, {OP_SLEEP, rnd(20000)}, {OP_CALLS, 0}, {OP_DTOR, 0}}; break;
        case 3: s = {{OP_DETACH, 0}, {OP_SLEEP, rnd(span)}, {OP_DTOR, 0}}; break;
        case 4: s = {{OP_SLEEP, rnd(span)}, {OP_CALLS, 0}, {OP_SLEEP, span}, {OP_CALLS, 0}, {OP_DTOR, 0}}; break;
        case 5: s = {{OP_WAITSTART, span + 100000}, {OP_SLEEP, rnd(3000)}, {rng.coin() ? OP_CANCEL : OP_CALLS, 0}, {OP_DTOR, 0}}; break;
        case 6: s = {{OP_SLEEP, rnd(span)}, {OP_HELPER_CANCEL, rnd(4000)}, {OP_CALLS, 0}, {OP_SLEEP, rnd(2000)}, {OP_DTOR, 0}}; break;
        case 7: {
          // destroy close to the first kick-off time
          uint64_t at = offv[k] > kBufTicks ? offv[k] - kBufTicks : 0;
          uint64_t j = rnd(2000);
          s = {{OP_SLEEP, at + j > 1000 ? at + j - 1000 : 0}, {OP_DTOR, 0}};
          break;
        }
        default: s = {{OP_WAITKICK, span + 100000}, {OP_SLEEP, rnd(300)}, {OP_CANCEL, 0}, {OP_SLEEP, rnd(5000)}, {OP_DTOR, 0}}; break;
      }
    }
    uint64_t tail = rng.below(3) == 0 ? 0 : rng.below(700000);
    char sb[400];
    std::snprintf(sb, sizeof sb, "scenario=%lld seed=%llu tasks=%d", it, (unsigned long long)seed, ntasks);
    g_scenario = sb;
    auto& sc = dsh::stuckCtx();
    sc.signature = "TimedTask operation never returns";
    sc.detail = g_scenario;
    dsched::clearNames();
    g_ntasks = ntasks;
    for (int k = 0; k < ntasks; ++k) g_tasks[k] = &ctx[k];
    dsched::RunInfo info = dsched::run(o, [&] {
      int poolThreads = 0;
      for (int k = 0; k < ntasks; ++k) if (ctx[k].mode >= 2) poolThreads = std::max(poolThreads, ctx[k].mode - 1);
      std::optional<dispenso::ThreadPool> pool;
      if (poolThreads) pool.emplace((size_t)poolThreads);
      // one vector per task: only the (single) kicker of a task appends to it
      std::vector<std::thread> wrapThreads[2];
      wrapThreads[0].reserve(4096);
      wrapThreads[1].reserve(4096);
      Backing backing[2];
      for (int k = 0; k < ntasks; ++k) {
        backing[k].t = &ctx[k];
        backing[k].pool = pool ? &*pool : nullptr;
        backing[k].threads = &wrapThreads[k];
        if (ctx[k].mode >= 2) ctx[k].mode = 2;
      }
      {
        dispenso::TimedTaskScheduler sch;
        std::optional<dispenso::TimedTask> task[2];
        uint64_t t0 = nowTicks() + 2000;
        for (int k = 0; k < ntasks; ++k) {
          TaskCtx& t = ctx[k];
          t.first = pastFirst[k] ? (t0 > 5000 ? t0 - 5000 : 0) : t0 + offv[k];
          std::snprintf(sb, sizeof sb, "%s task=%d n0=%llu first=%llu period=%llu steady=%d mode=%d falseAt=%d fdurNs=%llu fixed=%d",
                        g_scenario.c_str(), k, (unsigned long long)t.n0, (unsigned long long)t.first, (unsigned long long)t.period,
                        t.steady ? 1 : 0, t.mode, t.falseAt, (unsigned long long)t.fdurNs, kFixed ? 1 : 0);
          t.desc = sb;
          // what TimedTaskScheduler::schedule does: construct the task, then addTimedTask(task.impl_)
          task[k].emplace(dispenso::TimedTask(backing[k], Fn(&t), (double)t.first * kTick, (double)t.period * kTick, (size_t)t.n0,
                                              t.steady ? dispenso::TimedTaskType::kSteady : dispenso::TimedTaskType::kNormal));
          auto* impl = task[k]->impl_.get();
          t.keep = task[k]->impl_;
          std::string p = "k" + std::to_string(k) + ".";
          dsched::nameRegion(&impl->count, sizeof impl->count, (p + "count").c_str());
          dsched::nameRegion(&impl->timesToRun, sizeof impl->timesToRun, (p + "ttr").c_str());
          dsched::nameRegion(&impl->flags, sizeof impl->flags, (p + "flags").c_str());
          dsched::nameRegion(&impl->inProgress, sizeof impl->inProgress, (p + "inprog").c_str());
          dsched::namePlainRegion(&impl->func, sizeof impl->func, sizeof impl->func, (p + "func").c_str());
        }
        std::vector<std::thread> owners;
        for (int k = 0; k < ntasks; ++k) {
          owners.emplace_back([&, k] {
            TaskCtx& t = ctx[k];
            auto* impl = t.keep.get();
            dsched::note("k%d call add", k);
            sch.addTimedTask(task[k]->impl_);
            dsched::note("k%d ret add", k);
            std::vector<std::thread> helpers;
            for (const Step& st : script[k]) {
              switch (st.op) {
                case OP_SLEEP: sleepTicks(st.ticks); break;
                case OP_CALLS: {
                  dsched::note("k%d call calls", k);
                  size_t v = task[k]->calls();
                  dsched::note("k%d ret calls %zu", k, v);
                  if (v > (size_t)t.started) pfail("TimedTask calls() exceeds the number of invocations made", &t, "calls=" + std::to_string(v));
                  break;
                }
                case OP_CANCEL:
                  dsched::note("k%d call cancel", k);
                  task[k]->cancel();
                  dsched::note("k%d ret cancel", k);
                  t.cancelReturned = 1;
                  break;
                case OP_DETACH:
                  dsched::note("k%d call detach", k);
                  task[k]->detach();
                  dsched::note("k%d ret detach", k);
                  break;
                case OP_HELPER_CANCEL:
                  helpers.emplace_back([&, k, d = st.ticks] {
                    sleepTicks(d);
                    dsched::note("k%d call cancel", k);
                    task[k]->cancel();
                    dsched::note("k%d ret cancel", k);
                    ctx[k].cancelReturned = 1;
                  });
                  break;
                case OP_WAITKICK: {
                  // proceed as soon as a kick-off has decremented timesToRun (bounded wait)
                  uint64_t until = nowTicks() + st.ticks;
                  while (*reinterpret_cast<volatile size_t*>(&impl->timesToRun) == (size_t)t.n0 && nowTicks() < until)
                    std::this_thread::yield();
                  break;
                }
                case OP_WAITSTART: {
                  uint64_t until = nowTicks() + st.ticks;
                  while (t.started == 0 && nowTicks() < until) std::this_thread::yield();
                  break;
                }
                case OP_DTOR: {
                  for (auto& h : helpers) h.join();
                  helpers.clear();
                  bool detached = (*reinterpret_cast<volatile uint32_t*>(&impl->flags) & dispenso::detail::kFFlagsDetached) != 0;
                  dsched::note("k%d call dtor", k);
                  task[k].reset();
                  dsched::note("k%d ret dtor", k);
                  // no scheduling point since the destructor's last operation
                  if (!detached) {
                    if (t.running != 0) pfail(SIG_DTOR_RUNNING, &t, "running=" + std::to_string(t.running));
                    t.dtorReturned = 1;
                  }
                  break;
                }
              }
            }
            for (auto& h : helpers) h.join();
          });
        }
        for (auto& th : owners) th.join();
        sleepTicks(tail);
      }  // ~TimedTaskScheduler: stops and joins the scheduler thread
      // wraps still queued on the backing run now (the pool drains in its destructor)
      pool.reset();
      for (int k = 0; k < 2; ++k)
        for (size_t i = 0; i < wrapThreads[k].size(); ++i) wrapThreads[k][i].join();
    });
    ++cases;
    backstops += info.backstopsFired;
    for (int k = 0; k < ntasks; ++k) {
      TaskCtx& t = ctx[k];
      invocations += t.started;
      if (t.fnCopies) pfail("TimedTask copied the user function after construction", &t, "copies=" + std::to_string(t.fnCopies));
      std::printf("NT m%d n%s p%llu f%d st%ld sub%ld c%ld d%ld fr%ld\n", t.mode, t.n0 == ~0ull ? "inf" : std::to_string(t.n0).c_str(),
                  (unsigned long long)t.period, t.falseAt, (long)t.started, (long)t.submitted, (long)t.cancelReturned,
                  (long)t.dtorReturned, (long)t.falseReturned);
    }
    flushPfails();
    for (int k = 0; k < ntasks; ++k) emitTask(ctx[k]);
    dsched::clearNames();
    for (int k = 0; k < ntasks; ++k) { g_tasks[k] = nullptr; ctx[k].keep.reset(); }
    g_ntasks = 0;
  }
  std::printf("STAT cases %lld\n", cases);
  std::printf("STAT invocations %lld\n", invocations);
  std::printf("STAT fixed_kickoff %d\n", kFixed ? 1 : 0);
  std::fflush(stdout);
  _exit(0);
}
