// C36: ChaseLevDeque under the deterministic scheduler: one owner (push/pop), 1..3 stealers.
// usage: c36_chaselev <seed> <scenarios>
#include <map>
#include <thread>
#include <vector>
#include "dsched/dsh.h"
#define private public
#include <dispenso/chase_lev_deque.h>
#undef private

static long long cases = 0;

// a 16-byte trivially copyable element: the copy is not a single machine word
struct Wide {
  long a; long b;
  Wide() : a(0), b(~0L) {}
  Wide(int x) : a(x), b(~(long)x) {}
  operator int() const { return b == ~a ? (int)a : -999; }   // -999: torn / mixed copy
};

template <size_t Cap, typename Elem>
static void scenario(uint64_t seed, vh::SplitMix& rng, long long it) {
  using Deque = dispenso::ChaseLevDeque<Elem, Cap>;
  dsched::Options o;
  o.seed = seed * 32452843 + it;
  o.strategy = (it % 4 == 3) ? dsched::PCT : dsched::RANDOM;
  o.stickiness = 15 + (int)rng.below(75);
  int stealers = (int)rng.range(1, 3), ownerOps = (int)rng.range(2, 10), stealOps = (int)rng.range(1, 4);
  std::vector<int> plan;  // 1 push, 0 pop, 2 pop_into
  for (int i = 0; i < ownerOps; ++i) plan.push_back(rng.below(5) < 3 ? 1 : (rng.coin() ? 0 : 2));
  std::string desc = "chaselev cap=" + std::to_string(Cap) + " stealers=" + std::to_string(stealers) + " ownerOps=" +
      std::to_string(ownerOps) + " stealOps=" + std::to_string(stealOps) + " seed=" + std::to_string(o.seed);
  auto& c = dsh::stuckCtx();
  c.signature = "ChaseLevDeque operation never returns";
  c.detail = desc;
  std::vector<int> pushedOk, got;
  int bad = 0;
  std::string badWhy;
  dsched::clearNames();
  dsched::run(o, [&] {
    Deque dq;
    dsched::nameRegion(&dq.top_, 8, "top");
    dsched::nameRegion(&dq.bottom_, 8, "bottom");
    dsched::namePlainRegion(&dq.storage_[0], sizeof(Elem) * Cap, sizeof(Elem), "slot");
    std::vector<int> ownerStack;  // what the owner believes is in the deque, newest last (ghost)
    std::vector<std::thread> ths;
    ths.emplace_back([&] {
      int tag = 1;
      for (int k : plan) {
        if (k == 1) {
          DS_CALL("try_push %d", tag);
          bool ok = dq.try_push(Elem(tag));
          DS_RET("try_push %d", ok ? 1 : 0);
          if (ok) pushedOk.push_back(tag);
          ++tag;
        } else {
          Elem outE(-7);
          bool ok;
          if (k == 0) { DS_CALL("try_pop"); ok = dq.try_pop(outE); }
          else { DS_CALL("try_pop_into"); ok = dq.try_pop_into(&outE); }
          int out = (int)outE;
          DS_RET("%s %d%s", k == 0 ? "try_pop" : "try_pop_into", ok ? 1 : 0, ok ? (" " + std::to_string(out)).c_str() : "");
          if (ok) {
            got.push_back(out);
            // owner pops return the newest element not yet returned by anybody
            int newest = -1;
            for (int p : pushedOk) {
              bool taken = false;
              for (size_t g = 0; g + 1 < got.size(); ++g) taken |= (got[g] == p);
              if (!taken && p != out) newest = std::max(newest, p);
            }
            if (newest > out) { ++bad; badWhy = "owner pop did not return the newest remaining element"; }
          }
        }
      }
    });
    for (int s = 0; s < stealers; ++s)
      ths.emplace_back([&] {
        for (int i = 0; i < stealOps; ++i) {
          Elem outE(-7);
          DS_CALL("try_steal");
          bool ok = dq.try_steal(outE);
          int out = (int)outE;
          DS_RET("try_steal %d%s", ok ? 1 : 0, ok ? (" " + std::to_string(out)).c_str() : "");
          if (ok) got.push_back(out);
          if (i == 1) {
            DS_CALL("size");
            size_t sz = dq.size();
            DS_RET("size %zu", sz);
            if (sz > Cap) { ++bad; badWhy = "size above capacity"; }
          }
        }
      });
    for (auto& t : ths) t.join();
    // quiescent drain: steal succeeds iff non-empty
    size_t expect = pushedOk.size() - got.size();
    size_t n = 0;
    for (;;) {
      Elem outE(-7);
      bool viaPop = rng.coin();
      if (viaPop) { DS_CALL("try_pop"); } else { DS_CALL("try_steal"); }
      bool ok = viaPop ? dq.try_pop(outE) : dq.try_steal(outE);
      int out = (int)outE;
      DS_RET("%s %d%s", viaPop ? "try_pop" : "try_steal", ok ? 1 : 0, ok ? (" " + std::to_string(out)).c_str() : "");
      if (!ok) break;
      got.push_back(out);
      if (++n > Cap + 2) break;
    }
    if (n != expect) { ++bad; badWhy = "quiescent drain count differs from contents"; }
    DS_CALL("empty");
    bool e = dq.empty();
    DS_RET("empty %d", e ? 1 : 0);
    if (!e) { ++bad; badWhy = "not empty after drain"; }
  });
  ++cases;
  std::map<int, int> cnt;
  for (int v : got) ++cnt[v];
  bool dup = false, alien = false;
  for (auto& kv : cnt) {
    dup |= kv.second > 1;
    bool f = false;
    for (int p : pushedOk) f |= (p == kv.first);
    alien |= !f;
  }
  if (dup || alien || got.size() != pushedOk.size())
    std::printf("PFAIL ChaseLevDeque element lost, duplicated or invented | %s pushed=%zu got=%zu\n", desc.c_str(), pushedOk.size(), got.size());
  if (bad) std::printf("PFAIL ChaseLevDeque order/capacity/quiescence contract violated | %s why=%s\n", desc.c_str(), badWhy.c_str());
  std::printf("NT C%zu S%d p%zu g%zu\n", Cap, stealers, pushedOk.size(), got.size());
  std::string p = "chaselev " + std::to_string(Cap) + " " + std::to_string(sizeof(Elem));
  dsh::emitTrace(p.c_str(), desc);
}

int main(int argc, char** argv) {
  uint64_t seed = vh::argInt(argc, argv, 1, 1);
  long long N = vh::argInt(argc, argv, 2, 200);
  vh::SplitMix rng(seed);
  dsh::installStuckHandler();
  for (long long it = 0; it < N; ++it) {
    switch (it % 5) {
      case 0: scenario<2, int>(seed, rng, it); break;
      case 1: scenario<4, int>(seed, rng, it); break;
      case 2: scenario<8, int>(seed, rng, it); break;
      case 3: scenario<1, Wide>(seed, rng, it); break;
      case 4: scenario<2, Wide>(seed, rng, it); break;
    }
  }
  std::printf("STAT cases %lld\n", cases);
  std::fflush(stdout);
  _exit(0);
}
