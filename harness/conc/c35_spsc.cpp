// C35: SPSCRingBuffer under the deterministic scheduler: one producer, one consumer.
// usage: c35_spsc <seed> <scenarios>
#include <thread>
#include <vector>
#include "dsched/dsh.h"
#define private public
#include <dispenso/spsc_ring_buffer.h>
#undef private

using dsh::AtomPayload;
static long long cases = 0;

template <size_t Cap, bool Pow2>
static void scenario(uint64_t seed, vh::SplitMix& rng, long long it) {
  using Ring = dispenso::SPSCRingBuffer<AtomPayload, Cap, Pow2>;
  dsched::Options o;
  o.seed = seed * 104729 + it;
  o.strategy = (it % 4 == 3) ? dsched::PCT : dsched::RANDOM;
  o.stickiness = 20 + (int)rng.below(70);
  int nPush = (int)rng.range(1, 8), nPop = (int)rng.range(1, 9);
  std::vector<int> pplan, cplan;  // 0 single, k>1 batch of k ; consumer: 0 single, k batch max k, -1 size/empty/full
  for (int i = 0; i < nPush; ++i) pplan.push_back(rng.below(3) == 0 ? (int)rng.range(2, 4) : 0);
  for (int i = 0; i < nPop; ++i) cplan.push_back(rng.below(4) == 0 ? (int)rng.range(1, 4) : (rng.below(6) == 0 ? -1 : 0));
  size_t K = Ring::kBufferSize;
  std::string desc = "spsc cap=" + std::to_string(Cap) + " K=" + std::to_string(K) + " pushes=" + std::to_string(nPush) +
      " pops=" + std::to_string(nPop) + " seed=" + std::to_string(o.seed);
  auto& c = dsh::stuckCtx();
  c.signature = "SPSCRingBuffer operation never returns";
  c.detail = desc;
  std::vector<int> pushedOk, poppedVals;
  // ghost occupancy (exact: one thread runs at a time); kept in the runtime so that the compiler cannot
  // cache it across a relaxed atomic
  auto occGet = [] { return dsched::ghostGet(8); };
  auto occAdd = [](long d) { dsched::ghostAdd(8, d); };
  occAdd(-occGet());
  int bad = 0;
  long liveBefore = AtomPayload::live();
  dsched::clearNames();
  dsched::run(o, [&] {
    {
      Ring ring;
      dsched::nameRegion(&ring.head_, 8, "head");
      dsched::nameRegion(&ring.tail_, 8, "tail");
      dsched::nameRegion(&ring.storage_[0], sizeof(AtomPayload) * K, "slot");
      std::thread prod([&] {
        int tag = 1;
        for (int k : pplan) {
          if (k == 0) {
            AtomPayload tmp(tag);  // destroyed (a scheduling point) only after the ghost update
            long occ0 = occGet();
            DS_CALL("try_push %d", tag);
            bool ok = ring.try_push(std::move(tmp));
            if (ok) { occAdd(1); pushedOk.push_back(tag); }
            else if (occ0 != (long)Ring::capacity()) ++bad;  // rejected although not full when the call started
            DS_RET("try_push %d", ok ? 1 : 0);
            ++tag;
          } else {
            std::vector<AtomPayload> items;
            std::string a;
            for (int j = 0; j < k; ++j) { items.emplace_back(tag + j); a += " " + std::to_string(tag + j); }
            long occ0 = occGet();
            dsched::note("call try_push_batch%s", a.c_str());
            size_t n = ring.try_push_batch(items.begin(), items.end());
            for (size_t j = 0; j < n; ++j) pushedOk.push_back(tag + (int)j);
            occAdd((long)n);
            if (n == 0 && occ0 != (long)Ring::capacity()) ++bad;
            DS_RET("try_push_batch %zu", n);
            tag += k;
          }
          if (occGet() > (long)Ring::capacity()) ++bad;
        }
      });
      std::thread cons([&] {
        for (int k : cplan) {
          if (k == 0) {
            long occ0 = occGet();
            DS_CALL("try_pop");
            AtomPayload item;
            bool ok = ring.try_pop(item);
            if (ok) { occAdd(-1); poppedVals.push_back(item.get()); }
            else if (occ0 != 0) ++bad;  // reported empty although an element was there when the call started
            DS_RET("try_pop %d%s", ok ? 1 : 0, ok ? (" " + std::to_string(item.get())).c_str() : "");
          } else if (k > 0) {
            std::vector<AtomPayload> out(k);
            DS_CALL("try_pop_batch %d", k);
            size_t n = ring.try_pop_batch(out.begin(), (size_t)k);
            occAdd(-(long)n);  // ghost update before the next scheduling point
            std::string r = std::to_string(n);
            for (size_t j = 0; j < n; ++j) { poppedVals.push_back(out[j].get()); r += " " + std::to_string(out[j].get()); }
            dsched::note("ret try_pop_batch %s", r.c_str());
          } else {
            DS_CALL("size");
            size_t s = ring.size();
            DS_RET("size %zu", s);
            if (s > Ring::capacity()) ++bad;
            DS_CALL("empty");
            bool e = ring.empty();
            DS_RET("empty %d", e ? 1 : 0);
            DS_CALL("full");
            bool f = ring.full();
            DS_RET("full %d", f ? 1 : 0);
          }
        }
      });
      prod.join();
      cons.join();
      // drain what is left (single-threaded)
      for (;;) {
        AtomPayload item;
        DS_CALL("try_pop");
        bool ok = ring.try_pop(item);
        DS_RET("try_pop %d%s", ok ? 1 : 0, ok ? (" " + std::to_string(item.get())).c_str() : "");
        if (!ok) break;
        poppedVals.push_back(item.get());
        if (rng.below(3) == 0) break;  // sometimes leave elements for the destructor
      }
      DS_CALL("dtor");
    }
    DS_RET("dtor");
  });
  ++cases;
  // oracle: popped values are a prefix of the pushed values (FIFO, exactly once); lifetimes balance
  bool prefix = poppedVals.size() <= pushedOk.size();
  for (size_t i = 0; prefix && i < poppedVals.size(); ++i) prefix = poppedVals[i] == pushedOk[i];
  if (!prefix) std::printf("PFAIL SPSCRingBuffer delivery is not exactly-once FIFO | %s\n", desc.c_str());
  if (bad) std::printf("PFAIL SPSCRingBuffer capacity/acceptance contract violated | %s bad=%d\n", desc.c_str(), bad);
  if (AtomPayload::live() != liveBefore)
    std::printf("PFAIL SPSCRingBuffer element lifetimes unbalanced | %s live=%ld\n", desc.c_str(), AtomPayload::live() - liveBefore);
  std::printf("NT K%zu p%zu c%zu\n", K, pushedOk.size(), poppedVals.size());
  std::string p = "spsc " + std::to_string(K);
  dsh::emitTrace(p.c_str(), desc);
}

int main(int argc, char** argv) {
  uint64_t seed = vh::argInt(argc, argv, 1, 1);
  long long N = vh::argInt(argc, argv, 2, 200);
  vh::SplitMix rng(seed);
  dsh::installStuckHandler();
  for (long long it = 0; it < N; ++it) {
    switch (it % 5) {
      case 0: scenario<1, false>(seed, rng, it); break;
      case 1: scenario<2, false>(seed, rng, it); break;
      case 2: scenario<3, false>(seed, rng, it); break;
      case 3: scenario<4, false>(seed, rng, it); break;
      case 4: scenario<4, true>(seed, rng, it); break;
    }
  }
  std::printf("STAT cases %lld\n", cases);
  std::fflush(stdout);
  _exit(0);
}
