// C23: DistributedRWLockImpl<N> under the deterministic scheduler: readers on arbitrary slots,
// blocking and try writers. usage: c23_distrw <seed> <scenarios>
#include <thread>
#include <vector>
#include "dsched/dsh.h"
#define private public
#define protected public
#include <dispenso/distributed_rw_lock.h>
#undef private
#undef protected

static long long cases = 0;

template <size_t N>
static void scenario(uint64_t seed, vh::SplitMix& rng, long long it) {
  dsched::Options o;
  o.seed = seed * 67867967 + it;
  o.strategy = (it % 4 == 3) ? dsched::PCT : dsched::RANDOM;
  o.stickiness = 15 + (int)rng.below(75);
  int nthreads = (int)rng.range(2, 4), rounds = (int)rng.range(1, 3);
  std::string desc = "distrw N=" + std::to_string(N) + " threads=" + std::to_string(nthreads) + " rounds=" +
      std::to_string(rounds) + " seed=" + std::to_string(o.seed);
  auto& c = dsh::stuckCtx();
  c.signature = "DistributedRWLock locker never proceeds although conflicts were released";
  c.detail = desc;
  int writersIn = 0, readersIn = 0, bad = 0;
  std::string badWhy;
  std::vector<std::vector<std::pair<int, int>>> plans(nthreads);
  for (auto& p : plans)
    for (int r = 0; r < rounds; ++r) p.push_back({(int)rng.below(4), (int)rng.below(3 * N)});
  dsched::clearNames();
  dsched::run(o, [&] {
    dispenso::detail::DistributedRWLockImpl<N> lk;
    static char names[64][12];
    for (size_t i = 0; i < N; ++i) {
      std::snprintf(names[i], 12, "slot%zu", i);
      dsched::nameRegion(&lk.slots_[i], sizeof(int), names[i]);
    }
    std::vector<std::thread> ths;
    for (int ti = 0; ti < nthreads; ++ti)
      ths.emplace_back([&, ti] {
        for (auto pr : plans[ti]) {
          int kind = pr.first, idx = pr.second;
          bool w = false, r = false;
          if (kind == 0) { DS_CALL("lock"); lk.lock(); ++writersIn; w = true;
            if (writersIn != 1 || readersIn != 0) { ++bad; badWhy = "writer not exclusive"; } DS_RET("lock 1"); }
          else if (kind == 1) { DS_CALL("try_lock"); bool ok = lk.try_lock(); if (ok) { ++writersIn; w = true;
              if (writersIn != 1 || readersIn != 0) { ++bad; badWhy = "try writer not exclusive"; } } DS_RET("try_lock %d", ok ? 1 : 0); }
          else if (kind == 2) { DS_CALL("lock_shared %d", idx); lk.lock_shared((size_t)idx); ++readersIn; r = true;
            if (writersIn != 0) { ++bad; badWhy = "reader admitted while a writer holds the lock"; } DS_RET("lock_shared 1"); }
          else { DS_CALL("try_lock_shared %d", idx); bool ok = lk.try_lock_shared((size_t)idx); if (ok) { ++readersIn; r = true;
              if (writersIn != 0) { ++bad; badWhy = "try reader admitted while a writer holds the lock"; } } DS_RET("try_lock_shared %d", ok ? 1 : 0); }
          if (w) { DS_CALL("unlock"); --writersIn; lk.unlock(); DS_RET("unlock 0"); }
          if (r) { DS_CALL("unlock_shared %d", idx); --readersIn; lk.unlock_shared((size_t)idx); DS_RET("unlock_shared 0"); }
        }
      });
    for (auto& t : ths) t.join();
    for (size_t i = 0; i < N; ++i)
      if (*reinterpret_cast<volatile int*>(&lk.slots_[i]) != 0) { ++bad; badWhy = "a slot word is not zero after all locks were released (failed try_lock left a trace?)"; }
  });
  ++cases;
  if (bad) std::printf("PFAIL DistributedRWLock exclusion / no-trace contract violated | %s why=%s\n", desc.c_str(), badWhy.c_str());
  std::string nt = "N" + std::to_string(N) + " T" + std::to_string(nthreads);
  for (auto& p : plans) { for (auto k : p) nt += "." + std::to_string(k.first) + ":" + std::to_string(k.second % (int)N); nt += "|"; }
  std::printf("NT %s\n", nt.c_str());
  std::string p = "distrw " + std::to_string(N);
  dsh::emitTrace(p.c_str(), desc);
}

int main(int argc, char** argv) {
  uint64_t seed = vh::argInt(argc, argv, 1, 1);
  long long N = vh::argInt(argc, argv, 2, 200);
  vh::SplitMix rng(seed);
  dsh::installStuckHandler();
  for (long long it = 0; it < N; ++it) {
    switch (it % 8) {
      case 0: scenario<1>(seed, rng, it); break;
      case 1: case 2: case 3: scenario<2>(seed, rng, it); break;
      case 4: case 5: case 6: scenario<4>(seed, rng, it); break;
      case 7: scenario<16>(seed, rng, it); break;
    }
  }
  std::printf("STAT cases %lld\n", cases);
  std::fflush(stdout);
  _exit(0);
}
