// C14 (concurrent layer): dispenso::parallel_for with a states container on a real ThreadPool under the
// deterministic scheduler (the whole library is instrumented: every atomic operation is a scheduling point).
// Per scenario: one call (static / adaptive / explicit chunking, wait true/false, granularity, minItemsPerChunk,
// maxThreads, reuseExistingState, TaskSet / ConcurrentTaskSet, optionally issued from a pool thread, optionally
// on a task set that is already loaded so that scheduleBulk runs workers inline), then taskSet.wait().
// Oracle: per-state in-use counters (incremented/decremented by the body; the body spends several scheduling
// points inside).  Tie: the trace of body begins/ends (with the index of the states element, by pointer
// identity) and of the fetch_add(1) operations on the shared chunk index is replayed through the Lean execution
// model (plug-in `parforx`).
// usage: c14_parfor_conc <seed> <scenarios>
#include <algorithm>
#include <map>
#include <set>
#include <thread>
#include <vector>
#include "dsched/dsh.h"
#include <dispenso/parallel_for.h>
#include <dispenso/thread_pool.h>

struct StC {
  std::atomic<int> inUse{0};
  long acc = 0;
  StC() {}
  StC(const StC&) {}
};

struct Scn {
  int start, stop, chunkMode;   // 0 adaptive, -1 static, >0 explicit
  uint32_t maxThreads;
  bool wait;
  uint32_t minItems, g;
  int pool;
  bool useCts, fromWorker, reuse;
  int prev, preload;
};

enum { G_CLASH = 8, G_OUTSIDE = 9 };

template <typename TS>
static void theCall(dispenso::ThreadPool& pool, const Scn& c, std::vector<StC>& states) {
  TS ts(pool);
  std::atomic<int> gate{0};
  // other work already on the task set: pushes outstandingTaskCount_ towards / beyond the load factor so that
  // scheduleBulk takes its inline branch for some of the loop's workers
  for (int i = 0; i < c.preload; ++i) ts.schedule([&gate] { gate.fetch_add(1, std::memory_order_relaxed); });
  dispenso::ParForOptions o;
  o.maxThreads = c.maxThreads; o.wait = c.wait; o.minItemsPerChunk = c.minItems; o.granularity = c.g; o.reuseExistingState = c.reuse;
  auto range = c.chunkMode == 0 ? dispenso::ChunkedRange<int>(c.start, c.stop, dispenso::ChunkedRange<int>::Auto())
             : c.chunkMode < 0 ? dispenso::ChunkedRange<int>(c.start, c.stop, dispenso::ChunkedRange<int>::Static())
                               : dispenso::ChunkedRange<int>(c.start, c.stop, c.chunkMode);
  std::vector<StC>* sp = &states;
  dsched::note("call");
  dispenso::parallel_for(ts, states, [] { return StC(); }, range, [sp](StC& st, int s, int e) {
    long idx = (sp->empty() || &st < sp->data() || &st >= sp->data() + sp->size()) ? -1 : (long)(&st - sp->data());
    if (idx < 0) dsched::ghostAdd(G_OUTSIDE, 1);
    dsched::note("B %ld %d %d", idx, s, e);
    if (st.inUse.fetch_add(1, std::memory_order_relaxed) != 0) dsched::ghostAdd(G_CLASH, 1);
    st.acc += e - s;                                              // plain use of the state
    for (int k = 0; k < 3; ++k) if (st.inUse.load(std::memory_order_relaxed) != 1) dsched::ghostAdd(G_CLASH, 1);
    st.acc += 1;
    if (st.inUse.fetch_sub(1, std::memory_order_relaxed) != 1) dsched::ghostAdd(G_CLASH, 1);
    dsched::note("E %ld", idx);
  }, o);
  dsched::note("ret");
  ts.wait();
  dsched::note("waited");
  dsched::note("size %zu", states.size());
}

int main(int argc, char** argv) {
  uint64_t seed = vh::argInt(argc, argv, 1, 1);
  long long N = vh::argInt(argc, argv, 2, 100);
  vh::SplitMix rng(seed);
  dsh::installStuckHandler();
  long long cases = 0, withTickets = 0, workerTails = 0, inlineWorkers = 0, overlaps = 0;
  for (long long it = 0; it < N; ++it) {
    Scn c;
    c.start = (int)rng.range(-3, 3);
    int lk = (int)rng.below(8);
    c.stop = c.start + (lk == 0 ? (int)rng.below(3) : lk < 6 ? (int)rng.range(3, 24) : (int)rng.range(20, 60));
    int cm = (int)rng.below(6);
    c.chunkMode = cm <= 1 ? 0 : cm == 2 ? -1 : (int)rng.range(1, 4);
    static const uint32_t mts[] = {1, 2, 2, 3, 4, 8, 0x7fffffffu};
    c.maxThreads = mts[rng.below(7)];
    c.wait = rng.below(5) < 2;
    c.minItems = rng.below(3) == 0 ? (uint32_t)rng.range(2, 7) : 1;
    c.g = rng.below(2) == 0 ? (uint32_t)rng.range(2, 6) : 1;
    c.pool = (int)rng.range(1, 3);
    c.useCts = rng.below(3) == 0;
    c.fromWorker = rng.below(5) == 0;
    c.reuse = rng.below(4) == 0;
    c.prev = rng.below(3) == 0 ? (int)rng.below(6) : 0;
    c.preload = rng.below(4) == 0 ? (int)rng.range(1, 4 * c.pool + 3) : 0;
    if (rng.below(10) < 3) {
      // focus: the wait=false dynamic path with a granularity tail (the tail is run by the last worker to leave)
      c.wait = false; c.chunkMode = 0; c.g = (uint32_t)rng.range(2, 6); c.pool = (int)rng.range(2, 3);
      c.maxThreads = rng.coin() ? 0x7fffffffu : (uint32_t)rng.range(2, 4); c.minItems = 1;
      c.stop = c.start + (int)rng.range(2, 7) * (int)c.g + (int)rng.range(1, (int)c.g - 1);
    }
    dsched::Options o;
    o.seed = seed * 7919 + (uint64_t)it;
    o.strategy = (it % 3 == 2) ? dsched::PCT : dsched::RANDOM;
    o.stickiness = 10 + (int)rng.below(85);
    o.pctDepth = 2 + (int)rng.below(4);
    o.traceAll = true;
    char desc[400];
    std::snprintf(desc, sizeof desc, "parfor start=%d stop=%d chunk=%d maxThreads=%u wait=%d minItems=%u g=%u pool=%d cts=%d worker=%d reuse=%d prev=%d preload=%d dseed=%llu",
                  c.start, c.stop, c.chunkMode, c.maxThreads, c.wait, c.minItems, c.g, c.pool, c.useCts, c.fromWorker, c.reuse, c.prev, c.preload,
                  (unsigned long long)o.seed);
    auto& sc = dsh::stuckCtx();
    sc.signature = "parallel_for with states (or the task set's wait) never returns under the deterministic scheduler";
    sc.detail = desc;
    dsched::clearNames();
    long clash0 = dsched::ghostGet(G_CLASH), out0 = dsched::ghostGet(G_OUTSIDE);
    dsched::run(o, [&] {
      dispenso::ThreadPool pool((size_t)c.pool);
      std::vector<StC> states((size_t)c.prev);
      if (c.fromWorker) {
        std::atomic<int> done{0};
        pool.schedule([&] {
          if (c.useCts) theCall<dispenso::ConcurrentTaskSet>(pool, c, states); else theCall<dispenso::TaskSet>(pool, c, states);
          done.store(1, std::memory_order_release);
        }, dispenso::ForceQueuingTag());
        while (!done.load(std::memory_order_acquire)) std::this_thread::yield();
      } else {
        if (c.useCts) theCall<dispenso::ConcurrentTaskSet>(pool, c, states); else theCall<dispenso::TaskSet>(pool, c, states);
      }
    });
    ++cases;
    if (dsched::ghostGet(G_CLASH) != clash0)
      std::printf("PFAIL parallel_for used one state object from two invocations at once (deterministic scheduler) | %s\n", desc);
    if (dsched::ghostGet(G_OUTSIDE) != out0)
      std::printf("PFAIL parallel_for passed a state object that is not an element of the states container | %s\n", desc);

    // ---- post-process the raw event log into the model's vocabulary
    const auto& tr = dsched::trace();
    struct Ln { int tid; int kind; long a, b, c; int mo; size_t pos; };   // kind 0 ticket(value=a) 1 B(st=a,s=b,e=c) 2 E(st=a) 3 ret 4 waited 5 size(a)
    std::vector<Ln> lines;
    size_t callPos = 0;
    for (size_t i = 0; i < tr.size(); ++i) if (tr[i].kind == dsched::K_NOTE && tr[i].note == "call") { callPos = i; break; }
    // the shared chunk index: the fetch_add(1) a thread performs directly before its first body invocation
    const void* idxAddr = nullptr;
    {
      std::map<int, size_t> lastAtomic;   // tid -> position of its latest atomic event
      for (size_t i = callPos; i < tr.size() && !idxAddr; ++i) {
        const auto& e = tr[i];
        if (e.kind == dsched::K_NOTE) {
          if (e.note.size() > 2 && e.note[0] == 'B' && e.note[1] == ' ') {
            auto f = lastAtomic.find(e.tid);
            if (f != lastAtomic.end()) {
              const auto& p = tr[f->second];
              if (p.kind == dsched::K_FADD && p.operand == 1 && p.size == 8) idxAddr = p.addr;
            }
            break;   // only the first invocation decides
          }
        } else if (e.kind != dsched::K_THREAD_START && e.kind != dsched::K_THREAD_END) {
          lastAtomic[e.tid] = i;
        }
      }
    }
    long rem = c.g > 1 && c.chunkMode <= 0 ? (long)(((long long)c.stop - c.start) % (long long)c.g) : 0;
    long tailStart = (long)c.stop - rem;
    uint64_t nextTicket = 0;
    bool idxLive = idxAddr != nullptr;
    for (size_t i = callPos; i < tr.size(); ++i) {
      const auto& e = tr[i];
      if (e.kind == dsched::K_NOTE) {
        long a = 0, b = 0, d = 0;
        if (std::sscanf(e.note.c_str(), "B %ld %ld %ld", &a, &b, &d) == 3) lines.push_back({e.tid, 1, a, b, d, 0, i});
        else if (std::sscanf(e.note.c_str(), "E %ld", &a) == 1) lines.push_back({e.tid, 2, a, 0, 0, 0, i});
        else if (e.note == "ret") lines.push_back({e.tid, 3, 0, 0, 0, 0, i});
        else if (e.note == "waited") lines.push_back({e.tid, 4, 0, 0, 0, 0, i});
        else if (std::sscanf(e.note.c_str(), "size %ld", &a) == 1) lines.push_back({e.tid, 5, a, 0, 0, 0, i});
      } else if (idxLive && e.addr == idxAddr && e.kind == dsched::K_FADD && e.operand == 1) {
        if (e.result != nextTicket) { idxLive = false; continue; }   // the location has been reused for something else
        ++nextTicket;
        lines.push_back({e.tid, 0, (long)e.result, 0, 0, (int)e.mo, i});
      }
    }
    // which actor drew each ticket: a thread runs one worker until that worker draws an exit ticket
    long nB = 0; bool tailB = false;
    for (auto& l : lines) if (l.kind == 1) { ++nB; if (rem > 0 && l.b == tailStart && l.c == c.stop) tailB = true; }
    long numChunks = nB - (tailB ? 1 : 0);
    std::vector<long> actorOf(lines.size(), -2);
    std::set<long> seen;
    {
      std::map<int, std::vector<size_t>> open;   // tid -> tickets of the worker currently running on it
      std::map<int, long> cur;                   // tid -> its state index if known
      for (size_t i = 0; i < lines.size(); ++i) {
        auto& l = lines[i];
        if (l.kind == 0) {
          open[l.tid].push_back(i);
          if (l.a >= numChunks) {   // exit ticket: the worker on this thread is finished
            long who = cur.count(l.tid) ? cur[l.tid] : -1;
            for (size_t j : open[l.tid]) actorOf[j] = who;
            open[l.tid].clear();
            cur.erase(l.tid);
          }
        } else if (l.kind == 1 && !(rem > 0 && l.b == tailStart && l.c == c.stop) && !open[l.tid].empty()) {
          cur[l.tid] = l.a;
          seen.insert(l.a);
        }
      }
    }
    {
      long nextFree = 0;
      for (size_t i = 0; i < lines.size(); ++i)
        if (lines[i].kind == 0 && actorOf[i] == -1) {
          // a worker that drew only its exit ticket: any actor nobody has been seen as (they are interchangeable)
          while (seen.count(nextFree)) ++nextFree;
          long who = nextFree; seen.insert(who);
          int t = lines[i].tid;
          (void)t;
          actorOf[i] = who;
        }
    }
    std::printf("TRACE-BEGIN parforx 32 1 %d %d %d %u %d %u %u %d 0 %d %d\n", c.start, c.stop, c.chunkMode, c.maxThreads, c.wait ? 1 : 0,
                c.minItems, c.g, c.pool, c.prev, c.reuse ? 1 : 0);
    int running = 0, maxRunning = 0; bool sawWorkerTail = false; std::set<int> bodyTids; int callerTid = -1; bool lateBody = false;
    for (size_t i = 0; i < lines.size(); ++i) {
      auto& l = lines[i];
      switch (l.kind) {
        case 0: if (actorOf[i] >= 0) std::printf("T %d ticket %ld %ld %d\n", l.tid, actorOf[i], l.a, l.mo); else std::printf("T %d ticket ? %ld %d\n", l.tid, l.a, l.mo); break;
        case 1: std::printf("T %d B %ld %ld %ld\n", l.tid, l.a, l.b, l.c); ++running; maxRunning = std::max(maxRunning, running); bodyTids.insert(l.tid);
                if (c.wait && callerTid >= 0) lateBody = true;
                if (!c.wait && rem > 0 && l.b == tailStart && l.c == c.stop && nextTicket > 0) sawWorkerTail = true; break;
        case 2: std::printf("T %d E %ld\n", l.tid, l.a); --running; break;
        case 3: std::printf("T %d ret\n", l.tid); callerTid = l.tid; if (c.wait && running > 0) lateBody = true; break;
        case 4: std::printf("T %d waited\n", l.tid); break;
        case 5: std::printf("T %d size %ld\n", l.tid, l.a); break;
      }
    }
    std::printf("T 0 end\n");
    std::printf("TRACE-END %s\n", desc);
    if (lateBody)
      std::printf("PFAIL parallel_for(wait=true) returned while a body invocation using the states container was still running or not yet started | %s\n", desc);
    if (nextTicket > 0) ++withTickets;
    if (sawWorkerTail) ++workerTails;
    if (maxRunning > 1) ++overlaps;
    if (!c.wait && callerTid >= 0 && bodyTids.count(callerTid)) ++inlineWorkers;
    std::printf("NT cm%d w%d p%d g%d t%d tk%d r%d\n", c.chunkMode == 0 ? 0 : c.chunkMode < 0 ? -1 : 1, c.wait, c.pool, rem > 0, (int)std::min<long>(nB, 6),
                nextTicket > 0, maxRunning);
  }
  std::printf("STAT cases %lld\n", cases);
  std::printf("STAT traces_with_index_tickets %lld\n", withTickets);
  std::printf("STAT tails_run_by_last_worker %lld\n", workerTails);
  std::printf("STAT runs_with_overlapping_bodies %lld\n", overlaps);
  std::printf("STAT nowait_workers_run_on_caller_thread %lld\n", inlineWorkers);
  std::fflush(stdout);
  _exit(0);
}
