// C20: CompletionEvent::waitFor / waitUntil (and wait / completed / notify) under the deterministic
// scheduler with virtual time.  A notifier (possibly late, possibly never) races with 1..4 waiters
// using zero, negative, sub-microsecond, ordinary and long timeouts; futex waits are interrupted by
// injected signals (EINTR).  Every trace is replayed through the Lean model with the timed layer
// (futevt plug-in: a timeout is accepted only when the model deadline has passed, the clock notes
// must never be behind the model clock).  The harness checks: `true` only after notify() started,
// `false` only after the requested (virtual) time, the timespec handed to the futex is the requested
// time up to the 1 ns truncation of the double conversion.  Finally a few native (unmanaged) waits
// are timed with the real steady clock (late side unbounded, early side not allowed).
// usage: c20_timed <seed> <scenarios>
#include <atomic>
#include <chrono>
#include <map>
#include <thread>
#include <vector>
#include <dispenso/completion_event.h>
#include "dsched/dsh.h"

enum { G_EARLY = 2, G_EARLYTO = 3, G_NOTIFIED = 4, G_TO = 5, G_RD = 6 };
static long gget(int s) { return dsched::ghostGet(s); }
static void gset0(int s) { dsched::ghostAdd(s, -dsched::ghostGet(s)); }

struct VClock {
  using duration = std::chrono::nanoseconds;
  using rep = duration::rep;
  using period = duration::period;
  using time_point = std::chrono::time_point<VClock>;
  static constexpr bool is_steady = true;
  static time_point now() {
    uint64_t n = dsched::nowNs();
    dsched::note("clock %llu", (unsigned long long)n);
    return time_point(duration((long long)n));
  }
};

enum Op { O_WAIT = 0, O_WAITFOR, O_WAITUNTIL, O_COMPLETED, O_NOPS };

struct Scenario {
  int waiters;
  long notifyDelayNs;   // -1: never notify (then no untimed wait is generated)
  std::vector<std::vector<std::pair<int, long>>> ops;
  std::string str() const {
    std::string s = "event waiters=" + std::to_string(waiters) + " notifyDelay=" + std::to_string(notifyDelayNs) + " ops=";
    for (auto& v : ops) { for (auto& o : v) s += char('a' + o.first) + std::to_string(o.second) + ","; s += "/"; }
    return s;
  }
};

static long long shortBy1 = 0, exactTs = 0, badTs = 0;

// walk the recorded trace: the timespec of every timed futex wait against the requested time
static void checkTimespecs(const std::string& desc) {
  std::map<int, long long> rel;      // per thread: requested relative time of the current call
  std::map<int, long long> absT;     // waitUntil: requested absolute time (rel is fixed at the clock note)
  for (const auto& e : dsched::trace()) {
    if (e.kind == dsched::K_NOTE) {
      long long a = 0;
      if (std::sscanf(e.note.c_str(), "call waitFor %lld", &a) == 1) { rel[e.tid] = a; absT.erase(e.tid); }
      else if (std::sscanf(e.note.c_str(), "call waitUntil %lld", &a) == 1) { absT[e.tid] = a; rel.erase(e.tid); }
      else if (std::sscanf(e.note.c_str(), "clock %lld", &a) == 1) {
        if (absT.count(e.tid) && !rel.count(e.tid)) rel[e.tid] = absT[e.tid] - a;
      } else if (e.note.rfind("ret ", 0) == 0) { rel.erase(e.tid); absT.erase(e.tid); }
    } else if (e.kind == dsched::K_FUTEX_WAIT && e.aux != 0 && rel.count(e.tid)) {
      long long want = rel[e.tid], got = (long long)e.aux;
      if (got == want) ++exactTs;
      else if (got == want - 1) ++shortBy1;
      else {
        ++badTs;
        std::printf("PFAIL timed wait passed a timespec that is not the requested time | %s requested_ns=%lld timespec_ns=%lld\n",
                    desc.c_str(), want, got);
      }
    }
  }
}

int main(int argc, char** argv) {
  uint64_t seed = vh::argInt(argc, argv, 1, 1);
  long long N = vh::argInt(argc, argv, 2, 200);
  vh::SplitMix rng(seed);
  dsh::installStuckHandler();
  long long cases = 0, futexTimeouts = 0, timeoutsReported = 0, readyReported = 0;
  static const long kSpecial[] = {0, -1, -1000000, 1, 7, 23, 999, 1000, 1000000007, 2500000000};
  for (long long it = 0; it < N; ++it) {
    Scenario sc;
    sc.waiters = (int)rng.range(1, 4);
    sc.notifyDelayNs = rng.below(6) == 0 ? -1 : (rng.below(3) == 0 ? 0 : (long)rng.range(1000, 500000));
    sc.ops.resize(sc.waiters);
    for (int w = 0; w < sc.waiters; ++w) {
      int n = (int)rng.range(1, 3);
      for (int k = 0; k < n; ++k) {
        int op = (int)rng.below(O_NOPS);
        if (op == O_WAIT && sc.notifyDelayNs < 0) op = O_WAITFOR;
        long a = 0;
        if (op == O_WAITFOR || op == O_WAITUNTIL)
          a = rng.below(4) == 0 ? kSpecial[rng.below(sizeof kSpecial / sizeof kSpecial[0])] : (long)rng.range(100, 600000);
        sc.ops[w].push_back({op, a});
      }
    }
    dsched::Options o;
    o.seed = seed * 1000003 + it;
    o.strategy = (it % 3 == 2) ? dsched::PCT : dsched::RANDOM;
    o.stickiness = 20 + (int)rng.below(70);
    if (it % 4 >= 2) o.spuriousPerMille = 15;
    o.backstopNs = 10000000000ull;
    std::string desc = sc.str() + " seed=" + std::to_string(o.seed);
    auto& sctx = dsh::stuckCtx();
    sctx.signature = "a CompletionEvent waiter never returns although notify() was called";
    sctx.detail = desc;
    for (int g = G_EARLY; g <= G_RD; ++g) gset0(g);
    uint64_t now0 = 0;
    dsched::clearNames();
    dsched::RunInfo info = dsched::run(o, [&] {
      dispenso::CompletionEvent ev;
      dsched::nameRegion(&ev, sizeof(int), "status");
      now0 = dsched::nowNs();
      std::vector<std::thread> ths;
      if (sc.notifyDelayNs >= 0)
        ths.emplace_back([&] {
          if (sc.notifyDelayNs) std::this_thread::sleep_for(std::chrono::nanoseconds(sc.notifyDelayNs));
          DS_CALL("notify");
          dsched::ghostAdd(G_NOTIFIED, 1);
          ev.notify();
          DS_RET("notify 0");
        });
      for (int w = 0; w < sc.waiters; ++w)
        ths.emplace_back([&, w] {
          for (auto& op : sc.ops[w]) {
            long a = op.second;
            switch (op.first) {
              case O_WAIT:
                DS_CALL("wait");
                ev.wait();
                if (!gget(G_NOTIFIED)) dsched::ghostAdd(G_EARLY, 1);
                DS_RET("wait 0");
                break;
              case O_WAITFOR: {
                DS_CALL("waitFor %ld", a);
                uint64_t t0 = dsched::nowNs();
                dsched::note("clock %llu", (unsigned long long)t0);
                bool r = ev.waitFor(std::chrono::nanoseconds(a));
                uint64_t t1 = dsched::nowNs();
                if (r && !gget(G_NOTIFIED)) dsched::ghostAdd(G_EARLY, 1);
                if (!r && a > 0 && t1 - t0 < (uint64_t)a) dsched::ghostAdd(G_EARLYTO, 1);
                dsched::note("clock %llu", (unsigned long long)t1);
                DS_RET("waitFor %d", r ? 1 : 0);
                dsched::ghostAdd(r ? G_RD : G_TO, 1);
                break;
              }
              case O_WAITUNTIL: {
                uint64_t t0 = dsched::nowNs();
                long long abs = (long long)t0 + a;
                DS_CALL("waitUntil %lld", abs);
                bool r = ev.waitUntil(VClock::time_point(VClock::duration(abs)));
                uint64_t t1 = dsched::nowNs();
                if (r && !gget(G_NOTIFIED)) dsched::ghostAdd(G_EARLY, 1);
                if (!r && (long long)t1 < abs) dsched::ghostAdd(G_EARLYTO, 1);
                dsched::note("clock %llu", (unsigned long long)t1);
                DS_RET("waitUntil %d", r ? 1 : 0);
                dsched::ghostAdd(r ? G_RD : G_TO, 1);
                break;
              }
              case O_COMPLETED: {
                DS_CALL("completed");
                bool r = ev.completed();
                if (r && !gget(G_NOTIFIED)) dsched::ghostAdd(G_EARLY, 1);
                DS_RET("completed %d", r ? 1 : 0);
                break;
              }
            }
          }
        });
      for (auto& t : ths) t.join();
    });
    ++cases;
    futexTimeouts += info.timeoutsFired;
    timeoutsReported += gget(G_TO);
    readyReported += gget(G_RD);
    if (gget(G_EARLY)) std::printf("PFAIL CompletionEvent wait reported completion before notify | %s\n", desc.c_str());
    if (gget(G_EARLYTO)) std::printf("PFAIL CompletionEvent timed wait reported timeout before the requested time elapsed | %s\n", desc.c_str());
    checkTimespecs(desc);
    std::printf("NT w%d n%ld %s\n", sc.waiters, sc.notifyDelayNs, sc.str().substr(sc.str().find("ops=")).c_str());
    std::string p = "futevt " + std::to_string((unsigned long long)now0);
    dsh::emitTrace(p.c_str(), desc);
  }
  // native timing: real futex, real steady clock (the dsched runtime passes everything through outside dsched::run)
  long long nativeChecks = 0;
  {
    dispenso::CompletionEvent ev;
    const long reqUs[] = {300, 1000, 2500};
    for (long us : reqUs) {
      auto t0 = std::chrono::steady_clock::now();
      bool r = ev.waitFor(std::chrono::microseconds(us));
      auto el = std::chrono::duration_cast<std::chrono::nanoseconds>(std::chrono::steady_clock::now() - t0).count();
      ++nativeChecks;
      if (r) std::printf("PFAIL native waitFor reported completion without notify | requested_us=%ld\n", us);
      if (el < us * 1000) std::printf("PFAIL native waitFor reported timeout before the requested time elapsed | requested_us=%ld elapsed_ns=%lld\n", us, (long long)el);
      auto t2 = std::chrono::steady_clock::now();
      bool r2 = ev.waitUntil(t2 + std::chrono::microseconds(us));
      auto now = std::chrono::steady_clock::now();
      ++nativeChecks;
      if (r2) std::printf("PFAIL native waitUntil reported completion without notify | requested_us=%ld\n", us);
      if (now < t2 + std::chrono::microseconds(us)) std::printf("PFAIL native waitUntil reported timeout before the absolute time | requested_us=%ld\n", us);
    }
  }
  std::printf("STAT cases %lld\nSTAT futex_timeouts %lld\nSTAT timeouts_reported %lld\nSTAT ready_reported %lld\n"
              "STAT timespec_exact %lld\nSTAT timespec_short_by_1ns %lld\nSTAT native_checks %lld\n",
              cases, futexTimeouts, timeoutsReported, readyReported, exactTs, shortBy1, nativeChecks);
  std::fflush(stdout);
  _exit(0);
}
