// C10: every overload of the ring-buffer operations under the deterministic scheduler.
// The protocol properties' harnesses (c34, c35) use one push and one or two pop overloads; the
// headers repeat the same atomic sequence in each overload (try_push(T&&) / try_push(const T&) /
// try_emplace, try_pop(T&) / try_pop() / try_pop_into), each with its own declared memory orders.
// Here all of them are traced and replayed through the same Lean acceptors ("spsc K", "mpmc K"), whose
// order table is the one the C10 theorems are about.
// usage: c10_variants <seed> <scenarios>
#include <thread>
#include <vector>
#include "dsched/dsh.h"
#define private public
#include <dispenso/mpmc_ring_buffer.h>
#include <dispenso/spsc_ring_buffer.h>
#undef private

using dsh::AtomPayload;
static long long cases = 0;

template <size_t Cap, bool Pow2>
static void spsc(uint64_t seed, vh::SplitMix& rng, long long it) {
  using Ring = dispenso::SPSCRingBuffer<AtomPayload, Cap, Pow2>;
  dsched::Options o;
  o.seed = seed * 7919 + it;
  o.strategy = (it % 4 == 3) ? dsched::PCT : dsched::RANDOM;
  o.stickiness = 20 + (int)rng.below(70);
  int nPush = (int)rng.range(2, 8), nPop = (int)rng.range(2, 9);
  std::vector<int> pplan, cplan;  // producer: 0 move, 1 copy, 2 emplace, 3 batch; consumer: 0 ref, 1 OpResult, 2 into, 3 batch
  for (int i = 0; i < nPush; ++i) pplan.push_back((int)rng.below(4));
  for (int i = 0; i < nPop; ++i) cplan.push_back((int)rng.below(4));
  size_t K = Ring::kBufferSize;
  std::string desc = "spsc-variants cap=" + std::to_string(Cap) + " K=" + std::to_string(K) + " seed=" + std::to_string(o.seed);
  auto& c = dsh::stuckCtx();
  c.signature = "SPSCRingBuffer operation never returns";
  c.detail = desc;
  long liveBefore = AtomPayload::live();
  std::vector<int> pushed, popped;
  dsched::clearNames();
  dsched::run(o, [&] {
    {
      Ring ring;
      dsched::nameRegion(&ring.head_, 8, "head");
      dsched::nameRegion(&ring.tail_, 8, "tail");
      dsched::nameRegion(&ring.storage_[0], sizeof(AtomPayload) * K, "slot");
      std::thread prod([&] {
        int tag = 1;
        for (int k : pplan) {
          if (k < 3) {
            AtomPayload tmp(tag);
            DS_CALL("try_push %d", tag);
            bool ok = k == 0 ? ring.try_push(std::move(tmp))
                    : k == 1 ? ring.try_push(static_cast<const AtomPayload&>(tmp))
                             : ring.try_emplace(tag);
            if (ok) pushed.push_back(tag);
            DS_RET("try_push %d", ok ? 1 : 0);
            ++tag;
          } else {
            int n0 = (int)2;
            std::vector<AtomPayload> items;
            std::string a;
            for (int j = 0; j < n0; ++j) { items.emplace_back(tag + j); a += " " + std::to_string(tag + j); }
            dsched::note("call try_push_batch%s", a.c_str());
            size_t n = ring.try_push_batch(items.begin(), items.end());
            for (size_t j = 0; j < n; ++j) pushed.push_back(tag + (int)j);
            DS_RET("try_push_batch %zu", n);
            tag += n0;
          }
        }
      });
      std::thread cons([&] {
        for (int k : cplan) {
          if (k == 0) {
            DS_CALL("try_pop");
            AtomPayload item;
            bool ok = ring.try_pop(item);
            int val = ok ? item.get() : 0;
            if (ok) popped.push_back(val);
            DS_RET("try_pop %d%s", ok ? 1 : 0, ok ? (" " + std::to_string(val)).c_str() : "");
          } else if (k == 1) {
            DS_CALL("try_pop");
            auto r = ring.try_pop();
            bool ok = static_cast<bool>(r);
            int val = ok ? r.value().get() : 0;
            if (ok) popped.push_back(val);
            DS_RET("try_pop %d%s", ok ? 1 : 0, ok ? (" " + std::to_string(val)).c_str() : "");
          } else if (k == 2) {
            alignas(AtomPayload) char raw[sizeof(AtomPayload)];
            DS_CALL("try_pop");
            bool ok = ring.try_pop_into(reinterpret_cast<AtomPayload*>(raw));
            int val = 0;
            if (ok) {
              AtomPayload* p = reinterpret_cast<AtomPayload*>(raw);
              val = p->get();
              popped.push_back(val);
              p->~AtomPayload();
            }
            DS_RET("try_pop %d%s", ok ? 1 : 0, ok ? (" " + std::to_string(val)).c_str() : "");
          } else {
            std::vector<AtomPayload> out(2);
            DS_CALL("try_pop_batch %d", 2);
            size_t n = ring.try_pop_batch(out.begin(), (size_t)2);
            std::string r = std::to_string(n);
            for (size_t j = 0; j < n; ++j) { popped.push_back(out[j].get()); r += " " + std::to_string(out[j].get()); }
            dsched::note("ret try_pop_batch %s", r.c_str());
          }
        }
      });
      prod.join();
      cons.join();
      DS_CALL("dtor");
    }
    DS_RET("dtor");
  });
  ++cases;
  bool prefix = popped.size() <= pushed.size();
  for (size_t i = 0; prefix && i < popped.size(); ++i) prefix = popped[i] == pushed[i];
  if (!prefix) std::printf("PFAIL SPSCRingBuffer delivery is not exactly-once FIFO | %s\n", desc.c_str());
  if (AtomPayload::live() != liveBefore)
    std::printf("PFAIL SPSCRingBuffer element lifetimes unbalanced | %s live=%ld\n", desc.c_str(), AtomPayload::live() - liveBefore);
  std::printf("NT spsc K%zu p%zu c%zu\n", K, pushed.size(), popped.size());
  std::string p = "spsc " + std::to_string(K);
  dsh::emitTrace(p.c_str(), desc);
}

template <size_t Cap, bool Pow2>
static void mpmc(uint64_t seed, vh::SplitMix& rng, long long it) {
  using Ring = dispenso::MpmcRingBuffer<AtomPayload, Cap, Pow2>;
  constexpr size_t K = Ring::kBufferSize;
  dsched::Options o;
  o.seed = seed * 104723 + it;
  o.strategy = (it % 4 == 3) ? dsched::PCT : dsched::RANDOM;
  o.stickiness = 15 + (int)rng.below(75);
  int producers = (int)rng.range(1, 2), consumers = (int)rng.range(1, 3);
  int opsPer = (int)rng.range(2, 5);
  std::string desc = "mpmc-variants cap=" + std::to_string(Cap) + " K=" + std::to_string(K) + " seed=" + std::to_string(o.seed);
  auto& c = dsh::stuckCtx();
  c.signature = "MpmcRingBuffer operation never returns";
  c.detail = desc;
  long liveBefore = AtomPayload::live();
  std::vector<int> kinds;
  for (int i = 0; i < consumers * opsPer; ++i) kinds.push_back((int)rng.below(3));
  dsched::clearNames();
  dsched::run(o, [&] {
    {
      Ring ring;
      dsched::nameRegion(&ring.head_, 8, "head");
      dsched::nameRegion(&ring.tail_, 8, "tail");
      static char names[64][2][16];
      for (size_t i = 0; i < K; ++i) {
        std::snprintf(names[i][0], 16, "seq%zu", i);
        std::snprintf(names[i][1], 16, "data%zu", i);
        dsched::nameRegion(&ring.slots_[i].seq, 8, names[i][0]);
        dsched::nameRegion(&ring.slots_[i].data, sizeof(int), names[i][1]);
      }
      std::vector<std::thread> ths;
      for (int p = 0; p < producers; ++p)
        ths.emplace_back([&, p] {
          int tag = 1000 * (p + 1);
          for (int i = 0; i < opsPer; ++i) {
            DS_CALL("try_push %d", tag);
            bool ok = ring.try_push(AtomPayload(tag));
            DS_RET("try_push %d", ok ? 1 : 0);
            ++tag;
          }
        });
      for (int q = 0; q < consumers; ++q)
        ths.emplace_back([&, q] {
          for (int i = 0; i < opsPer; ++i) {
            int k = kinds[q * opsPer + i];
            bool ok = false;
            int val = 0;
            DS_CALL("try_pop");
            if (k == 0) {
              AtomPayload item;
              ok = ring.try_pop(item);
              if (ok) val = item.get();
            } else if (k == 1) {
              auto r = ring.try_pop();
              ok = static_cast<bool>(r);
              if (ok) val = r.value().get();
            } else {
              alignas(AtomPayload) char raw[sizeof(AtomPayload)];
              ok = ring.try_pop_into(reinterpret_cast<AtomPayload*>(raw));
              if (ok) {
                AtomPayload* pp = reinterpret_cast<AtomPayload*>(raw);
                val = pp->get();
                pp->~AtomPayload();
              }
            }
            DS_RET("try_pop %d%s", ok ? 1 : 0, ok ? (" " + std::to_string(val)).c_str() : "");
          }
        });
      for (auto& t : ths) t.join();
      DS_CALL("dtor");
    }
    DS_RET("dtor");
  });
  ++cases;
  if (AtomPayload::live() != liveBefore)
    std::printf("PFAIL MpmcRingBuffer element lifetimes unbalanced | %s live=%ld\n", desc.c_str(), AtomPayload::live() - liveBefore);
  std::printf("NT mpmc K%zu P%d C%d\n", K, producers, consumers);
  std::string p = "mpmc " + std::to_string(K);
  dsh::emitTrace(p.c_str(), desc);
}

int main(int argc, char** argv) {
  uint64_t seed = vh::argInt(argc, argv, 1, 1);
  long long N = vh::argInt(argc, argv, 2, 200);
  vh::SplitMix rng(seed);
  dsh::installStuckHandler();
  for (long long it = 0; it < N; ++it) {
    switch (it % 6) {
      case 0: spsc<1, false>(seed, rng, it); break;
      case 1: spsc<3, false>(seed, rng, it); break;
      case 2: spsc<4, true>(seed, rng, it); break;
      case 3: mpmc<2, false>(seed, rng, it); break;
      case 4: mpmc<3, false>(seed, rng, it); break;
      case 5: mpmc<4, true>(seed, rng, it); break;
    }
  }
  std::printf("STAT cases %lld\n", cases);
  std::fflush(stdout);
  _exit(0);
}
