// C33: concurrent growth of ConcurrentVector under the deterministic scheduler.
// 2..4 threads push / emplace / grow_by / grow_by_generator / grow_by(range) / grow_to_at_least while others
// read elements that existed before; the atomic events on size_, buffers_[b] and the elements are
// replayed through the Lean model (`cvgrow`); the harness itself checks: every call's elements sit
// at the returned position with the call's unique tags, final size = initial + total growth,
// initial elements / references / iterators unchanged, every bucket stored at most once, every
// malloc block referenced and finally freed.
// usage: c33_convec_grow <seed> <scenarios> [only-variant]
#include <algorithm>
#include <atomic>
#include <cassert>
#include <climits>
#include <cstdlib>
#include <cstring>
#include <initializer_list>
#include <map>
#include <memory>
#include <stdexcept>
#include <thread>
#include <type_traits>
#include <utility>
#include <vector>
#include <stdint.h>
#include <stdlib.h>
#include "dsched/dsh.h"

// allocation log (see harness/seq/c32_convec.cpp): dispenso's inline alignedMalloc/alignedFree call
// ::malloc / ::free, which are routed through the log while the dispenso headers are read
namespace hk {
struct Blk { char* raw; size_t bytes; size_t tracePos; };
static std::vector<Blk> live;
static long long allocs = 0, frees = 0, badFrees = 0;
static const Blk* find(const void* p) {
  for (auto& b : live) if ((const char*)p >= b.raw && (const char*)p < b.raw + b.bytes) return &b;
  return nullptr;
}
}  // namespace hk
static void* vhMalloc(size_t n) {
  void* p = malloc(n);
  hk::live.push_back({(char*)p, n, dsched::active() ? dsched::trace().size() : 0});
  ++hk::allocs;
  return p;
}
static void vhFree(void* p) {
  for (size_t i = 0; i < hk::live.size(); ++i)
    if (hk::live[i].raw == (char*)p) { hk::live.erase(hk::live.begin() + (long)i); ++hk::frees; free(p); return; }
  ++hk::badFrees;
}
#define malloc(x) vhMalloc(x)
#define free(x) vhFree(x)
#define private public
#define protected public
#include <dispenso/concurrent_vector.h>
#undef protected
#undef private
#undef malloc
#undef free

using dispenso::ConcurrentVectorReallocStrategy;

// element: one atomic tag (constructing = atomic store, reading = atomic load) padded to SZ bytes;
// lifetimes are counted in the scheduler's ghost counters
template <int SZ>
struct Elem {
  std::atomic<int> v;
  char pad[SZ - 4];
  static void born() { dsched::ghostAdd(2, 1); }
  Elem() { v.store(-2, std::memory_order_relaxed); born(); }
  explicit Elem(int x) { v.store(x, std::memory_order_relaxed); born(); }
  Elem(const Elem& o) { v.store(o.v.load(std::memory_order_relaxed), std::memory_order_relaxed); born(); }
  Elem(Elem&& o) noexcept { v.store(o.v.load(std::memory_order_relaxed), std::memory_order_relaxed); born(); }
  ~Elem() { dsched::ghostAdd(2, -1); }
  int get() const { return v.load(std::memory_order_relaxed); }
};

template <bool INL, ConcurrentVectorReallocStrategy ST, bool FAST>
struct Tr {
  static constexpr bool kPreferBuffersInline = INL;
  static constexpr ConcurrentVectorReallocStrategy kReallocStrategy = ST;
  static constexpr bool kIteratorPreferSpeed = FAST;
};

struct OpRec { int tid, kind; long d, tag, stp, n; long pos; };

static long long cases = 0;

template <typename E, typename TR>
static void scenario(vh::SplitMix& rng, uint64_t seed, long long it, const char* vname) {
  using CV = dispenso::ConcurrentVector<E, TR>;
  constexpr int strat = (int)TR::kReallocStrategy;
  constexpr bool fast = TR::kIteratorPreferSpeed;
  dsched::Options o;
  o.seed = seed * 7919 + (uint64_t)it;
  o.strategy = (it % 5 == 4) ? dsched::PCT : dsched::RANDOM;
  o.stickiness = 10 + (int)rng.below(85);
  o.fairAfter = 4000;
  o.livelockAfter = 400000;
  o.traceAll = true;
  int nthreads = (int)rng.range(2, 4);
  int opsPer = (int)rng.range(1, 3);
  size_t hkBase = hk::live.size();
  long elemBase = dsched::ghostGet(2);
  bool bad = false; std::string why;
  {
    // sequential prefix: construction (sometimes with a reserved capacity), initial elements, sometimes
    // reserve / shrink_to_fit, so that the concurrent phase starts from varied bucket states
    std::unique_ptr<CV> vp;
    size_t cap0 = rng.below(3) == 0 ? (size_t)rng.range(2, 20) : 0;
    if (cap0) vp.reset(new CV(cap0, dispenso::ReserveTag)); else vp.reset(new CV());
    CV& v = *vp;
    size_t F = v.firstBucketLen_;
    size_t n0 = rng.below(4) == 0 ? 0 : (size_t)rng.below(3 * F + 2);
    const int base = 1000;
    for (size_t k = 0; k < n0; ++k) {
      if (rng.below(3) == 0 && k + 2 <= n0) { int t0 = base + (int)k; v.grow_by_generator(2, [&] { return E(t0++); }); ++k; }
      else v.emplace_back(base + (int)k);
    }
    if (rng.below(4) == 0) v.reserve((ssize_t)(n0 + rng.below(4 * F + 3)));
    if (rng.below(5) == 0) v.shrink_to_fit();
    unsigned long long premask = 0;
    for (size_t b = 0; b < CV::kMaxBuffers && b < 62; ++b) if (v.buffers_[b].load(std::memory_order_relaxed)) premask |= 1ull << b;
    // references and iterators to the existing elements
    std::vector<E*> refs; std::vector<typename CV::iterator> its;
    for (size_t k = 0; k < n0; ++k) { refs.push_back(&v[k]); its.push_back(v.begin() + (ssize_t)k); }

    char desc[400];
    std::snprintf(desc, sizeof desc, "%s F=%zu n0=%zu pre=%llu threads=%d ops=%d seed=%llu strat=%d", vname, F, n0, premask, nthreads, opsPer,
                  (unsigned long long)o.seed, (int)o.strategy);
    auto& sc = dsh::stuckCtx();
    sc.signature = "ConcurrentVector concurrent growth never returns";
    sc.detail = desc;

    // plan the operations
    std::vector<std::vector<OpRec>> plan(nthreads);
    for (int t = 0; t < nthreads; ++t)
      for (int q = 0; q < opsPer; ++q) {
        OpRec r{t, 0, 0, 100000L * (t + 1) + 1000L * q + 1, 1, 0, -1};
        int k = (int)rng.below(n0 ? 8 : 7);
        r.kind = k;
        r.d = (long)rng.below(rng.below(3) == 0 ? 3 * F + 3 : 4);
        if (k == 0 || k == 1) { r.d = 1; r.stp = 0; }          // emplace_back / push_back
        else if (k == 2) r.stp = 0;                             // grow_by(d, t)
        else if (k == 5) { r.stp = 0; r.n = (long)rng.range(1, (long)(n0 + 3 * F + 2)); }  // grow_to_at_least(n, t)
        else if (k == 6) { r.kind = 3; }                        // grow_by_generator again (most varied)
        else if (k == 7) { r.n = (long)rng.below(n0); }         // reader
        plan[t].push_back(r);
      }
    int readBad = 0;
    std::vector<std::vector<typename CV::iterator>> rets(nthreads);
    for (int t = 0; t < nthreads; ++t) rets[t].resize(plan[t].size());
    dsched::clearNames();
    dsched::run(o, [&] {
      std::vector<std::thread> ths;
      for (int t = 0; t < nthreads; ++t)
        ths.emplace_back([&, t] {
          for (size_t q = 0; q < plan[t].size(); ++q) {
            auto& r = plan[t][q];
            auto& itr = rets[t][q];
            switch (r.kind) {
              case 0: { DS_CALL("emplace_back %ld", r.tag); itr = v.emplace_back((int)r.tag); DS_RET("emplace_back"); } break;
              case 1: { E e((int)r.tag); DS_CALL("emplace_back %ld", r.tag); itr = v.push_back(e); DS_RET("emplace_back"); } break;
              case 2: { E e((int)r.tag); DS_CALL("grow_by %ld %ld 0", r.d, r.tag); itr = v.grow_by((size_t)r.d, e); DS_RET("grow_by"); } break;
              case 3: { int nx = (int)r.tag; DS_CALL("grow_by %ld %ld 1", r.d, r.tag); itr = v.grow_by_generator((size_t)r.d, [&] { return E(nx++); }); DS_RET("grow_by"); } break;
              case 4: { std::vector<E> src; src.reserve((size_t)r.d); for (long j = 0; j < r.d; ++j) src.emplace_back((int)(r.tag + j));
                        DS_CALL("grow_by %ld %ld 1", r.d, r.tag); itr = v.grow_by(src.begin(), src.end()); DS_RET("grow_by"); } break;
              case 5: { E e((int)r.tag); DS_CALL("grow_to_at_least %ld %ld", r.n, r.tag); itr = v.grow_to_at_least((size_t)r.n, e); DS_RET("grow_to_at_least"); } break;
              default: { DS_CALL("read %ld", r.n); int got = v[(size_t)r.n].get(); r.pos = got; if (got != base + (int)r.n) ++readBad;
                         if (refs[(size_t)r.n] != &v[(size_t)r.n]) ++readBad; DS_RET("read %d", got); } break;
            }
          }
        });
      for (auto& t : ths) t.join();
    });
    ++cases;
    const std::vector<dsched::Event> tr = dsched::trace();   // the run's events (the checks below add none)
    // returned positions (iterator differences are taken after the run: begin() reads buffers_[0])
    for (int t = 0; t < nthreads; ++t)
      for (size_t q = 0; q < plan[t].size(); ++q)
        if (plan[t][q].kind <= 5) plan[t][q].pos = rets[t][q] - v.begin();

    // ---------------- oracle on the implementation ----------------
    size_t fin = v.size();
    std::vector<int> cont(fin);
    for (size_t k = 0; k < fin; ++k) cont[k] = v[k].get();
    long expect = (long)n0;
    for (auto& pl : plan)
      for (auto& r : pl) {
        if (r.kind <= 4) {
          expect += r.d;
          bool okp = r.pos >= (long)n0 && (size_t)(r.pos + r.d) <= fin;
          for (long j = 0; okp && j < r.d; ++j) okp = cont[(size_t)(r.pos + j)] == (int)(r.tag + r.stp * j);
          if (!okp && !bad) { bad = true; why = "elements of a growth call are not at its returned position (lost, overwritten or misplaced)"; }
        } else if (r.kind == 5) {
          long cnt = 0; for (int x : cont) cnt += x == (int)r.tag;
          expect += cnt;
          if (fin < (size_t)r.n && !bad) { bad = true; why = "grow_to_at_least(n) left size below n"; }
        }
      }
    if ((long)fin != expect && !bad) { bad = true; why = "final size differs from initial size plus total growth"; }
    for (size_t k = 0; k < n0; ++k)
      if ((cont[k] != base + (int)k || refs[k] != &v[k] || refs[k]->get() != base + (int)k || its[k]->get() != base + (int)k ||
           &*its[k] != refs[k]) && !bad) { bad = true; why = "an element that existed before the growth changed or moved (reference / iterator invalid)"; }
    if (readBad && !bad) { bad = true; why = "a reader saw a wrong value in an already published element"; }
    for (size_t k = 0; k < fin; ++k) if ((cont[k] == 0 || cont[k] == -2) && !bad) { bad = true; why = "an index below size() was never constructed"; }
    // iteration over the whole vector agrees with indexing
    { size_t k = 0; for (auto itr = v.begin(); itr != v.end(); ++itr, ++k) if (k >= fin || itr->get() != cont[k]) { if (!bad) { bad = true; why = "iteration disagrees with indexing after growth"; } break; } }

    // buckets: storage inside live blocks, disjoint; stores per bucket pointer; blocks all referenced
    struct Reg { const char* lo; const char* hi; size_t start; size_t tracePos; };
    std::vector<Reg> regs;
    const char* bufLo = (const char*)&v.buffers_[0];
    const size_t bufStride = sizeof(dispenso::detail::AlignedAtomic<E>);
    std::vector<int> blockRefs(hk::live.size(), 0);
    for (size_t b = 0; b < CV::kMaxBuffers; ++b) {
      E* p = v.buffers_[b].load(std::memory_order_relaxed);
      if (!p) continue;
      size_t cap = b == 0 ? F : F << (b - 1);
      size_t start = b == 0 ? 0 : F << (b - 1);
      const hk::Blk* blk = hk::find(p);
      const char* lo = (const char*)p; const char* hi = lo + cap * sizeof(E);
      if ((!blk || hi > blk->raw + blk->bytes) && !bad) { bad = true; why = "a bucket lies outside every live allocation"; }
      if (blk) ++blockRefs[(size_t)(blk - &hk::live[0])];
      for (auto& r : regs) if (lo < r.hi && r.lo < hi && !bad) { bad = true; why = "two buckets overlap"; }
      regs.push_back({lo, hi, start, blk ? blk->tracePos : 0});
    }
    {
      size_t tableBytes = CV::kMaxBuffers * bufStride + alignof(dispenso::detail::AlignedAtomic<E>);
      for (size_t i = hkBase; i < hk::live.size(); ++i)
        if (blockRefs[i] == 0 && !(hk::live[i].bytes == tableBytes && !TR::kPreferBuffersInline) && !bad) { bad = true; why = "a buffer block was allocated but no bucket points into it (leaked / lost allocation)"; }
    }
    std::map<size_t, int> stores;
    for (const auto& e : tr)
      if (e.kind == dsched::K_STORE && (const char*)e.addr >= bufLo && (const char*)e.addr < bufLo + CV::kMaxBuffers * bufStride)
        ++stores[(size_t)((const char*)e.addr - bufLo) / bufStride];
    for (auto& kv : stores) if (kv.second > 1 && !bad) { bad = true; why = "a bucket pointer was stored more than once (double allocation)"; }
    {
      // how contended the scenario was: bucket pointers published during the run, loads that saw a null bucket
      // pointer, and spins (the same thread loading the same null pointer again = it waited for another thread)
      long nullLoads = 0, spins = 0, published = 0;
      std::map<int, const void*> lastNull;
      for (const auto& e : tr) {
        bool inBuf = (const char*)e.addr >= bufLo && (const char*)e.addr < bufLo + CV::kMaxBuffers * bufStride;
        if (!inBuf) continue;
        if (e.kind == dsched::K_STORE) ++published;
        if (e.kind == dsched::K_LOAD) {
          if (e.result == 0) { ++nullLoads; if (lastNull[e.tid] == e.addr) ++spins; lastNull[e.tid] = e.addr; }
          else lastNull[e.tid] = nullptr;
        }
      }
      std::printf("STAT buckets_published %ld\nSTAT null_bucket_loads %ld\nSTAT spins_on_null_bucket %ld\nSTAT scenarios_with_spin %d\n",
                  published, nullLoads, spins, spins ? 1 : 0);
    }

    if (bad) std::printf("PFAIL ConcurrentVector concurrent growth: %s | %s\n", why.c_str(), desc);

    // ---------------- trace for the Lean model ----------------
    std::printf("TRACE-BEGIN cvgrow %d %zu %zu %d %llu %d\n", strat, v.firstBucketShift_, n0, fast ? 1 : 0, premask, base);
    size_t pos = 0;
    std::vector<size_t> retIdx(nthreads, 0);
    for (const auto& e : tr) {
      size_t at = pos++;
      if (e.kind == dsched::K_NOTE) {
        // growth calls: the returned position is appended to the ret line here (it was computed after the run)
        if (e.note.compare(0, 4, "ret ") == 0 && e.note.compare(0, 8, "ret read") != 0) {
          int t = e.tid - 1;   // managed thread ids: 0 = body, 1.. = workers in creation order
          long p = -1;
          if (t >= 0 && t < nthreads) { size_t& qi = retIdx[t]; while (qi < plan[t].size() && plan[t][qi].kind > 5) ++qi; if (qi < plan[t].size()) p = plan[t][qi++].pos; }
          std::printf("T %d %s %ld\n", e.tid, e.note.c_str(), p);
        } else std::printf("T %d %s\n", e.tid, e.note.c_str());
        continue;
      }
      const char* kn = nullptr;
      switch (e.kind) {
        case dsched::K_LOAD: kn = "load"; break; case dsched::K_STORE: kn = "store"; break; case dsched::K_XCHG: kn = "xchg"; break;
        case dsched::K_FADD: kn = "fadd"; break; case dsched::K_FSUB: kn = "fsub"; break; case dsched::K_CAS_OK: kn = "cas_ok"; break;
        case dsched::K_CAS_FAIL: kn = "cas_fail"; break; default: break;
      }
      if (!kn || !e.addr) continue;
      const char* a = (const char*)e.addr;
      char name[64]; name[0] = 0;
      if (a == (const char*)&v.size_) std::snprintf(name, sizeof name, "size");
      else if (a >= bufLo && a < bufLo + CV::kMaxBuffers * bufStride && (size_t)(a - bufLo) % bufStride == 0) std::snprintf(name, sizeof name, "buf+%zu", (size_t)(a - bufLo) / bufStride);
      else for (auto& r : regs) if (a >= r.lo && a < r.hi && at >= r.tracePos && (size_t)(a - r.lo) % sizeof(E) == 0) { std::snprintf(name, sizeof name, "el+%zu", r.start + (size_t)(a - r.lo) / sizeof(E)); break; }
      if (!name[0]) continue;
      long long operand = (long long)e.operand, result = (long long)e.result, aux = (long long)e.aux;
      if (e.size == 4) { operand = (int32_t)e.operand; result = (int32_t)e.result; aux = (int32_t)e.aux; }
      std::printf("T %d %s %s %d %lld %lld %lld\n", e.tid, kn, name, (int)e.mo, operand, result, aux);
    }
    std::printf("T 0 chk size %zu\n", fin);
    for (size_t b = 0; b < CV::kMaxBuffers && b < 40; ++b) std::printf("T 0 chk buf+%zu %d\n", b, v.buffers_[b].load(std::memory_order_relaxed) ? 1 : 0);
    for (size_t k = 0; k < fin; ++k) std::printf("T 0 chk el+%zu %d\n", k, cont[k]);
    std::printf("TRACE-END %s\n", desc);
    std::printf("NT %s F%zu n0=%zu pre%llu t%d fin%zu\n", vname, F, n0, premask, nthreads, fin);
    if (it < 2) std::printf("SAMPLE %s final size %zu\n", desc, fin);
  }
  if ((hk::live.size() != hkBase || hk::badFrees) )
    std::printf("PFAIL ConcurrentVector concurrent growth: buffer blocks leaked or freed twice | %s live=%ld bad=%lld\n", vname, (long)hk::live.size() - (long)hkBase, hk::badFrees);
  if (dsched::ghostGet(2) != elemBase)
    std::printf("PFAIL ConcurrentVector concurrent growth: element lifetimes unbalanced after destruction | %s live=%ld\n", vname, dsched::ghostGet(2) - elemBase);
  hk::badFrees = 0;
}

int main(int argc, char** argv) {
  uint64_t seed = vh::argInt(argc, argv, 1, 1);
  long long N = vh::argInt(argc, argv, 2, 100);
  long long only = vh::argInt(argc, argv, 3, -1);
  // consecutive seeds must not give shifted copies of one stream (SplitMix's state is seed·γ + c)
  vh::SplitMix rng((seed ^ 0xD1B54A32D192ED03ull) * 0xAEF17502108EF2D9ull + (seed << 32));
  dsh::installStuckHandler();
  using S = ConcurrentVectorReallocStrategy;
  for (long long it = 0; it < N; ++it) {
    long long var = only >= 0 ? only : it % 8;
    switch (var) {
      case 0: scenario<Elem<64>, Tr<true, S::kAsNeeded, true>>(rng, seed, it, "asNeeded/inline/fast/F4"); break;
      case 1: scenario<Elem<64>, Tr<false, S::kHalfBufferAhead, false>>(rng, seed, it, "half/heap/compact/F4"); break;
      case 2: scenario<Elem<64>, Tr<true, S::kFullBufferAhead, true>>(rng, seed, it, "full/inline/fast/F4"); break;
      case 3: scenario<Elem<256>, Tr<true, S::kAsNeeded, true>>(rng, seed, it, "asNeeded/inline/fast/F1"); break;
      case 4: scenario<Elem<256>, Tr<false, S::kFullBufferAhead, false>>(rng, seed, it, "full/heap/compact/F1"); break;
      case 5: scenario<Elem<128>, Tr<true, S::kHalfBufferAhead, true>>(rng, seed, it, "half/inline/fast/F2"); break;
      case 6: scenario<Elem<64>, Tr<false, S::kAsNeeded, false>>(rng, seed, it, "asNeeded/heap/compact/F4"); break;
      default: scenario<Elem<128>, Tr<false, S::kFullBufferAhead, true>>(rng, seed, it, "full/heap/fast/F2"); break;
    }
  }
  std::printf("STAT cases %lld\n", cases);
  std::fflush(stdout);
  _exit(0);
}
