// C37 (concurrent layer): ConcurrentObjectArena::grow_by from several threads under the
// deterministic scheduler. usage: c37_arena_conc <seed> <scenarios>
#include <algorithm>
#include <thread>
#include <vector>
#include "dsched/dsh.h"
#define private public
#include <dispenso/concurrent_object_arena.h>
#undef private

struct E { int v; E() : v(7) {} };

int main(int argc, char** argv) {
  uint64_t seed = vh::argInt(argc, argv, 1, 1);
  long long N = vh::argInt(argc, argv, 2, 200);
  vh::SplitMix rng(seed);
  dsh::installStuckHandler();
  long long cases = 0;
  for (long long it = 0; it < N; ++it) {
    dsched::Options o;
    o.seed = seed * 122949829 + it;
    o.strategy = (it % 4 == 3) ? dsched::PCT : dsched::RANDOM;
    o.stickiness = 15 + (int)rng.below(75);
    size_t B = size_t{1} << rng.range(0, 3);
    int growers = (int)rng.range(2, 4), ops = (int)rng.range(1, 4);
    std::string desc = "arena B=" + std::to_string(B) + " growers=" + std::to_string(growers) + " ops=" + std::to_string(ops) +
        " seed=" + std::to_string(o.seed);
    auto& c = dsh::stuckCtx();
    c.signature = "ConcurrentObjectArena::grow_by never returns";
    c.detail = desc;
    std::vector<std::pair<size_t, size_t>> ranges;
    bool bad = false;
    std::string badWhy;
    std::vector<std::vector<int>> plans(growers);
    for (auto& p : plans) for (int i = 0; i < ops; ++i) p.push_back((int)rng.below(2 * B + 3));
    dsched::clearNames();
    dsched::run(o, [&] {
     {
      dispenso::ConcurrentObjectArena<E> arena(B);
      dsched::nameRegion(&arena.pos_, 8, "pos");
      dsched::nameRegion(&arena.allocatedSize_, 8, "alloc");
      dsched::nameRegion(&arena.buffers_, 8, "buffers");
      E* first = nullptr;
      std::vector<std::thread> ths;
      for (int g = 0; g < growers; ++g)
        ths.emplace_back([&, g] {
          for (int d : plans[g]) {
            DS_CALL("grow_by %d", d);
            size_t start = arena.grow_by((size_t)d);
            DS_RET("grow_by %zu", start);
            ranges.push_back({start, start + (size_t)d});
            if (d > 0) {
              DS_CALL("index");
              E& e = arena[start];
              DS_RET("index");
              if (e.v != 7) { bad = true; badWhy = "element not default-constructed"; }
              e.v = 100 + g;
              if (start == 0) first = &e;
            }
          }
        });
      for (auto& t : ths) t.join();
      DS_CALL("size");
      size_t sz = arena.size();
      DS_RET("size %zu", sz);
      DS_CALL("capacity");
      size_t cap = arena.capacity();
      DS_RET("capacity %zu", cap);
      std::sort(ranges.begin(), ranges.end());
      size_t at = 0;
      for (auto& r : ranges) { if (r.first != at) { bad = true; badWhy = "returned ranges overlap or leave a gap"; } at = r.second; }
      if (at != sz) { bad = true; badWhy = "size() differs from total growth"; }
      if (cap <= sz && sz > 0) { /* capacity may equal size only transiently */ }
      // plain (unlogged) view of the buffer table for the final checks
      E** table = *reinterpret_cast<E** volatile*>(&arena.buffers_);
      auto plainAt = [&](size_t i) -> E& { return table[i >> arena.kLog2BuffSize][i & arena.kMask]; };
      for (auto& r : ranges)
        for (size_t i = r.first; i < r.second; ++i) {
          int v = plainAt(i).v;
          if (v != 7 && (v < 100 || v > 100 + growers)) { bad = true; badWhy = "element overwritten"; }
        }
      if (first && first != &plainAt(0)) { bad = true; badWhy = "reference to an existing element was invalidated"; }
      DS_CALL("dtor");
     }
     DS_RET("dtor");
    });
    ++cases;
    if (bad) std::printf("PFAIL ConcurrentObjectArena concurrent growth not exact | %s why=%s\n", desc.c_str(), badWhy.c_str());
    std::printf("NT B%zu g%d total%zu\n", B, growers, ranges.empty() ? 0 : ranges.back().second);
    std::string p = "arena " + std::to_string(B);
    dsh::emitTrace(p.c_str(), desc);
  }
  std::printf("STAT cases %lld\n", cases);
  std::fflush(stdout);
  _exit(0);
}
