// C10 native ThreadSanitizer stress harness.
//
// Built with the real ThreadSanitizer (clang++ -fsanitize=thread) and linked against the whole
// dispenso library built the same way.  Every scenario uses dispenso only within its documented
// thread-safety contract and moves PLAIN (non-atomic) payloads through it, so that a missing
// happens-before edge inside dispenso shows up as a TSan data-race report on the payload.
// Harness bookkeeping shared by threads is std::atomic / mutex protected / joined.
//
//   c10_tsan <seed> <rounds> [scenario]      c10_tsan --list | --list-findings
// Without a scenario name every default scenario runs; the "finding" scenarios (minimal reproducers
// of races reported on the unchanged tree) run only when named.
// stdout: SCN <name> | NT <name>:<shape> | PFAIL <sig> | <detail> | STAT cases <n>
#include <algorithm>
#include <array>
#include <atomic>
#include <chrono>
#include <condition_variable>
#include <cstdarg>
#include <deque>
#include <functional>
#include <list>
#include <map>
#include <memory>
#include <mutex>
#include <numeric>
#include <optional>
#include <set>
#include <shared_mutex>
#include <string>
#include <thread>
#include <tuple>
#include <vector>

#include <dispenso/async_request.h>
#include <dispenso/chase_lev_deque.h>
#include <dispenso/completion_event.h>
#include <dispenso/concurrent_object_arena.h>
#include <dispenso/concurrent_vector.h>
#include <dispenso/distributed_rw_lock.h>
#include <dispenso/for_each.h>
#include <dispenso/future.h>
#include <dispenso/graph.h>
#include <dispenso/graph_executor.h>
#include <dispenso/latch.h>
#include <dispenso/mpmc_ring_buffer.h>
#include <dispenso/once_function.h>
#include <dispenso/parallel_for.h>
#include <dispenso/parallel_invoke.h>
#include <dispenso/pipeline.h>
#include <dispenso/pool_allocator.h>
#include <dispenso/resource_pool.h>
#include <dispenso/rw_lock.h>
#include <dispenso/schedulable.h>
#include <dispenso/small_buffer_allocator.h>
#include <dispenso/spsc_ring_buffer.h>
#include <dispenso/task_set.h>
#include <dispenso/thread_id.h>
#include <dispenso/thread_pool.h>
#include <dispenso/timed_task.h>

#include "common.h"

namespace {

using Rng = vh::SplitMix;
using FQ = dispenso::ForceQueuingTag;

// ---------------------------------------------------------------- output / bookkeeping
std::mutex g_mu;
std::set<std::string> g_nt;
std::map<std::string, int> g_pfailCount;
const char* g_scn = "?";
std::atomic<long> g_cases{0};

void pfail(const char* what, const char* fmt, ...) {
  char buf[600];
  va_list ap;
  va_start(ap, fmt);
  vsnprintf(buf, sizeof buf, fmt, ap);
  va_end(ap);
  std::lock_guard<std::mutex> lk(g_mu);
  std::string key = std::string(g_scn) + ":" + what;
  if (++g_pfailCount[key] > 3) {
    return;
  }
  printf("PFAIL c10:%s | %s\n", key.c_str(), buf);
  fflush(stdout);
}

void nt(const char* fmt, ...) {
  char buf[300];
  va_list ap;
  va_start(ap, fmt);
  vsnprintf(buf, sizeof buf, fmt, ap);
  va_end(ap);
  std::lock_guard<std::mutex> lk(g_mu);
  std::string key = std::string(g_scn) + ":" + buf;
  if (g_nt.insert(key).second) {
    printf("NT %s\n", key.c_str());
  }
}

inline void cases(long n = 1) {
  g_cases.fetch_add(n, std::memory_order_relaxed);
}

#define CHECK(cond, what, ...)  \
  do {                          \
    if (!(cond)) {              \
      pfail(what, __VA_ARGS__); \
    }                           \
  } while (0)

// ---------------------------------------------------------------- plain payload
struct Cell {
  uint64_t v = 0;
  uint64_t chk = 0;
};
inline uint64_t mixv(uint64_t x) {
  x ^= x >> 29;
  x *= 0xBF58476D1CE4E5B9ull;
  x ^= x >> 32;
  return x + 0x1234567ull;
}
inline void setCell(Cell& c, uint64_t v) {
  c.v = v;
  c.chk = mixv(v);
}
inline bool okCell(const Cell& c, uint64_t v) {
  return c.v == v && c.chk == mixv(v);
}
inline bool selfOk(const Cell& c) {
  return c.chk == mixv(c.v);
}

// ---------------------------------------------------------------- thread helpers
// Runs f(0..n-1) on n fresh threads released together; all are joined before returning.
template <class F>
void runThreads(int n, F&& f) {
  std::atomic<int> ready{0};
  std::atomic<bool> go{false};
  std::vector<std::thread> ts;
  ts.reserve(static_cast<size_t>(n));
  for (int i = 0; i < n; ++i) {
    ts.emplace_back([&ready, &go, &f, i]() {
      ready.fetch_add(1, std::memory_order_acq_rel);
      while (!go.load(std::memory_order_acquire)) {
        std::this_thread::yield();
      }
      f(i);
    });
  }
  while (ready.load(std::memory_order_acquire) < n) {
    std::this_thread::yield();
  }
  go.store(true, std::memory_order_release);
  for (auto& t : ts) {
    t.join();
  }
}

// bounded spinning with yield; returns false after `seconds`
template <class P>
bool spinUntil(P&& p, double seconds = 120.0) {
  auto t0 = std::chrono::steady_clock::now();
  for (uint64_t it = 0;; ++it) {
    if (p()) {
      return true;
    }
    if ((it & 63) == 63) {
      if (std::chrono::duration<double>(std::chrono::steady_clock::now() - t0).count() > seconds) {
        return false;
      }
      std::this_thread::sleep_for(std::chrono::microseconds(50));
    } else {
      std::this_thread::yield();
    }
  }
}

// checks out[i] == f(in[i]) for the standard task body below
inline uint64_t taskFn(uint64_t x) {
  return x * 3 + 1;
}
struct Slots {
  std::vector<Cell> in, out;
  std::atomic<int> badIn{0};
  explicit Slots(size_t n) : in(n), out(n) {}
  void prep(size_t i, uint64_t salt) {
    setCell(in[i], i * 7 + salt);
  }
  // the body every scheduled task runs: plain read of in[i], plain write of out[i]
  void body(size_t i, uint64_t salt) {
    if (!okCell(in[i], i * 7 + salt)) {
      badIn.fetch_add(1, std::memory_order_relaxed);
    }
    setCell(out[i], taskFn(in[i].v));
  }
  void verify(size_t b, size_t e, uint64_t salt, const char* what) {
    for (size_t i = b; i < e; ++i) {
      if (!okCell(out[i], taskFn(i * 7 + salt))) {
        pfail(what, "slot %zu holds %llu, expected %llu", i, (unsigned long long)out[i].v,
              (unsigned long long)taskFn(i * 7 + salt));
        break;
      }
    }
    CHECK(badIn.load() == 0, what, "%d tasks saw a wrong input", badIn.load());
    cases(static_cast<long>(e - b));
  }
};

// ================================================================ ThreadPool
void scn_pool_schedule(Rng& r) {
  const int poolN = 1 + static_cast<int>(r.below(6));
  const int nthr = 1 + static_cast<int>(r.below(4));
  const size_t per = 150 + r.below(250);
  const int mode = static_cast<int>(r.below(3)); // 0 pool dtor joins, 1 harness countdown, 2 bulk
  const uint64_t salt = r.below(1000);
  nt("pool=%d,thr=%d,mode=%d", poolN, nthr, mode);
  const size_t n = static_cast<size_t>(nthr) * per;
  Slots s(n);
  std::atomic<size_t> remaining{n};
  {
    dispenso::ThreadPool pool(static_cast<size_t>(poolN));
    runThreads(nthr, [&](int t) {
      const size_t base = static_cast<size_t>(t) * per;
      if (mode == 2) {
        for (size_t k = 0; k < per; ++k) {
          s.prep(base + k, salt);
        }
        pool.scheduleBulk(per, [&s, base, salt](size_t i) {
          return [&s, base, salt, i]() { s.body(base + i, salt); };
        });
        return;
      }
      for (size_t k = 0; k < per; ++k) {
        const size_t i = base + k;
        s.prep(i, salt);
        auto task = [&s, &remaining, i, salt, mode]() {
          s.body(i, salt);
          if (mode == 1) {
            remaining.fetch_sub(1, std::memory_order_release);
          }
        };
        if (k & 1) {
          pool.schedule(task);
        } else {
          pool.schedule(task, FQ());
        }
      }
    });
    if (mode == 1) {
      bool done = spinUntil([&]() { return remaining.load(std::memory_order_acquire) == 0; });
      CHECK(done, "timeout", "tasks did not finish");
      if (done) {
        s.verify(0, n, salt, "value");
      }
    }
  }
  if (mode != 1) {
    s.verify(0, n, salt, "value");
  }
}

void scn_pool_resize(Rng& r) {
  const int nsched = 1 + static_cast<int>(r.below(2));
  const size_t per = 300 + r.below(300);
  const bool poll = r.below(3) == 0;
  const bool bulkTs = r.coin();
  const int nresizers = 1 + static_cast<int>(r.below(3) != 0);
  const int resizes = (nresizers == 1 ? 8 : 10) + static_cast<int>(r.below(6));
  const uint64_t salt = r.below(1000);
  const uint64_t rs = r.next();
  nt("sched=%d,poll=%d,bulkts=%d,resizers=%d", nsched, poll, bulkTs, nresizers);
  const size_t n = static_cast<size_t>(nsched) * per;
  const size_t bulkRounds = 25;
  Slots s(n);
  Slots sb(bulkRounds * 8);
  {
    dispenso::ThreadPool pool(4);
    if (poll) {
      pool.setSignalingWake(false, std::chrono::microseconds(100));
    }
    runThreads(nsched + nresizers + (bulkTs ? 1 : 0), [&](int t) {
      if (t < nsched) {
        const size_t base = static_cast<size_t>(t) * per;
        for (size_t k = 0; k < per; ++k) {
          const size_t i = base + k;
          s.prep(i, salt);
          if (k % 3) {
            pool.schedule([&s, i, salt]() { s.body(i, salt); });
          } else {
            pool.schedule([&s, i, salt]() { s.body(i, salt); }, FQ());
          }
        }
      } else if (t < nsched + nresizers) {
        Rng lr(rs + static_cast<uint64_t>(t));
        for (int i = 0; i < resizes; ++i) {
          pool.resize(static_cast<ssize_t>(1 + lr.below(8)));
          (void)pool.numThreads();
          if (nresizers == 1) {
            std::this_thread::yield();
          }
        }
      } else {
        // the ring fast path: TaskSet::scheduleBulk with count <= numThreads, concurrent to resize
        dispenso::TaskSet ts(pool);
        for (size_t round = 0; round < bulkRounds; ++round) {
          size_t batch = static_cast<size_t>(pool.numThreads());
          batch = std::max<size_t>(1, std::min<size_t>(batch, 8));
          const size_t base = round * 8;
          for (size_t k = 0; k < batch; ++k) {
            sb.prep(base + k, salt);
          }
          ts.scheduleBulk(batch, [&sb, base, salt](size_t i) {
            return [&sb, base, salt, i]() { sb.body(base + i, salt); };
          });
          ts.wait();
          sb.verify(base, base + batch, salt, "bulkvalue");
        }
      }
    });
  }
  s.verify(0, n, salt, "value");
}

// ================================================================ TaskSet / ConcurrentTaskSet
void scn_taskset_basic(Rng& r) {
  const int poolN = 1 + static_cast<int>(r.below(6));
  const int nthr = 1 + static_cast<int>(r.below(3));
  const size_t per = 100 + r.below(150);
  const int mult = r.coin() ? 1 : 4;
  nt("pool=%d,thr=%d,mult=%d", poolN, nthr, mult);
  dispenso::ThreadPool pool(static_cast<size_t>(poolN));
  runThreads(nthr, [&](int t) {
    dispenso::TaskSet ts(pool, static_cast<ssize_t>(mult));
    Slots s(per);
    for (int round = 0; round < 4; ++round) {
      const uint64_t salt = static_cast<uint64_t>(t * 100 + round);
      // plain writes of the inputs after the previous wait(): ordered after the tasks' reads
      for (size_t i = 0; i < per; ++i) {
        s.prep(i, salt);
        s.out[i] = Cell();
      }
      if (round == 2) {
        ts.scheduleBulk(per, [&s, salt](size_t i) { return [&s, salt, i]() { s.body(i, salt); }; });
      } else if (round == 3) {
        ts.scheduleBulk(
            per, [&s, salt](size_t i) { return [&s, salt, i]() { s.body(i, salt); }; }, FQ());
      } else {
        for (size_t i = 0; i < per; ++i) {
          if ((i + static_cast<size_t>(round)) & 1) {
            ts.schedule([&s, salt, i]() { s.body(i, salt); });
          } else {
            ts.schedule([&s, salt, i]() { s.body(i, salt); }, FQ());
          }
        }
      }
      if (round & 1) {
        bool done = spinUntil([&]() { return ts.tryWait(1 + (per & 3)); });
        CHECK(done, "timeout", "tryWait never completed");
      } else {
        CHECK(!ts.wait(), "canceled", "wait reported cancel");
      }
      s.verify(0, per, salt, "value");
    }
  });
}

uint64_t nestRecTs(dispenso::ThreadPool& pool, int num) {
  if (num <= 0) {
    return 1;
  }
  std::vector<Cell> outs(static_cast<size_t>(num));
  {
    dispenso::TaskSet ts(pool);
    for (int i = 0; i < num; ++i) {
      ts.schedule([&pool, &outs, i]() { setCell(outs[static_cast<size_t>(i)], nestRecTs(pool, i)); });
    }
    ts.wait();
  }
  uint64_t sum = 1;
  for (auto& c : outs) {
    CHECK(selfOk(c), "nested-cell", "child result torn");
    sum += c.v;
  }
  return sum;
}

uint64_t nestRecCts(dispenso::ThreadPool& pool, int num) {
  if (num <= 0) {
    return 1;
  }
  std::vector<Cell> outs(static_cast<size_t>(num));
  {
    dispenso::ConcurrentTaskSet ts(pool);
    for (int i = 0; i < num; ++i) {
      ts.schedule([&pool, &outs, i]() { setCell(outs[static_cast<size_t>(i)], nestRecCts(pool, i)); });
    }
    ts.wait();
  }
  uint64_t sum = 1;
  for (auto& c : outs) {
    CHECK(selfOk(c), "nested-cell", "child result torn");
    sum += c.v;
  }
  return sum;
}

void scn_taskset_nested(Rng& r) {
  const int poolN = 1 + static_cast<int>(r.below(6));
  const int num = 6 + static_cast<int>(r.below(3));
  const bool cts = r.coin();
  nt("pool=%d,depth=%d,cts=%d", poolN, num, cts);
  dispenso::ThreadPool pool(static_cast<size_t>(poolN));
  uint64_t got = cts ? nestRecCts(pool, num) : nestRecTs(pool, num);
  CHECK(got == (1ull << num), "sum", "nested sum %llu != %llu", (unsigned long long)got, 1ull << num);
  cases(1 << num);
}

struct Tree {
  dispenso::ConcurrentTaskSet& cts;
  std::vector<Cell> in, out;
  size_t fan;
  int depth;
  std::atomic<int> bad{0};
  Tree(dispenso::ConcurrentTaskSet& c, size_t f, int d) : cts(c), fan(f), depth(d) {
    size_t n = 0, layer = 1;
    for (int i = 0; i <= d; ++i) {
      n += layer;
      layer *= f;
    }
    in.resize(n);
    out.resize(n);
  }
  void node(size_t id, int d) {
    if (!okCell(in[id], id * 5 + 3)) {
      bad.fetch_add(1, std::memory_order_relaxed);
    }
    setCell(out[id], in[id].v + 11);
    if (d < depth) {
      for (size_t c = 0; c < fan; ++c) {
        size_t child = id * fan + 1 + c;
        setCell(in[child], child * 5 + 3); // written by the parent task, read by the child task
        if (c & 1) {
          cts.schedule([this, child, d]() { node(child, d + 1); });
        } else {
          cts.schedule([this, child, d]() { node(child, d + 1); }, FQ());
        }
      }
    }
  }
};

void scn_cts_multi(Rng& r) {
  const int poolN = 1 + static_cast<int>(r.below(6));
  const int nthr = 1 + static_cast<int>(r.below(4));
  const size_t per = 100 + r.below(150);
  const bool light = r.coin();
  const size_t fan = 2 + r.below(2);
  const int depth = fan == 2 ? 6 : 4;
  nt("pool=%d,thr=%d,light=%d,fan=%zu", poolN, nthr, light, fan);
  dispenso::ThreadPool pool(static_cast<size_t>(poolN));
  dispenso::ConcurrentTaskSet cts(
      pool, light ? dispenso::TaskCost::kLightweight : dispenso::TaskCost::kHeavy);
  const size_t n = static_cast<size_t>(nthr) * per;
  // phase 1: several external schedulers (all joined before wait, as the contract requires)
  for (int phase = 0; phase < 2; ++phase) {
    Slots s(n);
    const uint64_t salt = static_cast<uint64_t>(phase) + 17;
    runThreads(nthr, [&](int t) {
      const size_t base = static_cast<size_t>(t) * per;
      if (phase == 1 && (t & 1)) {
        for (size_t k = 0; k < per; ++k) {
          s.prep(base + k, salt);
        }
        cts.scheduleBulk(per, [&s, base, salt](size_t i) {
          return [&s, base, salt, i]() { s.body(base + i, salt); };
        });
        return;
      }
      for (size_t k = 0; k < per; ++k) {
        const size_t i = base + k;
        s.prep(i, salt);
        if (k & 1) {
          cts.schedule([&s, i, salt]() { s.body(i, salt); });
        } else {
          cts.schedule([&s, i, salt]() { s.body(i, salt); }, FQ());
        }
      }
    });
    if (phase == 0) {
      cts.wait();
    } else {
      bool done = spinUntil([&]() { return cts.tryWait(3); });
      CHECK(done, "timeout", "tryWait never completed");
    }
    s.verify(0, n, salt, "value");
  }
  // phase 2: nested scheduling onto the same set from inside its tasks
  Tree tree(cts, fan, depth);
  setCell(tree.in[0], 3);
  cts.schedule([&tree]() { tree.node(0, 0); });
  cts.wait();
  for (size_t i = 0; i < tree.out.size(); ++i) {
    if (!okCell(tree.out[i], i * 5 + 3 + 11)) {
      pfail("tree", "node %zu holds %llu", i, (unsigned long long)tree.out[i].v);
      break;
    }
  }
  CHECK(tree.bad.load() == 0, "tree-in", "%d nodes saw a wrong input", tree.bad.load());
  cases(static_cast<long>(tree.out.size()));
}

void scn_cancel(Rng& r) {
  const int poolN = 1 + static_cast<int>(r.below(5));
  const int variant = static_cast<int>(r.below(4));
  const size_t n = 300 + r.below(300);
  const size_t cancelAt = r.below(n);
  nt("pool=%d,variant=%d", poolN, variant);
  dispenso::ThreadPool pool(static_cast<size_t>(poolN));
  std::vector<Cell> out(n);
  auto verify = [&]() {
    size_t ran = 0;
    for (size_t i = 0; i < n; ++i) {
      if (out[i].v == 0 && out[i].chk == 0) {
        continue;
      }
      ++ran;
      if (!okCell(out[i], i + 1)) {
        pfail("value", "slot %zu torn", i);
        break;
      }
    }
    cases(static_cast<long>(n));
    return ran;
  };
  if (variant == 0) {
    // TaskSet, owner cancels
    dispenso::TaskSet ts(pool);
    for (size_t i = 0; i < n; ++i) {
      ts.schedule(
          [&ts, &out, i]() {
            if (!ts.canceled()) {
              setCell(out[i], i + 1);
            }
          },
          FQ());
      if (i == cancelAt) {
        ts.cancel();
      }
    }
    CHECK(ts.wait(), "cancel-flag", "wait() did not report the cancel");
    verify();
  } else if (variant == 1) {
    // ConcurrentTaskSet, a task cancels
    dispenso::ConcurrentTaskSet cts(pool);
    for (size_t i = 0; i < n; ++i) {
      cts.schedule([&cts, &out, i, cancelAt]() {
        setCell(out[i], i + 1);
        if (i == cancelAt) {
          cts.cancel();
        }
      });
    }
    cts.wait();
    CHECK(cts.canceled(), "cancel-flag", "canceled() false after cancel");
    CHECK(okCell(out[cancelAt], cancelAt + 1), "value", "the cancelling task's own write is lost");
    verify();
  } else if (variant == 2) {
    // ConcurrentTaskSet, another thread cancels while schedulers run
    dispenso::ConcurrentTaskSet cts(pool);
    runThreads(3, [&](int t) {
      if (t == 2) {
        std::this_thread::yield();
        cts.cancel();
        return;
      }
      for (size_t i = static_cast<size_t>(t); i < n; i += 2) {
        cts.schedule([&out, i]() { setCell(out[i], i + 1); }, FQ());
      }
    });
    cts.wait();
    verify();
  } else {
    // parent cascade: child sets created inside tasks of a cancelled parent
    dispenso::TaskSet parent(pool);
    const size_t groups = 12, per = n / groups;
    for (size_t g = 0; g < groups; ++g) {
      parent.schedule(
          [&pool, &out, g, per]() {
            dispenso::TaskSet child(pool, dispenso::ParentCascadeCancel::kOn);
            for (size_t k = 0; k < per; ++k) {
              const size_t i = g * per + k;
              child.schedule([&out, i]() { setCell(out[i], i + 1); }, FQ());
            }
            child.wait();
          },
          FQ());
      if (g == cancelAt % groups) {
        parent.cancel();
      }
    }
    parent.wait();
    verify();
  }
}

// ================================================================ parallel_for / for_each
struct St {
  uint64_t sum = 0;
  uint64_t cnt = 0;
};

dispenso::ParForOptions randomOptions(Rng& r) {
  dispenso::ParForOptions o;
  if (r.coin()) {
    o.maxThreads = static_cast<uint32_t>(r.below(9));
  }
  o.wait = r.coin();
  o.minItemsPerChunk = static_cast<uint32_t>(1 + r.below(3) * 7);
  o.defaultChunking = r.coin() ? dispenso::ParForChunking::kStatic : dispenso::ParForChunking::kAdaptive;
  o.granularity = r.below(4) == 0 ? 4 : 1;
  o.reuseExistingState = r.coin();
  return o;
}

size_t randomLen(Rng& r) {
  switch (r.below(5)) {
    case 0:
      return r.below(20);
    case 1:
      return 64 + r.below(64);
    default:
      return 1000 + r.below(3000);
  }
}

void verifyLoop(const std::vector<Cell>& in, const std::vector<Cell>& out, const char* what) {
  for (size_t i = 0; i < in.size(); ++i) {
    if (!okCell(out[i], in[i].v * 2 + 1)) {
      pfail(what, "element %zu of %zu holds %llu", i, in.size(), (unsigned long long)out[i].v);
      break;
    }
  }
  cases(static_cast<long>(in.size()) + 1);
}

template <class TS>
void parforIndexWith(Rng& r, dispenso::ThreadPool& pool, const char* tsName) {
  const size_t n = randomLen(r);
  auto opt = randomOptions(r);
  const bool rangeForm = r.coin();
  nt("%s,n~%zu,wait=%d,chunk=%d,max=%d,range=%d", tsName, n < 20 ? n : (n < 200 ? 100 : 1000), opt.wait,
     static_cast<int>(opt.defaultChunking), opt.maxThreads > 8 ? 99 : static_cast<int>(opt.maxThreads),
     rangeForm);
  std::vector<Cell> in(n), out(n);
  for (size_t i = 0; i < n; ++i) {
    setCell(in[i], i * 13 + 5);
  }
  TS ts(pool);
  if (rangeForm) {
    dispenso::parallel_for(
        ts, size_t{0}, n,
        [&in, &out](size_t b, size_t e) {
          for (size_t i = b; i < e; ++i) {
            setCell(out[i], in[i].v * 2 + 1);
          }
        },
        opt);
  } else {
    dispenso::parallel_for(
        ts, size_t{0}, n, [&in, &out](size_t i) { setCell(out[i], in[i].v * 2 + 1); }, opt);
  }
  if (!opt.wait) {
    ts.wait();
  }
  verifyLoop(in, out, "value");
}

void scn_parfor_index(Rng& r) {
  const int poolN = 1 + static_cast<int>(r.below(7));
  dispenso::ThreadPool pool(static_cast<size_t>(poolN));
  for (int k = 0; k < 6; ++k) {
    if (r.coin()) {
      parforIndexWith<dispenso::TaskSet>(r, pool, "ts");
    } else {
      parforIndexWith<dispenso::ConcurrentTaskSet>(r, pool, "cts");
    }
  }
}

void scn_parfor_range(Rng& r) {
  const int poolN = 1 + static_cast<int>(r.below(7));
  dispenso::ThreadPool pool(static_cast<size_t>(poolN));
  for (int k = 0; k < 6; ++k) {
    const size_t n = randomLen(r);
    auto opt = randomOptions(r);
    const int kind = static_cast<int>(r.below(4)); // static, auto, explicit chunk, global pool
    nt("kind=%d,wait=%d,pool=%d", kind, opt.wait, poolN > 1);
    std::vector<Cell> in(n), out(n);
    for (size_t i = 0; i < n; ++i) {
      setCell(in[i], i * 13 + 5);
    }
    auto f = [&in, &out](size_t b, size_t e) {
      for (size_t i = b; i < e; ++i) {
        setCell(out[i], in[i].v * 2 + 1);
      }
    };
    if (kind == 3) {
      dispenso::parallel_for(dispenso::makeChunkedRange(size_t{0}, n, dispenso::ParForChunking::kAdaptive), f, opt);
    } else {
      dispenso::TaskSet ts(pool);
      if (kind == 0) {
        dispenso::parallel_for(ts, dispenso::makeChunkedRange(size_t{0}, n, dispenso::ParForChunking::kStatic), f, opt);
      } else if (kind == 1) {
        dispenso::parallel_for(ts, dispenso::makeChunkedRange(size_t{0}, n, dispenso::ParForChunking::kAdaptive), f, opt);
      } else {
        dispenso::parallel_for(ts, dispenso::makeChunkedRange(size_t{0}, n, size_t{1} + r.below(40)), f, opt);
      }
      if (!opt.wait) {
        ts.wait();
      }
    }
    verifyLoop(in, out, "value");
  }
}

template <class Container>
void parforStatesWith(Rng& r, dispenso::ThreadPool& pool, const char* cname) {
  const size_t n = randomLen(r);
  auto opt = randomOptions(r);
  if (!opt.wait) {
    // the no-wait dynamic path runs the granularity tail on states[0] from the last worker to exit;
    // that hand-over has its own scenario (parfor_tail_state)
    opt.granularity = 1;
  }
  const bool rangeForm = r.coin();
  nt("%s,wait=%d,chunk=%d,range=%d,reuse=%d", cname, opt.wait, static_cast<int>(opt.defaultChunking), rangeForm,
     opt.reuseExistingState);
  std::vector<Cell> in(n), out(n);
  uint64_t expect = 0;
  for (size_t i = 0; i < n; ++i) {
    setCell(in[i], i * 13 + 5);
    expect += i * 13 + 5;
  }
  Container states;
  dispenso::TaskSet ts(pool);
  for (int pass = 0; pass < 2; ++pass) {
    if (pass == 1) {
      // second pass reuses (or recreates) the container; the plain states are read in between
      for (auto& s : states) {
        s = St();
      }
      for (auto& c : out) {
        c = Cell();
      }
    }
    if (rangeForm) {
      dispenso::parallel_for(
          ts, states, []() { return St(); }, size_t{0}, n,
          [&in, &out](St& s, size_t b, size_t e) {
            for (size_t i = b; i < e; ++i) {
              setCell(out[i], in[i].v * 2 + 1);
              s.sum += in[i].v;
              ++s.cnt;
            }
          },
          opt);
    } else {
      dispenso::parallel_for(
          ts, states, []() { return St(); }, size_t{0}, n,
          [&in, &out](St& s, size_t i) {
            setCell(out[i], in[i].v * 2 + 1);
            s.sum += in[i].v;
            ++s.cnt;
          },
          opt);
    }
    if (!opt.wait) {
      ts.wait();
    }
    uint64_t sum = 0, cnt = 0;
    for (auto& s : states) {
      sum += s.sum;
      cnt += s.cnt;
    }
    CHECK(sum == expect && cnt == n, "states", "state sum %llu/%llu count %llu/%zu", (unsigned long long)sum,
          (unsigned long long)expect, (unsigned long long)cnt, n);
    verifyLoop(in, out, "value");
  }
}

void scn_parfor_states(Rng& r) {
  const int poolN = 1 + static_cast<int>(r.below(7));
  dispenso::ThreadPool pool(static_cast<size_t>(poolN));
  for (int k = 0; k < 4; ++k) {
    switch (r.below(3)) {
      case 0:
        parforStatesWith<std::vector<St>>(r, pool, "vector");
        break;
      case 1:
        parforStatesWith<std::list<St>>(r, pool, "list");
        break;
      default:
        parforStatesWith<std::deque<St>>(r, pool, "deque");
        break;
    }
  }
}

// Regression scenario for a race this harness reported (fixed in dispenso by drawing the chunk / exit
// tickets with acq_rel): parallel_for with per-thread states, wait == false, dynamic chunking and a
// granularity tail.  parallel_for_dynamicNoWaitDispatch runs the tail with states[0] on whichever
// worker exits last; with index.fetch_add(1, memory_order_relaxed) that worker was not ordered after
// worker 0, the owner of states[0].
void scn_parfor_tail_state(Rng& r) {
  const size_t n = 40003 + 4 * r.below(50); // long enough for all workers to overlap
  nt("granularity=4,wait=0,adaptive,states");
  dispenso::ThreadPool pool(4);
  std::vector<Cell> in(n), out(n);
  uint64_t expect = 0;
  for (size_t i = 0; i < n; ++i) {
    setCell(in[i], i * 13 + 5);
    expect += i * 13 + 5;
  }
  dispenso::ParForOptions opt;
  opt.wait = false;
  opt.granularity = 4;
  opt.defaultChunking = dispenso::ParForChunking::kAdaptive;
  for (int rep = 0; rep < 12; ++rep) {
    std::vector<St> states;
    dispenso::TaskSet ts(pool);
    dispenso::parallel_for(
        ts, states, []() { return St(); }, size_t{0}, n,
        [&in, &out](St& s, size_t i) {
          uint64_t x = in[i].v;
          for (int q = 0; q < 24; ++q) { // make the loop long enough for every worker to take part
            x = mixv(x);
          }
          setCell(out[i], in[i].v * 2 + 1);
          s.sum += in[i].v + (x == 42 ? 1 : 0) - (x == 42 ? 1 : 0);
          ++s.cnt;
        },
        opt);
    ts.wait();
    uint64_t sum = 0, cnt = 0;
    for (auto& s : states) {
      sum += s.sum;
      cnt += s.cnt;
    }
    CHECK(sum == expect && cnt == n, "states", "state sum %llu/%llu count %llu/%zu", (unsigned long long)sum,
          (unsigned long long)expect, (unsigned long long)cnt, n);
  }
  cases(12);
}

void scn_parfor_nested(Rng& r) {
  const int poolN = 1 + static_cast<int>(r.below(7));
  const size_t rows = 8 + r.below(24), cols = 50 + r.below(200);
  const bool useGlobal = r.below(3) == 0;
  const bool adaptive = r.coin();
  nt("pool=%d,global=%d,adaptive=%d", poolN > 1, useGlobal, adaptive);
  dispenso::ThreadPool own(static_cast<size_t>(poolN));
  dispenso::ThreadPool& pool = useGlobal ? dispenso::globalThreadPool() : own;
  std::vector<Cell> in(rows * cols), out(rows * cols);
  std::vector<Cell> rowSum(rows);
  for (size_t i = 0; i < in.size(); ++i) {
    setCell(in[i], i * 13 + 5);
  }
  dispenso::ParForOptions opt;
  opt.defaultChunking = adaptive ? dispenso::ParForChunking::kAdaptive : dispenso::ParForChunking::kStatic;
  dispenso::TaskSet outer(pool);
  dispenso::parallel_for(
      outer, size_t{0}, rows,
      [&](size_t row) {
        dispenso::TaskSet inner(pool);
        dispenso::parallel_for(
            inner, size_t{0}, cols,
            [&in, &out, row, cols](size_t c) {
              const size_t i = row * cols + c;
              setCell(out[i], in[i].v * 2 + 1);
            },
            opt);
        // the row's cells were written by other threads inside the inner loop
        uint64_t s = 0;
        for (size_t c = 0; c < cols; ++c) {
          s += out[row * cols + c].v;
        }
        setCell(rowSum[row], s);
      },
      opt);
  for (size_t row = 0; row < rows; ++row) {
    uint64_t s = 0;
    for (size_t c = 0; c < cols; ++c) {
      s += in[row * cols + c].v * 2 + 1;
    }
    if (!okCell(rowSum[row], s)) {
      pfail("rowsum", "row %zu sum mismatch", row);
      break;
    }
  }
  verifyLoop(in, out, "value");
}

void scn_for_each(Rng& r) {
  const int poolN = 1 + static_cast<int>(r.below(7));
  dispenso::ThreadPool pool(static_cast<size_t>(poolN));
  for (int k = 0; k < 6; ++k) {
    const size_t n = randomLen(r) / 2;
    const int kind = static_cast<int>(r.below(5));
    dispenso::ForEachOptions opt;
    opt.wait = r.coin();
    if (r.coin()) {
      opt.maxThreads = static_cast<uint32_t>(r.below(9));
    }
    nt("kind=%d,wait=%d", kind, opt.wait);
    std::vector<Cell> in(n);
    for (size_t i = 0; i < n; ++i) {
      setCell(in[i], i * 13 + 5);
    }
    // each element is updated in place; plain read-modify-write by whichever thread gets it
    auto f = [](Cell& c) { setCell(c, c.v * 2 + 1); };
    auto verify = [&](auto b, auto e) {
      size_t i = 0;
      for (auto it = b; it != e; ++it, ++i) {
        if (!okCell(*it, (i * 13 + 5) * 2 + 1)) {
          pfail("value", "element %zu wrong", i);
          break;
        }
      }
      cases(static_cast<long>(n) + 1);
    };
    if (kind == 0) {
      dispenso::TaskSet ts(pool);
      dispenso::for_each(ts, in.begin(), in.end(), f, opt);
      if (!opt.wait) {
        ts.wait();
      }
      verify(in.begin(), in.end());
    } else if (kind == 1) {
      std::list<Cell> l(in.begin(), in.end());
      dispenso::ConcurrentTaskSet ts(pool);
      dispenso::for_each(ts, l.begin(), l.end(), f, opt);
      if (!opt.wait) {
        ts.wait();
      }
      verify(l.begin(), l.end());
    } else if (kind == 2) {
      dispenso::TaskSet ts(pool);
      dispenso::for_each_n(ts, in.begin(), n, f, opt);
      if (!opt.wait) {
        ts.wait();
      }
      verify(in.begin(), in.end());
    } else if (kind == 3) {
      dispenso::for_each(in.begin(), in.end(), f);
      verify(in.begin(), in.end());
    } else {
      std::deque<Cell> d(in.begin(), in.end());
      dispenso::for_each_n(d.begin(), n, f, opt);
      verify(d.begin(), d.end());
    }
  }
}

void invokeRec(dispenso::ConcurrentTaskSet& tasks, std::vector<Cell>& out, size_t b, size_t e) {
  if (e - b <= 4) {
    for (size_t i = b; i < e; ++i) {
      setCell(out[i], i + 9);
    }
    return;
  }
  const size_t m1 = b + (e - b) / 3, m2 = b + 2 * (e - b) / 3;
  dispenso::parallel_invoke(
      tasks, [&tasks, &out, b, m1]() { invokeRec(tasks, out, b, m1); },
      [&tasks, &out, m1, m2]() { invokeRec(tasks, out, m1, m2); },
      [&tasks, &out, m2, e]() { invokeRec(tasks, out, m2, e); });
}

void scn_parallel_invoke(Rng& r) {
  const int poolN = 1 + static_cast<int>(r.below(7));
  const size_t n = 200 + r.below(800);
  nt("pool=%d", poolN);
  dispenso::ThreadPool pool(static_cast<size_t>(poolN));
  dispenso::ConcurrentTaskSet tasks(pool);
  std::vector<Cell> out(n);
  invokeRec(tasks, out, 0, n);
  tasks.wait();
  for (size_t i = 0; i < n; ++i) {
    if (!okCell(out[i], i + 9)) {
      pfail("value", "element %zu wrong", i);
      break;
    }
  }
  cases(static_cast<long>(n));
}

// ================================================================ Future
struct Res {
  Cell c;
  std::vector<uint64_t> vec; // heap payload written by the producing thread
};
Res makeRes(uint64_t v) {
  Res res;
  setCell(res.c, v);
  res.vec.resize(8 + v % 8);
  for (size_t i = 0; i < res.vec.size(); ++i) {
    res.vec[i] = v + i;
  }
  return res;
}
bool okRes(const Res& res, uint64_t v) {
  if (!okCell(res.c, v) || res.vec.size() != 8 + v % 8) {
    return false;
  }
  for (size_t i = 0; i < res.vec.size(); ++i) {
    if (res.vec[i] != v + i) {
      return false;
    }
  }
  return true;
}

std::launch pickAsync(Rng& r) {
  return r.coin() ? std::launch::async : dispenso::kNotAsync;
}
std::launch pickDeferred(Rng& r) {
  return r.coin() ? std::launch::deferred : dispenso::kNotDeferred;
}

void scn_future_basic(Rng& r) {
  const int poolN = 1 + static_cast<int>(r.below(6));
  const int getters = 2 + static_cast<int>(r.below(3));
  const size_t nf = 40 + r.below(60);
  const uint64_t rs = r.next();
  nt("pool=%d,getters=%d", poolN, getters);
  dispenso::ThreadPool pool(static_cast<size_t>(poolN));
  std::vector<Cell> in(nf);
  std::vector<dispenso::Future<Res>> futs;
  futs.reserve(nf);
  for (size_t i = 0; i < nf; ++i) {
    setCell(in[i], i * 3 + 2); // plain input written right before the future is created
    auto fn = [&in, i]() { return makeRes(okCell(in[i], i * 3 + 2) ? in[i].v : 0); };
    switch (r.below(3)) {
      case 0:
        futs.emplace_back(dispenso::async(pool, fn));
        break;
      case 1:
        futs.emplace_back(dispenso::async(pool, std::launch::async, fn));
        break;
      default:
        {
          auto fn2 = fn;
          futs.emplace_back(dispenso::Future<Res>(std::move(fn2), pool, pickAsync(r), pickDeferred(r)));
        }
        break;
    }
  }
  // several threads get()/wait on their own copies concurrently; copies die with the threads
  runThreads(getters, [&](int t) {
    Rng lr(rs + static_cast<uint64_t>(t));
    std::vector<dispenso::Future<Res>> mine(futs.begin(), futs.end());
    for (size_t k = 0; k < nf; ++k) {
      const size_t i = (k + static_cast<size_t>(t) * 3) % nf; // a permutation: every copy used once
      auto& f = mine[i];
      switch (lr.below(4)) {
        case 0:
          f.wait();
          break;
        case 1:
          while (f.wait_for(std::chrono::microseconds(50)) != std::future_status::ready) {
          }
          break;
        case 2:
          if (!f.is_ready()) {
            f.wait_until(std::chrono::steady_clock::now() + std::chrono::microseconds(100));
          }
          break;
        default:
          break;
      }
      const Res& res = f.get();
      CHECK(okRes(res, i * 3 + 2), "value", "future %zu result wrong (%llu)", i, (unsigned long long)res.c.v);
      if (lr.coin()) {
        mine[i] = dispenso::Future<Res>(); // drop this copy while other threads use theirs
      }
    }
  });
  for (size_t i = 0; i < nf; ++i) {
    CHECK(okRes(futs[i].get(), i * 3 + 2), "value", "future %zu result wrong at the end", i);
  }
  cases(static_cast<long>(nf) * getters);
}

void scn_future_then(Rng& r) {
  const int poolN = 1 + static_cast<int>(r.below(6));
  const int nthr = 1 + static_cast<int>(r.below(3));
  const size_t nf = 20 + r.below(30);
  const uint64_t rs = r.next();
  nt("pool=%d,thr=%d", poolN, nthr);
  dispenso::ThreadPool pool(static_cast<size_t>(poolN));
  std::vector<dispenso::Future<Res>> roots;
  for (size_t i = 0; i < nf; ++i) {
    roots.emplace_back(dispenso::async(pool, [i]() { return makeRes(i + 100); }));
  }
  // several threads attach continuations to copies of the same futures
  runThreads(nthr, [&](int t) {
    Rng lr(rs + static_cast<uint64_t>(t));
    dispenso::ImmediateInvoker imm;
    std::vector<dispenso::Future<uint64_t>> tails;
    for (size_t i = 0; i < nf; ++i) {
      dispenso::Future<Res> f = roots[i];
      auto step1 = [i](dispenso::Future<Res>&& p) {
        const Res& res = p.get();
        return makeRes(okRes(res, i + 100) ? res.c.v * 2 : 0);
      };
      auto step2 = [i](dispenso::Future<Res>&& p) -> uint64_t {
        const Res& res = p.get();
        return okRes(res, (i + 100) * 2) ? res.c.v + 1 : 0;
      };
      dispenso::Future<Res> mid;
      bool onGlobal = false;
      switch (lr.below(3)) {
        case 0:
          mid = f.then(step1, pool, pickAsync(lr), pickDeferred(lr));
          break;
        case 1:
          mid = f.then(step1, imm);
          break;
        default:
          mid = f.then(step1);
          onGlobal = true;
          break;
      }
      if (onGlobal) {
        // a continuation dispatched by a global-pool thread onto the local pool could still be
        // inside pool.schedule() when this scenario destroys the pool (see future_then_xpool)
        tails.emplace_back(mid.then(step2));
      } else {
        tails.emplace_back(mid.then(step2, pool, pickAsync(lr), pickDeferred(lr)));
      }
    }
    for (size_t i = 0; i < nf; ++i) {
      uint64_t v = tails[i].get();
      CHECK(v == (i + 100) * 2 + 1, "chain", "chain %zu gave %llu", i, (unsigned long long)v);
    }
  });
  cases(static_cast<long>(nf) * nthr);
}

// FINDING (kept minimal, optional): a continuation attached with then(f, localPool) to a future that
// completes on another pool's thread is dispatched by that thread calling localPool.schedule().  The
// continuation can finish (and its result be consumed) while the dispatching thread is still inside
// schedule() (conditionallyWake after the enqueue), so destroying localPool after tail.get() races
// with that epilogue although no user thread is using the pool.
void scn_future_then_xpool(Rng& r) {
  const int reps = 10 + static_cast<int>(r.below(6));
  nt("reps~12");
  for (int rep = 0; rep < reps; ++rep) {
    dispenso::ThreadPool local(1 + r.below(3));
    std::atomic<bool> go{false};
    auto root = dispenso::async(dispenso::globalThreadPool(), std::launch::async, [&go]() {
      while (!go.load(std::memory_order_acquire)) {
        std::this_thread::yield();
      }
      return makeRes(1);
    });
    auto tail = root.then(
        [](dispenso::Future<Res>&& p) -> uint64_t { return p.get().c.v + 1; }, local, std::launch::async);
    go.store(true, std::memory_order_release);
    CHECK(tail.get() == 2, "value", "continuation result wrong");
    // `local` is destroyed here: every future is complete and no user thread touches it
  }
  cases(reps);
}

void scn_future_when(Rng& r) {
  const int poolN = 1 + static_cast<int>(r.below(6));
  const int variant = static_cast<int>(r.below(4));
  const size_t nf = 10 + r.below(30);
  nt("pool=%d,variant=%d", poolN, variant);
  dispenso::ThreadPool pool(static_cast<size_t>(poolN));
  for (int rep = 0; rep < 6; ++rep) {
    std::vector<dispenso::Future<Res>> fs;
    for (size_t i = 0; i < nf; ++i) {
      fs.emplace_back(dispenso::async(pool, [i]() { return makeRes(i + 1); }));
    }
    if (variant == 0) {
      auto all = dispenso::when_all(fs.begin(), fs.end());
      const auto& vec = all.get();
      CHECK(vec.size() == nf, "when_all", "size %zu", vec.size());
      for (size_t i = 0; i < vec.size(); ++i) {
        CHECK(vec[i].is_ready() && okRes(vec[i].get(), i + 1), "when_all", "input %zu not ready/wrong", i);
      }
    } else if (variant == 1) {
      auto all = dispenso::when_all(fs[0], fs[1], fs[2]);
      auto sum = all.then([](auto&& t) {
        auto& tup = t.get();
        return std::get<0>(tup).get().c.v + std::get<1>(tup).get().c.v + std::get<2>(tup).get().c.v;
      });
      CHECK(sum.get() == 6, "when_all", "tuple sum %llu", (unsigned long long)sum.get());
      for (auto& f : fs) {
        f.wait();
      }
    } else if (variant == 2) {
      dispenso::ConcurrentTaskSet ts(pool);
      auto all = dispenso::when_all(ts, fs.begin(), fs.end());
      ts.wait();
      CHECK(all.is_ready(), "when_all", "taskset wait did not imply ready");
      const auto& vec = all.get();
      for (size_t i = 0; i < vec.size(); ++i) {
        CHECK(okRes(vec[i].get(), i + 1), "when_all", "input %zu wrong", i);
      }
    } else {
      auto any = dispenso::when_any(fs.begin(), fs.end());
      size_t idx = any.get();
      CHECK(idx < nf, "when_any", "index %zu", idx);
      if (idx < nf) {
        CHECK(fs[idx].is_ready() && okRes(fs[idx].get(), idx + 1), "when_any", "winner %zu not ready/wrong", idx);
      }
      for (auto& f : fs) {
        f.wait();
      }
    }
    cases(static_cast<long>(nf));
  }
}

void scn_future_misc(Rng& r) {
  const int poolN = 1 + static_cast<int>(r.below(6));
  const int nthr = 2 + static_cast<int>(r.below(2));
  nt("pool=%d,thr=%d", poolN, nthr);
  dispenso::ThreadPool pool(static_cast<size_t>(poolN));
  for (int rep = 0; rep < 10; ++rep) {
    // ready futures shared by several threads
    auto ready = dispenso::make_ready_future(makeRes(77));
    Cell refTarget;
    setCell(refTarget, 5);
    auto readyRef = dispenso::make_ready_future(std::ref(refTarget));
    auto readyVoid = dispenso::make_ready_future();
    // Future<void>: side effect on plain data, visible after get()
    Cell side;
    dispenso::Future<void> fv = dispenso::async(pool, [&side]() { setCell(side, 41); });
    // Future<T&>
    Cell target;
    dispenso::Future<Cell&> fr([&target]() -> Cell& {
      setCell(target, 43);
      return target;
    }, pool, pickAsync(r), pickDeferred(r));
    // new thread + immediate invokers
    dispenso::NewThreadInvoker nti;
    dispenso::ImmediateInvoker imm;
    auto fnew = dispenso::async(nti, []() { return makeRes(45); });
    dispenso::Future<Res> fimm([]() { return makeRes(47); }, imm);
    // task-set backed futures
    dispenso::TaskSet ts(pool);
    dispenso::ConcurrentTaskSet cts(pool);
    auto fts = dispenso::async(ts, []() { return makeRes(49); });
    auto fcts = dispenso::async(cts, std::launch::async, []() { return makeRes(51); });
    runThreads(nthr, [&](int) {
      CHECK(okRes(ready.get(), 77), "ready", "ready value wrong");
      CHECK(okCell(readyRef.get(), 5), "ready", "ready ref wrong");
      readyVoid.get();
      fv.get();
      CHECK(okCell(side, 41), "void", "side effect not visible after get()");
      CHECK(okCell(fr.get(), 43) && &fr.get() == &target, "ref", "reference future wrong");
      CHECK(okRes(fnew.get(), 45), "newthread", "value wrong");
      CHECK(okRes(fimm.get(), 47), "immediate", "value wrong");
      CHECK(okRes(fcts.get(), 51), "cts", "value wrong");
    });
    // a TaskSet may only be used from one thread: its future is consumed by the owner only
    CHECK(okRes(fts.get(), 49), "ts", "value wrong");
    ts.wait();
    cts.wait();
    cases(8);
  }
}

// ================================================================ pipeline
struct Item {
  uint64_t id = 0;
  Cell a, b, c;
};

void scn_pipeline(Rng& r) {
  const int poolN = 1 + static_cast<int>(r.below(7));
  dispenso::ThreadPool pool(static_cast<size_t>(poolN));
  for (int rep = 0; rep < 3; ++rep) {
    const uint64_t n = 100 + r.below(400);
    const int variant = static_cast<int>(r.below(4));
    const ssize_t lim2 = 1 + static_cast<ssize_t>(r.below(6));
    const ssize_t lim3 = 1 + static_cast<ssize_t>(r.below(3));
    nt("variant=%d,lim2=%d,lim3=%d,pool=%d", variant, lim2 > 1, lim3 > 1, poolN > 1);
    if (variant == 3) {
      // single stage pipelines: serial (plain counter) and parallel (atomic counter)
      uint64_t plainCount = 0;
      dispenso::pipeline(pool, [&plainCount, n]() { return ++plainCount < n; });
      CHECK(plainCount == n, "single", "serial single stage ran %llu of %llu", (unsigned long long)plainCount,
            (unsigned long long)n);
      std::atomic<uint64_t> cnt{0};
      std::vector<Cell> hits(n + 64);
      dispenso::pipeline(
          pool, dispenso::stage(
                    [&cnt, &hits, n]() {
                      uint64_t k = cnt.fetch_add(1, std::memory_order_relaxed);
                      if (k < hits.size()) {
                        setCell(hits[k], k + 1);
                      }
                      return k + 1 < n;
                    },
                    lim2));
      for (uint64_t k = 0; k < n; ++k) {
        if (!okCell(hits[k], k + 1)) {
          pfail("single", "parallel single stage slot %llu wrong", (unsigned long long)k);
          break;
        }
      }
      cases(static_cast<long>(2 * n));
      continue;
    }
    // generator (serial, plain counter) -> transform (parallel) -> filter -> sink
    uint64_t next = 0;         // touched only by the serial generator stage
    uint64_t serialSeen = 0;   // touched only by the serial filter stage (when lim3 == 1)
    std::atomic<uint64_t> parSeen{0};
    std::vector<uint64_t> results; // touched only by the serial sink
    std::vector<Cell> sinkSlots(n); // used by the parallel sink variant
    const bool parallelSink = variant == 2;
    auto gen = [&next, n]() -> dispenso::OpResult<Item> {
      if (next >= n) {
        return {};
      }
      Item it;
      it.id = next++;
      setCell(it.a, it.id * 3);
      return it;
    };
    auto genOpt = [&next, n]() -> std::optional<Item> {
      if (next >= n) {
        return std::nullopt;
      }
      Item it;
      it.id = next++;
      setCell(it.a, it.id * 3);
      return it;
    };
    auto xform = [](Item it) {
      setCell(it.b, okCell(it.a, it.id * 3) ? it.a.v + 1 : 0);
      return it;
    };
    auto filter = [&serialSeen, &parSeen, lim3](Item it) -> dispenso::OpResult<Item> {
      if (lim3 == 1) {
        ++serialSeen;
      } else {
        parSeen.fetch_add(1, std::memory_order_relaxed);
      }
      if (it.id % 5 == 0) {
        return {};
      }
      setCell(it.c, okCell(it.b, it.id * 3 + 1) ? it.b.v + 1 : 0);
      return it;
    };
    auto sinkSerial = [&results](Item it) {
      if (okCell(it.c, it.id * 3 + 2)) {
        results.push_back(it.id);
      } else {
        results.push_back(~uint64_t{0});
      }
    };
    auto sinkPar = [&sinkSlots](Item it) { setCell(sinkSlots[it.id], okCell(it.c, it.id * 3 + 2) ? it.id + 1 : 0); };
    if (parallelSink) {
      dispenso::pipeline(pool, gen, dispenso::stage(std::move(xform), lim2), dispenso::stage(std::move(filter), lim3),
                         dispenso::stage(std::move(sinkPar), lim2));
    } else if (variant == 1) {
      dispenso::pipeline(pool, genOpt, dispenso::stage(std::move(xform), lim2), dispenso::stage(std::move(filter), lim3), sinkSerial);
    } else {
      dispenso::pipeline(pool, gen, dispenso::stage(std::move(xform), lim2), dispenso::stage(std::move(filter), lim3), sinkSerial);
    }
    const uint64_t expectKept = n - (n + 4) / 5;
    CHECK(next == n, "gen", "generator counter %llu != %llu", (unsigned long long)next, (unsigned long long)n);
    CHECK(serialSeen + parSeen.load() == n, "filter", "filter saw %llu of %llu",
          (unsigned long long)(serialSeen + parSeen.load()), (unsigned long long)n);
    if (parallelSink) {
      uint64_t kept = 0;
      for (uint64_t i = 0; i < n; ++i) {
        if (i % 5 == 0) {
          CHECK(sinkSlots[i].v == 0, "sink", "filtered item %llu reached the sink", (unsigned long long)i);
        } else if (okCell(sinkSlots[i], i + 1)) {
          ++kept;
        }
      }
      CHECK(kept == expectKept, "sink", "kept %llu of %llu", (unsigned long long)kept, (unsigned long long)expectKept);
    } else {
      std::sort(results.begin(), results.end());
      bool good = results.size() == expectKept;
      for (size_t i = 0, id = 0; good && i < results.size(); ++i) {
        while (id % 5 == 0) {
          ++id;
        }
        good = results[i] == id++;
      }
      CHECK(good, "sink", "sink received a wrong multiset (%zu items, expected %llu)", results.size(),
            (unsigned long long)expectKept);
    }
    cases(static_cast<long>(n));
  }
}

// ================================================================ Graph
struct Dag {
  size_t n;
  std::vector<std::vector<size_t>> preds;
  std::vector<uint64_t> val;      // plain, written by node i, read by its dependents
  std::vector<uint32_t> runs;     // plain per-node run counter
  uint64_t epoch = 1;             // plain, written by the driver between executions
  std::vector<uint64_t> expect;
  std::vector<uint32_t> expectRuns;
  explicit Dag(Rng& r) {
    n = 20 + r.below(60);
    preds.resize(n);
    val.assign(n, 0);
    runs.assign(n, 0);
    expect.assign(n, 0);
    expectRuns.assign(n, 0);
    for (size_t i = 1; i < n; ++i) {
      size_t k = r.below(4);
      for (size_t j = 0; j < k; ++j) {
        size_t p = r.below(i);
        if (std::find(preds[i].begin(), preds[i].end(), p) == preds[i].end()) {
          preds[i].push_back(p);
        }
      }
    }
  }
  void runNode(size_t i) {
    uint64_t x = i + 1;
    for (size_t p : preds[i]) {
      x = x * 31 + val[p];
    }
    val[i] = x + epoch;
    ++runs[i];
  }
  void model(const std::vector<bool>& mask) {
    for (size_t i = 0; i < n; ++i) {
      if (!mask[i]) {
        continue;
      }
      uint64_t x = i + 1;
      for (size_t p : preds[i]) {
        x = x * 31 + expect[p];
      }
      expect[i] = x + epoch;
      ++expectRuns[i];
    }
  }
  void verify(const char* what) {
    for (size_t i = 0; i < n; ++i) {
      if (val[i] != expect[i] || runs[i] != expectRuns[i]) {
        pfail(what, "node %zu of %zu: value %llu/%llu runs %u/%u", i, n, (unsigned long long)val[i],
              (unsigned long long)expect[i], runs[i], expectRuns[i]);
        break;
      }
    }
    cases(static_cast<long>(n));
  }
};

template <class G>
void executeGraph(int which, dispenso::ThreadPool& pool, G& g) {
  if (which == 0) {
    dispenso::SingleThreadExecutor ex;
    ex(g);
  } else if (which == 1) {
    dispenso::TaskSet ts(pool);
    dispenso::ParallelForExecutor ex;
    ex(ts, g);
  } else if (which == 2) {
    dispenso::ConcurrentTaskSet cts(pool);
    dispenso::ParallelForExecutor ex;
    ex(cts, g);
  } else if (which == 3) {
    dispenso::ConcurrentTaskSet cts(pool);
    dispenso::ConcurrentTaskSetExecutor ex;
    ex(cts, g);
  } else {
    dispenso::ConcurrentTaskSet cts(pool);
    dispenso::ConcurrentTaskSetExecutor ex;
    ex(cts, g, false);
    cts.wait();
  }
}

template <class G, class N>
void graphOnce(Rng& r, dispenso::ThreadPool& pool, bool biprop) {
  Dag dag(r);
  G g;
  const size_t nsub = r.below(3);
  for (size_t s = 0; s < nsub; ++s) {
    g.addSubgraph();
  }
  std::vector<N*> nodes(dag.n);
  for (size_t i = 0; i < dag.n; ++i) {
    Dag* d = &dag;
    const size_t sg = r.below(nsub + 1);
    nodes[i] = &g.subgraph(sg).addNode([d, i]() { d->runNode(i); });
  }
  for (size_t i = 0; i < dag.n; ++i) {
    bool first = true;
    for (size_t p : dag.preds[i]) {
      if constexpr (std::is_same<N, dispenso::BiPropNode>::value) {
        if (first && (i & 1)) {
          nodes[i]->biPropDependsOn(*nodes[p]);
          first = false;
          continue;
        }
      }
      first = false;
      nodes[i]->dependsOn(*nodes[p]);
    }
  }
  std::vector<bool> all(dag.n, true);
  // first full evaluation
  int ex = static_cast<int>(r.below(5));
  nt("exec=%d,first,sub=%zu,biprop=%d", ex, nsub, biprop);
  dag.model(all);
  executeGraph(ex, pool, g);
  dag.verify("first");
  // full re-evaluation
  ex = static_cast<int>(r.below(5));
  nt("exec=%d,rerun,biprop=%d", ex, biprop);
  dag.epoch += 7;
  setAllNodesIncomplete(g);
  dag.model(all);
  executeGraph(ex, pool, g);
  dag.verify("rerun");
  // partial re-evaluation: one node marked incomplete, propagated forward
  if (!biprop) {
    ex = static_cast<int>(r.below(5));
    nt("exec=%d,partial", ex);
    const size_t k = r.below(dag.n);
    std::vector<bool> mask(dag.n, false);
    mask[k] = true;
    for (size_t i = k + 1; i < dag.n; ++i) {
      for (size_t p : dag.preds[i]) {
        if (mask[p]) {
          mask[i] = true;
        }
      }
    }
    dag.epoch += 7;
    nodes[k]->setIncomplete();
    dispenso::ForwardPropagator fp;
    fp(g);
    dag.model(mask);
    executeGraph(ex, pool, g);
    dag.verify("partial");
  }
}

void scn_graph(Rng& r) {
  const int poolN = 1 + static_cast<int>(r.below(7));
  const int nthr = 1 + static_cast<int>(r.below(2));
  const uint64_t rs = r.next();
  nt("pool=%d,builders=%d", poolN > 1, nthr);
  dispenso::ThreadPool pool(static_cast<size_t>(poolN));
  // different graphs may be built / run on different threads concurrently (thread-compatible)
  runThreads(nthr, [&](int t) {
    Rng lr(rs + static_cast<uint64_t>(t) * 977);
    for (int k = 0; k < 3; ++k) {
      if (lr.below(3) == 0) {
        graphOnce<dispenso::BiPropGraph, dispenso::BiPropNode>(lr, pool, true);
      } else {
        graphOnce<dispenso::Graph, dispenso::Node>(lr, pool, false);
      }
    }
  });
}

// ================================================================ ConcurrentVector
// Writers publish the indices they have finished constructing through a harness-side channel
// (plain index array + release/acquire counter), which is the external happens-before the
// documentation asks the caller to provide.  Everything else (buffer pointers, size) is dispenso's.
struct PubChannel {
  std::vector<size_t> idx;
  std::atomic<size_t> n{0};
  explicit PubChannel(size_t cap) : idx(cap) {}
  void publish(size_t i) {
    size_t k = n.load(std::memory_order_relaxed);
    idx[k] = i;
    n.store(k + 1, std::memory_order_release);
  }
};

template <class Vec>
void convecRun(Rng& r, Vec& vec, size_t prefix, const char* name) {
  const int writers = r.below(4) == 0 ? 1 : 2 + static_cast<int>(r.below(3));
  const int readers = 1 + static_cast<int>(r.below(3));
  const size_t per = 400 + r.below(600);
  const uint64_t rs = r.next();
  nt("%s,w=%d,r=%d,prefix=%d", name, writers, readers, prefix > 0);
  std::vector<std::unique_ptr<PubChannel>> chans;
  for (int w = 0; w < writers; ++w) {
    chans.emplace_back(new PubChannel(per + 64));
  }
  std::atomic<int> writersLeft{writers};
  runThreads(writers + readers, [&](int t) {
    Rng lr(rs + static_cast<uint64_t>(t) * 131);
    if (t < writers) {
      PubChannel& ch = *chans[static_cast<size_t>(t)];
      size_t made = 0;
      while (made < per) {
        const uint64_t tag = (static_cast<uint64_t>(t) << 32) + made;
        switch (lr.below(5)) {
          case 0: {
            Cell c;
            setCell(c, tag);
            auto it = vec.push_back(c);
            ch.publish(static_cast<size_t>(it - vec.begin()));
            ++made;
            break;
          }
          case 1: {
            auto it = vec.emplace_back();
            setCell(*it, tag);
            ch.publish(static_cast<size_t>(it - vec.begin()));
            ++made;
            break;
          }
          case 2: {
            const size_t k = 1 + lr.below(9);
            auto it = vec.grow_by(k);
            const size_t start = static_cast<size_t>(it - vec.begin());
            for (size_t j = 0; j < k; ++j, ++it) {
              setCell(*it, tag + j);
            }
            for (size_t j = 0; j < k; ++j) {
              ch.publish(start + j);
            }
            made += k;
            break;
          }
          case 3: {
            const size_t k = 1 + lr.below(40);
            uint64_t j = 0;
            auto it = vec.grow_by_generator(k, [&j, tag]() {
              Cell c;
              setCell(c, tag + j++);
              return c;
            });
            const size_t start = static_cast<size_t>(it - vec.begin());
            for (size_t q = 0; q < k; ++q) {
              ch.publish(start + q);
            }
            made += k;
            break;
          }
          default: {
            Cell c;
            setCell(c, tag);
            const size_t k = 1 + lr.below(5);
            auto it = vec.grow_by(k, c);
            const size_t start = static_cast<size_t>(it - vec.begin());
            for (size_t q = 0; q < k; ++q) {
              vec[start + q].v = tag + q;
              vec[start + q].chk = mixv(tag + q);
              ch.publish(start + q);
            }
            made += k;
            break;
          }
        }
        if (made + 50 > ch.idx.size()) {
          break;
        }
      }
      writersLeft.fetch_sub(1, std::memory_order_relaxed);
    } else {
      // readers: published elements by index / at(); the pre-existing prefix through iterators
      const Vec& cvec = vec;
      uint64_t seen = 0;
      bool last = false;
      while (!last) {
        last = writersLeft.load(std::memory_order_relaxed) == 0;
        // each reader follows ONE writer only, so that the only happens-before it has with the other
        // writers (who may have allocated the buffer it reads from) is what the vector provides
        for (int w = (t - writers) % writers; w < writers; w += writers) {
          PubChannel& ch = *chans[static_cast<size_t>(w)];
          const size_t m = ch.n.load(std::memory_order_acquire);
          if (!m) {
            continue;
          }
          for (int q = 0; q < 8; ++q) {
            const size_t k = lr.below(m);
            const size_t i = ch.idx[k];
            const Cell& c = (q & 1) ? cvec[i] : cvec.at(i);
            if (!selfOk(c) || (c.v >> 32) != static_cast<uint64_t>(w)) {
              pfail("element", "published element %zu (writer %d) reads %llx", i, w, (unsigned long long)c.v);
            }
            ++seen;
          }
        }
        if (prefix) {
          uint64_t s = 0;
          auto e = cvec.begin() + static_cast<ssize_t>(prefix);
          for (auto it = cvec.begin(); it != e; ++it) {
            s += it->v;
          }
          CHECK(s == prefix * (prefix - 1) / 2 + 1000 * prefix, "prefix", "prefix sum wrong");
        }
        (void)cvec.size();
        (void)cvec.empty();
        (void)(cvec.end() - cvec.begin());
      }
      cases(static_cast<long>(std::min<uint64_t>(seen, 20000)));
    }
  });
  // everything joined: full scan
  size_t total = prefix;
  for (auto& ch : chans) {
    total += ch->n.load();
  }
  CHECK(vec.size() == total, "size", "size %zu != constructed %zu", vec.size(), total);
  std::vector<char> hit(vec.size(), 0);
  for (int w = 0; w < writers; ++w) {
    PubChannel& ch = *chans[static_cast<size_t>(w)];
    for (size_t k = 0; k < ch.n.load(); ++k) {
      const size_t i = ch.idx[k];
      if (i >= hit.size() || hit[i]++) {
        pfail("index", "index %zu handed out twice or out of range", i);
        break;
      }
      if (!selfOk(vec[i]) || (vec[i].v >> 32) != static_cast<uint64_t>(w)) {
        pfail("element", "final element %zu wrong", i);
        break;
      }
    }
  }
  size_t pos = 0;
  for (auto it = vec.begin(); it != vec.end(); ++it, ++pos) {
    if (!selfOk(*it)) {
      pfail("element", "iteration: element %zu torn", pos);
      break;
    }
  }
  cases(static_cast<long>(total));
}

struct TraitsFull : dispenso::DefaultConcurrentVectorTraits {
  static constexpr dispenso::ConcurrentVectorReallocStrategy kReallocStrategy =
      dispenso::ConcurrentVectorReallocStrategy::kFullBufferAhead;
};
struct TraitsHalfNoInline : dispenso::DefaultConcurrentVectorTraits {
  static constexpr bool kPreferBuffersInline = false;
  static constexpr dispenso::ConcurrentVectorReallocStrategy kReallocStrategy =
      dispenso::ConcurrentVectorReallocStrategy::kHalfBufferAhead;
  static constexpr bool kIteratorPreferSpeed = false;
};

template <class Vec>
void fillPrefix(Vec& vec, size_t prefix) {
  for (size_t i = 0; i < prefix; ++i) {
    Cell c;
    setCell(c, 1000 + i);
    vec.push_back(c);
  }
}

void scn_convec(Rng& r) {
  const size_t prefix = r.coin() ? 0 : 1 + r.below(100);
  switch (r.below(4)) {
    case 0: {
      dispenso::ConcurrentVector<Cell> v;
      fillPrefix(v, prefix);
      convecRun(r, v, prefix, "default");
      break;
    }
    case 1: {
      dispenso::ConcurrentVector<Cell> v(2000, dispenso::ReserveTag);
      fillPrefix(v, prefix);
      convecRun(r, v, prefix, "reserved");
      break;
    }
    case 2: {
      dispenso::ConcurrentVector<Cell, TraitsFull> v;
      fillPrefix(v, prefix);
      convecRun(r, v, prefix, "fullahead");
      break;
    }
    default: {
      dispenso::ConcurrentVector<Cell, TraitsHalfNoInline> v;
      fillPrefix(v, prefix);
      convecRun(r, v, prefix, "halfahead-noinline");
      break;
    }
  }
}

// ================================================================ ConcurrentObjectArena
void scn_object_arena(Rng& r) {
  const int writers = r.below(4) == 0 ? 1 : 2 + static_cast<int>(r.below(3));
  const int readers = 1 + static_cast<int>(r.below(2));
  const size_t per = 300 + r.below(500);
  const size_t buf = size_t{1} << (2 + r.below(6));
  const uint64_t rs = r.next();
  nt("w=%d,r=%d,buf=%zu", writers, readers, buf);
  dispenso::ConcurrentObjectArena<Cell> arena(buf);
  const size_t bufSize = buf; // buf is a power of two, so it is the actual buffer size
  std::vector<std::unique_ptr<PubChannel>> chans;
  for (int w = 0; w < writers; ++w) {
    chans.emplace_back(new PubChannel(per + 64));
  }
  std::atomic<int> writersLeft{writers};
  runThreads(writers + readers, [&](int t) {
    Rng lr(rs + static_cast<uint64_t>(t) * 131);
    if (t < writers) {
      PubChannel& ch = *chans[static_cast<size_t>(t)];
      size_t made = 0;
      while (made < per) {
        const size_t k = 1 + lr.below(lr.coin() ? 3 : 2 * buf);
        const size_t start = arena.grow_by(k);
        for (size_t j = 0; j < k; ++j) {
          setCell(arena[start + j], (static_cast<uint64_t>(t) << 32) + made + j);
        }
        for (size_t j = 0; j < k && ch.n.load(std::memory_order_relaxed) < ch.idx.size(); ++j) {
          ch.publish(start + j);
        }
        made += k;
      }
      writersLeft.fetch_sub(1, std::memory_order_relaxed);
    } else {
      const auto& carena = arena;
      bool last = false;
      uint64_t seen = 0;
      while (!last) {
        last = writersLeft.load(std::memory_order_relaxed) == 0;
        for (int w = (t - writers) % writers; w < writers; w += writers) { // one writer per reader
          PubChannel& ch = *chans[static_cast<size_t>(w)];
          const size_t m = ch.n.load(std::memory_order_acquire);
          for (int q = 0; m && q < 8; ++q) {
            const size_t i = ch.idx[lr.below(m)];
            const Cell& c = carena[i];
            if (carena.getBuffer(i / bufSize) + (i % bufSize) != &c) {
              pfail("buffer", "getBuffer disagrees with operator[] for %zu", i);
            }
            if (!selfOk(c) || (c.v >> 32) != static_cast<uint64_t>(w)) {
              pfail("element", "published element %zu reads %llx", i, (unsigned long long)c.v);
            }
            ++seen;
          }
        }
        (void)carena.size();
        (void)carena.capacity();
      }
      cases(static_cast<long>(std::min<uint64_t>(seen, 20000)));
    }
  });
  size_t tornAt = ~size_t{0};
  for (size_t i = 0; i < arena.size(); ++i) {
    if (!selfOk(arena[i])) {
      tornAt = i;
      break;
    }
  }
  CHECK(tornAt == ~size_t{0}, "element", "final scan: element %zu torn", tornAt);
  cases(static_cast<long>(arena.size()));
}

// FINDING (kept minimal, optional): numBuffers() is documented "Concurrency safe ... buffers can be
// appended concurrently" but reads the plain member buffersPos_ that grow_by() increments.
void scn_arena_numbuffers(Rng& r) {
  const size_t buf = size_t{1} << (2 + r.below(3));
  nt("buf=%zu", buf);
  dispenso::ConcurrentObjectArena<Cell> arena(buf);
  std::atomic<bool> done{false};
  runThreads(2, [&](int t) {
    if (t == 0) {
      for (int k = 0; k < 200; ++k) {
        arena.grow_by(buf);
      }
      done.store(true, std::memory_order_release);
    } else {
      size_t last = 0;
      while (!done.load(std::memory_order_acquire)) {
        size_t nb = arena.numBuffers();
        if (nb < last) {
          pfail("monotone", "numBuffers went from %zu to %zu", last, nb);
        }
        last = nb;
        std::this_thread::yield();
      }
    }
  });
  cases(200);
}

// ================================================================ ring buffers / deque
struct Msg {
  uint64_t producer = 0;
  uint64_t seq = 0;
  Cell c;
};
inline Msg makeMsg(uint64_t p, uint64_t s) {
  Msg m;
  m.producer = p;
  m.seq = s;
  setCell(m.c, p * 1000003 + s);
  return m;
}
inline bool okMsg(const Msg& m) {
  return okCell(m.c, m.producer * 1000003 + m.seq);
}

template <class Ring>
void spscRun(Rng& r, const char* name) {
  const uint64_t n = 2000 + r.below(3000);
  const uint64_t rs = r.next();
  nt("%s", name);
  auto ring = std::make_unique<Ring>();
  std::atomic<int> bad{0};
  runThreads(2, [&](int t) {
    Rng lr(rs + static_cast<uint64_t>(t));
    if (t == 0) {
      uint64_t s = 0;
      while (s < n) {
        switch (lr.below(4)) {
          case 0:
            if (ring->try_push(makeMsg(1, s))) {
              ++s;
            }
            break;
          case 1: {
            Msg m = makeMsg(1, s);
            if (ring->try_push(m)) {
              ++s;
            }
            break;
          }
          case 2:
            if (ring->try_emplace(makeMsg(1, s))) {
              ++s;
            }
            break;
          default: {
            std::vector<Msg> batch;
            const uint64_t k = std::min<uint64_t>(1 + lr.below(6), n - s);
            for (uint64_t j = 0; j < k; ++j) {
              batch.push_back(makeMsg(1, s + j));
            }
            s += ring->try_push_batch(batch.begin(), batch.end());
            break;
          }
        }
        if (ring->full()) {
          std::this_thread::yield();
        }
      }
    } else {
      uint64_t expect = 0;
      auto take = [&](const Msg& m) {
        if (!okMsg(m) || m.seq != expect) {
          bad.fetch_add(1, std::memory_order_relaxed);
        }
        ++expect;
      };
      while (expect < n) {
        switch (lr.below(4)) {
          case 0: {
            Msg m;
            if (ring->try_pop(m)) {
              take(m);
            }
            break;
          }
          case 1: {
            auto res = ring->try_pop();
            if (res) {
              take(res.value());
            }
            break;
          }
          case 2: {
            alignas(Msg) char storage[sizeof(Msg)];
            if (ring->try_pop_into(reinterpret_cast<Msg*>(storage))) {
              take(*reinterpret_cast<Msg*>(storage));
            }
            break;
          }
          default: {
            std::array<Msg, 8> buf;
            size_t got = ring->try_pop_batch(buf.begin(), 1 + lr.below(8));
            for (size_t j = 0; j < got; ++j) {
              take(buf[j]);
            }
            break;
          }
        }
        if (ring->empty()) {
          std::this_thread::yield();
        }
        (void)ring->size();
      }
    }
  });
  CHECK(bad.load() == 0, "fifo", "%d messages wrong or out of order", bad.load());
  CHECK(ring->empty(), "fifo", "ring not empty at the end");
  cases(static_cast<long>(n));
}

void scn_spsc(Rng& r) {
  switch (r.below(4)) {
    case 0:
      spscRun<dispenso::SPSCRingBuffer<Msg, 2>>(r, "cap2");
      break;
    case 1:
      spscRun<dispenso::SPSCRingBuffer<Msg, 16>>(r, "cap16");
      break;
    case 2:
      spscRun<dispenso::SPSCRingBuffer<Msg, 5, false>>(r, "cap5-exact");
      break;
    default:
      spscRun<dispenso::SPSCRingBuffer<Msg, 100>>(r, "cap100");
      break;
  }
}

template <class Ring>
void mpmcRun(Rng& r, const char* name) {
  const int producers = 1 + static_cast<int>(r.below(4));
  const int consumers = 1 + static_cast<int>(r.below(4));
  const uint64_t per = 600 + r.below(900);
  const uint64_t rs = r.next();
  nt("%s,p=%d,c=%d", name, producers, consumers);
  auto ring = std::make_unique<Ring>();
  const uint64_t total = per * static_cast<uint64_t>(producers);
  std::atomic<uint64_t> consumed{0};
  std::atomic<int> bad{0};
  std::vector<std::vector<uint32_t>> seenBy(static_cast<size_t>(consumers), std::vector<uint32_t>(total, 0));
  runThreads(producers + consumers, [&](int t) {
    Rng lr(rs + static_cast<uint64_t>(t) * 7);
    if (t < producers) {
      const uint64_t p = static_cast<uint64_t>(t);
      uint64_t s = 0;
      while (s < per) {
        switch (lr.below(4)) {
          case 0:
            if (ring->try_push(makeMsg(p, s))) {
              ++s;
            }
            break;
          case 1: {
            Msg m = makeMsg(p, s);
            if (ring->try_push(m)) {
              ++s;
            }
            break;
          }
          case 2:
            if (ring->try_emplace(makeMsg(p, s))) {
              ++s;
            }
            break;
          default: {
            std::array<Msg, 6> batch;
            const uint64_t k = std::min<uint64_t>(1 + lr.below(6), per - s);
            for (uint64_t j = 0; j < k; ++j) {
              batch[j] = makeMsg(p, s + j);
            }
            s += ring->try_push_batch(batch.data(), k);
            break;
          }
        }
        if (ring->full()) {
          std::this_thread::yield();
        }
      }
    } else {
      auto& seen = seenBy[static_cast<size_t>(t - producers)];
      auto take = [&](const Msg& m) {
        if (!okMsg(m) || m.producer >= static_cast<uint64_t>(producers) || m.seq >= per) {
          bad.fetch_add(1, std::memory_order_relaxed);
        } else {
          ++seen[m.producer * per + m.seq];
        }
        consumed.fetch_add(1, std::memory_order_relaxed);
      };
      while (consumed.load(std::memory_order_relaxed) < total) {
        switch (lr.below(3)) {
          case 0: {
            Msg m;
            if (ring->try_pop(m)) {
              take(m);
            }
            break;
          }
          case 1: {
            auto res = ring->try_pop();
            if (res) {
              take(res.value());
            }
            break;
          }
          default: {
            alignas(Msg) char storage[sizeof(Msg)];
            if (ring->try_pop_into(reinterpret_cast<Msg*>(storage))) {
              take(*reinterpret_cast<Msg*>(storage));
            }
            break;
          }
        }
        if (ring->empty()) {
          std::this_thread::yield();
        }
        (void)ring->size();
      }
    }
  });
  CHECK(bad.load() == 0, "message", "%d messages torn", bad.load());
  for (uint64_t i = 0; i < total; ++i) {
    uint32_t c = 0;
    for (auto& s : seenBy) {
      c += s[i];
    }
    if (c != 1) {
      pfail("once", "message %llu consumed %u times", (unsigned long long)i, c);
      break;
    }
  }
  cases(static_cast<long>(total));
}

void scn_mpmc(Rng& r) {
  switch (r.below(3)) {
    case 0:
      mpmcRun<dispenso::MpmcRingBuffer<Msg, 2>>(r, "cap2");
      break;
    case 1:
      mpmcRun<dispenso::MpmcRingBuffer<Msg, 16>>(r, "cap16");
      break;
    default:
      mpmcRun<dispenso::MpmcRingBuffer<Msg, 12, false>>(r, "cap12-exact");
      break;
  }
}

template <size_t Cap>
void chaseLevRun(Rng& r) {
  const int thieves = 1 + static_cast<int>(r.below(4));
  const size_t n = 2000 + r.below(3000);
  const uint64_t rs = r.next();
  nt("cap=%zu,thieves=%d", Cap, thieves);
  auto dq = std::make_unique<dispenso::ChaseLevDeque<Cell*, Cap>>();
  std::vector<Cell> cells(n);
  std::vector<std::atomic<uint8_t>> taken(n);
  for (auto& t : taken) {
    t.store(0, std::memory_order_relaxed);
  }
  std::atomic<bool> done{false};
  std::atomic<int> bad{0};
  runThreads(thieves + 1, [&](int t) {
    Rng lr(rs + static_cast<uint64_t>(t) * 7);
    // whoever obtains a pointer reads the plain payload the owner wrote before pushing it
    auto consume = [&](Cell* p) {
      const size_t i = static_cast<size_t>(p - cells.data());
      if (i >= n || !okCell(*p, i + 1)) {
        bad.fetch_add(1, std::memory_order_relaxed);
        return;
      }
      taken[i].fetch_add(1, std::memory_order_relaxed);
    };
    if (t == 0) {
      for (size_t i = 0; i < n;) {
        setCell(cells[i], i + 1);
        if (dq->try_push(&cells[i])) {
          ++i;
        } else {
          Cell* p = nullptr;
          if (dq->try_pop(p)) {
            consume(p);
          }
        }
        if (lr.below(4) == 0) {
          Cell* p = nullptr;
          if (lr.coin() ? dq->try_pop(p) : dq->try_pop_into(&p)) {
            consume(p);
          }
        }
      }
      Cell* p = nullptr;
      while (dq->try_pop(p)) {
        consume(p);
      }
      done.store(true, std::memory_order_release);
    } else {
      for (;;) {
        const bool fin = done.load(std::memory_order_acquire);
        Cell* p = nullptr;
        if (lr.coin() ? dq->try_steal(p) : dq->try_steal_into(&p)) {
          consume(p);
        } else {
          if (fin && dq->empty()) {
            break;
          }
          std::this_thread::yield();
        }
        (void)dq->size();
      }
    }
  });
  CHECK(bad.load() == 0, "payload", "%d payloads wrong", bad.load());
  for (size_t i = 0; i < n; ++i) {
    if (taken[i].load() != 1) {
      pfail("once", "element %zu taken %d times", i, static_cast<int>(taken[i].load()));
      break;
    }
  }
  cases(static_cast<long>(n));
}

void scn_chaselev(Rng& r) {
  switch (r.below(3)) {
    case 0:
      chaseLevRun<1>(r);
      break;
    case 1:
      chaseLevRun<8>(r);
      break;
    default:
      chaseLevRun<64>(r);
      break;
  }
}

// ================================================================ locks
struct Guarded {
  uint64_t a = 0, b = 0, c = 0; // invariant b == 2a, c == 3a; plain
  std::vector<uint64_t> log;    // heap payload, also plain
  void mutate() {
    ++a;
    b = 2 * a;
    c = 3 * a;
    if (log.size() < 64) {
      log.push_back(a);
    } else {
      log[a % 64] = a;
    }
  }
  bool ok() const {
    if (b != 2 * a || c != 3 * a) {
      return false;
    }
    uint64_t mx = 0;
    for (uint64_t x : log) {
      mx = std::max(mx, x);
    }
    return mx == a;
  }
};

template <class Lock>
void rwlockRun(Rng& r, const char* name, bool hasUpgrade) {
  const int writers = 1 + static_cast<int>(r.below(3));
  const int readers = 1 + static_cast<int>(r.below(4));
  const int wops = 150 + static_cast<int>(r.below(200));
  const int rops = 400 + static_cast<int>(r.below(400));
  const uint64_t rs = r.next();
  const bool upgrade = hasUpgrade && writers == 1;
  nt("%s,w=%d,r=%d,upgrade=%d", name, writers, readers, upgrade);
  auto lock = std::make_unique<Lock>();
  Guarded g;
  std::atomic<int> bad{0};
  std::atomic<uint64_t> writes{0};
  runThreads(writers + readers, [&](int t) {
    Rng lr(rs + static_cast<uint64_t>(t) * 7);
    if (t < writers) {
      for (int k = 0; k < wops; ++k) {
        const uint64_t mode = lr.below(upgrade ? 5 : 4);
        if (mode == 0) {
          lock->lock();
          g.mutate();
          lock->unlock();
        } else if (mode == 1) {
          while (!lock->try_lock()) {
            std::this_thread::yield();
          }
          g.mutate();
          lock->unlock();
        } else if (mode == 2) {
          std::unique_lock<Lock> lk(*lock);
          g.mutate();
        } else if (mode == 3) {
          if constexpr (std::is_base_of<dispenso::detail::RWLockImpl, Lock>::value) {
            lock->lock();
            g.mutate();
            lock->lock_downgrade();
            if (!g.ok()) {
              bad.fetch_add(1, std::memory_order_relaxed);
            }
            lock->unlock_shared();
          } else {
            std::lock_guard<Lock> lk(*lock);
            g.mutate();
          }
        } else {
          if constexpr (std::is_base_of<dispenso::detail::RWLockImpl, Lock>::value) {
            // single writer thread: the only thread that ever asks for write access
            lock->lock_shared();
            if (!g.ok()) {
              bad.fetch_add(1, std::memory_order_relaxed);
            }
            lock->lock_upgrade();
            g.mutate();
            lock->unlock();
          }
        }
        writes.fetch_add(1, std::memory_order_relaxed);
        if ((k & 7) == 0) {
          std::this_thread::yield();
        }
      }
    } else {
      for (int k = 0; k < rops; ++k) {
        const uint64_t mode = lr.below(3);
        if (mode == 0) {
          lock->lock_shared();
        } else if (mode == 1) {
          while (!lock->try_lock_shared()) {
            std::this_thread::yield();
          }
        }
        if (mode == 2) {
          std::shared_lock<Lock> lk(*lock);
          if (!g.ok()) {
            bad.fetch_add(1, std::memory_order_relaxed);
          }
        } else {
          if (!g.ok()) {
            bad.fetch_add(1, std::memory_order_relaxed);
          }
          lock->unlock_shared();
        }
      }
    }
  });
  CHECK(bad.load() == 0, "invariant", "%d readers saw a broken invariant", bad.load());
  CHECK(g.a == writes.load() && g.ok(), "count", "final a=%llu, writes=%llu", (unsigned long long)g.a,
        (unsigned long long)writes.load());
  cases(static_cast<long>(writers) * wops + static_cast<long>(readers) * rops);
}

void scn_rwlock(Rng& r) {
  if (r.coin()) {
    rwlockRun<dispenso::RWLock>(r, "aligned", true);
  } else {
    rwlockRun<dispenso::UnalignedRWLock>(r, "unaligned", true);
  }
}

void scn_drwlock(Rng& r) {
  switch (r.below(3)) {
    case 0:
      rwlockRun<dispenso::DistributedRWLock<2>>(r, "n2", false);
      break;
    case 1:
      rwlockRun<dispenso::DistributedRWLock<8>>(r, "n8", false);
      break;
    default:
      rwlockRun<dispenso::DistributedRWLock<>>(r, "n16", false);
      break;
  }
}

// ================================================================ CompletionEvent / Latch
void scn_completion_event(Rng& r) {
  const int waiters = 1 + static_cast<int>(r.below(4));
  const size_t n = 30 + r.below(50);
  nt("waiters=%d", waiters);
  std::vector<dispenso::CompletionEvent> ev(n);
  std::vector<Cell> data(n);
  std::atomic<int> bad{0};
  for (int pass = 0; pass < 2; ++pass) {
    const uint64_t salt = static_cast<uint64_t>(pass) * 1000;
    runThreads(waiters + 1, [&](int t) {
      if (t == 0) {
        for (size_t k = 0; k < n; ++k) {
          setCell(data[k], k + salt + 1); // plain write before notify
          ev[k].notify();
          if ((k & 3) == 0) {
            std::this_thread::yield();
          }
        }
      } else {
        for (size_t k = 0; k < n; ++k) {
          switch ((k + static_cast<size_t>(t)) % 4) {
            case 0:
              ev[k].wait();
              break;
            case 1:
              while (!ev[k].waitFor(std::chrono::microseconds(200))) {
              }
              break;
            case 2:
              while (!ev[k].waitUntil(std::chrono::steady_clock::now() + std::chrono::microseconds(200))) {
              }
              break;
            default:
              while (!ev[k].completed()) {
                std::this_thread::yield();
              }
              break;
          }
          if (!okCell(data[k], k + salt + 1)) { // plain read after wait
            bad.fetch_add(1, std::memory_order_relaxed);
          }
        }
      }
    });
    // all waiters have left wait*: the sequence is over, reset is allowed
    for (auto& e : ev) {
      e.reset();
    }
    cases(static_cast<long>(n) * waiters);
  }
  CHECK(bad.load() == 0, "value", "%d reads after wait saw a wrong value", bad.load());
}

void scn_latch(Rng& r) {
  const int n = 2 + static_cast<int>(r.below(6));
  const int extraWaiters = static_cast<int>(r.below(3));
  const int reps = 15;
  nt("n=%d,extra=%d", n, extraWaiters);
  std::atomic<int> bad{0};
  for (int rep = 0; rep < reps; ++rep) {
    dispenso::Latch latch(static_cast<uint32_t>(n));
    std::vector<Cell> slot(static_cast<size_t>(n));
    const bool arrive = rep & 1;
    runThreads(n + extraWaiters, [&](int t) {
      auto readAll = [&]() {
        for (int k = 0; k < n; ++k) {
          if (!okCell(slot[static_cast<size_t>(k)], static_cast<uint64_t>(k + rep + 1))) {
            bad.fetch_add(1, std::memory_order_relaxed);
          }
        }
      };
      if (t < n) {
        setCell(slot[static_cast<size_t>(t)], static_cast<uint64_t>(t + rep + 1));
        if (arrive) {
          latch.arrive_and_wait();
          readAll();
        } else {
          latch.count_down();
          if (t & 1) {
            latch.wait();
            readAll();
          }
        }
      } else {
        if (t & 1) {
          latch.wait();
        } else {
          while (!latch.try_wait()) {
            std::this_thread::yield();
          }
        }
        readAll();
      }
    });
    cases(n);
  }
  CHECK(bad.load() == 0, "value", "%d reads after the latch saw a wrong value", bad.load());
}

// ================================================================ AsyncRequest
void scn_async_request(Rng& r) {
  const int producers = r.below(3) == 0 ? 2 : 1;
  const int consumers = r.below(3) == 0 ? 2 : 1;
  const uint64_t n = 300 + r.below(500);
  nt("producers=%d,consumers=%d", producers, consumers);
  dispenso::AsyncRequest<Res> req;
  std::atomic<uint64_t> got{0};
  std::atomic<uint64_t> ticket{0};
  std::atomic<int> bad{0};
  runThreads(producers + consumers, [&](int t) {
    if (t < consumers) {
      while (got.load(std::memory_order_relaxed) < n) {
        req.requestUpdate();
        auto up = req.getUpdate();
        if (up) {
          const Res& res = *up;
          if (!okRes(res, res.c.v)) {
            bad.fetch_add(1, std::memory_order_relaxed);
          }
          got.fetch_add(1, std::memory_order_relaxed);
        } else {
          std::this_thread::yield();
        }
      }
    } else {
      while (got.load(std::memory_order_relaxed) < n) {
        if (req.updateRequested()) {
          const uint64_t v = ticket.fetch_add(1, std::memory_order_relaxed) + 1;
          req.tryEmplaceUpdate(makeRes(v));
        } else {
          std::this_thread::yield();
        }
      }
    }
  });
  CHECK(bad.load() == 0, "value", "%d updates arrived torn", bad.load());
  cases(static_cast<long>(n));
}

// ================================================================ allocators
// mutex protected hand-over of raw blocks between threads (harness side, properly synchronised)
struct Exchange {
  std::mutex mu;
  std::vector<std::pair<char*, uint64_t>> items;
  void put(char* p, uint64_t tag) {
    std::lock_guard<std::mutex> lk(mu);
    items.emplace_back(p, tag);
  }
  bool take(char*& p, uint64_t& tag) {
    std::lock_guard<std::mutex> lk(mu);
    if (items.empty()) {
      return false;
    }
    p = items.back().first;
    tag = items.back().second;
    items.pop_back();
    return true;
  }
};
inline void fillBlock(char* p, size_t bytes, uint64_t tag) {
  for (size_t i = 0; i < bytes; ++i) {
    p[i] = static_cast<char>((tag + i * 7) & 0xff);
  }
}
inline bool checkBlock(const char* p, size_t bytes, uint64_t tag) {
  for (size_t i = 0; i < bytes; ++i) {
    if (p[i] != static_cast<char>((tag + i * 7) & 0xff)) {
      return false;
    }
  }
  return true;
}

template <class Alloc, class Dealloc>
void allocStress(Rng& r, int nthr, size_t bytes, int ops, Alloc&& alloc, Dealloc&& dealloc) {
  const uint64_t rs = r.next();
  Exchange ex;
  std::atomic<int> bad{0};
  runThreads(nthr, [&](int t) {
    Rng lr(rs + static_cast<uint64_t>(t) * 7);
    std::vector<std::pair<char*, uint64_t>> live;
    for (int k = 0; k < ops; ++k) {
      const uint64_t what = lr.below(8);
      if (what < 4 || live.empty()) {
        char* p = alloc();
        const uint64_t tag = (static_cast<uint64_t>(t) << 20) + static_cast<uint64_t>(k);
        fillBlock(p, bytes, tag); // plain writes into memory that another thread may have freed
        live.emplace_back(p, tag);
      } else if (what < 6) {
        auto it = live.back();
        live.pop_back();
        if (!checkBlock(it.first, bytes, it.second)) {
          bad.fetch_add(1, std::memory_order_relaxed);
        }
        dealloc(it.first);
      } else if (what == 6) {
        auto it = live.back();
        live.pop_back();
        ex.put(it.first, it.second);
      } else {
        char* p;
        uint64_t tag;
        if (ex.take(p, tag)) {
          if (!checkBlock(p, bytes, tag)) {
            bad.fetch_add(1, std::memory_order_relaxed);
          }
          dealloc(p); // freed by a thread other than the allocating one
        }
      }
    }
    for (auto& it : live) {
      if (!checkBlock(it.first, bytes, it.second)) {
        bad.fetch_add(1, std::memory_order_relaxed);
      }
      dealloc(it.first);
    }
  });
  char* p;
  uint64_t tag;
  while (ex.take(p, tag)) {
    if (!checkBlock(p, bytes, tag)) {
      bad.fetch_add(1, std::memory_order_relaxed);
    }
    dealloc(p);
  }
  CHECK(bad.load() == 0, "block", "%d blocks lost their contents", bad.load());
  cases(static_cast<long>(nthr) * ops);
}

void scn_pool_allocator(Rng& r) {
  const int nthr = 1 + static_cast<int>(r.below(5));
  const size_t chunk = size_t{8} << r.below(5);
  const size_t perSlab = 1 + r.below(16);
  nt("thr=%d,chunk=%zu,slab=%zu", nthr, chunk, perSlab);
  dispenso::PoolAllocator pa(chunk, chunk * perSlab, [](size_t n) { return ::malloc(n); }, [](void* p) { ::free(p); });
  allocStress(r, nthr, chunk, 1500, [&pa]() { return pa.alloc(); }, [&pa](char* p) { pa.dealloc(p); });
  (void)pa.totalChunkCapacity();
}

template <size_t kSize>
void smallBufferRun(Rng& r, int nthr) {
  nt("thr=%d,size=%zu", nthr, kSize);
  allocStress(
      r, nthr, kSize, 1500, []() { return dispenso::allocSmallBuffer<kSize>(); },
      [](char* p) { dispenso::deallocSmallBuffer<kSize>(p); });
  if constexpr (kSize <= dispenso::kMaxSmallBufferSize) {
    (void)dispenso::approxBytesAllocatedSmallBuffer<kSize>();
  }
}

void scn_small_buffer(Rng& r) {
  const int nthr = 1 + static_cast<int>(r.below(5));
  switch (r.below(6)) {
    case 0:
      smallBufferRun<4>(r, nthr);
      break;
    case 1:
      smallBufferRun<16>(r, nthr);
      break;
    case 2:
      smallBufferRun<64>(r, nthr);
      break;
    case 3:
      smallBufferRun<128>(r, nthr);
      break;
    case 4:
      smallBufferRun<256>(r, nthr);
      break;
    default:
      smallBufferRun<512>(r, nthr);
      break;
  }
}

// ================================================================ ResourcePool
struct PooledRes {
  uint64_t uses = 0; // plain, mutated by whoever holds the resource
  Cell last;
};

void scn_resource_pool(Rng& r) {
  const int nthr = 2 + static_cast<int>(r.below(5));
  const size_t nres = 1 + r.below(4);
  const int ops = 300 + static_cast<int>(r.below(300));
  nt("thr=%d,res=%zu", nthr, nres);
  std::atomic<int> bad{0};
  uint64_t total = 0;
  {
    dispenso::ResourcePool<PooledRes> rp(nres, []() { return PooledRes(); });
    runThreads(nthr, [&](int t) {
      for (int k = 0; k < ops; ++k) {
        auto res = rp.acquire();
        PooledRes& p = res.get();
        if (p.uses && !selfOk(p.last)) {
          bad.fetch_add(1, std::memory_order_relaxed);
        }
        ++p.uses;
        setCell(p.last, (static_cast<uint64_t>(t) << 32) + static_cast<uint64_t>(k));
      }
    });
    std::vector<dispenso::Resource<PooledRes>> all;
    for (size_t i = 0; i < nres; ++i) {
      all.emplace_back(rp.acquire());
      total += all.back().get().uses;
    }
  }
  CHECK(bad.load() == 0, "value", "%d resources arrived torn", bad.load());
  CHECK(total == static_cast<uint64_t>(nthr) * static_cast<uint64_t>(ops), "count", "uses %llu",
        (unsigned long long)total);
  cases(static_cast<long>(nthr) * ops);
}

// ================================================================ OnceFunction across threads
template <size_t kPad>
dispenso::OnceFunction makeOnce(Slots& s, size_t i, uint64_t salt) {
  std::array<uint64_t, kPad> pad;
  for (size_t k = 0; k < kPad; ++k) {
    pad[k] = i + k;
  }
  return dispenso::OnceFunction([&s, i, salt, pad]() {
    for (size_t k = 0; k < kPad; ++k) {
      if (pad[k] != i + k) {
        s.badIn.fetch_add(1, std::memory_order_relaxed);
      }
    }
    s.body(i, salt);
  });
}

void scn_once_function(Rng& r) {
  const int producers = 1 + static_cast<int>(r.below(3));
  const int consumers = 1 + static_cast<int>(r.below(3));
  const size_t per = 300 + r.below(300);
  const bool viaRing = r.coin();
  const uint64_t salt = r.below(100);
  const uint64_t rs = r.next();
  nt("p=%d,c=%d,ring=%d", producers, consumers, viaRing);
  const size_t n = per * static_cast<size_t>(producers);
  Slots s(n);
  std::mutex mu;
  std::deque<dispenso::OnceFunction> q;
  auto ring = std::make_unique<dispenso::MpmcRingBuffer<dispenso::OnceFunction, 16>>();
  std::atomic<size_t> ran{0};
  runThreads(producers + consumers, [&](int t) {
    Rng lr(rs + static_cast<uint64_t>(t) * 7);
    if (t < producers) {
      for (size_t k = 0; k < per; ++k) {
        const size_t i = static_cast<size_t>(t) * per + k;
        s.prep(i, salt);
        dispenso::OnceFunction f;
        switch (lr.below(4)) {
          case 0:
            f = makeOnce<1>(s, i, salt);
            break;
          case 1:
            f = makeOnce<4>(s, i, salt); // fills the inline buffer
            break;
          case 2:
            f = makeOnce<12>(s, i, salt); // spills to the small buffer allocator
            break;
          default:
            f = makeOnce<40>(s, i, salt); // spills to a large allocation
            break;
        }
        if (viaRing) {
          while (!ring->try_push(std::move(f))) {
            std::this_thread::yield();
          }
        } else {
          std::lock_guard<std::mutex> lk(mu);
          q.push_back(std::move(f));
        }
      }
    } else {
      while (ran.load(std::memory_order_relaxed) < n) {
        dispenso::OnceFunction f;
        bool have = false;
        if (viaRing) {
          have = ring->try_pop_into(&f);
        } else {
          std::lock_guard<std::mutex> lk(mu);
          if (!q.empty()) {
            f = std::move(q.front());
            q.pop_front();
            have = true;
          }
        }
        if (have) {
          f(); // invoked (and its storage released) on a thread other than the creating one
          ran.fetch_add(1, std::memory_order_relaxed);
        } else {
          std::this_thread::yield();
        }
      }
    }
  });
  s.verify(0, n, salt, "value");
}

// ================================================================ TimedTask
// Shared pieces of the timed-task scenarios: every invocation reads a plain configuration written
// before schedule() and writes one plain slot that the driver reads after calls() / destruction.
struct TimedProbe {
  static constexpr size_t kSlots = 4096;
  std::vector<Cell> slots;
  std::atomic<size_t> tickets{0};
  std::atomic<int> bad{0};
  Cell cfg;
  int delayUs = 0; // set before schedule()
  TimedProbe() : slots(kSlots) {
    setCell(cfg, 99);
  }
  bool invoke() {
    if (!okCell(cfg, 99)) {
      bad.fetch_add(1, std::memory_order_relaxed);
    }
    size_t k = tickets.fetch_add(1, std::memory_order_relaxed);
    if (delayUs) {
      // keep the invocation in flight for a while, so that cancel / destruction meets a running call
      const auto until = std::chrono::steady_clock::now() + std::chrono::microseconds(delayUs);
      while (std::chrono::steady_clock::now() < until) {
      }
    }
    if (k < kSlots) {
      setCell(slots[k], k + 1);
    }
    return true;
  }
  void checkSlots(size_t upTo, const char* what) {
    for (size_t k = 0; k < upTo && k < kSlots; ++k) {
      if (!okCell(slots[k], k + 1)) {
        pfail(what, "invocation %zu's write not visible", k);
        break;
      }
    }
    CHECK(bad.load() == 0, "cfg", "%d invocations saw a wrong configuration", bad.load());
  }
};

// Default sweep: only life-cycles in which the TimedTask is destroyed while the scheduler thread
// cannot be kicking it off, and in which the schedulable outlives the scheduler thread's calls
// (the two reported hazards have their own reproducer scenarios below).
void scn_timed_task(Rng& r) {
  using namespace std::chrono_literals;
  const int variant = static_cast<int>(r.below(3));
  const bool ownSched = variant == 2 || r.coin();
  // 0 pool, 1 immediate (NewThreadInvoker, although documented as a backing schedulable, does not
  // compile with TimedTaskScheduler::schedule: its lambda calls the mutable wrapper through const)
  const int target = static_cast<int>(r.below(2));
  const bool steady = r.coin();
  nt("variant=%d,own=%d,target=%d,steady=%d", variant, ownSched, target, steady);
  const auto type = steady ? dispenso::TimedTaskType::kSteady : dispenso::TimedTaskType::kNormal;
  TimedProbe probe;
  probe.delayUs = variant == 2 ? 200 : 0;
  auto body = [&probe]() { return probe.invoke(); };
  dispenso::ThreadPool local(2); // declared before the own scheduler: destroyed after it is joined
  dispenso::ThreadPool& pool = ownSched ? local : dispenso::globalThreadPool();
  dispenso::ImmediateInvoker imm;
  auto scheduleOn = [&](dispenso::TimedTaskScheduler& s, auto delay, auto period, size_t times) {
    if (target == 0) {
      return s.schedule(pool, body, delay, period, times, type);
    }
    return s.schedule(imm, body, delay, period, times, type);
  };
  if (variant == 2) {
    // unbounded periodic run + cancel; the scheduler is destroyed (joined) before the task
    std::optional<dispenso::TimedTask> task;
    size_t seen = 0;
    {
      dispenso::TimedTaskScheduler own;
      task.emplace(scheduleOn(own, 300us, 300us, std::numeric_limits<size_t>::max()));
      spinUntil([&]() { return task->calls() >= 3; }, 60.0);
      task->cancel();
      seen = task->calls();
    }
    task.reset(); // waits for invocations still in progress
    probe.checkSlots(probe.tickets.load(), "destroy");
    CHECK(probe.tickets.load() >= seen, "count", "calls() %zu above invocations %zu", seen, probe.tickets.load());
    cases(static_cast<long>(seen));
    return;
  }
  std::unique_ptr<dispenso::TimedTaskScheduler> own;
  if (ownSched) {
    own.reset(new dispenso::TimedTaskScheduler());
  }
  dispenso::TimedTaskScheduler& sched = ownSched ? *own : dispenso::globalTimedTaskScheduler();
  if (variant == 0) {
    // fixed number of periodic runs, completion observed through calls()
    const size_t times = 3 + r.below(5);
    auto task = scheduleOn(sched, 500us, 500us, times);
    bool done = spinUntil([&]() { return task.calls() >= times; }, 60.0);
    if (done) {
      probe.checkSlots(times, "calls");
      CHECK(probe.tickets.load() == times, "count", "ran %zu times, expected %zu", probe.tickets.load(), times);
    }
    cases(static_cast<long>(times));
  } else {
    // one-shot tasks, each destroyed after its only run has been observed
    const size_t n = 10 + r.below(10);
    for (size_t k = 0; k < n; ++k) {
      auto task = target == 0 ? sched.schedule(pool, body, std::chrono::microseconds(r.below(300)))
                              : sched.schedule(imm, body, std::chrono::microseconds(r.below(300)));
      bool done = spinUntil([&]() { return task.calls() >= 1; }, 60.0);
      if (done) {
        probe.checkSlots(k + 1, "calls");
      }
    }
    CHECK(probe.tickets.load() == n, "count", "ran %zu times, expected %zu", probe.tickets.load(), n);
    cases(static_cast<long>(n));
  }
  own.reset(); // joins the scheduler thread before `local` goes away
}

// Regression scenario for a race this harness reported (fixed in dispenso: the kick-off now announces
// itself in inProgress and re-checks cancellation before touching func): ~TimedTask cleared
// impl_->func after seeing inProgress == 0 while the scheduler thread was between
// timesToRun.fetch_sub() and inProgress.fetch_add() in kickOffTask()/func, i.e. the std::function was
// destroyed while the scheduler thread read and ran it.
void scn_timed_task_destroy(Rng& r) {
  TimedProbe probe;
  auto body = [&probe]() { return probe.invoke(); };
  auto& sched = dispenso::globalTimedTaskScheduler();
  auto& pool = dispenso::globalThreadPool();
  nt("oneshot-destroyed-near-due-time");
  for (int k = 0; k < 200; ++k) {
    const auto delay = std::chrono::microseconds(r.below(200));
    auto task = sched.schedule(pool, body, delay);
    const auto until = std::chrono::steady_clock::now() + std::chrono::microseconds(r.below(300));
    while (std::chrono::steady_clock::now() < until) {
      std::this_thread::yield();
    }
    // task destroyed here: before, during or after its only run
  }
  probe.checkSlots(probe.tickets.load(), "destroy");
  cases(200);
}

// FINDING (kept minimal, optional): same root cause as future_then_xpool, reached through the timed
// task scheduler thread: it calls pool.schedule(); the invocation completes and is observed through
// calls()/~TimedTask while that thread is still inside schedule(), so the pool cannot be destroyed
// safely although the task is finished and destroyed.
void scn_timed_task_pool_lifetime(Rng& r) {
  using namespace std::chrono_literals;
  nt("pool-destroyed-after-task");
  auto& sched = dispenso::globalTimedTaskScheduler();
  const int reps = 10 + static_cast<int>(r.below(6));
  for (int rep = 0; rep < reps; ++rep) {
    TimedProbe probe;
    dispenso::ThreadPool pool(2);
    {
      auto task = sched.schedule(pool, [&probe]() { return probe.invoke(); }, 100us);
      spinUntil([&]() { return task.calls() >= 1; }, 60.0);
    }
    probe.checkSlots(1, "calls");
    // pool destroyed here
  }
  cases(reps);
}

// ================================================================ thread_id
void scn_thread_id(Rng& r) {
  const int nthr = 2 + static_cast<int>(r.below(14));
  nt("thr=%d", nthr > 8 ? 16 : (nthr > 4 ? 8 : 4));
  std::vector<uint64_t> ids(static_cast<size_t>(nthr));
  std::atomic<int> bad{0};
  runThreads(nthr, [&](int t) {
    uint64_t a = dispenso::threadId();
    for (int k = 0; k < 100; ++k) {
      if (dispenso::threadId() != a) {
        bad.fetch_add(1, std::memory_order_relaxed);
      }
    }
    ids[static_cast<size_t>(t)] = a;
  });
  std::sort(ids.begin(), ids.end());
  CHECK(std::adjacent_find(ids.begin(), ids.end()) == ids.end(), "unique", "two threads share an id");
  CHECK(bad.load() == 0, "stable", "threadId changed within a thread");
  cases(nthr);
}

// ================================================================ driver
struct Scenario {
  const char* name;
  void (*fn)(Rng&);
  bool finding = false; // minimal reproducer of a reported dispenso race; not part of the default sweep
};

const Scenario kScenarios[] = {
    {"pool_schedule", scn_pool_schedule},
    {"pool_resize", scn_pool_resize},
    {"taskset_basic", scn_taskset_basic},
    {"taskset_nested", scn_taskset_nested},
    {"cts_multi", scn_cts_multi},
    {"cancel", scn_cancel},
    {"parfor_index", scn_parfor_index},
    {"parfor_range", scn_parfor_range},
    {"parfor_states", scn_parfor_states},
    {"parfor_nested", scn_parfor_nested},
    {"for_each", scn_for_each},
    {"parallel_invoke", scn_parallel_invoke},
    {"future_basic", scn_future_basic},
    {"future_then", scn_future_then},
    {"future_when", scn_future_when},
    {"future_misc", scn_future_misc},
    {"pipeline", scn_pipeline},
    {"graph", scn_graph},
    {"convec", scn_convec},
    {"object_arena", scn_object_arena},
    {"spsc", scn_spsc},
    {"mpmc", scn_mpmc},
    {"chaselev", scn_chaselev},
    {"rwlock", scn_rwlock},
    {"drwlock", scn_drwlock},
    {"completion_event", scn_completion_event},
    {"latch", scn_latch},
    {"async_request", scn_async_request},
    {"pool_allocator", scn_pool_allocator},
    {"small_buffer", scn_small_buffer},
    {"resource_pool", scn_resource_pool},
    {"once_function", scn_once_function},
    {"timed_task", scn_timed_task},
    {"thread_id", scn_thread_id},
    {"parfor_tail_state", scn_parfor_tail_state},
    {"timed_task_destroy", scn_timed_task_destroy},
    {"arena_numbuffers", scn_arena_numbuffers, true},
    {"future_then_xpool", scn_future_then_xpool, true},
    {"timed_task_pool_lifetime", scn_timed_task_pool_lifetime, true},
};

} // namespace

int main(int argc, char** argv) {
  setvbuf(stdout, nullptr, _IOLBF, 0);
  if (argc > 1 && (std::string(argv[1]) == "--list" || std::string(argv[1]) == "--list-findings")) {
    const bool findings = std::string(argv[1]) == "--list-findings";
    for (const auto& s : kScenarios) {
      if (s.finding == findings) {
        printf("%s\n", s.name);
      }
    }
    return 0;
  }
  const uint64_t seed = static_cast<uint64_t>(vh::argInt(argc, argv, 1, 1));
  const long rounds = static_cast<long>(vh::argInt(argc, argv, 2, 1));
  const std::string only = vh::argOr(argc, argv, 3, "");
  bool any = false;
  for (long round = 0; round < rounds; ++round) {
    size_t idx = 0;
    for (const auto& s : kScenarios) {
      ++idx;
      if (only.empty() ? s.finding : only != s.name) {
        continue;
      }
      any = true;
      g_scn = s.name;
      printf("SCN %s\n", s.name);
      fprintf(stderr, "SCN %s round %ld\n", s.name, round);
      Rng rng(seed * 1000003ull + static_cast<uint64_t>(round) * 7919ull + idx * 104729ull);
      s.fn(rng);
    }
  }
  if (!any) {
    fprintf(stderr, "unknown scenario '%s'\n", only.c_str());
    return 2;
  }
  printf("STAT cases %ld\n", g_cases.load());
  return 0;
}
