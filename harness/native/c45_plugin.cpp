// C45 black-box: a separately linked module (built as a shared object with -fvisibility=hidden) that calls
// threadId(); the value it sees on a thread must be the one the main program sees on that thread.
#include <dispenso/thread_id.h>
#include <cstdint>
extern "C" __attribute__((visibility("default"))) uint64_t c45PluginThreadId() { return dispenso::threadId(); }
