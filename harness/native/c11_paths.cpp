// C11 (native sanitizer sweep): error, cancellation and shutdown paths of dispenso run with real
// threads under ASan + UBSan (+ LSan at exit).
//
//   usage: c11_paths <seed> <reps> [only-scenario [only-repetition]]      c11_paths --list
//
// Every scenario is a function that draws a "shape" from a seed, prints `NT <scenario>:<shape>` and then
// drives dispenso strictly inside its documented contracts (see the comment above each scenario for the
// contract relied on).  Three independent observers:
//   1. the sanitizers (reports go to stderr; the driving python check parses them);
//   2. lifetime ledgers: every closure / element / result / exception object used here carries an
//      `AT` (atomic-counter variant of vh::Tracked, plus one owned heap int so that LSan/ASan also see
//      an undestroyed / twice destroyed object).  After each repetition constructed == destroyed, no
//      double destruction, no use of a destroyed object, no destructor on never-constructed storage;
//   3. allocation balance, independent of LSan:
//      a. all malloc-family calls are counted through ASan's __sanitizer_malloc_hook/__sanitizer_free_hook
//         (this covers operator new as well, and keeps ASan's own new/delete mismatch checks, which a
//         replaced global operator new would disable);
//      b. SmallBufferAllocator chunks (closures spilled out of OnceFunction, future states, graph node
//         functors; invisible to LSan because the slabs stay reachable) are counted by wrapping
//         dispenso::detail::allocSmallBufferImpl / deallocSmallBufferImpl at link time (-Wl,--wrap).
//      A scenario runs its `reps` shapes once (cycle 0: coverage, ledgers, warm-up of lazily created
//      singletons and caches), then the first K shapes two more times (cycles 1 and 2).  Every block
//      allocated in cycles 1 and 2 that is still live at the end is looked up in ASan's allocation records;
//      blocks whose allocation stack lies in a known process-lifetime cache (list `kExplained`: the
//      SmallBufferAllocator central store and slabs, glibc's thread stack / TLS cache, the graph node
//      allocator cache, NewThreadInvoker's thread records) are explained, the others are not.  A leak is
//      reported when both cycles left >= kGrowthTol unexplained blocks.
//
// Tolerances (each one documented where it is applied): `settle()` grace period, kGrowthTol.
#include <atomic>
#include <chrono>
#include <deque>
#include <functional>
#include <list>
#include <memory>
#include <mutex>
#include <optional>
#include <set>
#include <stdexcept>
#include <string>
#include <thread>
#include <tuple>
#include <vector>

#include <dispenso/concurrent_object_arena.h>
#include <dispenso/concurrent_vector.h>
#include <dispenso/for_each.h>
#include <dispenso/future.h>
#include <dispenso/graph.h>
#include <dispenso/graph_executor.h>
#include <dispenso/once_function.h>
#include <dispenso/parallel_for.h>
#include <dispenso/pipeline.h>
#include <dispenso/pool_allocator.h>
#include <dispenso/schedulable.h>
#include <dispenso/small_vector.h>
#include <dispenso/task_set.h>
#include <dispenso/thread_pool.h>
#include <dispenso/timed_task.h>

#include "common.h"

// The file is compiled once per part (-DC11_PART=k, k in 0..5) so that the parts build in parallel; a
// build without C11_PART contains every scenario.  tools/props/c11_native.py knows the number of parts.
#ifndef C11_PART
#define C11_PART -1
#endif
#define C11_ON(k) (C11_PART < 0 || C11_PART == (k))

// ------------------------------------------------------------------------------------------------
// allocation counters
// ------------------------------------------------------------------------------------------------
static std::atomic<long long> gMallocs{0}, gFrees{0};
// Survivor table: every block allocated after the warm-up cycle and not freed is remembered together
// with the measuring cycle it was allocated in; at the end of a scenario the allocation stacks of the
// survivors are symbolized (ASan keeps them) and classified.
static constexpr size_t kSurvSlots = 1u << 16;
static std::atomic<uintptr_t> gSurv[kSurvSlots];
static std::atomic<unsigned char> gSurvCycle[kSurvSlots];
static std::atomic<int> gSurvNow{0};  // 0: not recording, otherwise the current cycle
static std::atomic<long long> gSurvLost{0};
static void survInsert(uintptr_t p, int cycle) {
  size_t h = (p >> 4) & (kSurvSlots - 1);
  for (size_t i = 0; i < 512; ++i) {
    size_t at = (h + i) & (kSurvSlots - 1);
    uintptr_t cur = gSurv[at].load(std::memory_order_relaxed);
    if ((cur == 0 || cur == 1) && gSurv[at].compare_exchange_strong(cur, p)) {
      gSurvCycle[at].store((unsigned char)cycle, std::memory_order_relaxed);
      return;
    }
  }
  gSurvLost.fetch_add(1, std::memory_order_relaxed);
}
static void survErase(uintptr_t p) {
  size_t h = (p >> 4) & (kSurvSlots - 1);
  for (size_t i = 0; i < 512; ++i) {
    size_t at = (h + i) & (kSurvSlots - 1);
    uintptr_t cur = gSurv[at].load(std::memory_order_relaxed);
    if (cur == p) {
      gSurv[at].store(1, std::memory_order_relaxed);
      return;
    }
    if (cur == 0) return;
  }
}
extern "C" void __sanitizer_malloc_hook(const volatile void* p, size_t) {
  if (!p) return;
  gMallocs.fetch_add(1, std::memory_order_relaxed);
  int c = gSurvNow.load(std::memory_order_relaxed);
  if (c) survInsert((uintptr_t)p, c);
}
extern "C" void __sanitizer_free_hook(const volatile void* p) {
  if (!p) return;
  gFrees.fetch_add(1, std::memory_order_relaxed);
  survErase((uintptr_t)p);
}
extern "C" size_t __asan_get_alloc_stack(void* addr, void** trace, size_t size, int* thread_id);
extern "C" void __sanitizer_symbolize_pc(void* pc, const char* fmt, char* out_buf, size_t out_buf_size);
// Process-lifetime caches that only ever grow (documented design of dispenso / glibc / this harness).  A
// surviving block whose allocation stack contains one of these is explained; which thread frees how many
// chunks decides when they grow, so their growth is not reproducible and decays only slowly:
static const char* const kExplained[] = {
    "moodycamel::ConcurrentQueue<char*",      // SmallBufferAllocator central store: blocks kept by each producer
    "moodycamel::ProducerToken::ProducerToken<char*",  // ... and its per-thread producer records
    "SmallBufferAllocator<",                  // slabs and the backingStore vector ("controlled leak", never returned)
    "rtld-malloc", "allocate_dtv", "_dl_allocate_tls", "allocate_stack",  // glibc: TLS blocks of cached thread stacks
    "__cxa_thread_atexit",                    // glibc: destructor registration of a thread_local, lives as long as its thread
    "recycle_or_create_producer",             // moodycamel: producer record of a long-lived queue (global pool), re-used later
    "getAllocator", "releaseAllocator",       // graph.cpp: cache of up to 8 node allocators and their slabs
    "ThreadTracker",                          // NewThreadInvoker keeps finished threads until the next schedule()
    "pfail", "shape(",                        // this harness: report de-duplication set, current shape string
};
// -> number of unexplained survivors per cycle (index 1, 2); `site` receives the stack of one of them
static void classifySurvivors(long long unexplained[3], std::string& site, bool print) {
  unexplained[0] = unexplained[1] = unexplained[2] = 0;
  int shown = 0;
  for (size_t i = 0; i < kSurvSlots; ++i) {
    uintptr_t p = gSurv[i].load();
    if (p <= 1) continue;
    int cyc = gSurvCycle[i].load();
    void* trace[14];
    int tid = 0;
    size_t n = __asan_get_alloc_stack((void*)p, trace, 14, &tid);
    std::string text;
    bool explained = n == 0;  // no stack: not a block ASan knows as live any more
    for (size_t k = 0; k < n; ++k) {
      char buf[384];
      buf[0] = 0;
      __sanitizer_symbolize_pc(trace[k], "%f %s:%l", buf, sizeof buf);
      std::string b(buf);
      for (const char* pat : kExplained)
        if (b.find(pat) != std::string::npos) explained = true;
      if (b.find("libsanitizer") != std::string::npos) continue;
      if (b.size() > 120) b = b.substr(0, 60) + "..." + b.substr(b.size() - 55);
      if (k < 9) text += (text.empty() ? "" : " <- ") + b;
    }
    if (print && shown < 60) std::printf("SURVIVOR %d cycle=%d %s: %s\n", ++shown, cyc, explained ? "explained" : "UNEXPLAINED", text.c_str());
    if (!explained && cyc >= 1 && cyc <= 2) {
      ++unexplained[cyc];
      if (site.empty()) site = text;
    }
  }
}
static void survReset() {
  for (size_t i = 0; i < kSurvSlots; ++i) gSurv[i].store(0, std::memory_order_relaxed);
}
static long long liveAllocs() {
  // frees first: a concurrent malloc+free pair between the two loads can then only raise the result
  long long f = gFrees.load(std::memory_order_acquire);
  return gMallocs.load(std::memory_order_acquire) - f;
}

static std::atomic<long long> gSbAlloc[8], gSbFree[8];  // per size class (ordinal 0..6 = 4..256 bytes)
#if defined(C11_WRAP_SB)
extern "C" char* __real__ZN8dispenso6detail20allocSmallBufferImplEm(size_t);
extern "C" char* __wrap__ZN8dispenso6detail20allocSmallBufferImplEm(size_t ordinal) {
  gSbAlloc[ordinal & 7].fetch_add(1, std::memory_order_relaxed);
  return __real__ZN8dispenso6detail20allocSmallBufferImplEm(ordinal);
}
extern "C" void __real__ZN8dispenso6detail22deallocSmallBufferImplEmPv(size_t, void*);
extern "C" void __wrap__ZN8dispenso6detail22deallocSmallBufferImplEmPv(size_t ordinal, void* p) {
  gSbFree[ordinal & 7].fetch_add(1, std::memory_order_relaxed);
  __real__ZN8dispenso6detail22deallocSmallBufferImplEmPv(ordinal, p);
}
#endif
static long long liveSb(int ordinal) {
  long long f = gSbFree[ordinal].load(std::memory_order_acquire);
  return gSbAlloc[ordinal].load(std::memory_order_acquire) - f;
}
static long long liveSb() {
  long long t = 0;
  for (int o = 0; o < 8; ++o) t += liveSb(o);
  return t;
}

// ------------------------------------------------------------------------------------------------
// ledger element
// ------------------------------------------------------------------------------------------------
struct Ledger {
  std::atomic<long long> constructed{0}, destroyed{0}, doubleDestroy{0}, useDead{0}, garbage{0};
};
static Ledger gL;

struct AT {
  static constexpr uint32_t kAlive = 0xA11CE5u, kDead = 0xDEADu, kMoved = 0x30FEDu;
  int v;
  uint32_t state;
  int* heap;
  static int readSrc(const AT& o) {
    if (o.state != kAlive && o.state != kMoved) gL.useDead.fetch_add(1, std::memory_order_relaxed);
    return o.v;
  }
  AT() : v(0), state(kAlive), heap(new int(0)) { gL.constructed.fetch_add(1, std::memory_order_relaxed); }
  explicit AT(int x) : v(x), state(kAlive), heap(new int(x)) { gL.constructed.fetch_add(1, std::memory_order_relaxed); }
  AT(const AT& o) : v(readSrc(o)), state(kAlive), heap(new int(v)) { gL.constructed.fetch_add(1, std::memory_order_relaxed); }
  AT(AT&& o) noexcept : v(readSrc(o)), state(kAlive), heap(o.heap) {
    o.heap = nullptr;
    o.state = kMoved;
    gL.constructed.fetch_add(1, std::memory_order_relaxed);
  }
  AT& operator=(const AT& o) {
    if (state != kAlive && state != kMoved) gL.useDead.fetch_add(1, std::memory_order_relaxed);
    int nv = readSrc(o);
    if (this != &o) {
      delete heap;
      heap = new int(nv);
      v = nv;
      state = kAlive;
    }
    return *this;
  }
  AT& operator=(AT&& o) noexcept {
    if (state != kAlive && state != kMoved) gL.useDead.fetch_add(1, std::memory_order_relaxed);
    int nv = readSrc(o);
    if (this != &o) {
      delete heap;
      heap = o.heap;
      o.heap = nullptr;
      o.state = kMoved;
      v = nv;
      state = kAlive;
    }
    return *this;
  }
  ~AT() {
    if (state == kDead) {
      gL.doubleDestroy.fetch_add(1, std::memory_order_relaxed);
    } else if (state != kAlive && state != kMoved) {
      gL.garbage.fetch_add(1, std::memory_order_relaxed);  // storage that never held an AT
      return;
    } else {
      delete heap;
      heap = nullptr;
    }
    state = kDead;
    gL.destroyed.fetch_add(1, std::memory_order_relaxed);
  }
  int get() const {
    if (state != kAlive) gL.useDead.fetch_add(1, std::memory_order_relaxed);
    return heap ? *heap : v;
  }
};

// capture of a chosen size: 16 bytes (fits OnceFunction's inline buffer even after packageTask wraps
// it), ~116 bytes (spills to a 128/256-byte small buffer), ~416 bytes (> kMaxSmallBufferSize: alignedMalloc)
template <size_t N>
struct Cap {
  AT t;
  char pad[N];
  explicit Cap(int v) : t(v) { std::memset(pad, v & 0x7f, N); }
  int get() const { return t.get() + (pad[N - 1] == (t.v & 0x7f) ? 0 : 1000000); }
};
template <>
struct Cap<0> {
  AT t;
  explicit Cap(int v) : t(v) {}
  int get() const { return t.get(); }
};
template <size_t N>
using SizeTag = std::integral_constant<size_t, N>;
// call f(SizeTag<N>) for the size class cls in {0: inline, 1: spilled, 2: aligned-malloc}
template <typename F>
static void withSize(int cls, F&& f) {
  switch (cls) {
    case 0: f(SizeTag<0>()); break;
    case 1: f(SizeTag<100>()); break;
    default: f(SizeTag<400>()); break;
  }
}
template <typename F>
static void withSize2(int cls, F&& f) {
  if (cls == 0) f(SizeTag<0>()); else f(SizeTag<100>());
}

struct TestErr {
  int id;
  AT t;  // the exception object itself is on the ledger (exception_ptr copies, rethrow, release)
  explicit TestErr(int i) : id(i), t(i) {}
};

struct Gate {
  std::atomic<bool> open{false};
  void wait() const { while (!open.load(std::memory_order_acquire)) std::this_thread::yield(); }
  void release() { open.store(true, std::memory_order_release); }
};

// ------------------------------------------------------------------------------------------------
// scenario framework
// ------------------------------------------------------------------------------------------------
using Rng = vh::SplitMix;
struct Env {
  const char* scenario = "";
  int cycle = 0;
  long long cases = 0;
  std::set<std::string> reported;
  std::string curShape;
};
static Env gEnv;
static std::mutex gShapeMutex;  // curShape is also read by the watchdog thread

static void pfail(const std::string& sig, const std::string& detail) {
  if (!gEnv.reported.insert(sig).second) return;
  std::printf("PFAIL %s | %s shape=%s\n", sig.c_str(), detail.c_str(), gEnv.curShape.c_str());
  std::fflush(stdout);
}
static void shape(const std::string& key) {
  {
    std::lock_guard<std::mutex> lk(gShapeMutex);
    gEnv.curShape = key;
  }
  if (gEnv.cycle == 0) {
    std::printf("NT %s:%s\n", gEnv.scenario, key.c_str());
    std::fflush(stdout);
  }
}
template <typename... A>
static std::string fmt(const char* f, A... a) {
  char buf[400];
  std::snprintf(buf, sizeof buf, f, a...);
  return buf;
}
template <typename Set>
static void waitClean(Set& ts) {  // a pending exception must be consumed before the set is destroyed
  for (;;) {
    try {
      ts.wait();
      return;
    } catch (const TestErr&) {
    }
  }
}
static bool pollUntil(const std::function<bool()>& pred, double seconds = 60.0) {
  auto t0 = std::chrono::steady_clock::now();
  while (!pred()) {
    std::this_thread::yield();
    if (std::chrono::duration<double>(std::chrono::steady_clock::now() - t0).count() > seconds) return false;
  }
  return true;
}

struct Snapshot {
  long long live, sb, dd, ud, gb;
  long long sbo[8];
  bool sameSb(const Snapshot& o) const {
    for (int i = 0; i < 8; ++i) if (sbo[i] != o.sbo[i]) return false;
    return true;
  }
};
static Snapshot snap() {
  Snapshot s{gL.constructed.load() - gL.destroyed.load(), 0, gL.doubleDestroy.load(), gL.useDead.load(), gL.garbage.load(), {}};
  for (int i = 0; i < 8; ++i) s.sb += (s.sbo[i] = liveSb(i));
  return s;
}
// TOLERANCE (grace period, not an oracle on timing): dispenso destroys a task's closure on the worker
// *after* the task decremented its task set's counter (OnceFunction: run, then ~F), so wait() may return
// a few instructions before the last closure is gone.  Scenarios that keep using a long-lived pool (the
// global one) therefore get up to 10 s for the ledgers to balance before an imbalance is reported.
static void settleAndCheck(const Snapshot& before) {
  // once an imbalance has been reported for this scenario, later repetitions get a short grace only
  double grace = gEnv.reported.empty() ? 10.0 : 0.25;
  pollUntil([&] {
    Snapshot s = snap();
    return s.live == before.live && s.sameSb(before);
  }, grace);
  Snapshot s = snap();
  std::string sc = gEnv.scenario;
  if (s.live > before.live)
    pfail("ledger:" + sc + ": closure or element not destroyed", fmt("undestroyed=%lld", s.live - before.live));
  if (s.live < before.live || s.dd != before.dd)
    pfail("ledger:" + sc + ": object destroyed more than once", fmt("live=%lld doubleDestroy=%lld", s.live - before.live, s.dd - before.dd));
  if (s.ud != before.ud)
    pfail("ledger:" + sc + ": destroyed object used", fmt("uses=%lld", s.ud - before.ud));
  if (s.gb != before.gb)
    pfail("ledger:" + sc + ": destructor ran on storage never constructed", fmt("count=%lld", s.gb - before.gb));
  if (s.sb > before.sb)
    pfail("sbleak:" + sc + ": small-buffer chunks not returned", fmt("chunks=%lld", s.sb - before.sb));
  if (s.sb < before.sb)
    pfail("sbleak:" + sc + ": small-buffer chunk returned twice", fmt("chunks=%lld", before.sb - s.sb));
  if (s.sb == before.sb && !s.sameSb(before)) {
    std::string d;
    for (int i = 0; i < 8; ++i) if (s.sbo[i] != before.sbo[i]) d += fmt(" %dB:%+lld", 4 << i, s.sbo[i] - before.sbo[i]);
    pfail("sbleak:" + sc + ": small-buffer chunk returned to the pool of another size", "balance per size class:" + d);
  }
}

#if C11_ON(0)
// ================================================================================================
// 1. OnceFunction: never invoked (cleanupNotRun), moved-from, moved and invoked; inline / spilled / large
//    contract (once_function.h): operator() or cleanupNotRun() exactly once per valid OnceFunction; the
//    moved-from object must not be used; destruction itself releases nothing.
// ================================================================================================
template <size_t N>
static void onceOne(Rng& rng, std::atomic<long long>& ran, long long& expect) {
  int action = (int)rng.below(6);
  int v = 1 + (int)rng.below(50);
  dispenso::OnceFunction f([c = Cap<N>(v), &ran]() { ran.fetch_add(c.get(), std::memory_order_relaxed); });
  switch (action) {
    case 0: f(); expect += v; break;
    case 1: f.cleanupNotRun(); break;
    case 2: { dispenso::OnceFunction g(std::move(f)); g(); expect += v; } break;
    case 3: { dispenso::OnceFunction g; g = std::move(f); g.cleanupNotRun(); } break;
    case 4: {  // chain of moves through a growing vector (reallocation moves every element)
      std::vector<dispenso::OnceFunction> vec;
      vec.push_back(std::move(f));
      int extra = (int)rng.below(9);
      for (int i = 0; i < extra; ++i) vec.emplace_back([c = Cap<N>(i), &ran]() { ran.fetch_add(c.get(), std::memory_order_relaxed); });
      for (int i = 0; i < (int)vec.size(); ++i) {
        if (rng.coin()) { vec[i](); expect += (i == 0 ? v : i - 1); } else vec[i].cleanupNotRun();
      }
    } break;
    default: {  // const OnceFunction invoked through a reference, after two moves
      dispenso::OnceFunction g(std::move(f));
      dispenso::OnceFunction h(std::move(g));
      const dispenso::OnceFunction& r = h;
      r(); expect += v;
    } break;
  }
}
static void scnOnceFunction(Rng& rng) {
  int cls = (int)rng.below(3), n = 1 + (int)rng.below(20);
  shape(fmt("size%d/n%d", cls, n > 10 ? 2 : n > 3 ? 1 : 0));
  std::atomic<long long> ran{0};
  long long expect = 0;
  for (int i = 0; i < n; ++i) withSize(cls, [&](auto tag) { onceOne<decltype(tag)::value>(rng, ran, expect); });
  if (ran.load() != expect) pfail("once_function: bodies run differ from the invocations made", fmt("ran=%lld expect=%lld", ran.load(), expect));
  dispenso::OnceFunction never;  // default constructed, never assigned: nothing to release
  (void)never;
}

#endif
#if C11_ON(1)
// ================================================================================================
// 2./3. task bodies that throw: TaskSet / ConcurrentTaskSet
//    contract (task_set.h): schedule() may throw when it runs the functor inline; otherwise the first
//    exception of the set is rethrown by wait(); the set must not be destroyed with an exception pending
//    (its destructor calls wait()), so the harness always consumes it first.
// ================================================================================================
struct ThrowShape {
  int nT, mult, nTasks, mode, cls, nThrow, kind;
  std::set<int> throwers;
};
template <typename SetT, size_t N>
static void tasksetThrowRun(SetT& ts, std::shared_ptr<const ThrowShape> shp, std::atomic<long long>& ran,
                            std::atomic<long long>& inlineThrows, int base, bool nested) {
  const ThrowShape& sh = *shp;
  // the shape is shared by value with the tasks: they may outlive this call
  auto body = [&ran, shp, base](int i, const Cap<N>& c) {
    ran.fetch_add(1, std::memory_order_relaxed);
    if (c.get() != i) ran.fetch_add(1000000, std::memory_order_relaxed);
    if (shp->throwers.count(i - base)) throw TestErr(i);
  };
  auto guarded = [&](auto&& call) {
    try {
      call();
    } catch (const TestErr&) {
      inlineThrows.fetch_add(1, std::memory_order_relaxed);
    }
  };
  if (sh.mode == 2 || sh.mode == 3) {
    auto gen = [&](size_t i) {
      int id = base + (int)i;
      return [c = Cap<N>(id), body, id]() { body(id, c); };
    };
    guarded([&] {
      if (sh.mode == 2) ts.scheduleBulk((size_t)sh.nTasks, gen);
      else ts.scheduleBulk((size_t)sh.nTasks, gen, dispenso::ForceQueuingTag());
    });
    return;
  }
  for (int i = 0; i < sh.nTasks; ++i) {
    int id = base + i;
    bool fq = sh.mode == 1 || (sh.mode == 4 && (i & 1));
    if (nested && (i % 5) == 4) {
      // a task that schedules two children into the same set (ConcurrentTaskSet only)
      guarded([&] {
        ts.schedule([c = Cap<N>(id), body, id, &ts, &inlineThrows]() {
          for (int k = 0; k < 2; ++k) {
            try {
              ts.schedule([c2 = Cap<N>(id), body, id]() { body(id, c2); });
            } catch (const TestErr&) {
              inlineThrows.fetch_add(1, std::memory_order_relaxed);
            }
          }
          body(id, c);
        });
      });
      continue;
    }
    guarded([&] {
      if (fq) ts.schedule([c = Cap<N>(id), body, id]() { body(id, c); }, dispenso::ForceQueuingTag());
      else ts.schedule([c = Cap<N>(id), body, id]() { body(id, c); });
    });
  }
}
template <typename SetT, typename... CtorArgs>
static void tasksetThrow(Rng& rng, const char* tag, bool concurrent, CtorArgs... extra) {
  auto shp = std::make_shared<ThrowShape>();
  ThrowShape& sh = *shp;
  static const int kThreads[] = {0, 1, 2, 3, 4, 8};
  sh.nT = kThreads[rng.below(6)];
  sh.mult = rng.below(3) == 0 ? 1 : 4;
  sh.nTasks = 1 + (int)rng.below(rng.coin() ? 12 : 80);
  sh.mode = (int)rng.below(5);  // 0 schedule, 1 force-queue, 2 bulk, 3 bulk force-queue, 4 mixed
  sh.cls = (int)rng.below(2);
  sh.nThrow = (int)rng.below(4);
  for (int k = 0; k < sh.nThrow; ++k) sh.throwers.insert((int)rng.below(sh.nTasks));
  bool nested = concurrent && rng.below(3) == 0 && sh.mode != 2 && sh.mode != 3;
  bool twoProducers = concurrent && rng.below(3) == 0;
  shape(fmt("%s/t%d/m%d/n%d/mode%d/size%d/throw%d%s%s", tag, sh.nT, sh.mult, sh.nTasks > 12 ? 2 : sh.nTasks > 3 ? 1 : 0,
            sh.mode, sh.cls, (int)sh.throwers.size(), nested ? "/nested" : "", twoProducers ? "/2prod" : ""));
  std::atomic<long long> ran{0}, inlineThrows{0};
  int caught = 0;
  {
    dispenso::ThreadPool pool((size_t)sh.nT);
    {
      SetT ts(pool, extra..., (ssize_t)sh.mult);
      withSize2(sh.cls, [&](auto tagN) {
        constexpr size_t N = decltype(tagN)::value;
        if (twoProducers) {
          std::thread other([&] { tasksetThrowRun<SetT, N>(ts, shp, ran, inlineThrows, 1000, false); });
          tasksetThrowRun<SetT, N>(ts, shp, ran, inlineThrows, 0, nested);
          other.join();
        } else {
          tasksetThrowRun<SetT, N>(ts, shp, ran, inlineThrows, 0, nested);
        }
      });
      try {
        ts.wait();
      } catch (const TestErr& e) {
        ++caught;
        if (e.t.get() != e.id) pfail(std::string(tag) + ": rethrown exception object corrupted", fmt("id=%d", e.id));
      }
      try {
        ts.wait();  // second wait(): the exception was consumed by the first
      } catch (const TestErr&) {
        ++caught;
      }
      // the set stays usable as an object after an exception (further tasks are skipped or run)
      withSize2(sh.cls, [&](auto tagN) {
        constexpr size_t N = decltype(tagN)::value;
        auto more = std::make_shared<ThrowShape>(sh);
        more->nTasks = 1 + (int)rng.below(6);
        more->throwers.clear();
        if (rng.coin()) more->throwers.insert(0);
        tasksetThrowRun<SetT, N>(ts, more, ran, inlineThrows, 5000, false);
      });
      if (rng.coin()) {
        try {
          // tryWait() returns false for good once the set is cancelled (an exception cancels it)
          while (!ts.tryWait(3) && !ts.canceled()) {
          }
        } catch (const TestErr&) {
          ++caught;
        }
      }
      waitClean(ts);
    }  // ~SetT
  }    // ~ThreadPool
  if (ran.load() >= 1000000) pfail(std::string(tag) + ": closure capture corrupted when the task ran", "");
  (void)caught;
}
static void scnTaskSetThrow(Rng& rng) {
  tasksetThrow<dispenso::TaskSet>(rng, "ts", false, dispenso::ParentCascadeCancel::kOff);
}
static void scnConcurrentTaskSetThrow(Rng& rng) {
  if (rng.coin())
    tasksetThrow<dispenso::ConcurrentTaskSet>(rng, "cts-heavy", true, dispenso::ParentCascadeCancel::kOff);
  else {
    // kLightweight routes through the central queue
    struct Light : dispenso::ConcurrentTaskSet {
      Light(dispenso::ThreadPool& p, dispenso::ParentCascadeCancel c, ssize_t m)
          : dispenso::ConcurrentTaskSet(p, c, m, dispenso::TaskCost::kLightweight) {}
    };
    tasksetThrow<Light>(rng, "cts-light", true, dispenso::ParentCascadeCancel::kOff);
  }
}

#endif
#if C11_ON(0)
// ================================================================================================
// 4. cancellation with queued tasks (the packageTask skip path), parent/child cascade
//    contract: cancel() may be called at any time; unexecuted tasks are dropped; wait() afterwards.
//    Workers are held by tasks waiting on a gate so that the remaining tasks are certainly still queued
//    when cancel() is called (no timing involved: the gate is opened after cancel()).
// ================================================================================================
template <typename SetT, size_t N>
static void cancelRun(Rng& rng, int nT, int nTasks, int how, bool bulk) {
  std::atomic<long long> ran{0}, started{0};
  Gate gate;
  dispenso::ThreadPool pool((size_t)nT);
  {
    SetT ts(pool);
    for (int b = 0; b < nT; ++b)
      ts.schedule([&gate, &started, c = Cap<N>(b)]() {
        started.fetch_add(1, std::memory_order_release);
        gate.wait();
        (void)c.get();
      }, dispenso::ForceQueuingTag());
    pollUntil([&] { return started.load(std::memory_order_acquire) >= 1; });
    if (bulk) {
      ts.scheduleBulk((size_t)nTasks, [&](size_t i) { return [c = Cap<N>((int)i), &ran]() { ran.fetch_add(1 + 0 * c.get()); }; },
                      dispenso::ForceQueuingTag());
    } else {
      for (int i = 0; i < nTasks; ++i)
        ts.schedule([c = Cap<N>(i), &ran]() { ran.fetch_add(1 + 0 * c.get()); }, dispenso::ForceQueuingTag());
    }
    if (how == 0) {
      ts.cancel();
    } else if (how == 1) {
      // cancellation by a throwing task: trySetCurrentException() cancels the set
      ts.schedule([c = Cap<N>(7)]() { throw TestErr(c.get()); }, dispenso::ForceQueuingTag());
    }  // how == 2: no cancellation (control)
    // tasks scheduled after cancel(): dropped by schedule() itself, their closure is a temporary
    int late = (int)rng.below(4);
    for (int i = 0; i < late; ++i) ts.schedule([c = Cap<N>(i), &ran]() { ran.fetch_add(1 + 0 * c.get()); });
    gate.release();
    waitClean(ts);
    if (how == 0 && !ts.canceled()) pfail("taskset_cancel: canceled() false after cancel()", "");
  }
  if (how == 2 && ran.load() < nTasks) pfail("taskset_cancel: control run lost tasks", fmt("ran=%lld of %d", ran.load(), nTasks));
}
template <size_t N>
static void cancelCascade(Rng& rng, int nT, int nTasks) {
  // a parent ConcurrentTaskSet task builds a child TaskSet registered for parent cancellation, queues
  // work on it and waits; the main thread cancels the parent meanwhile.
  std::atomic<long long> ran{0}, childReady{0};
  Gate gate;
  dispenso::ThreadPool pool((size_t)nT);
  {
    dispenso::ConcurrentTaskSet parent(pool);
    int nParents = 1 + (int)rng.below(2);
    for (int p = 0; p < nParents; ++p)
      parent.schedule([&, p]() {
        dispenso::TaskSet child(pool, dispenso::ParentCascadeCancel::kOn);
        for (int i = 0; i < nTasks; ++i)
          child.schedule([c = Cap<N>(i + p), &ran, &gate]() { gate.wait(); ran.fetch_add(1 + 0 * c.get()); }, dispenso::ForceQueuingTag());
        childReady.fetch_add(1, std::memory_order_release);
        gate.wait();
        child.wait();
      }, dispenso::ForceQueuingTag());
    pollUntil([&] { return childReady.load(std::memory_order_acquire) >= 1; });
    parent.cancel();
    gate.release();
    waitClean(parent);
  }
}
static void scnTaskSetCancel(Rng& rng) {
  static const int kThreads[] = {1, 2, 3, 4, 8};
  int nT = kThreads[rng.below(5)], nTasks = 1 + (int)rng.below(60), how = (int)rng.below(3), cls = (int)rng.below(2);
  int kind = (int)rng.below(4);  // 0 TaskSet, 1 CTS heavy, 2 CTS light, 3 cascade
  bool bulk = rng.coin();
  shape(fmt("kind%d/t%d/n%d/how%d/size%d%s", kind, nT, nTasks > 12 ? 2 : nTasks > 3 ? 1 : 0, how, cls, bulk ? "/bulk" : ""));
  withSize2(cls, [&](auto tagN) {
    constexpr size_t N = decltype(tagN)::value;
    struct Light : dispenso::ConcurrentTaskSet {
      explicit Light(dispenso::ThreadPool& p) : dispenso::ConcurrentTaskSet(p, dispenso::TaskCost::kLightweight) {}
    };
    switch (kind) {
      case 0: cancelRun<dispenso::TaskSet, N>(rng, nT, nTasks, how, bulk); break;
      case 1: cancelRun<dispenso::ConcurrentTaskSet, N>(rng, nT, nTasks, how, bulk); break;
      case 2: cancelRun<Light, N>(rng, nT, nTasks, how, bulk); break;
      default: cancelCascade<N>(rng, nT < 2 ? 2 : nT, 1 + nTasks / 4); break;
    }
  });
}

#endif
#if C11_ON(0)
// ================================================================================================
// 5. ThreadPool destruction and resize() with queued work
//    contract (thread_pool.h): the destructor blocks until all queued work is completed; resize() is
//    blocking; no other thread may use the pool while it is destroyed (tasks here do not schedule).
// ================================================================================================
template <size_t N>
static void poolShutdownRun(Rng& rng, int nT, int nTasks, int plan) {
  std::atomic<long long> ran{0};
  long long scheduled = 0;
  {
    dispenso::ThreadPool pool((size_t)nT);
    auto batch = [&](int n) {
      int how = (int)rng.below(3);
      if (how == 2) {
        pool.scheduleBulk((size_t)n, [&](size_t i) { return [c = Cap<N>((int)i), &ran]() { ran.fetch_add(1 + 0 * c.get()); }; });
      } else {
        for (int i = 0; i < n; ++i) {
          if (how == 0) pool.schedule([c = Cap<N>(i), &ran]() { ran.fetch_add(1 + 0 * c.get()); });
          else pool.schedule([c = Cap<N>(i), &ran]() { ran.fetch_add(1 + 0 * c.get()); }, dispenso::ForceQueuingTag());
        }
      }
      scheduled += n;
    };
    batch(nTasks);
    if (plan == 1 || plan == 2) {
      static const int kTo[] = {0, 1, 2, 5, 9};
      pool.resize(kTo[rng.below(5)]);
      batch(nTasks / 2 + 1);
      if (plan == 2) {
        pool.resize(kTo[rng.below(5)]);
        batch(nTasks / 3 + 1);
      }
    } else if (plan == 3) {
      pool.setSignalingWake(false, std::chrono::microseconds(200));
      batch(nTasks / 2 + 1);
    } else if (plan == 4) {
      // a task set whose tasks are still queued when it is waited, then the pool dies with direct work
      dispenso::TaskSet ts(pool);
      for (int i = 0; i < nTasks; ++i) ts.schedule([c = Cap<N>(i), &ran]() { ran.fetch_add(1 + 0 * c.get()); }, dispenso::ForceQueuingTag());
      scheduled += nTasks;
      batch(nTasks / 2 + 1);
      ts.wait();
    }
  }  // ~ThreadPool with whatever is still queued
  if (ran.load() != scheduled) pfail("pool_shutdown: queued tasks not all run by resize()/~ThreadPool", fmt("ran=%lld scheduled=%lld", ran.load(), scheduled));
}
static void scnPoolShutdown(Rng& rng) {
  static const int kThreads[] = {0, 1, 2, 4, 8};
  int nT = kThreads[rng.below(5)], nTasks = 1 + (int)rng.below(200), plan = (int)rng.below(5), cls = (int)rng.below(2);
  shape(fmt("t%d/n%d/plan%d/size%d", nT, nTasks > 40 ? 2 : nTasks > 5 ? 1 : 0, plan, cls));
  withSize2(cls, [&](auto tagN) { poolShutdownRun<decltype(tagN)::value>(rng, nT, nTasks, plan); });
}

#endif
#if C11_ON(2)
// ================================================================================================
// 6./7./8. pipelines: stages that throw, stages that filter (discard path)
//    contract (pipeline.h): a throwing stage stops the generator, queued work is discarded without
//    execution, the first exception is rethrown from pipeline(); the pool stays usable.
// ================================================================================================
struct PipeShape {
  int nT, nItems, nStages, throwStage, throwAt, filterMod, cls, optKind;
  ssize_t lim[4];
};
template <size_t N>
struct Item {
  Cap<N> c;
  int seq;
  explicit Item(int s) : c(s), seq(s) {}
};
template <size_t N, bool kUseStd>
static void pipelineRun(dispenso::ThreadPool& pool, const PipeShape& sh, std::atomic<long long>& sunk) {
  using It = Item<N>;
  using Opt = std::conditional_t<kUseStd, std::optional<It>, dispenso::OpResult<It>>;
  std::atomic<int> next{0};
  auto gen = [&]() -> Opt {
    int i = next.fetch_add(1, std::memory_order_relaxed);
    if (i >= sh.nItems) return {};
    if (sh.throwStage == 0 && i == sh.throwAt) throw TestErr(i);
    return It(i);
  };
  auto tr1 = [&](It in) -> It {
    if (sh.throwStage == 1 && in.seq == sh.throwAt) throw TestErr(in.seq);
    if (in.c.get() != in.seq) sunk.fetch_add(1000000);
    return in;
  };
  auto tr2 = [&](It in) -> Opt {  // filtering transform
    if (sh.throwStage == 2 && in.seq == sh.throwAt) throw TestErr(in.seq);
    if (sh.filterMod && (in.seq % sh.filterMod) == 0) return {};
    return in;
  };
  auto sink = [&](It in) {
    if (sh.throwStage == 3 && in.seq == sh.throwAt) throw TestErr(in.seq);
    sunk.fetch_add(1 + (in.c.get() != in.seq ? 1000000 : 0));
  };
  // dispenso::stage() stores the functor by value only when it is given an rvalue
  auto stage = [](auto f, ssize_t limit) { return dispenso::stage(std::move(f), limit); };
  switch (sh.nStages) {
    case 1: {
      auto single = [&]() -> bool {
        int i = next.fetch_add(1, std::memory_order_relaxed);
        if (i >= sh.nItems) return false;
        It it(i);
        if (sh.throwStage >= 0 && i == sh.throwAt) throw TestErr(i);
        sunk.fetch_add(1 + 0 * it.c.get());
        return true;
      };
      dispenso::pipeline(pool, stage(single, sh.lim[0]));
    } break;
    case 2: dispenso::pipeline(pool, stage(gen, sh.lim[0]), stage(sink, sh.lim[3])); break;
    case 3: dispenso::pipeline(pool, stage(gen, sh.lim[0]), stage(tr2, sh.lim[2]), stage(sink, sh.lim[3])); break;
    default:
      dispenso::pipeline(pool, stage(gen, sh.lim[0]), stage(tr1, sh.lim[1]), stage(tr2, sh.lim[2]), stage(sink, sh.lim[3]));
      break;
  }
}
// genMode: 0 = serial generator (limit 1), 1 = parallel generator (limit 2, 3 or unlimited)
static PipeShape drawPipe(Rng& rng, bool wantThrow, int genMode = 0) {
  PipeShape sh;
  static const int kThreads[] = {0, 1, 2, 4, 8};
  sh.nT = kThreads[rng.below(5)];
  sh.nItems = (int)rng.below(rng.coin() ? 20 : 300);
  sh.nStages = 1 + (int)rng.below(4);
  static const ssize_t kLim[] = {1, 1, 2, 3, dispenso::kStageNoLimit};
  for (auto& l : sh.lim) l = kLim[rng.below(5)];
  sh.lim[0] = genMode == 0 ? 1 : kLim[2 + rng.below(3)];
  if (genMode == 1 && sh.nT < 2) sh.nT = 2;
  sh.throwStage = wantThrow ? (int)rng.below(4) : -1;
  if (wantThrow && sh.nStages == 2 && (sh.throwStage == 1 || sh.throwStage == 2)) sh.throwStage = 3;
  if (wantThrow && sh.nStages == 3 && sh.throwStage == 1) sh.throwStage = 2;
  sh.throwAt = sh.nItems ? (int)rng.below(sh.nItems) : 0;
  sh.filterMod = rng.coin() ? 0 : 1 + (int)rng.below(4);
  sh.cls = (int)rng.below(2);
  sh.optKind = (int)rng.below(2);
  return sh;
}
static std::string pipeKey(const PipeShape& sh) {
  auto l = [](ssize_t v) { return v == dispenso::kStageNoLimit ? 9 : (int)v; };
  return fmt("t%d/n%d/st%d/lim%d%d%d%d/thr%d/f%d/size%d/opt%d", sh.nT, sh.nItems > 40 ? 2 : sh.nItems > 3 ? 1 : 0, sh.nStages,
             l(sh.lim[0]), l(sh.lim[1]), l(sh.lim[2]), l(sh.lim[3]), sh.throwStage, sh.filterMod ? 1 : 0, sh.cls, sh.optKind);
}
static void pipelineDispatch(dispenso::ThreadPool& pool, const PipeShape& sh, std::atomic<long long>& sunk) {
  try {
    if (sh.cls == 0) {
      if (sh.optKind) pipelineRun<0, true>(pool, sh, sunk); else pipelineRun<0, false>(pool, sh, sunk);
    } else {
      if (sh.optKind) pipelineRun<100, true>(pool, sh, sunk); else pipelineRun<100, false>(pool, sh, sunk);
    }
  } catch (const TestErr& e) {
    if (e.t.get() != e.id) pfail("pipeline: rethrown exception object corrupted", "");
  }
}
static void pipelineThrowScenario(Rng& rng, int genMode) {
  PipeShape sh = drawPipe(rng, true, genMode);
  shape(pipeKey(sh));
  std::atomic<long long> sunk{0};
  {
    dispenso::ThreadPool pool((size_t)sh.nT);
    pipelineDispatch(pool, sh, sunk);
    if (rng.coin()) {  // the pool remains usable: a second, clean pipeline on the same pool
      PipeShape again = sh;
      again.throwStage = -1;
      std::atomic<long long> sunk2{0};
      pipelineDispatch(pool, again, sunk2);
    }
  }
  if (sunk.load() >= 1000000) pfail("pipeline: item corrupted between stages", "");
}
static void scnPipelineThrow(Rng& rng) { pipelineThrowScenario(rng, 0); }
// Kept apart from pipeline_throw: with several generator tasks, a throw that happens before all of them
// have started cancels the task set, the late generator tasks are skipped and pipeline() never returns
// (liveness, not memory safety); the watchdog reports that as a stall of this scenario only.
static void scnPipelineThrowParGen(Rng& rng) { pipelineThrowScenario(rng, 1); }
static void scnPipelineFilter(Rng& rng) {
  PipeShape sh = drawPipe(rng, false, (int)rng.below(2));
  if (!sh.filterMod) sh.filterMod = 2;
  shape(pipeKey(sh));
  std::atomic<long long> sunk{0};
  {
    dispenso::ThreadPool pool((size_t)sh.nT);
    pipelineDispatch(pool, sh, sunk);
  }
  long long expect = 0;
  for (int i = 0; i < sh.nItems; ++i) expect += (sh.nStages >= 3 && (i % sh.filterMod) == 0) ? 0 : 1;
  if (sh.nT == 0 && sh.nStages == 1) expect = 0;  // a single-stage pipeline runs min(pool threads, limit) loops
  if (sunk.load() != expect)
    pfail("pipeline: filtered pipeline delivered a wrong number of items", fmt("sunk=%lld expect=%lld", sunk.load(), expect));
}
// pipeline() called from a task of a loaded pool (nested parallelism is a documented use): the stage
// tasks and even the generator may then run inline on the caller.
static void scnPipelineNested(Rng& rng) {
  PipeShape sh = drawPipe(rng, true, 0);
  if (sh.nT < 2) sh.nT = 2;
  if (sh.nStages < 3) sh.nStages = 3 + (int)rng.below(2);
  if (sh.throwStage == 1 && sh.nStages == 3) sh.throwStage = 2;
  if (sh.nItems < 30) sh.nItems = 30 + (int)rng.below(200);
  sh.throwAt = sh.nItems / 2 + (int)rng.below(sh.nItems / 2);
  int fillers = 200 + (int)rng.below(1500);
  shape(pipeKey(sh) + fmt("/fill%d", fillers > 800));
  std::atomic<long long> sunk{0}, spin{0};
  {
    dispenso::ThreadPool pool((size_t)sh.nT);
    dispenso::ConcurrentTaskSet outer(pool);
    outer.schedule([&]() {
      for (int i = 0; i < fillers; ++i)
        pool.schedule([&spin]() { for (int k = 0; k < 400; ++k) spin.fetch_add(1, std::memory_order_relaxed); }, dispenso::ForceQueuingTag());
      pipelineDispatch(pool, sh, sunk);
    }, dispenso::ForceQueuingTag());
    waitClean(outer);
  }
}

#endif
#if C11_ON(3)
// ================================================================================================
// 9./10. futures: throwing functors, continuations after an exception, when_all / when_any with a
//    failing input, futures dropped without get(), futures outliving their pool
//    contract (future.h): get()/then()/when_all as in std::experimental; an exception thrown by the
//    functor is rethrown by every get(); a Future may be destroyed at any time (shared state is
//    reference counted); the backing pool/task set must outlive the *scheduled work*.
// ================================================================================================
static AT gSharedResult(77);  // target of the Future<AT&> results; constructed before any ledger snapshot
template <typename Sched>
static void futureBasics(Rng& rng, Sched& sched, int n, bool drop) {
  std::vector<dispenso::Future<AT>> fs;
  std::vector<dispenso::Future<void>> vs;
  std::vector<dispenso::Future<AT&>> rs;
  for (int i = 0; i < n; ++i) {
    std::launch pol = rng.coin() ? std::launch::async : std::launch::deferred;
    bool thr = rng.below(3) == 0;
    int kind = (int)rng.below(3);
    if (kind == 0)
      fs.emplace_back([c = Cap<0>(i), thr, i]() -> AT { if (thr) throw TestErr(i); return AT(c.get()); }, sched, pol);
    else if (kind == 1)
      vs.emplace_back([c = Cap<100>(i), thr, i]() { if (thr) throw TestErr(i); (void)c.get(); }, sched, pol);
    else
      rs.emplace_back([c = Cap<0>(i), thr, i]() -> AT& { if (thr) throw TestErr(i); (void)c.get(); return gSharedResult; }, sched, pol);
  }
  if (drop) return;  // handles die while the work may still be queued
  for (auto& f : fs) {
    dispenso::Future<AT> copy = f;
    for (int k = 0; k < 2; ++k) {
      try {
        (void)copy.get().get();
      } catch (const TestErr& e) {
        (void)e.t.get();
      }
    }
  }
  for (auto& f : vs) {
    try {
      if (rng.coin()) f.wait_for(std::chrono::microseconds(50));
      f.get();
    } catch (const TestErr&) {
    }
  }
  for (auto& f : rs) {
    try {
      (void)f.get().get();
    } catch (const TestErr&) {
    }
  }
}
static void futureChains(Rng& rng, dispenso::ThreadPool& pool, int n, bool mayDrop) {
  for (int i = 0; i < n; ++i) {
    int depth = 1 + (int)rng.below(4), throwAt = rng.coin() ? (int)rng.below(depth + 1) : -1;
    std::launch pol = rng.coin() ? std::launch::async : dispenso::kNotAsync;
    dispenso::Future<AT> f = dispenso::async(pool, pol, [c = Cap<0>(i), throwAt, i]() -> AT {
      if (throwAt == 0) throw TestErr(i);
      return AT(c.get());
    });
    for (int d = 1; d <= depth; ++d) {
      f = f.then([c = Cap<100>(d), throwAt, d](dispenso::Future<AT>&& prev) -> AT {
        AT in = prev.get();  // rethrows the predecessor's exception into this future
        if (throwAt == d) throw TestErr(d);
        return AT(in.get() + 0 * c.get());
      }, pool, pol);
    }
    if (mayDrop && rng.below(3) == 0) continue;  // chain dropped without get()
    try {
      (void)f.get().get();
    } catch (const TestErr&) {
    }
  }
}
static void futureWhen(Rng& rng, dispenso::ThreadPool& pool, int n) {
  std::vector<dispenso::Future<AT>> in;
  int failing = n ? (int)rng.below(n + 1) : 0;
  for (int i = 0; i < n; ++i)
    in.emplace_back(dispenso::async(pool, rng.coin() ? std::launch::async : std::launch::deferred, [c = Cap<0>(i), i, failing]() -> AT {
      if (i == failing) throw TestErr(i);
      return AT(c.get());
    }));
  int which = (int)rng.below(4);
  if (which == 0) {
    auto all = dispenso::when_all(in.begin(), in.end());
    const auto& vec = all.get();
    for (auto& f : vec) {
      try {
        (void)f.get().get();
      } catch (const TestErr&) {
      }
    }
  } else if (which == 1 && n >= 2) {
    auto all = dispenso::when_all(in[0], in[1]);
    auto& tup = all.get();
    try {
      (void)std::get<0>(tup).get().get();
      (void)std::get<1>(tup).get().get();
    } catch (const TestErr&) {
    }
  } else if (which == 2) {
    dispenso::TaskSet ts(pool);
    auto all = dispenso::when_all(ts, in.begin(), in.end());
    auto after = all.then([](auto&& ready) -> int {
      int ok = 0;
      for (auto& f : ready.get()) {
        try {
          ok += f.get().get() >= 0;
        } catch (const TestErr&) {
        }
      }
      return ok;
    }, ts);
    ts.wait();
    (void)after.get();
  } else {
    auto any = dispenso::when_any(in.begin(), in.end());
    size_t w = any.get();
    if (n && w >= (size_t)n) pfail("future: when_any returned an index out of range", fmt("w=%zu n=%d", w, n));
  }
  for (auto& f : in) f.wait();
}
static void scnFutureThrow(Rng& rng) {
  static const int kThreads[] = {0, 1, 2, 4};
  int nT = kThreads[rng.below(4)], n = 1 + (int)rng.below(12), part = (int)rng.below(6);
  shape(fmt("t%d/n%d/part%d", nT, n > 4, part));
  {
    dispenso::ThreadPool pool((size_t)nT);
    switch (part) {
      case 0: futureBasics(rng, pool, n, false); break;
      case 1: { dispenso::TaskSet ts(pool); futureBasics(rng, ts, n, false); waitClean(ts); } break;
      case 2: { dispenso::ConcurrentTaskSet ts(pool); futureBasics(rng, ts, n, false); waitClean(ts); } break;
      case 3: futureChains(rng, pool, n, false); break;
      case 4: futureWhen(rng, pool, n); break;
      default: {
        dispenso::NewThreadInvoker nt;
        futureBasics(rng, nt, 1 + n / 4, false);
        futureBasics(rng, dispenso::kImmediateInvoker, n, false);
      } break;
    }
  }
}
static void scnFutureUnrun(Rng& rng) {
  static const int kThreads[] = {0, 1, 2, 4};
  int nT = kThreads[rng.below(4)], n = 1 + (int)rng.below(20), part = (int)rng.below(5);
  shape(fmt("t%d/n%d/part%d", nT, n > 4, part));
  std::vector<dispenso::Future<AT>> survivors;
  Gate gate;  // declared before the pool: ~ThreadPool may still run a task that looks at it
  std::atomic<int> started{0};
  {
    dispenso::ThreadPool pool((size_t)nT);
    if (nT > 0 && part < 3) {  // keep the workers busy so that the futures below stay queued
      for (int b = 0; b < nT; ++b) pool.schedule([&]() { started.fetch_add(1); gate.wait(); }, dispenso::ForceQueuingTag());
      pollUntil([&] { return started.load() >= 1; });
    }
    switch (part) {
      case 0: futureBasics(rng, pool, n, true); break;                       // handles dropped, work queued
      case 1: { dispenso::TaskSet ts(pool); futureBasics(rng, ts, n, true); gate.release(); waitClean(ts); } break;
      case 2:                                                                // futures that outlive the pool
        for (int i = 0; i < n; ++i)
          survivors.emplace_back(dispenso::async(pool, std::launch::async, [c = Cap<100>(i), i]() -> AT {
            if ((i % 3) == 0) throw TestErr(i);
            return AT(c.get());
          }));
        break;
      case 4:  // then() chains dropped without get(); their continuations are still pending when the pool dies
        futureChains(rng, pool, n, true);
        break;
      default: {  // never waited deferred futures + make_ready_future values that are never read
        for (int i = 0; i < n; ++i) {
          auto f = dispenso::async(pool, std::launch::deferred, [c = Cap<0>(i)]() -> AT { return AT(c.get()); });
          auto r = dispenso::make_ready_future(AT(i));
          auto r2 = r.then([](dispenso::Future<AT>&& p) { return p.get().get(); }, pool);
          if (rng.coin()) (void)r2.get();
        }
      } break;
    }
    gate.release();
  }  // ~ThreadPool runs what is still queued
  for (auto& f : survivors) {
    try {
      (void)f.get().get();
    } catch (const TestErr&) {
    }
  }
}

#endif
#if C11_ON(4)
// ================================================================================================
// 11./12. TimedTask
//    contract (timed_task.h): the schedulable must outlive the task's runs; ~TimedTask cancels and waits
//    for a run in progress (unless detach()ed, then schedulable and function resources must outlive every
//    copy); cancel() at any time; the function may return false to stop.
// ================================================================================================
static bool timedWaitCalls(dispenso::TimedTask& t, size_t n) {
  bool ok = pollUntil([&] { return t.calls() >= n; }, 60.0);
  if (!ok) pfail("stall:timed_task: expected number of calls not reached within 60 s", fmt("calls=%zu want=%zu", t.calls(), n));
  return ok;
}
template <typename Sched>
static void timedVariants(Rng& rng, dispenso::TimedTaskScheduler& tts, Sched& sched, int variant, bool ownScheduler,
                          std::unique_ptr<dispenso::TimedTaskScheduler>* owner) {
  using namespace std::chrono;
  std::atomic<long long> ran{0};
  switch (variant) {
    case 0: {  // one-shot, runs
      auto t = tts.schedule(sched, [c = Cap<100>(1), &ran]() { ran.fetch_add(1 + 0 * c.get()); return true; }, microseconds(200 + rng.below(800)));
      timedWaitCalls(t, 1);
    } break;
    case 1: {  // cancelled before its first run, task destroyed, entry stays in the scheduler's queue
      auto t = tts.schedule(sched, [c = Cap<100>(1), &ran]() { ran.fetch_add(1 + 0 * c.get()); return true; }, seconds(ownScheduler ? 3600 : 0) + milliseconds(30));
      t.cancel();
    } break;
    case 2: {  // scheduler destroyed with a pending task, the TimedTask handle dies afterwards
      if (!ownScheduler) break;
      auto t = tts.schedule(sched, [c = Cap<100>(1), &ran]() { ran.fetch_add(1 + 0 * c.get()); return true; }, seconds(3600));
      dispenso::TimedTask moved(std::move(t));
      owner->reset();
    } break;
    case 3: {  // periodic with a times-to-run limit
      size_t times = 2 + rng.below(6);
      auto t = tts.schedule(sched, [c = Cap<0>(1), &ran]() { ran.fetch_add(1 + 0 * c.get()); return true; }, microseconds(100), microseconds(150 + rng.below(300)),
                            times, rng.coin() ? dispenso::TimedTaskType::kSteady : dispenso::TimedTaskType::kNormal);
      timedWaitCalls(t, times);
    } break;
    case 4: {  // periodic, cancelled after a few runs
      auto t = tts.schedule(sched, [c = Cap<100>(1), &ran]() { ran.fetch_add(1 + 0 * c.get()); return true; }, microseconds(100), microseconds(200));
      timedWaitCalls(t, 2 + rng.below(3));
      t.cancel();
    } break;
    case 5: {  // cancel while the function is running; the destructor then waits for that run
      if (std::is_same<Sched, const dispenso::ImmediateInvoker>::value) {
        // With ImmediateInvoker a task that is already due runs inside schedule() on the calling thread
        // (timed_task.cpp addTimedTask); the blocking function of this variant would then block the
        // thread that is supposed to release it.  Not used with this schedulable.
        auto t = tts.schedule(sched, [c = Cap<100>(1), &ran]() { ran.fetch_add(1 + 0 * c.get()); return true; }, microseconds(100), microseconds(200));
        timedWaitCalls(t, 2);
        t.cancel();
        break;
      }
      Gate gate;
      std::atomic<int> started{0};
      auto t = tts.schedule(sched, [c = Cap<100>(1), &gate, &started]() { started.store(1); gate.wait(); (void)c.get(); return true; }, microseconds(100),
                            microseconds(200));
      if (!pollUntil([&] { return started.load() == 1; }, 60.0)) pfail("stall:timed_task: function never started", "");
      t.cancel();
      gate.release();
    } break;
    case 6: {  // the function stops itself by returning false
      int stopAt = 1 + (int)rng.below(4);
      auto t = tts.schedule(sched, [c = Cap<100>(1), &ran, stopAt]() { return ran.fetch_add(1 + 0 * c.get()) + 1 < stopAt; }, microseconds(100),
                            microseconds(150 + rng.below(200)));
      pollUntil([&] { return ran.load() >= stopAt; }, 60.0);
      timedWaitCalls(t, (size_t)stopAt);
    } break;
    default: {  // detached task: the handle dies first, the runs happen later
      size_t times = 1 + rng.below(4);
      {
        auto t = tts.schedule(sched, [c = Cap<0>(1), &ran]() { ran.fetch_add(1 + 0 * c.get()); return true; }, microseconds(300), microseconds(200), times);
        t.detach();
      }
      if (!pollUntil([&] { return ran.load() >= (long long)times; }, 60.0)) pfail("stall:timed_task: detached task did not run", "");
    } break;
  }
}
static void scnTimedTask(Rng& rng) {
  int variant = (int)rng.below(8), schedKind = (int)rng.below(3), nT = 1 + (int)rng.below(2);
  bool own = variant == 2 || rng.below(3) != 0;
  shape(fmt("v%d/sched%d/%s", variant, schedKind, own ? "own" : "global"));
  if (own) {
    dispenso::ThreadPool pool((size_t)nT);
    {
      auto owner = std::make_unique<dispenso::TimedTaskScheduler>();
      if (schedKind == 0) timedVariants(rng, *owner, pool, variant, true, &owner);
      else if (schedKind == 1) timedVariants(rng, *owner, dispenso::kImmediateInvoker, variant, true, &owner);
      else {
        // (NewThreadInvoker is documented as a valid schedulable but does not compile with TimedTask:
        //  its thread lambda is not mutable while TimedTaskImpl's wrapper is.)
        dispenso::ConcurrentTaskSet cts(pool);
        timedVariants(rng, *owner, cts, variant, true, &owner);
        waitClean(cts);  // no schedule() can be concurrent any more: the task is finished or destroyed
      }
    }  // ~TimedTaskScheduler (joins its thread)
  } else {
    if (schedKind == 1) timedVariants(rng, dispenso::globalTimedTaskScheduler(), dispenso::kImmediateInvoker, variant, false, nullptr);
    else timedVariants(rng, dispenso::globalTimedTaskScheduler(), dispenso::globalThreadPool(), variant, false, nullptr);
  }
}
// TimedTask destroyed right around the moment it becomes due (documented: the destructor cancels and
// waits for a run in progress).  DESIGN.md lead C26.
static void scnTimedDestroyNearDue(Rng& rng) {
  int rounds = 100 + (int)rng.below(200), schedKind = (int)rng.below(2);
  shape(fmt("sched%d", schedKind));
  using namespace std::chrono;
  std::atomic<long long> ran{0};
  dispenso::ThreadPool pool(2);
  dispenso::TimedTaskScheduler tts;
  for (int r = 0; r < rounds; ++r) {
    int due = (int)rng.below(120), hold = (int)rng.below(160);
    auto body = [c = Cap<100>(r), &ran]() { ran.fetch_add(1 + 0 * c.get()); return true; };
    auto t0 = steady_clock::now();
    if (schedKind == 0) {
      auto t = tts.schedule(pool, body, microseconds(due), microseconds(40), 3);
      while (duration_cast<microseconds>(steady_clock::now() - t0).count() < hold) {
      }
    } else {
      auto t = tts.schedule(dispenso::kImmediateInvoker, body, microseconds(due), microseconds(40), 3);
      while (duration_cast<microseconds>(steady_clock::now() - t0).count() < hold) {
      }
    }
  }
}

#endif
#if C11_ON(4)
// ================================================================================================
// 13. graphs: node functors that throw, subgraph clear, BiProp sets, destruction with incomplete nodes
//    contract: tests/graph_test.cpp (GraphExceptionSafety): an exception thrown by a node propagates out
//    of every executor and the pool stays usable.
// ================================================================================================
template <typename G, size_t N>
static void graphRun(Rng& rng, int nT, int nNodes, int nSub, int execKind, int nThrow) {
  using NodeT = typename G::NodeType;
  std::atomic<long long> ran{0};
  std::atomic<bool> throwsArmed{true};
  std::set<int> throwers;
  for (int k = 0; k < nThrow; ++k) throwers.insert((int)rng.below(nNodes));
  dispenso::ThreadPool pool((size_t)nT);
  {
    G graph;
    std::vector<dispenso::SubgraphT<NodeT>*> subs;
    for (int s = 0; s < nSub; ++s) subs.push_back(&graph.addSubgraph());
    std::vector<NodeT*> nodes;
    std::vector<int> home;
    auto addTo = [&](int where, int id) -> NodeT& {
      bool thr = throwers.count(id) > 0;
      auto fn = [c = Cap<N>(id), &ran, &throwsArmed, thr, id]() {
        ran.fetch_add(1 + 0 * c.get());
        if (thr && throwsArmed.load()) throw TestErr(id);
      };
      return where < 0 ? graph.addNode(std::move(fn)) : subs[(size_t)where]->addNode(std::move(fn));
    };
    for (int i = 0; i < nNodes; ++i) {
      int where = nSub ? (int)rng.below((uint64_t)nSub + 1) - 1 : -1;
      nodes.push_back(&addTo(where, i));
      home.push_back(where);
      int nDeps = i ? (int)rng.below(std::min(i, 3) + 1) : 0;
      std::set<int> deps;
      for (int d = 0; d < nDeps; ++d) deps.insert((int)rng.below(i));
      for (int d : deps) nodes.back()->dependsOn(*nodes[(size_t)d]);
      if constexpr (std::is_same<NodeT, dispenso::BiPropNode>::value) {
        if (i && rng.below(4) == 0) {
          int d = (int)rng.below(i);
          if (!deps.count(d)) nodes.back()->biPropDependsOn(*nodes[(size_t)d]);
        }
      }
    }
    auto execute = [&](G& g) {
      try {
        if (execKind == 0) {
          dispenso::SingleThreadExecutor ex;
          ex(g);
        } else if (execKind == 1) {
          dispenso::TaskSet ts(pool);
          dispenso::ParallelForExecutor ex;
          try {
            ex(ts, g);
          } catch (const TestErr&) {
          }
          waitClean(ts);
        } else if (execKind == 2) {
          dispenso::ConcurrentTaskSet ts(pool);
          dispenso::ParallelForExecutor ex;
          try {
            ex(ts, g);
          } catch (const TestErr&) {
          }
          waitClean(ts);
        } else {
          dispenso::ConcurrentTaskSet ts(pool);
          dispenso::ConcurrentTaskSetExecutor ex;
          try {
            ex(ts, g);
          } catch (const TestErr&) {
          }
          waitClean(ts);
        }
      } catch (const TestErr&) {
      }
    };
    setAllNodesIncomplete(graph);
    execute(graph);
    int plan = (int)rng.below(4);
    if (plan == 1 && nSub) {
      // clear one subgraph (destroys its nodes and their functors), rebuild it, run everything again
      int s = (int)rng.below((uint64_t)nSub);
      subs[(size_t)s]->clear();
      std::vector<NodeT*> keep;
      for (int i = 0; i < nNodes; ++i) if (home[(size_t)i] != s) keep.push_back(nodes[(size_t)i]);
      int fresh = 1 + (int)rng.below(4);
      for (int i = 0; i < fresh; ++i) {
        NodeT& nn = addTo(s, 10000 + i);
        if (!keep.empty() && rng.coin()) nn.dependsOn(*keep[rng.below(keep.size())]);
      }
      throwsArmed.store(false);
      setAllNodesIncomplete(graph);
      execute(graph);
    } else if (plan == 2) {
      // partial re-evaluation after an exception left nodes incomplete
      throwsArmed.store(rng.coin());
      if (!nodes.empty()) nodes[rng.below(nodes.size())]->setIncomplete();
      dispenso::ForwardPropagator fp;
      fp(graph);
      execute(graph);
    } else if (plan == 3) {
      G moved(std::move(graph));
      throwsArmed.store(false);
      setAllNodesIncomplete(moved);
      execute(moved);
    }
  }  // graph destroyed, possibly with nodes that never completed
}
static void scnGraphThrow(Rng& rng) {
  static const int kThreads[] = {1, 2, 4, 8};
  int nT = kThreads[rng.below(4)], nNodes = 1 + (int)rng.below(40), nSub = (int)rng.below(3), execKind = (int)rng.below(4);
  int nThrow = (int)rng.below(3), cls = (int)rng.below(2);
  bool biprop = rng.coin();
  shape(fmt("%s/t%d/n%d/sub%d/exec%d/thr%d/size%d", biprop ? "biprop" : "plain", nT, nNodes > 10 ? 2 : nNodes > 2 ? 1 : 0, nSub, execKind, nThrow, cls));
  withSize2(cls, [&](auto tagN) {
    constexpr size_t N = decltype(tagN)::value;
    if (biprop) graphRun<dispenso::BiPropGraph, N>(rng, nT, nNodes, nSub, execKind, nThrow);
    else graphRun<dispenso::Graph, N>(rng, nT, nNodes, nSub, execKind, nThrow);
  });
}

#endif
#if C11_ON(5)
// ================================================================================================
// 14./15. parallel_for / for_each bodies that throw
//    contract (docs/faq.md "What happens if a lambda throws inside parallel_for?"): exceptions are
//    caught and stored, the first is rethrown when the calling thread waits; states and data must
//    outlive the scheduled work, so the harness always waits on its own task set before leaving scope.
// ================================================================================================
struct St {
  AT t;
  long long sum = 0;
  St() : t(1) {}
};
template <typename SetT>
static void parForRun(Rng& rng, dispenso::ThreadPool& pool, int n, int chunkKind, bool wait, const std::set<int>& throwers, int form,
                      std::atomic<long long>& visited) {
  std::vector<AT> data;
  data.reserve((size_t)n);
  for (int i = 0; i < n; ++i) data.emplace_back(i);
  std::vector<St> statesV;
  std::list<St> statesL;
  std::deque<St> statesD;
  SetT ts(pool);
  dispenso::ParForOptions opt;
  opt.wait = wait;
  if (rng.below(4) == 0) opt.maxThreads = 1 + (uint32_t)rng.below(5);
  if (rng.below(4) == 0) opt.minItemsPerChunk = 1 + (uint32_t)rng.below(9);
  if (rng.below(5) == 0) opt.granularity = 1 + (uint32_t)rng.below(8);
  int lo = (int)rng.below(3);
  auto touch = [&data, &throwers, &visited](int i) {
    visited.fetch_add(1, std::memory_order_relaxed);
    if (data[(size_t)i].get() != i) visited.fetch_add(1000000);
    if (throwers.count(i)) throw TestErr(i);
  };
  auto range = chunkKind == 0 ? dispenso::ChunkedRange<int>(lo, n, dispenso::ChunkedRange<int>::Static())
      : chunkKind == 1      ? dispenso::ChunkedRange<int>(lo, n, dispenso::ChunkedRange<int>::Auto())
                            : dispenso::ChunkedRange<int>(lo, n, chunkKind == 2 ? 1 : chunkKind == 3 ? 3 : 17);
  opt.defaultChunking = chunkKind == 0 ? dispenso::ParForChunking::kStatic : dispenso::ParForChunking::kAdaptive;
  try {
    switch (form) {
      case 0:  // states in a std::vector, range body
        dispenso::parallel_for(ts, statesV, []() { return St(); }, range, [touch](St& s, int b, int e) {
          for (int i = b; i < e; ++i) { touch(i); s.sum += s.t.get(); }
        }, opt);
        break;
      case 1:  // no states, range body
        dispenso::parallel_for(ts, range, [touch](int b, int e) { for (int i = b; i < e; ++i) touch(i); }, opt);
        break;
      case 2:  // no states, index body
        dispenso::parallel_for(ts, lo, n, [touch](int i) { touch(i); }, opt);
        break;
      case 3:  // states in a std::list, index body
        dispenso::parallel_for(ts, statesL, []() { return St(); }, lo, n, [touch](St& s, int i) { touch(i); s.sum += s.t.get(); }, opt);
        break;
      default:  // states in a std::deque, range body
        dispenso::parallel_for(ts, statesD, []() { return St(); }, range, [touch](St& s, int b, int e) {
          for (int i = b; i < e; ++i) { touch(i); s.sum += s.t.get(); }
        }, opt);
        break;
    }
  } catch (const TestErr&) {
  }
  waitClean(ts);  // states / data / ts are destroyed only after every scheduled chunk is finished
}
// mode 0: wait=false (the caller runs no chunk); 1: wait=true, static chunking; 2: wait=true, dynamic or
// adaptive chunking.  Three scenarios so that a sanitizer abort in one does not hide the others.
static void parallelForThrowScenario(Rng& rng, int mode) {
  static const int kThreads[] = {1, 2, 3, 4, 8, 16};
  int nT = kThreads[rng.below(6)], n = 1 + (int)rng.below(rng.coin() ? 40 : 3000), form = (int)rng.below(5);
  int chunkKind = mode == 1 ? 0 : mode == 2 ? 1 + (int)rng.below(4) : (int)rng.below(5);
  bool wait = mode != 0;
  int nThrow = (int)rng.below(3), setKind = (int)rng.below(2);
  std::set<int> throwers;
  for (int k = 0; k < nThrow; ++k) throwers.insert((int)rng.below(n));
  if (nThrow && rng.coin()) throwers.insert(n - 1);  // static chunking: the last chunk is the calling thread's
  bool global = wait && rng.below(6) == 0;
  shape(fmt("t%d/n%d/chunk%d/form%d/thr%d/set%d%s", nT, n > 500 ? 2 : n > 16 ? 1 : 0, chunkKind, form, (int)throwers.size(), setKind,
            global ? "/global" : ""));
  std::atomic<long long> visited{0};
  if (global) {
    // convenience overloads on the global pool (always wait).  At most one thrower: with two, the
    // internal TaskSet could be destroyed with a second exception pending, which terminates.
    std::set<int> one;
    if (!throwers.empty()) one.insert(*throwers.begin());
    std::vector<AT> data;
    for (int i = 0; i < n; ++i) data.emplace_back(i);
    try {
      dispenso::parallel_for(dispenso::makeChunkedRange(0, n, chunkKind == 0 ? dispenso::ParForChunking::kStatic : dispenso::ParForChunking::kAdaptive),
                             [&data, &one, &visited](int b, int e) {
                               for (int i = b; i < e; ++i) {
                                 visited.fetch_add(1 + (data[(size_t)i].get() != i ? 1000000 : 0));
                                 if (one.count(i)) throw TestErr(i);
                               }
                             });
    } catch (const TestErr&) {
    }
  } else {
    dispenso::ThreadPool pool((size_t)nT);
    if (setKind == 0) parForRun<dispenso::TaskSet>(rng, pool, n, chunkKind, wait, throwers, form, visited);
    else parForRun<dispenso::ConcurrentTaskSet>(rng, pool, n, chunkKind, wait, throwers, form, visited);
  }
  if (visited.load() >= 1000000) pfail("parallel_for: element corrupted when visited", "");
}
static void scnParallelForThrowNoWait(Rng& rng) { parallelForThrowScenario(rng, 0); }
static void scnParallelForThrowStatic(Rng& rng) { parallelForThrowScenario(rng, 1); }
static void scnParallelForThrowDynamic(Rng& rng) { parallelForThrowScenario(rng, 2); }
#endif
#if C11_ON(0)
template <typename SetT, typename Cont>
static void forEachRun(Rng& rng, dispenso::ThreadPool& pool, int n, bool wait, const std::set<int>& throwers, std::atomic<long long>& visited) {
  Cont data;
  for (int i = 0; i < n; ++i) data.emplace_back(i);
  SetT ts(pool);
  dispenso::ForEachOptions opt;
  opt.wait = wait;
  if (rng.below(4) == 0) opt.maxThreads = (uint32_t)rng.below(5);
  try {
    auto body = [&throwers, &visited](AT& a) {
      visited.fetch_add(1);
      int i = a.get();
      if (throwers.count(i)) throw TestErr(i);
    };
    if (rng.coin()) dispenso::for_each(ts, data.begin(), data.end(), body, opt);
    else dispenso::for_each_n(ts, data.begin(), (size_t)n, body, opt);
  } catch (const TestErr&) {
  }
  waitClean(ts);
}
static void scnForEachThrow(Rng& rng) {
  static const int kThreads[] = {0, 1, 2, 4, 8};
  int nT = kThreads[rng.below(5)], n = (int)rng.below(rng.coin() ? 30 : 600), contKind = (int)rng.below(3), setKind = (int)rng.below(2);
  bool wait = rng.below(3) != 0;
  std::set<int> throwers;
  int nThrow = (int)rng.below(3);
  for (int k = 0; k < nThrow && n; ++k) throwers.insert((int)rng.below(n));
  if (nThrow && n && rng.coin()) throwers.insert(n - 1);
  shape(fmt("t%d/n%d/%s/thr%d/cont%d/set%d", nT, n > 100 ? 2 : n > 8 ? 1 : 0, wait ? "wait" : "nowait", (int)throwers.size(), contKind, setKind));
  std::atomic<long long> visited{0};
  dispenso::ThreadPool pool((size_t)nT);
  auto go = [&](auto setTag) {
    using SetT = typename decltype(setTag)::type;
    if (contKind == 0) forEachRun<SetT, std::vector<AT>>(rng, pool, n, wait, throwers, visited);
    else if (contKind == 1) forEachRun<SetT, std::list<AT>>(rng, pool, n, wait, throwers, visited);
    else forEachRun<SetT, std::deque<AT>>(rng, pool, n, wait, throwers, visited);
  };
  if (setKind == 0) go(std::common_type<dispenso::TaskSet>());
  else go(std::common_type<dispenso::ConcurrentTaskSet>());
}

#endif
#if C11_ON(0)
// ================================================================================================
// 16. containers and allocators, briefly (they have dedicated checks): only operations with a
//    documented behaviour; ConcurrentVector::at() is the one documented throwing operation.
// ================================================================================================
// chunks of one SmallBufferAllocator size class allocated here and freed on a thread that does nothing else
// and exits: the exiting thread's cache must go back to the central store, so the allocator's backing
// memory stops growing after the first rounds
template <size_t kBytes>
static void sbaFreeOnlyThread(int m) {
  constexpr int kRounds = 24, kWarm = 8;
  size_t atWarm = 0;
  for (int r = 0; r < kRounds; ++r) {
    std::vector<char*> bufs;
    for (int i = 0; i < m; ++i) { bufs.push_back(dispenso::allocSmallBuffer<kBytes>()); std::memset(bufs.back(), 0x5A, kBytes); }
    std::thread freer([&] { for (char* b : bufs) dispenso::deallocSmallBuffer<kBytes>(b); });
    freer.join();
    if (r + 1 == kWarm) atWarm = dispenso::approxBytesAllocatedSmallBuffer<kBytes>();
  }
  size_t atEnd = dispenso::approxBytesAllocatedSmallBuffer<kBytes>();
  // a leak loses (kRounds - kWarm) * m chunks; report when at least half of that appeared as new backing memory
  // (and at least two slabs, so that one slab fetched late for an unrelated reason is never reported)
  if (atEnd > atWarm && (atEnd - atWarm) * 2 >= (size_t)(kRounds - kWarm) * (size_t)m * kBytes && atEnd - atWarm >= 49152)
    pfail("leak:containers: small buffers freed on a thread that then exits are never returned to the allocator",
          fmt("class=%zu chunks/round=%d backing bytes after %d rounds %zu, after %d rounds %zu", kBytes, m, kWarm, atWarm, kRounds, atEnd));
}

static void scnContainers(Rng& rng) {
  int n = 1 + (int)rng.below(200), part = (int)rng.below(7);
  shape(fmt("part%d/n%d", part, n > 40 ? 2 : n > 5 ? 1 : 0));
  switch (part) {
    case 0: {
      dispenso::ConcurrentVector<AT> v;
      std::thread other([&] { for (int i = 0; i < n; ++i) v.emplace_back(i); });
      for (int i = 0; i < n; ++i) v.push_back(AT(i));
      other.join();
      v.grow_by((size_t)rng.below(10), AT(3));
      try {
        (void)v.at(v.size() + rng.below(5)).get();
        pfail("containers: ConcurrentVector::at() beyond size() did not throw", "");
      } catch (const std::out_of_range&) {
      }
      dispenso::ConcurrentVector<AT> copy(v);
      dispenso::ConcurrentVector<AT> moved(std::move(v));
      copy.clear();
      long long s = 0;
      for (auto& a : moved) s += a.get();
      (void)s;
    } break;
    case 5: {
      // assignment into a destination that already owns several buckets, then both sides destroyed
      dispenso::ConcurrentVector<AT> dst, src, third;
      for (int i = 0; i < n + 40; ++i) dst.emplace_back(i);
      for (int i = 0; i < (int)rng.below(60); ++i) src.emplace_back(i);
      for (int i = 0; i < (int)rng.below(300); ++i) third.emplace_back(i);
      if (rng.below(2)) dst = std::move(src); else dst = src;
      if (rng.below(2)) third = std::move(dst);
      if (rng.below(2)) third.swap(src);
      if (rng.below(3) == 0) third.shrink_to_fit();
      long long s = 0;
      for (auto& a : third) s += a.get();
      (void)s;
    } break;
    case 6: {
      // chunk counts stay below each size class's thread-local cache limit (192 / 112 / 64)
      switch (rng.below(3)) {
        case 0: sbaFreeOnlyThread<64>(60 + (int)rng.below(40)); break;
        case 1: sbaFreeOnlyThread<128>(60 + (int)rng.below(40)); break;
        default: sbaFreeOnlyThread<256>(24 + (int)rng.below(8)); break;
      }
    } break;
    case 1: {
      dispenso::SmallVector<AT, 4> v;
      for (int i = 0; i < n; ++i) { v.emplace_back(i); if (rng.below(5) == 0) v.pop_back(); }
      dispenso::SmallVector<AT, 4> c(v);
      dispenso::SmallVector<AT, 4> m(std::move(v));
      c = m;
      m.clear();
    } break;
    case 2: {
      for (int i = 0; i < n; ++i) {
        dispenso::OpResult<AT> a;
        dispenso::OpResult<AT> b{AT(i)};
        a = b;
        dispenso::OpResult<AT> c(std::move(b));
        a = std::move(c);
        if (a) (void)a.value().get();
        std::optional<AT> o = AT(i);
        o.reset();
      }
    } break;
    case 3: {
      struct E { int v = 7; char pad[24]; };
      dispenso::ConcurrentObjectArena<E> arena((size_t)(1 + rng.below(16)));
      std::thread other([&] { for (int i = 0; i < n; ++i) arena.grow_by((size_t)(1 + (i & 3))); });
      for (int i = 0; i < n; ++i) { size_t at = arena.grow_by(1); arena[at].v = i; }
      other.join();
      dispenso::ConcurrentObjectArena<E> copy(arena);
      dispenso::ConcurrentObjectArena<E> moved(std::move(arena));
      long long s = 0;
      for (size_t i = 0; i < copy.size(); ++i) s += copy[i].v;
      (void)s;
    } break;
    default: {
      dispenso::PoolAllocator pa(64, 64 * (size_t)(1 + rng.below(8)), ::malloc, ::free);
      std::vector<char*> held;
      for (int i = 0; i < n; ++i) {
        if (held.empty() || rng.below(3)) { held.push_back(pa.alloc()); std::memset(held.back(), 1, 64); }
        else { size_t k = rng.below(held.size()); pa.dealloc(held[k]); held[k] = held.back(); held.pop_back(); }
      }
      for (char* p : held) pa.dealloc(p);
      dispenso::NoLockPoolAllocator npa(32, 32 * 5, ::malloc, ::free);
      for (int i = 0; i < n; ++i) std::memset(npa.alloc(), 2, 32);
      npa.clear();
    } break;
  }
}

#endif
// ------------------------------------------------------------------------------------------------
// Watchdog: a repetition that makes no progress for kStallSeconds is reported as a stall of its scenario
// and the process ends (the python side would otherwise only see a time-out without the shape).
static std::atomic<long long> gHeartbeat{0};
static std::atomic<bool> gDone{false};
static constexpr int kStallSeconds = 40;
static void watchdogLoop() {
  long long last = -1;
  int quiet = 0;
  while (!gDone.load(std::memory_order_acquire)) {
    std::this_thread::sleep_for(std::chrono::milliseconds(250));
    long long h = gHeartbeat.load(std::memory_order_acquire);
    if (h != last) {
      last = h;
      quiet = 0;
    } else if (++quiet >= kStallSeconds * 4) {
      std::lock_guard<std::mutex> lk(gShapeMutex);
      std::printf("PFAIL stall:%s: a repetition did not finish within %d s | shape=%s\n", gEnv.scenario, kStallSeconds, gEnv.curShape.c_str());
      std::fflush(stdout);
      std::_Exit(0);
    }
  }
}

// Bring the process-wide caches that only ever grow to a level the scenarios cannot exceed, so that the
// allocation-balance check is not disturbed by their high-water marks: the SmallBufferAllocator central
// stores (slabs, and the blocks each moodycamel producer of a store keeps for itself), the per-thread
// producer records of those stores and glibc's cache of thread stacks / TLS blocks.
template <size_t kSize>
static void prewarmClass(int n) {
  std::vector<char*> held;
  held.reserve((size_t)n);
  for (int i = 0; i < n; ++i) held.push_back(dispenso::allocSmallBuffer<kSize>());
  for (char* p : held) dispenso::deallocSmallBuffer<kSize>(p);
}
static void prewarm() {
  constexpr int kThreads = 28;
  std::atomic<int> arrived{0};
  std::vector<std::thread> ts;
  for (int t = 0; t < kThreads; ++t)
    ts.emplace_back([&arrived] {
      arrived.fetch_add(1);
      while (arrived.load() < kThreads) std::this_thread::yield();  // all threads alive at once
      prewarmClass<8>(300);
      prewarmClass<16>(300);
      prewarmClass<32>(300);
      prewarmClass<64>(600);
      prewarmClass<128>(600);
      prewarmClass<256>(600);
    });
  for (auto& t : ts) t.join();
}

struct Scenario {
  const char* name;
  void (*fn)(Rng&);
  int weight;  // repetitions = reps * weight / 4
};
static const Scenario kScenarios[] = {
#if C11_ON(0)
    {"once_function", scnOnceFunction, 8},
    {"taskset_cancel", scnTaskSetCancel, 4},
    {"pool_shutdown", scnPoolShutdown, 4},
    {"containers", scnContainers, 5},
    {"for_each_throw", scnForEachThrow, 4},
#endif
#if C11_ON(1)
    {"taskset_throw", scnTaskSetThrow, 4},
    {"ctaskset_throw", scnConcurrentTaskSetThrow, 4},
#endif
#if C11_ON(2)
    {"pipeline_throw", scnPipelineThrow, 4},
    {"pipeline_throw_pargen", scnPipelineThrowParGen, 3},
    {"pipeline_filter", scnPipelineFilter, 3},
    {"pipeline_nested_throw", scnPipelineNested, 2},
#endif
#if C11_ON(3)
    {"future_throw", scnFutureThrow, 4},
    {"future_unrun", scnFutureUnrun, 4},
#endif
#if C11_ON(4)
    {"timed_task", scnTimedTask, 3},
    {"timed_destroy_near_due", scnTimedDestroyNearDue, 1},
    {"graph_throw", scnGraphThrow, 4},
#endif
#if C11_ON(5)
    {"parallel_for_throw_nowait", scnParallelForThrowNoWait, 3},
    {"parallel_for_throw_static", scnParallelForThrowStatic, 3},
    {"parallel_for_throw_dynamic", scnParallelForThrowDynamic, 3},
#endif
};

static uint64_t hashName(const char* s) {
  uint64_t h = 1469598103934665603ull;
  for (; *s; ++s) h = (h ^ (unsigned char)*s) * 1099511628211ull;
  return h;
}

// TOLERANCE kGrowthTol = max(3, K/3) unexplained surviving blocks in each of the two measured passes of K
// repetitions: a block can survive legitimately when a lazily initialised object is first touched after
// the warm-up pass because thread interleaving took another path there; that does not repeat in both
// passes, a leak of one block in at least every third repetition does (rarer ones are left to LSan, the
// ledgers and the small-buffer chunk balance).  The caches in `kExplained` were identified with
// C11_TRACE_GROWTH=1, which prints every survivor with its allocation stack.
static void runScenario(const Scenario& sc, uint64_t seed, long long reps, long long onlyRep) {
  gEnv.scenario = sc.name;
  gEnv.reported.clear();
  std::printf("SCN %s\n", sc.name);
  std::fflush(stdout);
  long long n = std::max<long long>(4, reps * sc.weight / 4);
  long long k = std::max<long long>(6, n / 2);
  if (k > n) k = n;
  long long growth[3] = {0, 0, 0};
  const bool traceGrowth = std::getenv("C11_TRACE_GROWTH") != nullptr;
  long long kGrowthTol = std::max<long long>(3, k / 3);
  survReset();
  for (int cycle = 0; cycle < 3; ++cycle) {
    gEnv.cycle = cycle;
    long long todo = cycle == 0 ? n : k;
    gSurvNow.store(cycle, std::memory_order_relaxed);  // cycle 0 (warm-up) is not recorded
    long long before = liveAllocs();
    for (long long rep = 0; rep < todo; ++rep) {
      if (onlyRep >= 0 && rep != onlyRep) continue;
      Rng rng(seed * 0x9E3779B97F4A7C15ull ^ hashName(sc.name) ^ (uint64_t)rep * 0xD1B54A32D192ED03ull);
      Snapshot s0 = snap();
      long long live0 = liveAllocs();
      gHeartbeat.fetch_add(1, std::memory_order_release);
      sc.fn(rng);
      gHeartbeat.fetch_add(1, std::memory_order_release);
      settleAndCheck(s0);
      if (traceGrowth) {  // diagnostics: C11_TRACE_GROWTH=1 prints the allocation balance of every repetition
        std::printf("GROW cycle=%d rep=%lld delta=%lld shape=%s\n", cycle, rep, liveAllocs() - live0, gEnv.curShape.c_str());
      }
      if (cycle == 0) ++gEnv.cases;
    }
    growth[cycle] = liveAllocs() - before;
  }
  gSurvNow.store(0, std::memory_order_relaxed);
  long long unexplained[3];
  std::string site;
  classifySurvivors(unexplained, site, traceGrowth);
  if (unexplained[1] >= kGrowthTol && unexplained[2] >= kGrowthTol)
    pfail(std::string("leak:") + sc.name + ": heap allocations grow per repetition",
          fmt("%lld and %lld blocks allocated in two passes of %lld repetitions after the warm-up are still live and are not part of a known "
              "process-lifetime cache (live allocations grew by %lld and %lld); one of them: ", unexplained[1], unexplained[2], k, growth[1],
              growth[2]) + site);
  std::printf("STAT unexplained_%s %lld\n", sc.name, unexplained[1] + unexplained[2]);
  std::printf("STAT growth1_%s %lld\nSTAT growth2_%s %lld\n", sc.name, growth[1], sc.name, growth[2]);
}

int main(int argc, char** argv) {
  if (argc > 1 && std::string(argv[1]) == "--list") {
    for (const auto& s : kScenarios) std::printf("%s\n", s.name);
    return 0;
  }
  uint64_t seed = (uint64_t)vh::argInt(argc, argv, 1, 1);
  long long reps = vh::argInt(argc, argv, 2, 8);
  std::string only = vh::argOr(argc, argv, 3, "");
  long long onlyRep = vh::argInt(argc, argv, 4, -1);  // debugging aid: run just this repetition index
  bool any = false;
  prewarm();
  std::thread watchdog(watchdogLoop);
  for (const auto& s : kScenarios) {
    if (!only.empty() && only != s.name) continue;
    any = true;
    runScenario(s, seed, reps, onlyRep);
  }
  gDone.store(true, std::memory_order_release);
  watchdog.join();
  if (!any) {
    std::printf("PFAIL unknown scenario | %s\n", only.c_str());
  }
  std::printf("STAT cases %lld\n", gEnv.cases);
  std::fflush(stdout);
  return 0;
}
