// C45 black-box oracle (no access to library internals): threadId() is stable per thread and unique per
// process, for threads created during static initialization (this translation unit is linked before
// thread_id.cpp, so its globals are constructed first), for bursts of concurrently created threads, and
// across separately linked modules.
// usage: c45_blackbox <seed> <rounds>
#include <dispenso/thread_id.h>
#include <atomic>
#include <cstdio>
#include <cstdlib>
#include <mutex>
#include <set>
#include <thread>
#include <vector>
#include "common.h"

extern "C" uint64_t c45PluginThreadId();

namespace {
std::mutex gM;
std::vector<uint64_t> gAll;      // first id of every thread ever seen in this process
bool gUnstable = false, gModuleSplit = false;

void observe(int calls, bool viaPluginFirst) {
  uint64_t first = viaPluginFirst ? c45PluginThreadId() : dispenso::threadId();
  bool unstable = false, split = false;
  for (int k = 0; k < calls; ++k) {
    if (dispenso::threadId() != first) unstable = true;
    if (c45PluginThreadId() != first) split = true;
  }
  std::lock_guard<std::mutex> lk(gM);
  gAll.push_back(first);
  gUnstable |= unstable && !split;
  gModuleSplit |= split;
}

struct EarlyService {
  EarlyService() {
    observe(2, false);                                  // the initial thread, during static initialization
    std::vector<std::thread> ths;
    for (int i = 0; i < 4; ++i) ths.emplace_back([] { observe(2, false); });
    for (auto& t : ths) t.join();
  }
} gEarly;
}  // namespace

int main(int argc, char** argv) {
  uint64_t seed = vh::argInt(argc, argv, 1, 1);
  long long rounds = vh::argInt(argc, argv, 2, 20);
  vh::SplitMix rng(seed);
  long long cases = 0;
  observe(3, true);                                     // main thread again: must be the id it had before main
  {
    std::lock_guard<std::mutex> lk(gM);
    if (gAll.back() != gAll.front()) gUnstable = true;
    gAll.pop_back();
  }
  for (long long r = 0; r < rounds; ++r) {
    int n = (int)rng.range(1, 64), calls = (int)rng.range(1, 4);
    std::atomic<int> go{0};
    std::vector<std::thread> ths;
    for (int i = 0; i < n; ++i)
      ths.emplace_back([&, i] { while (!go.load(std::memory_order_acquire)) std::this_thread::yield(); observe(calls, (i & 1) != 0); });
    go.store(1, std::memory_order_release);
    for (auto& t : ths) t.join();
    ++cases;
    std::printf("NT t%d c%d\n", n, calls);
  }
  std::set<uint64_t> seen;
  bool unique = true;
  for (auto x : gAll) unique &= seen.insert(x).second;
  if (gUnstable) std::printf("PFAIL threadId changed during the lifetime of a thread | black-box, threads=%zu\n", gAll.size());
  if (gModuleSplit) std::printf("PFAIL threadId differs between two modules of the process on one thread | black-box, threads=%zu\n", gAll.size());
  if (!unique) std::printf("PFAIL threadId returned the same value for two distinct threads | black-box incl. threads created during static initialization, threads=%zu distinct=%zu\n", gAll.size(), seen.size());
  std::printf("STAT cases %lld\nSTAT bb_threads %zu\n", cases, gAll.size());
  return 0;
}
