// C43: CpuSet set algebra, Linux CPU-list parsing and cache-topology grouping vs the Lean model.
// usage: c43_cpuset <seed> <rounds> <maxlen exhaustive grammar strings>
#include <dispenso/cpu_set.h>
#include <algorithm>
#include <map>
#include <set>
#include <string>
#include <vector>
#include "common.h"

using dispenso::CpuSet;
static long long cases = 0;

static void emitSummary(const char* req, const CpuSet& s, const std::set<int>& ref, int containsArg, bool hasContains) {
  long sum = 0; int cnt = 0;
  for (int i = 0; i < 1024; ++i) if (s.contains(i)) { ++cnt; sum += i; }
  if (cnt != s.count()) std::printf("PFAIL CpuSet count() differs from the number of contained ids | %s\n", req);
  // oracle: mathematical set over the representable ids
  long rsum = 0; for (int v : ref) rsum += v;
  if ((int)ref.size() != cnt || rsum != sum) std::printf("PFAIL CpuSet differs from the mathematical set | %s count=%d ref=%zu\n", req, cnt, ref.size());
  if (hasContains) {
    bool c = s.contains(containsArg);
    if (c != (ref.count(containsArg) > 0)) std::printf("PFAIL CpuSet contains() wrong | %s\n", req);
    std::printf("Q cpuset %s => %d %ld %d\n", req, cnt, sum, c ? 1 : 0);
  } else std::printf("Q cpuset %s => %d %ld\n", req, cnt, sum);
}

static void parseCase(const std::string& str, bool grammar, const std::set<int>* denoted) {
  ++cases;
  CpuSet s = dispenso::detail::parseLinuxCpuList(str.c_str());
  std::string req = "parse";
  for (unsigned char ch : str) req += " " + std::to_string((int)ch);
  std::string ids; int cnt = 0;
  for (int i = 0; i < 1024; ++i) if (s.contains(i)) { ids += " " + std::to_string(i); ++cnt; }
  std::printf("Q cpuset %s => %d%s\n", req.c_str(), cnt, ids.c_str());
  if (grammar && denoted) {
    std::set<int> got; for (int i = 0; i < 1024; ++i) if (s.contains(i)) got.insert(i);
    if (got != *denoted) std::printf("PFAIL parseLinuxCpuList does not yield the ids the list denotes | str=%s\n", str.c_str());
  }
}

int main(int argc, char** argv) {
  uint64_t seed = vh::argInt(argc, argv, 1, 1);
  long long R = vh::argInt(argc, argv, 2, 300);
  int maxLen = (int)vh::argInt(argc, argv, 3, 4);
  vh::SplitMix rng(seed);
  // ---- set algebra
  for (long long r = 0; r < R; ++r) {
    CpuSet s; std::set<int> ref;
    std::printf("Q cpuset reset => ok\n");
    int nops = 1 + (int)rng.below(14);
    for (int k = 0; k < nops; ++k) {
      auto pickId = [&]() -> int {
        switch (rng.below(8)) { case 0: return -1; case 1: return -(int)rng.below(5000); case 2: return 1023; case 3: return 1024; case 4: return 1025 + (int)rng.below(100000);
          case 5: return rng.coin() ? INT32_MAX : INT32_MIN; default: return (int)rng.below(1024); }
      };
      int a = pickId(), b = pickId();
      char req[80];
      ++cases;
      switch (rng.below(5)) {
        case 0: std::snprintf(req, sizeof req, "add %d", a); s.add(a); if (a >= 0 && a < 1024) ref.insert(a); emitSummary(req, s, ref, 0, false); break;
        case 1: if (b - (long long)a > 3000 && a >= 0) b = a + (int)rng.below(300);
                std::snprintf(req, sizeof req, "addRange %d %d", a, b); s.addRange(a, b);
                for (long long i = std::max(a, 0); i < std::min<long long>(b, 1024); ++i) ref.insert((int)i); emitSummary(req, s, ref, 0, false); break;
        case 2: std::snprintf(req, sizeof req, "remove %d", a); s.remove(a); ref.erase(a); emitSummary(req, s, ref, 0, false); break;
        case 3: std::snprintf(req, sizeof req, "removeRange %d %d", a, b); s.removeRange(a, b);
                for (long long i = std::max(a, 0); i < std::min<long long>(b, 1024); ++i) ref.erase((int)i); emitSummary(req, s, ref, 0, false); break;
        default: std::snprintf(req, sizeof req, "contains %d", a); emitSummary(req, s, ref, a, true); break;
      }
    }
  }
  // ---- parser: every string over {0,1,9,-,,} up to maxLen (compared with the model), grammar strings with their denotation
  {
    const char alpha[] = {'0', '1', '9', '-', ','};
    std::vector<std::string> cur = {""};
    for (int len = 1; len <= maxLen; ++len) {
      std::vector<std::string> nxt;
      for (auto& s : cur) for (char c : alpha) { nxt.push_back(s + c); parseCase(nxt.back(), false, nullptr); }
      cur.swap(nxt);
    }
    for (long long r = 0; r < R; ++r) {
      // grammar strings: N or N-M items
      std::string str; std::set<int> den;
      int items = 1 + (int)rng.below(5);
      for (int i = 0; i < items; ++i) {
        long lo = rng.below(5) == 0 ? (long)rng.below(3000000) : (long)rng.below(1100);
        if (i) str += ",";
        if (rng.coin()) { str += std::to_string(lo); if (lo < 1024) den.insert((int)lo); }
        else { long hi = lo + (rng.below(4) == 0 ? -(long)rng.below(5) : (long)rng.below(70)); if (hi < 0) hi = 0;
          str += std::to_string(lo) + "-" + std::to_string(hi);
          if (lo <= 1048576 && hi <= 1048576) for (long v = lo; v <= hi && v < 1024; ++v) den.insert((int)v); }
      }
      parseCase(str, true, &den);
      // malformed stream: random characters (compared with the model too)
      std::string junk; int jl = (int)rng.below(12);
      const char jalpha[] = "0123456789-,, +x\t";
      for (int i = 0; i < jl; ++i) junk += jalpha[rng.below(sizeof jalpha - 1)];
      parseCase(junk, false, nullptr);
      if (r % 10 == 0) parseCase(std::string(25, '9') + "," + std::to_string(rng.below(1024)), false, nullptr);
    }
  }
  // ---- grouping on synthetic topologies
  for (long long r = 0; r < R; ++r) {
    ++cases;
    int ncpu = 1 + (int)rng.below(40);
    std::vector<int> perm(ncpu); for (int i = 0; i < ncpu; ++i) perm[i] = i;
    int l2size = 1 + (int)rng.below(4);
    std::vector<dispenso::CacheGroup> l2, l3;
    // L2 atoms of up to l2size consecutive cpus (sometimes uneven), sorted by first cpu
    for (int i = 0; i < ncpu;) { int sz = 1 + (int)rng.below(l2size); dispenso::CacheGroup g; for (int j = 0; j < sz && i < ncpu; ++j, ++i) g.cpus.push_back(i); l2.push_back(g); }
    // L3 groups: unions of consecutive L2 atoms; some atoms left without L3
    { size_t i = 0; while (i < l2.size()) { size_t n = 1 + rng.below(4); dispenso::CacheGroup g; bool skip = rng.below(6) == 0;
        for (size_t j = 0; j < n && i < l2.size(); ++j, ++i) if (!skip) for (int c : l2[i].cpus) g.cpus.push_back(c);
        if (!g.cpus.empty()) l3.push_back(g); } }
    if (rng.below(8) == 0) l2.insert(l2.begin() + (long)rng.below(l2.size() + 1), dispenso::CacheGroup{});   // an empty L2 group
    int maxG = 1 + (int)rng.below(12);
    auto groups = dispenso::detail::buildGroupsFromCacheTopology(l2, l3, maxG);
    std::string req = "group " + std::to_string(maxG);
    for (auto& g : l2) { for (int c : g.cpus) req += " " + std::to_string(c); req += " -1"; }
    req += " -2";
    for (auto& g : l3) { for (int c : g.cpus) req += " " + std::to_string(c); req += " -1"; }
    std::string rep = std::to_string(groups.size());
    for (auto& g : groups) { rep += " -1"; for (int c : g.cpus) rep += " " + std::to_string(c); }
    std::printf("Q cpuset %s => %s\n", req.c_str(), rep.c_str());
    // oracle
    std::map<int, int> cpuToL2, cpuToL3, cpuToGroup;
    int largestL2 = 0;
    for (size_t i = 0; i < l2.size(); ++i) { largestL2 = std::max<int>(largestL2, (int)l2[i].cpus.size()); for (int c : l2[i].cpus) cpuToL2[c] = (int)i; }
    for (size_t i = 0; i < l3.size(); ++i) for (int c : l3[i].cpus) cpuToL3[c] = (int)i;
    bool ok = true; size_t total = 0;
    for (size_t gi = 0; gi < groups.size(); ++gi) {
      total += groups[gi].cpus.size();
      if ((int)groups[gi].cpus.size() > std::max(maxG, largestL2)) ok = false;
      std::set<int> l3s;
      for (int c : groups[gi].cpus) { if (cpuToGroup.count(c)) ok = false; cpuToGroup[c] = (int)gi; if (cpuToL3.count(c)) l3s.insert(cpuToL3[c]); if (!groups[gi].affinityMask.contains(c)) ok = false; }
      if (l3s.size() > 1) ok = false;
    }
    if (total != cpuToL2.size()) ok = false;                       // partitions the CPUs of the L2 groups
    for (auto& kv : cpuToL2) if (!cpuToGroup.count(kv.first)) ok = false;
    for (auto& a : l2) for (int c : a.cpus) if (cpuToGroup[c] != cpuToGroup[a.cpus[0]]) ok = false;   // never splits an L2 group
    if (!ok) std::printf("PFAIL thread groups violate the partition / L2 / L3 / size contract | %s\n", req.substr(0, 300).c_str());
  }
  std::printf("STAT cases %lld\n", cases);
  return 0;
}
