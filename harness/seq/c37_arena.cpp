// C37 (sequential layer): ConcurrentObjectArena construction, growth, copies, assignment, swap vs
// the Lean model and an oracle that mirrors contents in std::vector. usage: c37_arena <seed> <sequences> <max ops>
#include <dispenso/concurrent_object_arena.h>
#include <map>
#include <memory>
#include <vector>
#include "common.h"

struct E {
  int v;
  E() : v(7) {}
};
using A = dispenso::ConcurrentObjectArena<E>;

int main(int argc, char** argv) {
  uint64_t seed = vh::argInt(argc, argv, 1, 1);
  long long S = vh::argInt(argc, argv, 2, 300);
  int maxOps = (int)vh::argInt(argc, argv, 3, 14);
  vh::SplitMix rng(seed);
  long long cases = 0;
  for (long long it = 0; it < S; ++it) {
    std::printf("Q arenaseq reset => ok\n");
    struct Slot { std::unique_ptr<A> p; std::vector<int> ref; bool shell = false; };
    std::map<int, Slot> objs;
    int next = 0;
    std::string hist;
    bool bad = false;
    std::string badAt;
    int nops = 1 + (int)rng.below(maxOps);
    for (int k = 0; k < nops; ++k) {
      int kind = (int)rng.below(12);
      auto pick = [&]() -> int { if (objs.empty()) return -1; auto itr = objs.begin(); std::advance(itr, rng.below(objs.size())); return itr->first; };
      int a = pick(), b = pick();
      char req[96];
      int dst = -1; long ret = -1;
      if (kind == 0 || a < 0) {
        int minBuf = 1 + (int)rng.below(6), initial = rng.coin() ? 0 : (int)rng.below(14);
        std::snprintf(req, sizeof req, "mk %d %d", minBuf, initial);
        Slot& s = objs[next]; s.p.reset(new A((size_t)minBuf, (size_t)initial)); s.ref.assign(initial, 7); dst = next++;
      } else {
        Slot& sa = objs[a];
        switch (kind) {
          case 1: case 2: case 3: { if (sa.shell) continue; int d = (int)rng.below(11);
            std::snprintf(req, sizeof req, "growBy %d %d", a, d); ret = (long)sa.p->grow_by((size_t)d); sa.ref.resize(sa.ref.size() + d, 7); dst = a; } break;
          case 4: case 5: { if (sa.ref.empty()) continue; int idx = (int)rng.below(sa.ref.size()); int v = 10 + (int)rng.below(80);
            std::snprintf(req, sizeof req, "set %d %d %d", a, idx, v); (*sa.p)[idx].v = v; sa.ref[idx] = v; dst = a; } break;
          case 6: { if (sa.shell) continue; std::snprintf(req, sizeof req, "copyCtor %d", a); Slot& s = objs[next]; s.p.reset(new A(*sa.p)); s.ref = sa.ref; dst = next++; } break;
          case 7: { std::snprintf(req, sizeof req, "moveCtor %d", a); Slot& s = objs[next]; s.p.reset(new A(std::move(*sa.p))); s.ref = sa.ref; s.shell = sa.shell; sa.ref.clear(); sa.shell = true; dst = next++; } break;
          case 8: { if (objs[b].shell) continue; std::snprintf(req, sizeof req, "copyAssign %d %d", a, b); *sa.p = *objs[b].p; sa.ref = objs[b].ref; sa.shell = false; dst = a; } break;
          case 9: { if (a == b) continue; std::snprintf(req, sizeof req, "moveAssign %d %d", a, b); *sa.p = std::move(*objs[b].p); std::swap(sa.ref, objs[b].ref); std::swap(sa.shell, objs[b].shell); dst = a; } break;
          case 10: { if (a == b) continue; std::snprintf(req, sizeof req, "swap %d %d", a, b); swap(*sa.p, *objs[b].p); std::swap(sa.ref, objs[b].ref); std::swap(sa.shell, objs[b].shell); dst = a; } break;
          default: { std::snprintf(req, sizeof req, "destroy %d", a); objs.erase(a); std::printf("Q arenaseq %s => 0 0 0 -1 0\n", req); hist += std::string(req) + ";"; continue; }
        }
      }
      hist += std::string(req) + ";";
      A& d = *objs[dst].p;
      std::vector<int>& r = objs[dst].ref;
      std::string items;
      size_t n = d.size();
      size_t lastBuf = d.numBuffers() ? d.getBufferSize(d.numBuffers() - 1) : 0;
      for (size_t i = 0; i < n; ++i) items += " " + std::to_string(d[i].v);
      std::printf("Q arenaseq %s => %zu %zu %zu %ld %zu%s\n", req, n, d.capacity(), d.numBuffers(), ret, lastBuf, items.c_str());
      // oracle: contents equal the mirror; grow_by returned the previous size; new elements default-constructed
      bool ok = n == r.size();
      for (size_t i = 0; ok && i < n; ++i) ok = d[i].v == r[i];
      // per-buffer view agrees with indexing
      size_t seen = 0;
      for (size_t bi = 0; ok && bi < d.numBuffers(); ++bi)
        for (size_t j = 0; j < d.getBufferSize(bi) && seen < n; ++j, ++seen) ok = ok && d.getBuffer(bi)[j].v == r[seen];
      if (ok && seen != n) ok = false;
      if (!ok && !bad) { bad = true; badAt = req; }
    }
    objs.clear();
    ++cases;
    if (bad) std::printf("PFAIL ConcurrentObjectArena contents/size differ after growth, copy, assignment or swap | at=%s ops=%s\n", badAt.c_str(), hist.c_str());
    if (it < 3) std::printf("SAMPLE %s\n", hist.c_str());
  }
  std::printf("STAT cases %lld\n", cases);
  return 0;
}
