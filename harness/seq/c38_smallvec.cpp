// C38: SmallVector<Tracked, N> vs std::vector<Tracked> vs the Lean model, plus an alignment stream
// with over-aligned element types. usage: c38_smallvec <seed> <sequences> <max ops> <mode: ops|align|selfref>
#include <dispenso/small_vector.h>
#include <map>
#include <memory>
#include <vector>
#include "common.h"

using vh::Tracked;
static long long cases = 0;

template <size_t N>
static void sequence(vh::SplitMix& rng, int maxOps, long long it) {
  using SV = dispenso::SmallVector<Tracked, N>;
  using RV = std::vector<Tracked>;
  std::printf("Q svec reset %zu => ok\n", N);
  struct Slot { alignas(SV) char buf[sizeof(SV)]; SV* p = nullptr; std::unique_ptr<RV> ref; };
  std::map<int, Slot> objs;
  int next = 0;
  long base = vh::trackStats().live;
  auto implLive = [&] {
    long refLive = 0;
    for (auto& kv : objs) refLive += (long)kv.second.ref->size();
    return vh::trackStats().live - base - refLive;
  };
  std::string hist;
  bool mismatchRef = false;
  int nops = 1 + (int)rng.below(maxOps);
  int forcedKind = -1, forcedSrc = -1;     // follow-up on a spilled vector that was shrunk back to <= N elements
  for (int k = 0; k < nops + 1000; ++k) {
    bool finishing = k >= nops;
    if (finishing && objs.empty()) break;
    int kind = finishing ? 12 : (int)rng.below(14);
    if (!finishing && forcedKind >= 0 && objs.count(forcedSrc)) kind = forcedKind;
    auto pick = [&]() -> int {
      if (objs.empty()) return -1;
      auto itr = objs.begin();
      std::advance(itr, rng.below(objs.size()));
      return itr->first;
    };
    int a = pick(), b = pick();
    if (!finishing && forcedKind >= 0 && objs.count(forcedSrc)) { if (kind == 4 || kind == 5) b = forcedSrc; else a = forcedSrc; }
    forcedKind = -1;
    int x = 1 + (int)rng.below(90);
    int n = (int)rng.below(2 * N + 3);
    char req[96];
    int dstId = -1;
    if (kind == 0) { std::snprintf(req, sizeof req, "mk"); Slot& s = objs[next]; s.p = new (s.buf) SV(); s.ref.reset(new RV()); dstId = next++; }
    else if (kind == 1) { std::snprintf(req, sizeof req, "mkCount %d %d", n, x); Slot& s = objs[next]; s.p = new (s.buf) SV((size_t)n, Tracked(x)); s.ref.reset(new RV((size_t)n, Tracked(x))); dstId = next++; }
    else if (a < 0) continue;
    else if (kind == 2) { std::snprintf(req, sizeof req, "copyCtor %d", a); Slot& src = objs[a]; Slot& s = objs[next]; s.p = new (s.buf) SV(*src.p); s.ref.reset(new RV(*src.ref)); dstId = next++; }
    else if (kind == 3) { std::snprintf(req, sizeof req, "moveCtor %d", a); Slot& src = objs[a]; Slot& s = objs[next]; s.p = new (s.buf) SV(std::move(*src.p)); s.ref.reset(new RV(std::move(*src.ref))); src.ref->clear(); dstId = next++; }
    else if (kind == 4) { std::snprintf(req, sizeof req, "copyAssign %d %d", a, b); *objs[a].p = *objs[b].p; *objs[a].ref = *objs[b].ref; dstId = a; }
    else if (kind == 5) { std::snprintf(req, sizeof req, "moveAssign %d %d", a, b); *objs[a].p = std::move(*objs[b].p); if (a != b) { *objs[a].ref = std::move(*objs[b].ref); objs[b].ref->clear(); } dstId = a; }
    else if (kind == 6 || kind == 13) { std::snprintf(req, sizeof req, "pushBack %d %d", a, x); if (kind == 6) objs[a].p->push_back(Tracked(x)); else objs[a].p->emplace_back(x); objs[a].ref->push_back(Tracked(x)); dstId = a; }
    else if (kind == 7) { if (objs[a].ref->empty()) continue; std::snprintf(req, sizeof req, "popBack %d", a); objs[a].p->pop_back(); objs[a].ref->pop_back(); dstId = a; }
    else if (kind == 8) { std::snprintf(req, sizeof req, "resize %d %d %d", a, n, x); objs[a].p->resize((size_t)n, Tracked(x)); objs[a].ref->resize((size_t)n, Tracked(x)); dstId = a; }
    else if (kind == 9) { std::snprintf(req, sizeof req, "reserve %d %d", a, n); objs[a].p->reserve((size_t)n); objs[a].ref->reserve((size_t)n); dstId = a; }
    else if (kind == 10) { std::snprintf(req, sizeof req, "clear %d", a); objs[a].p->clear(); objs[a].ref->clear(); dstId = a; }
    else if (kind == 11) { if (objs[a].ref->empty()) continue; int idx = (int)rng.below(objs[a].ref->size());
      std::snprintf(req, sizeof req, "erase %d %d", a, idx);
      auto itp = objs[a].p->erase(objs[a].p->begin() + idx); auto itr = objs[a].ref->erase(objs[a].ref->begin() + idx);
      if ((itp - objs[a].p->begin()) != (itr - objs[a].ref->begin())) mismatchRef = true;
      dstId = a; }
    else { std::snprintf(req, sizeof req, "destroy %d", a); objs[a].p->~SV(); objs.erase(a);
      std::printf("Q svec %s => 0 0 %ld\n", req, implLive()); hist += std::string(req) + ";"; continue; }
    hist += std::string(req) + ";";
    SV& d = *objs[dstId].p;
    RV& r = *objs[dstId].ref;
    std::string items;
    for (auto& e : d) items += " " + std::to_string(e.v);
    std::printf("Q svec %s => %zu %zu %ld%s\n", req, d.size(), d.capacity(), implLive(), items.c_str());
    if (d.size() != r.size() || d.empty() != r.empty()) mismatchRef = true;
    for (size_t i = 0; i < d.size() && i < r.size(); ++i) if (d[i].v != r[i].v) mismatchRef = true;
    if (!r.empty() && (d.front().v != r.front().v || d.back().v != r.back().v)) mismatchRef = true;
    if (d.capacity() < d.size()) mismatchRef = true;
    if ((kind == 7 || kind == 8 || kind == 11) && d.capacity() > N && d.size() >= 1 && d.size() <= N && rng.coin()) {
      static const int follow[] = {5, 5, 5, 4, 3, 2};
      forcedKind = follow[rng.below(6)]; forcedSrc = dstId;
    }
  }
  ++cases;
  if (mismatchRef) std::printf("PFAIL SmallVector differs from std::vector | N=%zu ops=%s\n", N, hist.c_str());
  if (vh::trackStats().live != base)
    std::printf("PFAIL SmallVector element lifetimes unbalanced | N=%zu live=%ld ops=%s\n", N, vh::trackStats().live - base, hist.c_str());
  if (it < 2) std::printf("SAMPLE N=%zu %s\n", N, hist.c_str());
}

template <size_t A>
struct alignas(A) Over {
  char pad[A];
  int v;
  Over() : v(0) {}
  explicit Over(int x) : v(x) {}
};

template <size_t A, size_t N>
static void alignStream(vh::SplitMix& rng, int rounds) {
  using T = Over<A>;
  for (int r = 0; r < rounds; ++r) {
    // keep some unrelated small allocations alive so that the allocator's natural alignment varies
    std::vector<std::unique_ptr<char[]>> noise;
    for (int i = 0; i < (int)rng.below(7); ++i) noise.emplace_back(new char[1 + rng.below(200)]);
    dispenso::SmallVector<T, N> v;
    size_t n = 1 + rng.below(4 * N + 3);
    size_t misaligned = 0;
    for (size_t i = 0; i < n; ++i) {
      v.emplace_back((int)i);
      for (auto& e : v) misaligned += (reinterpret_cast<uintptr_t>(&e) % alignof(T)) != 0;
    }
    ++cases;
    if (misaligned) {
      std::printf("PFAIL SmallVector element stored at a misaligned address | alignof=%zu N=%zu n=%zu\n", A, N, n);
      return;
    }
  }
}

// push_back(v[i]) where the argument aliases an element of the same vector (std::vector defines this)
template <size_t N>
static void selfRef(vh::SplitMix& rng, int rounds) {
  for (int r = 0; r < rounds; ++r) {
    dispenso::SmallVector<Tracked, N> v;
    std::vector<Tracked> ref;
    size_t n = 1 + rng.below(4 * N + 4);
    std::string hist;
    for (size_t i = 0; i < n; ++i) {
      if (v.empty() || rng.below(3) == 0) { int x = 1 + (int)rng.below(90); v.push_back(Tracked(x)); ref.push_back(Tracked(x)); hist += "push " + std::to_string(x) + ";"; }
      else { size_t k = rng.below(v.size()); v.push_back(v[k]); ref.push_back(ref[k]); hist += "push v[" + std::to_string(k) + "];"; }
    }
    bool same = v.size() == ref.size();
    for (size_t i = 0; same && i < v.size(); ++i) same = v[i].v == ref[i].v;
    ++cases;
    if (!same || vh::trackStats().useDead) {
      std::printf("PFAIL SmallVector push_back of its own element differs from std::vector (reads a destroyed element) | N=%zu ops=%s\n", N, hist.c_str());
      return;
    }
  }
}

int main(int argc, char** argv) {
  uint64_t seed = vh::argInt(argc, argv, 1, 1);
  long long S = vh::argInt(argc, argv, 2, 300);
  int maxOps = (int)vh::argInt(argc, argv, 3, 16);
  std::string mode = vh::argOr(argc, argv, 4, "ops");
  vh::SplitMix rng(seed);
  if (mode == "ops") {
    for (long long it = 0; it < S; ++it) {
      switch (it % 4) {
        case 0: sequence<1>(rng, maxOps, it); break;
        case 1: sequence<2>(rng, maxOps, it); break;
        case 2: sequence<4>(rng, maxOps, it); break;
        case 3: sequence<8>(rng, maxOps, it); break;
      }
    }
    if (vh::trackStats().doubleDestroy || vh::trackStats().useDead)
      std::printf("PFAIL SmallVector destroyed an element twice or used a dead element | dd=%lld ud=%lld\n", vh::trackStats().doubleDestroy, vh::trackStats().useDead);
  } else if (mode == "align") {
    alignStream<32, 1>(rng, (int)S); alignStream<32, 4>(rng, (int)S);
    alignStream<64, 2>(rng, (int)S); alignStream<64, 8>(rng, (int)S); alignStream<128, 2>(rng, (int)S);
    alignStream<16, 2>(rng, (int)S);
  }
  else if (mode == "selfref") {
    selfRef<1>(rng, (int)S); selfRef<2>(rng, (int)S); selfRef<4>(rng, (int)S);
  }
  std::printf("STAT cases %lld\n", cases);
  return 0;
}
