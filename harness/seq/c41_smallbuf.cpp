// C41 (sequential layer): allocSmallBuffer<N> / SmallBufferAllocator<S> driven by random histories of
// alloc / dealloc / approxBytesAllocated from a main thread and from helper threads that run one after
// the other (cross-thread frees, thread exit returning the cache), compared operation by operation with
// the Lean block-token model (which block is returned, tlCount, number of slabs, central-store size),
// plus an ownership-map oracle on the addresses (alignment, inside a slab, no overlap with a live block,
// contents intact at deallocation).
// usage: c41_smallbuf <seed> <ops per class>
#include <algorithm>
#include <array>
#include <atomic>
#include <cassert>
#include <climits>
#include <cstddef>
#include <cstdint>
#include <cstdlib>
#include <cstring>
#include <functional>
#include <limits>
#include <map>
#include <memory>
#include <mutex>
#include <thread>
#include <tuple>
#include <type_traits>
#include <utility>
#include <vector>
#define private public
#include <dispenso/detail/small_buffer_allocator_impl.h>
#undef private
#include <dispenso/small_buffer_allocator.h>
#include "common.h"

// Runs a callback when the thread's thread_local objects are destroyed.  It is constructed before the
// thread's first allocator call, hence destroyed after the allocator's own per-thread data
// (~PerThreadQueuingData has already returned the cache to the central store by then).
struct LateHook {
  std::function<void()> fn;
  ~LateHook() { if (fn) fn(); }
};

struct LiveInfo {
  size_t n;       // the N of allocSmallBuffer<N>
  size_t s;       // block size of its class
  unsigned char tag;
  long long id;   // block token
};

static std::map<uintptr_t, LiveInfo> g_live;  // address -> info, all classes
static long long g_pfails = 0;

static void pfail(const char* sig, const std::string& det) {
  if (g_pfails++ < 20) std::printf("PFAIL %s | %s\n", sig, det.c_str());
}

template <size_t N>
static char* doAlloc() { return dispenso::allocSmallBuffer<N>(); }
template <size_t N>
static void doDealloc(void* p) { dispenso::deallocSmallBuffer<N>(p); }
template <size_t N>
static size_t doBytes() { return dispenso::approxBytesAllocatedSmallBuffer<N>(); }

static char* allocN(size_t n) {
  switch (n) {
    case 1: return doAlloc<1>();
    case 2: return doAlloc<2>();
    case 4: return doAlloc<4>();
    case 8: return doAlloc<8>();
    case 16: return doAlloc<16>();
    case 32: return doAlloc<32>();
    case 64: return doAlloc<64>();
    case 128: return doAlloc<128>();
    case 256: return doAlloc<256>();
    default: return doAlloc<512>();
  }
}
static void deallocN(size_t n, void* p) {
  switch (n) {
    case 1: return doDealloc<1>(p);
    case 2: return doDealloc<2>(p);
    case 4: return doDealloc<4>(p);
    case 8: return doDealloc<8>(p);
    case 16: return doDealloc<16>(p);
    case 32: return doDealloc<32>(p);
    case 64: return doDealloc<64>(p);
    case 128: return doDealloc<128>(p);
    case 256: return doDealloc<256>(p);
    default: return doDealloc<512>(p);
  }
}
static size_t bytesN(size_t n) {
  switch (n) {
    case 1: return doBytes<1>();
    case 2: return doBytes<2>();
    case 4: return doBytes<4>();
    case 8: return doBytes<8>();
    case 16: return doBytes<16>();
    case 32: return doBytes<32>();
    case 64: return doBytes<64>();
    case 128: return doBytes<128>();
    default: return doBytes<256>();
  }
}

template <size_t S>
struct ClassRun {
  using A = dispenso::detail::SmallBufferAllocator<S>;
  dispenso::detail::SmallBufferGlobals& G = dispenso::detail::getSmallBufferGlobals<S>();
  vh::SplitMix rng;
  std::vector<uintptr_t> mine;  // live blocks of this class (addresses)
  long long ops = 0, refills = 0, carves = 0, recycles = 0, crossFrees = 0, exits = 0, lateCalls = 0;
  std::map<uintptr_t, int> allocThread;

  explicit ClassRun(uint64_t seed) : rng(seed) {}

  long long blockId(char* p, bool& ok) {
    ok = false;
    for (size_t c = 0; c < G.backingStore.size(); ++c) {
      char* b = G.backingStore[c];
      if (p >= b && p < b + A::kMallocBytes) {
        size_t off = static_cast<size_t>(p - b);
        ok = (off % S == 0);
        return static_cast<long long>(c * A::kBuffersPerMalloc + off / S);
      }
    }
    return -1;
  }

  size_t pickN() {
    if (S == 4) { size_t c[3] = {1, 2, 4}; return c[rng.below(3)]; }
    return S;
  }

  void opAlloc(int t) {
    auto bnc = A::buffersAndCount();
    char** tl = std::get<0>(bnc);
    size_t& cnt = std::get<1>(bnc);
    size_t cnt0 = cnt, chunks0 = G.backingStore.size();
    size_t n = pickN();
    char* p = allocN(n);
    size_t cnt1 = cnt, chunks1 = G.backingStore.size();
    bool ok;
    long long id = blockId(p, ok);
    std::string req = "smallbuf alloc " + std::to_string(t);
    if (cnt0 == 0) {
      ++refills;
      if (chunks1 == chunks0) {
        for (size_t i = 0; i <= cnt1; ++i) { bool k; req += " " + std::to_string(blockId(tl[i], k)); }
      } else {
        ++carves;
      }
    }
    std::printf("Q %s => %lld %zu %zu %zu\n", req.c_str(), id, cnt1, chunks1, G.centralStore.size_approx());
    // oracle
    uintptr_t a = reinterpret_cast<uintptr_t>(p);
    std::string where = "class=" + std::to_string(S) + " N=" + std::to_string(n) + " thread=" + std::to_string(t) + " op=" + std::to_string(ops);
    if (id < 0 || !ok) pfail("allocSmallBuffer returned a pointer that is not a block of a slab", where);
    if (a % n != 0 || a % S != 0) pfail("allocSmallBuffer returned a misaligned block", where);
    if (S < n) pfail("allocSmallBuffer returned a block smaller than N", where);
    auto it = g_live.lower_bound(a);
    bool overlap = (it != g_live.end() && it->first < a + S);
    if (it != g_live.begin()) { auto pr = std::prev(it); overlap |= (pr->first + pr->second.s > a); }
    if (overlap) pfail("allocSmallBuffer returned a block overlapping a live block", where);
    unsigned char tag = static_cast<unsigned char>(1 + rng.below(250));
    std::memset(p, tag, S);
    g_live[a] = LiveInfo{n, S, tag, id};
    mine.push_back(a);
    allocThread[a] = t;
  }

  void opDealloc(int t) {
    if (mine.empty()) return;
    size_t k = rng.below(mine.size());
    uintptr_t a = mine[k];
    mine[k] = mine.back();
    mine.pop_back();
    auto lit = g_live.find(a);
    if (lit == g_live.end()) return;  // (only after a reported double hand-out: the address was listed twice)
    LiveInfo info = lit->second;
    g_live.erase(lit);
    char* p = reinterpret_cast<char*>(a);
    for (size_t i = 0; i < S; ++i)
      if (static_cast<unsigned char>(p[i]) != info.tag) {
        pfail("live small buffer was overwritten (block shared with another owner)", "class=" + std::to_string(S) + " block=" + std::to_string(info.id));
        break;
      }
    if (allocThread[a] != t) ++crossFrees;
    allocThread.erase(a);
    size_t cntBefore = std::get<1>(A::buffersAndCount());
    deallocN(info.n, p);
    size_t cnt = std::get<1>(A::buffersAndCount());
    if (cnt < cntBefore) ++recycles;
    std::printf("Q smallbuf dealloc %d %lld => %zu %zu\n", t, info.id, cnt, G.centralStore.size_approx());
  }

  void opBytes(int t) {
    size_t v = bytesN(pickN());
    std::printf("Q smallbuf bytes %d => %zu\n", t, v);
    if (v != A::kMallocBytes * G.backingStore.size())
      pfail("approxBytesAllocatedSmallBuffer differs from kMallocBytes * slabs", "class=" + std::to_string(S));
  }

  void burst(int t, long long count, size_t goal) {
    for (long long i = 0; i < count; ++i, ++ops) {
      uint64_t r = rng.below(100);
      int allocPct = mine.size() < goal ? 85 : 15;
      if (r < 2) opBytes(t);
      else if (static_cast<int>(r) < allocPct || mine.empty()) opAlloc(t);
      else opDealloc(t);
    }
  }

  void run(long long total) {
    std::printf("Q smallbuf init %zu => ok %zu %zu %zu %zu\n", S, A::kIdealNumTLBuffers, A::kMaxNumTLBuffers,
                A::kBuffersPerMalloc, A::kMallocBytes);
    int nextTid = 1;
    long long done = 0;
    size_t goal = 0;
    const long long maxTL = static_cast<long long>(A::kMaxNumTLBuffers);
    while (done < total) {
      // a burst on the main thread or on a helper thread that exits afterwards; lengths around the
      // cache sizes so that refills, recycling and slab carving all occur
      long long len = 1 + static_cast<long long>(rng.below(static_cast<uint64_t>(maxTL + maxTL / 2)));
      if (rng.below(4) == 0) len = 1 + static_cast<long long>(rng.below(8));
      // the number of live blocks drifts towards a target that moves between 0 and three slabs
      if (done == 0 || rng.below(3) == 0) goal = rng.below(3 * A::kBuffersPerMalloc + 1);
      if (rng.below(3) == 0) {
        int t = nextTid++;
        // every other helper thread allocates again from a thread_local destructor that runs after the
        // allocator's per-thread data was destroyed ("late" calls during thread exit)
        int lateAllocs = (rng.below(2) == 0) ? 1 + static_cast<int>(rng.below(3)) : 0;
        std::thread th([&] {
          thread_local LateHook hook;
          if (lateAllocs > 0) {
            hook.fn = [&, t] {
              std::printf("Q smallbuf exit %d => %zu\n", t, G.centralStore.size_approx());
              for (int i = 0; i < lateAllocs; ++i, ++ops) { opAlloc(t); ++lateCalls; }
            };
            opAlloc(t);  // the allocator's per-thread data exists before the hook runs
            ++ops;
          }
          burst(t, len, goal);
        });
        th.join();
        ++exits;
        if (lateAllocs == 0) std::printf("Q smallbuf exit %d => %zu\n", t, G.centralStore.size_approx());
      } else {
        burst(0, len, goal);
      }
      done += len;
    }
    // drain: everything goes back
    while (!mine.empty()) opDealloc(0);
    std::printf("NT class%zu refills%lld carves%lld recycles%lld cross%lld exits%lld\n", S, refills > 0 ? 1LL : 0LL,
                carves > 1 ? 2LL : carves, recycles > 0 ? 1LL : 0LL, crossFrees > 0 ? 1LL : 0LL, exits > 0 ? 1LL : 0LL);
    std::printf("STAT ops %lld\nSTAT refills %lld\nSTAT carves %lld\nSTAT recycles %lld\nSTAT crossfrees %lld\nSTAT exits %lld\nSTAT late_calls %lld\n",
                ops, refills, carves, recycles, crossFrees, exits, lateCalls);
  }
};

static void ordinals() {
  // class selection for every request size the front end accepts (powers of two) and a few that it
  // documents as unsupported (the model must still agree with the code on them)
  const size_t ns[] = {1, 2, 3, 4, 5, 7, 8, 12, 16, 31, 32, 33, 64, 100, 128, 200, 255, 256};
  const size_t cls[] = {4, 8, 16, 32, 64, 128, 256};
  for (size_t n : ns) {
    size_t o = dispenso::detail::getOrdinal(n);
    std::printf("Q smallbuf ord %zu => %zu %zu\n", n, o, o < 7 ? cls[o] : size_t(0));
  }
}

static void largePath(vh::SplitMix& rng) {
  // N > kMaxSmallBufferSize falls back on alignedMalloc(N, N)
  std::vector<char*> ps;
  for (int i = 0; i < 50; ++i) {
    char* p = allocN(512);
    if (reinterpret_cast<uintptr_t>(p) % 512 != 0) pfail("allocSmallBuffer returned a misaligned block", "N=512 (alignedMalloc path)");
    for (char* q : ps)
      if (p < q + 512 && q < p + 512) pfail("allocSmallBuffer returned a block overlapping a live block", "N=512");
    std::memset(p, 0x5a, 512);
    ps.push_back(p);
    if (rng.below(3) == 0) { deallocN(512, ps.back()); ps.pop_back(); }
  }
  for (char* p : ps) deallocN(512, p);
}

int main(int argc, char** argv) {
  uint64_t seed = static_cast<uint64_t>(vh::argInt(argc, argv, 1, 1));
  long long ops = vh::argInt(argc, argv, 2, 400);
  vh::SplitMix rng(seed);
  ordinals();
  // the class order is shuffled by the seed; every class is used exactly once per process
  int order[7] = {0, 1, 2, 3, 4, 5, 6};
  for (int i = 6; i > 0; --i) std::swap(order[i], order[rng.below(static_cast<uint64_t>(i) + 1)]);
  for (int k = 0; k < 7; ++k) {
    uint64_t s2 = seed * 1000003ull + static_cast<uint64_t>(order[k]);
    switch (order[k]) {
      case 0: { ClassRun<4> r(s2); r.run(ops + 4 * 2048); break; }
      case 1: { ClassRun<8> r(s2); r.run(ops + 4 * 1536); break; }
      case 2: { ClassRun<16> r(s2); r.run(ops + 4 * 1024); break; }
      case 3: { ClassRun<32> r(s2); r.run(ops + 4 * 640); break; }
      case 4: { ClassRun<64> r(s2); r.run(ops + 4 * 384); break; }
      case 5: { ClassRun<128> r(s2); r.run(ops + 4 * 224); break; }
      default: { ClassRun<256> r(s2); r.run(ops + 4 * 128); break; }
    }
  }
  largePath(rng);
  std::printf("STAT cases 7\n");
  if (!g_live.empty()) pfail("harness bookkeeping: blocks left live", std::to_string(g_live.size()));
  return 0;
}
