// C12 / C13 / C14 / C48: parallel_for over real thread pools. Every call's sorted list of body
// invocations is compared with the Lean plan model; the selected property's oracle is evaluated on
// the implementation's behaviour directly.
// usage: c12_parfor <prop: C12|C13|C14|C48> <seed> <configs> <mode: sample|exh8|probe64>
#include <dispenso/parallel_for.h>
#include <dispenso/thread_pool.h>
#include <signal.h>
#include <unistd.h>
#include <algorithm>
#include <array>
#include <atomic>
#include <limits>
#include <mutex>
#include <thread>
#include "common.h"

static std::string gProp;
static char gLast[400] = "none";
static long long cases = 0;

static void onAlarm(int) {
  char buf[600];
  int n = std::snprintf(buf, sizeof buf, "PFAIL parallel_for call did not return (hang) | %s\nSTAT cases %lld\n", gLast, cases);
  if (write(1, buf, (size_t)n)) {}
  _exit(0);
}

struct Rec {
  std::mutex m;
  std::vector<std::pair<long long, long long>> chunks;      // as signed 64 (values of unsigned 64-bit types > 2^63 excluded)
  std::vector<const void*> sptr;                            // the states element each invocation was given (same order as chunks)
  std::atomic<int> running{0};
  std::atomic<int> maxRunning{0};
  std::atomic<int> stateClash{0};
  int spinUs = 0;
  int rendezvous = 0;       // > 0: a body lingers (bounded) until more than this many run at once
};

struct St8 {
  std::atomic<int> inUse{0};
  St8() {}
  St8(const St8&) {}
};

static dispenso::ThreadPool& poolOf(int n) {
  static std::unique_ptr<dispenso::ThreadPool> pools[32];
  if (!pools[n]) pools[n].reset(new dispenso::ThreadPool((size_t)n));
  return *pools[n];
}

template <typename T>
struct Cfg {
  T start, stop;
  int chunkMode;            // 0 adaptive, -1 static, >0 explicit chunk
  uint32_t maxThreads;
  bool wait;
  uint32_t minItems, g;
  int pool;
  bool nested;
  bool fromWorker;          // issue the call from a plain task running on a pool worker thread
  bool useCts;
  bool stateful;
  bool reuseState;
};

template <typename T>
static void body(Rec& rec, St8* st, T s, T e) {
  if (st) { if (st->inUse.fetch_add(1) != 0) rec.stateClash.fetch_add(1); }
  int r = rec.running.fetch_add(1) + 1;
  int m = rec.maxRunning.load();
  while (r > m && !rec.maxRunning.compare_exchange_weak(m, r)) {}
  if (rec.rendezvous) {
    auto t0 = std::chrono::steady_clock::now();
    while (rec.maxRunning.load() <= rec.rendezvous && std::chrono::steady_clock::now() - t0 < std::chrono::microseconds(1500)) std::this_thread::yield();
  } else if (rec.spinUs) { auto t0 = std::chrono::steady_clock::now(); while (std::chrono::steady_clock::now() - t0 < std::chrono::microseconds(rec.spinUs)) {} }
  { std::lock_guard<std::mutex> lk(rec.m); rec.chunks.push_back({(long long)s, (long long)e}); rec.sptr.push_back(st); }
  rec.running.fetch_sub(1);
  if (st) st->inUse.fetch_sub(1);
}

template <typename T, typename TS>
static void invoke(TS& ts, const Cfg<T>& c, Rec& rec, std::vector<St8>& states) {
  dispenso::ParForOptions o;
  o.maxThreads = c.maxThreads; o.wait = c.wait; o.minItemsPerChunk = c.minItems; o.granularity = c.g; o.reuseExistingState = c.reuseState;
  auto mkRange = [&]() {
    if (c.chunkMode == 0) return dispenso::ChunkedRange<T>(c.start, c.stop, typename dispenso::ChunkedRange<T>::Auto());
    if (c.chunkMode < 0) return dispenso::ChunkedRange<T>(c.start, c.stop, typename dispenso::ChunkedRange<T>::Static());
    return dispenso::ChunkedRange<T>(c.start, c.stop, (T)c.chunkMode);
  };
  if (c.stateful) {
    dispenso::parallel_for(ts, states, [] { return St8(); }, mkRange(), [&rec](St8& st, T s, T e) { body<T>(rec, &st, s, e); }, o);
  } else {
    dispenso::parallel_for(ts, mkRange(), [&rec](T s, T e) { body<T>(rec, nullptr, s, e); }, o);
  }
}

template <typename T, typename TS>
static void runOnSet(const Cfg<T>& c, Rec& rec, std::vector<St8>& states) {
  dispenso::ThreadPool& pool = poolOf(c.pool);
  if (c.fromWorker && c.pool >= 1 && !c.nested) {
    // the caller is then a pool thread with a ring index (static wait=true path picks its chunk by it)
    std::atomic<int> done{0};
    pool.schedule([&] { TS ts(pool); invoke<T>(ts, c, rec, states); ts.wait(); done.store(1, std::memory_order_release); }, dispenso::ForceQueuingTag());
    while (!done.load(std::memory_order_acquire)) std::this_thread::sleep_for(std::chrono::microseconds(50));
  } else if (!c.nested) {
    TS ts(pool);
    invoke<T>(ts, c, rec, states);
    ts.wait();
  } else {
    // run the call from inside a parallel_for task so that it is a nested (recursive) loop
    TS outer(pool);
    std::atomic<int> did{0};
    dispenso::ParForOptions oo; oo.wait = true;
    dispenso::parallel_for(outer, dispenso::ChunkedRange<int>(0, 2, dispenso::ChunkedRange<int>::Static()), [&](int s, int e) {
      for (int i = s; i < e; ++i) if (i == 0 && did.fetch_add(1) == 0) { TS inner(pool); invoke<T>(inner, c, rec, states); inner.wait(); }
    }, oo);
  }
}

template <typename T>
static void runCfg(const Cfg<T>& c, const char* tname, int bits, int sg, bool rendezvous = false) {
  Rec rec;
  if (rendezvous) rec.rendezvous = (int)std::max<uint32_t>(c.maxThreads > 0x7fffffffu ? 1 : c.maxThreads, 1);
  rec.spinUs = (gProp == "C48" || gProp == "C14") ? 30 : 0;
  std::vector<St8> states;
  if (c.stateful && c.reuseState) states.resize((size_t)((c.maxThreads + (uint32_t)c.g) % 7));   // 0..6 elements to be reused
  else if (c.stateful && (c.minItems & 1)) states.resize(3);                                     // must be discarded (reuse off)
  const size_t prevStates = states.size();
  std::snprintf(gLast, sizeof gLast, "type=%s start=%lld stop=%lld chunk=%d maxThreads=%u wait=%d minItems=%u g=%u pool=%d nested=%d cts=%d stateful=%d worker=%d",
                tname, (long long)c.start, (long long)c.stop, c.chunkMode, c.maxThreads, c.wait, c.minItems, c.g, c.pool, c.nested, c.useCts, c.stateful, c.fromWorker);
  alarm(25);
  if (c.useCts) runOnSet<T, dispenso::ConcurrentTaskSet>(c, rec, states); else runOnSet<T, dispenso::TaskSet>(c, rec, states);
  alarm(0);
  ++cases;
  auto ch = rec.chunks;
  std::sort(ch.begin(), ch.end());
  // nested calls see a recursive pool only when the outer loop really went parallel (pool >= 1)
  int recursive = (c.nested && c.pool >= 1) ? 1 : 0;
  std::string items;
  for (auto& p : ch) items += " " + std::to_string(p.first) + " " + std::to_string(p.second);
  std::printf("Q parfor %d %d %lld %lld %d %u %d %u %u %d %d => T %zu%s\n", bits, sg, (long long)c.start, (long long)c.stop, c.chunkMode,
              c.maxThreads, c.wait ? 1 : 0, c.minItems, c.g, c.pool, recursive, ch.size(), items.c_str());
  // ---- oracles (independent of the model)
  long long lo = (long long)c.start, hi = (long long)c.stop;
  if (gProp == "C12") {
    bool ok = true;
    long long at = lo;
    if (hi <= lo) ok = ch.empty();
    else {
      for (auto& p : ch) { if (p.first != at || p.second < p.first || p.second > hi) { ok = false; break; } at = p.second; }
      if (ok && at != hi) ok = false;
    }
    if (!ok) std::printf("PFAIL parallel_for body invocations do not partition the range | %s n=%zu%s\n", gLast, ch.size(), items.substr(0, 200).c_str());
  }
  if (gProp == "C13" && c.g > 1 && c.chunkMode <= 0) {
    int odd = 0; bool oddAtEnd = true;
    for (auto& p : ch) if ((p.second - p.first) % (long long)c.g != 0) { ++odd; if (p.second != hi) oddAtEnd = false; }
    if (odd > 1 || !oddAtEnd)
      std::printf("PFAIL parallel_for granularity contract violated (a non-multiple chunk not at the range end, or several) | %s n=%zu%s\n", gLast, ch.size(), items.substr(0, 200).c_str());
  }
  if ((gProp == "C14" || gProp == "C48") && c.stateful) {
    if (gProp == "C14" && rec.stateClash.load()) std::printf("PFAIL parallel_for used one state object from two invocations at once | %s\n", gLast);
    if (gProp == "C14" && hi > lo && states.empty()) std::printf("PFAIL parallel_for left the states container empty | %s\n", gLast);
    // chunk -> index of the states element it was given (pointer identity), compared with the execution model
    std::vector<std::array<long long, 3>> tri;
    bool outside = false;
    for (size_t i = 0; i < rec.chunks.size(); ++i) {
      const St8* p = static_cast<const St8*>(rec.sptr[i]);
      long long idx = (states.empty() || p < states.data() || p >= states.data() + states.size()) ? -1 : (long long)(p - states.data());
      if (idx < 0) outside = true;
      tri.push_back({rec.chunks[i].first, rec.chunks[i].second, idx});
    }
    if (gProp == "C14" && outside) std::printf("PFAIL parallel_for passed a state object that is not an element of the states container | %s\n", gLast);
    std::sort(tri.begin(), tri.end());
    std::string ti;
    for (auto& t : tri) ti += " " + std::to_string(t[0]) + " " + std::to_string(t[1]) + " " + std::to_string(t[2]);
    std::printf("Q parforx st %d %d %lld %lld %d %u %d %u %u %d %d %zu %d %zu%s => S %zu ok\n", bits, sg, (long long)c.start, (long long)c.stop, c.chunkMode,
                c.maxThreads, c.wait ? 1 : 0, c.minItems, c.g, c.pool, recursive, prevStates, c.reuseState ? 1 : 0, tri.size(), ti.c_str(), states.size());
  }
  if (gProp == "C48") {
    int bound = (int)std::max<uint32_t>(c.maxThreads > 0x7fffffffu ? 1 : c.maxThreads, 1);
    if (rec.maxRunning.load() > bound)
      std::printf("PFAIL parallel_for ran more body invocations at once than maxThreads | %s observed=%d\n", gLast, rec.maxRunning.load());
  }
}

template <typename T>
static T pickEdge(vh::SplitMix& rng) {
  using L = std::numeric_limits<T>;
  switch (rng.below(9)) {
    case 0: return L::min();
    case 1: return (T)(L::min() + 1);
    case 2: return L::max();
    case 3: return (T)(L::max() - 1);
    case 4: return (T)0;
    case 5: return (T)1;
    case 6: return L::is_signed ? (T)-1 : (T)2;
    default: return (T)(rng.next());
  }
}

template <typename T>
static void sampleType(vh::SplitMix& rng, long long count, const char* tname, int bits, int sg) {
  using L = std::numeric_limits<T>;
  for (long long k = 0; k < count; ++k) {
    Cfg<T> c;
    T a = pickEdge<T>(rng), b;
    // range length: mostly small, sometimes the whole type or huge
    int lk = (int)rng.below(10);
    unsigned long long len = lk < 6 ? rng.below(70) : lk < 8 ? rng.below(3000) : lk == 8 ? rng.below(1ull << 20) : (rng.next() >> (int)rng.below(63));
    unsigned long long room = (unsigned long long)((__int128)L::max() - (__int128)a);
    if (len > room) len = room;
    if (L::is_signed && bits == 64 && len > (1ull << 62)) len = 1ull << 62;
    if (!L::is_signed && bits == 64) { if ((unsigned long long)a > (1ull << 62)) a = (T)(rng.next() >> 2); if (len > (1ull << 61)) len = 1ull << 61; }
    b = (T)((__int128)a + (__int128)len);
    c.start = a; c.stop = b;
    int cm = (int)rng.below(5);
    c.chunkMode = cm <= 1 ? 0 : cm == 2 ? -1 : (int)rng.range(1, 5);
    if (c.chunkMode > 0 && len > 5000) c.chunkMode = 0;           // explicit tiny chunks over huge ranges would record too many chunks
    static const uint32_t mts[] = {0, 1, 2, 3, 4, 5, 8, 0x7fffffffu, 0x7fffffffu};
    c.maxThreads = mts[rng.below(9)];
    c.wait = rng.coin();
    c.minItems = rng.below(3) == 0 ? (uint32_t)rng.range(2, 40) : 1;
    c.g = rng.below(3) == 0 ? (uint32_t)rng.range(2, 16) : 1;
    c.pool = (int)rng.below(5);
    if (gProp == "C14" && rng.below(10) == 0 && len >= 40) {   // > 16 workers: multi-group dynamic path
      c.pool = rng.coin() ? 17 : 20; c.maxThreads = 0x7fffffffu; c.minItems = 1;
      if (c.chunkMode == -1) { if (len <= 5000) c.chunkMode = (int)rng.range(1, 3); else { c.chunkMode = 0; c.wait = false; } }
    }
    c.nested = rng.below(7) == 0;
    c.fromWorker = rng.below(4) == 0;
    c.useCts = rng.below(3) == 0;
    c.stateful = (gProp == "C14") || rng.below(4) == 0;
    c.reuseState = rng.below(4) == 0;
    bool rdv = false;
    if (gProp == "C48" && rng.below(4) == 0) {
      // small ranges on a larger pool with a low maxThreads: the task count (= states created) is tied to the
      // model and the bodies linger so that an over-launch shows as concurrency
      c.pool = rng.coin() ? 6 : 8;
      len = rng.below((unsigned long long)c.pool + 3);
      if (len > room) len = room;
      c.stop = b = (T)((__int128)a + (__int128)len);
      static const uint32_t lo[] = {0, 1, 2, 3, 4};
      c.maxThreads = lo[rng.below(5)];
      c.minItems = 1; c.g = rng.below(4) == 0 ? 2 : 1;
      c.chunkMode = rng.below(3) == 0 ? (rng.coin() ? 0 : -1) : (int)rng.range(1, 2);
      c.stateful = true; c.reuseState = false; c.nested = false;
      rdv = true;
    }
    // 64-bit adaptive+wait ranges ending within 2^40 of the type maximum: known finding, probed separately
    if (bits == 64 && c.chunkMode == 0 && c.wait && (unsigned long long)L::max() - (unsigned long long)b < (1ull << 40)) c.wait = false;
    runCfg<T>(c, tname, bits, sg, rdv);
  }
}

template <typename T>
static void exhaustive8(vh::SplitMix& rng, long long stride, const char* tname, int sg) {
  using L = std::numeric_limits<T>;
  long long n = 0;
  for (int a = L::min(); a <= L::max(); ++a)
    for (int b = a; b <= L::max(); ++b) {
      if ((n++ % stride) != 0) continue;
      Cfg<T> c;
      c.start = (T)a; c.stop = (T)b;
      int cm = (int)rng.below(5);
      c.chunkMode = cm <= 1 ? 0 : cm == 2 ? -1 : (int)rng.range(1, 5);
      static const uint32_t mts[] = {0, 1, 2, 3, 5, 0x7fffffffu, 0x7fffffffu};
      c.maxThreads = mts[rng.below(7)];
      c.wait = rng.coin();
      c.minItems = rng.below(3) == 0 ? (uint32_t)rng.range(2, 100) : 1;
      c.g = rng.below(3) == 0 ? (uint32_t)rng.range(2, 16) : 1;
      c.pool = (int)rng.below(5);
      c.nested = false; c.fromWorker = rng.below(4) == 0; c.useCts = rng.below(3) == 0; c.stateful = (gProp == "C14"); c.reuseState = false;
      runCfg<T>(c, tname, 8, sg);
    }
}

int main(int argc, char** argv) {
  gProp = vh::argOr(argc, argv, 1, "C12");
  uint64_t seed = vh::argInt(argc, argv, 2, 1);
  long long count = vh::argInt(argc, argv, 3, 100);
  std::string mode = vh::argOr(argc, argv, 4, "sample");
  signal(SIGALRM, onAlarm);
  vh::SplitMix rng(seed);
  // one executable per index type (PF_T / PF_NAME / PF_BITS / PF_SIGNED are given on the command line
  // of the compiler) keeps the template instantiation cost of each translation unit small
  if (mode == "sample") {
    sampleType<PF_T>(rng, count, PF_NAME, PF_BITS, PF_SIGNED);
  } else if (mode == "exh8") {
#if PF_BITS == 8
    exhaustive8<PF_T>(rng, count, PF_NAME, PF_SIGNED);
#endif
  } else if (mode == "probe64") {
#if PF_BITS == 64 && PF_SIGNED == 1
    // the known finding: adaptive, wait=true, 64-bit range ending at the type maximum
    Cfg<int64_t> c;
    c.start = std::numeric_limits<int64_t>::max() - 1000; c.stop = std::numeric_limits<int64_t>::max();
    c.chunkMode = 0; c.maxThreads = 0x7fffffffu; c.wait = true; c.minItems = 1; c.g = 1; c.pool = 3; c.nested = false; c.fromWorker = false; c.useCts = false; c.stateful = false; c.reuseState = false;
    signal(SIGALRM, [](int) { const char m[] = "PFAIL parallel_for adaptive 64-bit range ending at the type maximum does not terminate or mis-partitions | probe64\n"; if (write(1, m, sizeof m - 1)) {} _exit(0); });
    alarm(5);
    gProp = "C12x";
    Rec rec; std::vector<St8> st;
    runOnSet<int64_t, dispenso::TaskSet>(c, rec, st);
    alarm(0);
    auto ch = rec.chunks; std::sort(ch.begin(), ch.end());
    long long at = c.start; bool ok = true;
    for (auto& p : ch) { if (p.first != at || p.second <= p.first) ok = false; at = p.second; }
    if (!ok || at != c.stop) std::printf("PFAIL parallel_for adaptive 64-bit range ending at the type maximum does not terminate or mis-partitions | probe64 chunks=%zu\n", ch.size());
#endif
  }
  std::printf("STAT cases %lld\n", cases);
  std::fflush(stdout);
  _exit(0);
}
