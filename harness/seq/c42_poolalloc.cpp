// C42 (sequential layer): NoLockPoolAllocator alloc/dealloc/clear histories with logging
// allocFunc/deallocFunc vs the Lean model. usage: c42_poolalloc <seed> <sequences> <max ops>
#include <dispenso/pool_allocator.h>
#include <map>
#include <memory>
#include <set>
#include <vector>
#include "common.h"

int main(int argc, char** argv) {
  uint64_t seed = vh::argInt(argc, argv, 1, 1);
  long long S = vh::argInt(argc, argv, 2, 300);
  int maxOps = (int)vh::argInt(argc, argv, 3, 30);
  vh::SplitMix rng(seed);
  long long cases = 0;
  for (long long it = 0; it < S; ++it) {
    // chunk sizes: powers of two, and (one case in three) any size 1..70 (not a multiple of the pointer size)
    size_t chunk = rng.below(3) == 0 ? 1 + rng.below(70) : size_t{8} << rng.below(4);
    size_t k = 1 + rng.below(5);
    size_t allocSize = chunk * k + rng.below(chunk);   // slack bytes at the end of the slab are never handed out
    std::printf("Q pallocseq reset %zu => ok\n", k);
    std::vector<char*> slabs;                 // in order of first use
    std::set<char*> liveSlabs;
    long allocCalls = 0, deallocCalls = 0;
    bool bad = false;
    std::string badWhy, hist;
    auto* pa = new dispenso::NoLockPoolAllocator(
        chunk, allocSize,
        [&](size_t n) -> void* { ++allocCalls; if (n != allocSize) { bad = true; badWhy = "allocFunc called with a wrong size"; } char* p = (char*)::malloc(n); slabs.push_back(p); liveSlabs.insert(p); return p; },
        [&](void* p) { ++deallocCalls; if (!liveSlabs.erase((char*)p)) { bad = true; badWhy = "deallocFunc called twice or for an unknown slab"; } ::free(p); });
    std::vector<std::pair<int, int>> out;     // handed out (slab, idx)
    auto locate = [&](char* p, int& slab, int& idx) {
      slab = -1; idx = -1;
      for (size_t i = 0; i < slabs.size(); ++i)
        if (p >= slabs[i] && p < slabs[i] + allocSize) { slab = (int)i; idx = (int)((p - slabs[i]) / chunk); if ((size_t)(p - slabs[i]) % chunk) idx = -2; if ((size_t)(p - slabs[i]) + chunk > allocSize) idx = -3; }
    };
    int nops = 1 + (int)rng.below(maxOps);
    for (int op = 0; op < nops; ++op) {
      int kind = (int)rng.below(10);
      if (kind < 5 || out.empty()) {
        char* p = pa->alloc();
        std::memset(p, 0xCD, chunk);
        int slab, idx; locate(p, slab, idx);
        if (slab < 0 || idx < 0) { bad = true; badWhy = "chunk outside every slab / misplaced / crossing the slab end"; }
        for (auto& o : out) if (o.first == slab && o.second == idx) { bad = true; badWhy = "chunk handed out twice without dealloc"; }
        out.push_back({slab, idx});
        std::printf("Q pallocseq alloc => %d %d %ld %ld %zu\n", slab, idx, allocCalls, deallocCalls, pa->totalChunkCapacity());
        hist += "alloc;";
      } else if (kind < 9) {
        size_t j = rng.below(out.size());
        auto c = out[j]; out.erase(out.begin() + (long)j);
        pa->dealloc(slabs[(size_t)c.first] + (size_t)c.second * chunk);
        std::printf("Q pallocseq dealloc %d %d => -1 -1 %ld %ld %zu\n", c.first, c.second, allocCalls, deallocCalls, pa->totalChunkCapacity());
        hist += "dealloc;";
      } else {
        long before = allocCalls;
        size_t slabsBefore = liveSlabs.size();
        pa->clear();
        out.clear();
        std::printf("Q pallocseq clear => -1 -1 %ld %ld %zu\n", allocCalls, deallocCalls, pa->totalChunkCapacity());
        hist += "clear;";
        // after clear(), existing slabs are reused before allocFunc is called again
        size_t canServe = slabsBefore * k;
        for (size_t a = 0; a < canServe && a < 7; ++a) {
          char* p = pa->alloc();
          int slab, idx; locate(p, slab, idx);
          out.push_back({slab, idx});
          std::printf("Q pallocseq alloc => %d %d %ld %ld %zu\n", slab, idx, allocCalls, deallocCalls, pa->totalChunkCapacity());
        }
        if (allocCalls != before) { bad = true; badWhy = "allocFunc called although cleared slabs were available"; }
      }
    }
    delete pa;
    std::printf("Q pallocseq destroy => -1 -1 %ld %ld 0\n", allocCalls, deallocCalls);
    if (!liveSlabs.empty() || deallocCalls != allocCalls) { bad = true; badWhy = "destructor did not release every slab exactly once"; }
    ++cases;
    if (bad) std::printf("PFAIL PoolAllocator chunk/slab contract violated | why=%s chunk=%zu k=%zu ops=%s\n", badWhy.c_str(), chunk, k, hist.substr(0, 300).c_str());
    if (it < 2) std::printf("SAMPLE k=%zu %s\n", k, hist.substr(0, 200).c_str());
  }
  std::printf("STAT cases %lld\n", cases);
  return 0;
}
