// C32: ConcurrentVector<Tracked, Traits> used sequentially vs std::vector<Tracked> vs the Lean model.
// usage: c32_convec <seed> <sequences> <max ops>
#include <algorithm>
#include <atomic>
#include <cassert>
#include <climits>
#include <cstdlib>
#include <cstring>
#include <initializer_list>
#include <map>
#include <memory>
#include <stdexcept>
#include <thread>
#include <type_traits>
#include <utility>
#include <vector>
#include <signal.h>
#include <stdint.h>
#include <stdlib.h>
#include <unistd.h>
#include "common.h"
// Allocation log: dispenso's alignedMalloc/alignedFree (platform.h, inline) call ::malloc / ::free;
// while the dispenso headers are read those two names are routed through the log below (all
// standard headers dispenso needs are included above, so only dispenso's own calls are affected).
namespace hk {
struct Blk { char* raw; size_t bytes; };
static std::vector<Blk> live;
static std::vector<size_t> allBytes;   // byte counts of all blocks requested since the last reset
static long long allocs = 0, frees = 0, badFrees = 0;
static void reset() { allBytes.clear(); allocs = frees = badFrees = 0; }
static const Blk* find(const void* p) {
  for (auto& b : live) if ((const char*)p >= b.raw && (const char*)p < b.raw + b.bytes) return &b;
  return nullptr;
}
}  // namespace hk
static void* vhMalloc(size_t n) {
  void* p = malloc(n);
  hk::live.push_back({(char*)p, n}); hk::allBytes.push_back(n); ++hk::allocs;
  return p;
}
static void vhFree(void* p) {
  bool found = false;
  for (size_t i = 0; i < hk::live.size(); ++i) if (hk::live[i].raw == (char*)p) { hk::live.erase(hk::live.begin() + (long)i); found = true; break; }
  if (!found) { ++hk::badFrees; return; }   // not handed to free(): the run continues and reports
  ++hk::frees;
  free(p);
}
#define malloc(x) vhMalloc(x)
#define free(x) vhFree(x)
#define private public
#define protected public
#include <dispenso/concurrent_vector.h>
#undef protected
#undef private
#undef malloc
#undef free

using vh::Tracked;
using dispenso::ConcurrentVectorReallocStrategy;
static long long cases = 0;
static char gLast[700] = "none";
static void onAlarm(int) {
  char buf[900];
  int k = std::snprintf(buf, sizeof buf, "\nPFAIL ConcurrentVector operation did not return (hang) | %s\nSTAT cases %lld\n", gLast, cases);
  std::fflush(stdout);
  if (write(1, buf, (size_t)k)) {}
  _exit(0);
}

struct TraitsA {
  static constexpr bool kPreferBuffersInline = false;
  static constexpr ConcurrentVectorReallocStrategy kReallocStrategy = ConcurrentVectorReallocStrategy::kHalfBufferAhead;
  static constexpr bool kIteratorPreferSpeed = false;
};
struct TraitsB {
  static constexpr bool kPreferBuffersInline = true;
  static constexpr ConcurrentVectorReallocStrategy kReallocStrategy = ConcurrentVectorReallocStrategy::kFullBufferAhead;
  static constexpr bool kIteratorPreferSpeed = true;
};
// an element of at least 256 bytes makes the first bucket a single element
// (kDefaultCapacity = 2), so that short sequences cross many bucket boundaries
struct BigTracked : vh::Tracked {
  char pad[256];
  BigTracked() : Tracked() {}
  BigTracked(int x) : Tracked(x) {}
};
// 64 bytes: kDefaultCapacity = 8, first bucket of 4 elements
struct MidTracked : vh::Tracked {
  char pad[56];
  MidTracked() : Tracked() {}
  MidTracked(int x) : Tracked(x) {}
};
struct TraitsC {
  static constexpr bool kPreferBuffersInline = false;
  static constexpr ConcurrentVectorReallocStrategy kReallocStrategy = ConcurrentVectorReallocStrategy::kAsNeeded;
  static constexpr bool kIteratorPreferSpeed = true;
};

template <typename V> struct TraitsOf;
template <typename T, typename Tr, typename S> struct TraitsOf<dispenso::ConcurrentVector<T, Tr, S>> { using type = Tr; };

// White-box observation of one vector for the allocation model (`cvalloc`): firstBucketShift_, size,
// capacity(), which buffers_[b] are non-null, the shouldDealloc_ flags, which bucket pointers are
// the start of a live malloc block; plus the allocation log totals.  Also the storage oracle:
// every non-null bucket lies inside one live block and no two buckets overlap.
template <typename CV, typename E>
static std::string observe(CV& d, bool& storageBad) {
  unsigned long long bufs = 0, flags = 0, starts = 0;
  const size_t A = std::max(alignof(E), sizeof(uintptr_t));
  std::vector<std::pair<const char*, const char*>> regs;
  for (size_t b = 0; b < CV::kMaxBuffers; ++b) {
    E* p = d.buffers_[b].load(std::memory_order_relaxed);
    if (d.buffers_.shouldDealloc(b)) flags |= 1ull << b;
    if (!p) continue;
    bufs |= 1ull << b;
    size_t cap = b == 0 ? d.firstBucketLen_ : d.firstBucketLen_ << (b - 1);
    const hk::Blk* blk = hk::find(p);
    const char* lo = (const char*)p; const char* hi = lo + cap * sizeof(E);
    if (!blk || hi > blk->raw + blk->bytes) storageBad = true;
    else if (b >= 2 && (size_t)(lo - blk->raw) <= A) starts |= 1ull << b;
    for (auto& r : regs) if (lo < r.second && r.first < hi) storageBad = true;
    regs.push_back({lo, hi});
  }
  char buf[300];
  std::snprintf(buf, sizeof buf, "%zu %zu %zu %llu %llu %llu", d.firstBucketShift_, d.size(), d.capacity(), bufs, flags, starts);
  return buf;
}
template <typename CV, typename E>
static std::string totals() {
  const size_t A = std::max(alignof(E), sizeof(uintptr_t));
  const size_t tableBytes = CV::kMaxBuffers * sizeof(dispenso::detail::AlignedAtomic<E>) + alignof(dispenso::detail::AlignedAtomic<E>);
  unsigned long long elems = 0;
  for (size_t by : hk::allBytes) if (!(by == tableBytes && !std::is_array<decltype(CV::buffers_.buffers_)>::value)) elems += (by - A) / sizeof(E);
  char buf[200];
  std::snprintf(buf, sizeof buf, "| %lld %lld %llu 0 %lld", hk::allocs, hk::frees, elems, hk::badFrees);
  return buf;
}

template <typename E>
static std::string lst(const std::vector<E>& v) { std::string s; for (auto& e : v) s += " " + std::to_string(e.v); return s; }

template <typename CV, typename E>
static void checkIterators(CV& d, const std::vector<E>& r, bool& bad, vh::SplitMix& rng) {
  // iteration, indexing, reverse iteration, iterator arithmetic against index arithmetic
  size_t n = d.size();
  if (n != r.size()) { bad = true; return; }
  size_t i = 0;
  for (auto it = d.begin(); it != d.end(); ++it, ++i) if (i >= n || it->v != r[i].v) { bad = true; return; }
  if (i != n) bad = true;
  i = n;
  for (auto it = d.rbegin(); it != d.rend(); ++it) { --i; if (it->v != r[i].v) { bad = true; return; } }
  for (size_t k = 0; k < n; ++k) if (d[k].v != r[k].v || d.at(k).v != r[k].v) bad = true;
  if (n) {
    if (d.front().v != r.front().v || d.back().v != r.back().v) bad = true;
    for (int t = 0; t < 6; ++t) {
      size_t a = rng.below(n + 1), b = rng.below(n + 1);
      auto ia = d.begin() + (ssize_t)a, ib = d.begin() + (ssize_t)b;
      if ((ib - ia) != (ssize_t)b - (ssize_t)a) bad = true;
      if ((ia < ib) != (a < b) || (ia == ib) != (a == b) || (ia <= ib) != (a <= b)) bad = true;
      auto ic = ia; ic += ((ssize_t)b - (ssize_t)a);
      if (ic != ib) bad = true;
      if (a < n) { if (ia->v != r[a].v) bad = true; if (b >= a && b < n && ia[(ssize_t)(b - a)].v != r[b].v) bad = true; }
      if (a > 0) { auto id = ia; --id; if (id->v != r[a - 1].v) bad = true; auto ie = ia - 1; if (ie != id) bad = true; }
      if (a < n) { auto id = ia; ++id; if ((id - d.begin()) != (ssize_t)a + 1) bad = true; }
      auto cit = d.cbegin() + (ssize_t)a;
      if ((cit - d.cbegin()) != (ssize_t)a) bad = true;
    }
  }
}

template <typename CV, typename Tracked>
static void sequence(vh::SplitMix& rng, int maxOps, long long it, const char* traitName) {
  using RV = std::vector<Tracked>;
  std::printf("Q convec reset => ok\n");
  constexpr bool kTable = !std::is_array<decltype(CV::buffers_.buffers_)>::value;
  {
    CV probe;
    int strat = (int)TraitsOf<CV>::type::kReallocStrategy;
    std::printf("Q cvalloc reset %d %zu %zu %d => ok\n", strat, probe.firstBucketShift_, (size_t)CV::kMaxBuffers, kTable ? 1 : 0);
  }
  hk::reset();
  size_t liveBlocksBase = hk::live.size();
  bool storageBad = false; std::string storageAt;
  int forceGrow = 0, forceTarget = -1; size_t forceLeft = 0;
  struct Slot { std::unique_ptr<CV> p; std::unique_ptr<RV> ref; };
  std::map<int, Slot> objs;
  int next = 0;
  long base = vh::trackStats().live;
  auto implLive = [&] { long refLive = 0; for (auto& kv : objs) refLive += (long)kv.second.ref->size(); return vh::trackStats().live - base - refLive; };
  std::string hist;
  bool bad = false;
  std::string badAt;
  int nops = 1 + (int)rng.below(maxOps);
  for (int k = 0; k < nops + 1000; ++k) {
    bool finishing = k >= nops;
    if (finishing && objs.empty()) break;
    int kind = finishing ? 28 : (int)rng.below(34);
    if (kind >= 31) kind = kind == 31 ? 6 : (kind == 32 ? 27 : 23);   // assign / copy-assign / reserve get extra weight
    // after an operation that sets the size or the buffers directly, often grow across the next
    // bucket boundaries right away (the allocate-ahead bookkeeping must still be in step)
    bool forced = false;
    if (!finishing && forceGrow > 0) { kind = forceGrow == 1 ? 8 : 11; forced = true; }
    auto pick = [&]() -> int { if (objs.empty()) return -1; auto itr = objs.begin(); std::advance(itr, rng.below(objs.size())); return itr->first; };
    int a = pick(), b = pick();
    if (forced && objs.count(forceTarget)) a = forceTarget;
    int x = 1 + (int)rng.below(90);
    int n = (int)rng.below(11);
    if (sizeof(Tracked) < 256 && rng.below(4) == 0) n = (int)rng.below(90);   // cross the 32-element first buckets
    if (!forced && a >= 0 && (kind == 6 || kind == 23) && rng.below(2) == 0) {
      // sizes strictly inside the second bucket, where the allocate-ahead strategies differ
      size_t F = objs[a].p->firstBucketLen_;
      if (F <= 64) n = (int)(F + (F > 1 ? 1 + rng.below(F - 1) : 0));
    }
    if (forced) {
      if (forceGrow == 1) { if (--forceLeft == 0) forceGrow = 0; }
      else { n = (int)forceLeft; forceGrow = 0; }
    }
    std::vector<Tracked> xs; std::string xss;
    int xn = (int)rng.below(6);
    for (int i = 0; i < xn; ++i) { int v = 1 + (int)rng.below(90); xs.emplace_back(v); xss += " " + std::to_string(v); }
    char req[200];
    int dstId = -1; long pos = -1;
    std::snprintf(gLast, sizeof gLast, "traits=%s ops=%s", traitName, hist.substr(hist.size() > 500 ? hist.size() - 500 : 0).c_str());
    alarm(8);
    auto mk = [&](CV* p, RV* r) { Slot& s = objs[next]; s.p.reset(p); s.ref.reset(r); dstId = next++; };
    if (kind == 0) { std::snprintf(req, sizeof req, "mk"); mk(new CV(), new RV()); }
    else if (kind == 1) { std::snprintf(req, sizeof req, "mkSize %d", n); mk(new CV((size_t)n), new RV((size_t)n)); }
    else if (kind == 2) { std::snprintf(req, sizeof req, "mkSizeVal %d %d", n, x); mk(new CV((size_t)n, Tracked(x)), new RV((size_t)n, Tracked(x))); }
    else if (kind == 3) { std::snprintf(req, sizeof req, "mkRange%s", xss.c_str()); mk(new CV(xs.begin(), xs.end()), new RV(xs.begin(), xs.end())); }
    else if (a < 0) continue;
    else {
      CV& A = *objs[a].p; RV& RA = *objs[a].ref;
      size_t sz = RA.size();
      size_t idx = rng.below(sz + 1), j = idx + rng.below(sz - idx + 1);
      dstId = a;
      switch (kind) {
        case 4: std::snprintf(req, sizeof req, "copyCtor %d", a); mk(new CV(A), new RV(RA)); break;
        case 5: std::snprintf(req, sizeof req, "moveCtor %d", a); { CV* p = new CV(std::move(A)); RV* r = new RV(std::move(RA)); RA.clear(); mk(p, r); } break;
        case 6: std::snprintf(req, sizeof req, "assign %d %d %d", a, n, x); A.assign((size_t)n, Tracked(x)); RA.assign((size_t)n, Tracked(x)); break;
        case 7: std::snprintf(req, sizeof req, "assignRange %d%s", a, xss.c_str()); A.assign(xs.begin(), xs.end()); RA.assign(xs.begin(), xs.end()); break;
        case 8: std::snprintf(req, sizeof req, "pushBack %d %d", a, x); { auto itp = A.push_back(Tracked(x)); pos = itp - A.begin(); RA.push_back(Tracked(x)); } break;
        case 9: std::snprintf(req, sizeof req, "pushBack %d %d", a, x); { auto itp = A.emplace_back(x); pos = itp - A.begin(); RA.emplace_back(x); } break;
        case 10: std::snprintf(req, sizeof req, "growBy %d %d", a, n); { auto itp = A.grow_by((size_t)n); pos = itp - A.begin(); RA.resize(sz + n); } break;
        case 11: std::snprintf(req, sizeof req, "growByVal %d %d %d", a, n, x); { auto itp = A.grow_by((size_t)n, Tracked(x)); pos = itp - A.begin(); RA.resize(sz + n, Tracked(x)); } break;
        case 12: std::snprintf(req, sizeof req, "growByRange %d%s", a, xss.c_str()); { auto itp = A.grow_by(xs.begin(), xs.end()); pos = itp - A.begin(); RA.insert(RA.end(), xs.begin(), xs.end()); } break;
        case 13: std::snprintf(req, sizeof req, "growByVal %d %d %d", a, n, x); { auto itp = A.grow_by_generator((size_t)n, [&] { return Tracked(x); }); pos = itp - A.begin(); RA.resize(sz + n, Tracked(x)); } break;
        case 14: if (n == 0) continue; std::snprintf(req, sizeof req, "growToAtLeast %d %d", a, n); { auto itp = A.grow_to_at_least((size_t)n); pos = itp - A.begin(); if (sz < (size_t)n) RA.resize(n); } break;
        case 15: if (n == 0) continue; std::snprintf(req, sizeof req, "growToAtLeastVal %d %d %d", a, n, x); { auto itp = A.grow_to_at_least((size_t)n, Tracked(x)); pos = itp - A.begin(); if (sz < (size_t)n) RA.resize(n, Tracked(x)); } break;
        case 16: std::snprintf(req, sizeof req, "insert1 %d %zu %d", a, idx, x); { auto itp = A.insert(A.cbegin() + (ssize_t)idx, Tracked(x)); pos = itp - A.begin(); auto itr = RA.insert(RA.begin() + idx, Tracked(x)); if (pos != itr - RA.begin()) { bad = true; badAt = req; } } break;
        case 17: std::snprintf(req, sizeof req, "insertN %d %zu %d %d", a, idx, n, x); { auto itp = A.insert(A.cbegin() + (ssize_t)idx, (size_t)n, Tracked(x)); pos = itp - A.begin(); auto itr = RA.insert(RA.begin() + idx, (size_t)n, Tracked(x)); if (pos != itr - RA.begin()) { bad = true; badAt = req; } } break;
        case 18: std::snprintf(req, sizeof req, "insertRange %d %zu%s", a, idx, xss.c_str()); { auto itp = A.insert(A.cbegin() + (ssize_t)idx, xs.begin(), xs.end()); pos = itp - A.begin(); auto itr = RA.insert(RA.begin() + idx, xs.begin(), xs.end()); if (pos != itr - RA.begin()) { bad = true; badAt = req; } } break;
        case 19: std::snprintf(req, sizeof req, "erase1 %d %zu", a, idx); { auto itp = A.erase(A.cbegin() + (ssize_t)idx); pos = itp - A.begin();
                   if (idx < sz) { auto itr = RA.erase(RA.begin() + idx); if (pos != itr - RA.begin()) { bad = true; badAt = std::string(req) + " returned position differs from std::vector"; } } } break;
        case 20: std::snprintf(req, sizeof req, "eraseRange %d %zu %zu", a, idx, j); { auto itp = A.erase(A.cbegin() + (ssize_t)idx, A.cbegin() + (ssize_t)j); pos = itp - A.begin();
                   auto itr = RA.erase(RA.begin() + idx, RA.begin() + j); if (pos != itr - RA.begin()) { bad = true; badAt = std::string(req) + " returned position differs from std::vector"; } } break;
        case 21: std::snprintf(req, sizeof req, "resize %d %d", a, n); A.resize(n); RA.resize(n); break;
        case 22: std::snprintf(req, sizeof req, "resizeVal %d %d %d", a, n, x); A.resize(n, Tracked(x)); RA.resize(n, Tracked(x)); break;
        case 23: { int rv = rng.below(2) ? 4 * n : n; std::snprintf(req, sizeof req, "reserve %d %d", a, rv); A.reserve(rv); RA.reserve(rv); if (A.capacity() < (size_t)rv) { bad = true; badAt = req; } } break;
        case 24: if (sz == 0) continue; std::snprintf(req, sizeof req, "popBack %d", a); A.pop_back(); RA.pop_back(); break;
        case 25: std::snprintf(req, sizeof req, "clear %d", a); A.clear(); RA.clear(); break;
        case 26: std::snprintf(req, sizeof req, "shrinkToFit %d", a); A.shrink_to_fit(); RA.shrink_to_fit(); break;
        case 27: std::snprintf(req, sizeof req, "copyAssign %d %d", a, b); A = *objs[b].p; RA = *objs[b].ref; break;
        case 28: std::snprintf(req, sizeof req, "destroy %d", a); objs.erase(a);
                 std::printf("Q convec %s => 0 -1 %ld\n", req, implLive() - (long)xs.size()); hist += std::string(req) + ";";
                 std::printf("Q cvalloc %s => - %s\n", req, totals<CV, Tracked>().c_str()); continue;
        case 29: if (a == b) continue; if (rng.coin()) { std::snprintf(req, sizeof req, "moveAssign %d %d", a, b); A = std::move(*objs[b].p); RA = std::move(*objs[b].ref); objs[b].ref->clear(); }
                 else { std::snprintf(req, sizeof req, "swap %d %d", a, b); A.swap(*objs[b].p); RA.swap(*objs[b].ref); } break;
        default: std::snprintf(req, sizeof req, "cmp %d %d", a, b);
                 { CV& B = *objs[b].p; RV& RB = *objs[b].ref;
                   int c = (A == B ? 1 : 0) + (A < B ? 2 : 0), cr = (RA == RB ? 1 : 0) + (RA < RB ? 2 : 0);
                   if (c != cr || (A != B) == (A == B) || (A <= B) != (RA <= RB) || (A > B) != (RA > RB) || (A >= B) != (RA >= RB)) { bad = true; badAt = req; }
                   std::printf("Q convec %s => 0 %d %ld\n", req, c, implLive() - (long)xs.size()); hist += std::string(req) + ";"; continue; }
      }
    }
    hist += std::string(req) + ";";
    CV& d = *objs[dstId].p;
    RV& r = *objs[dstId].ref;
    std::string got;
    for (size_t i = 0; i < d.size(); ++i) got += " " + std::to_string(d[i].v);
    std::printf("Q convec %s => %zu %ld %ld%s\n", req, d.size(), pos, implLive() - (long)xs.size(), got.c_str());
    {
      bool sb = false;
      std::string ob = observe<CV, Tracked>(d, sb);
      std::printf("Q cvalloc %s => %s %s\n", req, ob.c_str(), totals<CV, Tracked>().c_str());
      if (sb && !storageBad) { storageBad = true; storageAt = req; }
      bool sets = (kind >= 4 && kind <= 7) || kind == 21 || kind == 22 || kind == 23 || kind == 25 || kind == 26 || kind == 27 || kind == 29 || kind == 19 || kind == 20 || kind == 24;
      bool assigns = kind == 6 || kind == 7 || kind == 27;
      if (!forced && sets && rng.below(4) < (assigns ? 3u : 2u) && d.size() < 700) {
        // distance to the next bucket boundary, plus one more bucket half of the time
        size_t F = d.firstBucketLen_, sz = d.size(), bound = F;
        while (bound <= sz) bound *= 2;
        size_t need = bound - sz + 1 + (rng.below(2) ? bound / 2 + rng.below(bound) : 0);
        if (need <= 200) { forceTarget = dstId; forceLeft = need; forceGrow = (need <= 12 && rng.below(2)) ? 1 : 2; }
      }
    }
    bool localBad = false;
    if (d.size() != r.size() || d.empty() != r.empty() || d.capacity() < d.size()) localBad = true;
    checkIterators(d, r, localBad, rng);
    if (localBad && !bad) { bad = true; badAt = req; }
  }
  ++cases;
  if (storageBad) std::printf("PFAIL ConcurrentVector bucket storage overlaps another bucket or lies outside its allocation | traits=%s at=%s ops=%s\n", traitName, storageAt.c_str(), hist.c_str());
  if (hk::live.size() != liveBlocksBase || hk::badFrees)
    std::printf("PFAIL ConcurrentVector buffer blocks leaked or freed twice | traits=%s liveBlocks=%ld badFrees=%lld ops=%s\n", traitName, (long)hk::live.size() - (long)liveBlocksBase, hk::badFrees, hist.c_str());
  if (bad) std::printf("PFAIL ConcurrentVector differs from std::vector (contents, size, position or iterators) | traits=%s at=%s ops=%s\n", traitName, badAt.c_str(), hist.c_str());
  if (vh::trackStats().live != base)
    std::printf("PFAIL ConcurrentVector element lifetimes unbalanced | traits=%s live=%ld ops=%s\n", traitName, vh::trackStats().live - base, hist.c_str());
  if (it < 3) std::printf("SAMPLE %s %s\n", traitName, hist.c_str());
}

int main(int argc, char** argv) {
  uint64_t seed = vh::argInt(argc, argv, 1, 1);
  long long S = vh::argInt(argc, argv, 2, 300);
  int maxOps = (int)vh::argInt(argc, argv, 3, 16);
  // consecutive seeds must not give shifted copies of one stream (SplitMix's state is seed·γ + c)
  vh::SplitMix rng((seed ^ 0xD1B54A32D192ED03ull) * 0xAEF17502108EF2D9ull + (seed << 32));
  signal(SIGALRM, onAlarm);
  // index math: bucketAndSubIndex for several first-bucket sizes
  {
    dispenso::ConcurrentVector<BigTracked> v2;
    dispenso::ConcurrentVector<int> v64(64, dispenso::ReserveTag);
    dispenso::ConcurrentVector<int> v1k(1000, dispenso::ReserveTag);
    auto probe = [&](auto& v, size_t idx) {
      auto b = v.bucketAndSubIndex(idx);
      auto c = v.bucketAndSubIndexForIndex(idx);
      std::printf("Q convec bidx %zu %zu => %zu %zu %zu\n", v.firstBucketShift_, idx, b.bucket, b.bucketIndex, b.bucketCapacity);
      if (b.bucket != c.bucket || b.bucketIndex != c.bucketIndex || b.bucketCapacity != c.bucketCapacity || b.bucketIndex >= b.bucketCapacity)
        std::printf("PFAIL ConcurrentVector bucket index out of its bucket or the two index functions disagree | index=%zu\n", idx);
    };
    for (size_t i = 0; i < 600; ++i) { probe(v2, i); probe(v64, i); }
    for (size_t i = 0; i < 5000; i += 7) probe(v1k, i);
    for (int k = 0; k < 40; ++k) { size_t b = size_t{1} << k; probe(v2, b - 1); probe(v2, b); probe(v2, b + 1); probe(v1k, b); probe(v1k, b - 1); }
    for (int k = 0; k < 300; ++k) probe(v64, rng.next() >> (20 + rng.below(30)));
  }
  for (long long it = 0; it < S; ++it) {
    switch (it % 10) {
      case 5: sequence<dispenso::ConcurrentVector<MidTracked, TraitsA>, MidTracked>(rng, maxOps, it, "A/mid"); break;
      case 6: sequence<dispenso::ConcurrentVector<MidTracked, TraitsB>, MidTracked>(rng, maxOps, it, "B/mid"); break;
      case 7: sequence<dispenso::ConcurrentVector<Tracked, TraitsB>, Tracked>(rng, maxOps, it, "B"); break;
      case 8: sequence<dispenso::ConcurrentVector<MidTracked, TraitsC>, MidTracked>(rng, maxOps, it, "C/mid"); break;
      case 9: sequence<dispenso::ConcurrentVector<MidTracked>, MidTracked>(rng, maxOps, it, "default/mid"); break;
      case 4: sequence<dispenso::ConcurrentVector<Tracked>, Tracked>(rng, maxOps, it, "default"); break;
      case 0: sequence<dispenso::ConcurrentVector<BigTracked>, BigTracked>(rng, maxOps, it, "default/big"); break;
      case 1: sequence<dispenso::ConcurrentVector<BigTracked, TraitsA>, BigTracked>(rng, maxOps, it, "A/big"); break;
      case 2: sequence<dispenso::ConcurrentVector<BigTracked, TraitsB>, BigTracked>(rng, maxOps, it, "B/big"); break;
      case 3: sequence<dispenso::ConcurrentVector<Tracked, TraitsA>, Tracked>(rng, maxOps, it, "A"); break;
    }
  }
  if (vh::trackStats().doubleDestroy || vh::trackStats().useDead)
    std::printf("PFAIL ConcurrentVector destroyed an element twice or used a dead element | dd=%lld ud=%lld\n", vh::trackStats().doubleDestroy, vh::trackStats().useDead);
  std::printf("STAT cases %lld\n", cases);
  return 0;
}
