// C32: ConcurrentVector<Tracked, Traits> used sequentially vs std::vector<Tracked> vs the Lean model.
// usage: c32_convec <seed> <sequences> <max ops>
#include <map>
#include <memory>
#include <vector>
#include <signal.h>
#include <unistd.h>
#include "common.h"
#define private public
#include <dispenso/concurrent_vector.h>
#undef private

using vh::Tracked;
using dispenso::ConcurrentVectorReallocStrategy;
static long long cases = 0;
static char gLast[700] = "none";
static void onAlarm(int) {
  char buf[900];
  int k = std::snprintf(buf, sizeof buf, "PFAIL ConcurrentVector operation did not return (hang) | %s\nSTAT cases %lld\n", gLast, cases);
  if (write(1, buf, (size_t)k)) {}
  _exit(0);
}

struct TraitsA {
  static constexpr bool kPreferBuffersInline = false;
  static constexpr ConcurrentVectorReallocStrategy kReallocStrategy = ConcurrentVectorReallocStrategy::kHalfBufferAhead;
  static constexpr bool kIteratorPreferSpeed = false;
};
struct TraitsB {
  static constexpr bool kPreferBuffersInline = true;
  static constexpr ConcurrentVectorReallocStrategy kReallocStrategy = ConcurrentVectorReallocStrategy::kFullBufferAhead;
  static constexpr bool kIteratorPreferSpeed = true;
};
// an element of at least 256 bytes makes the first bucket a single element
// (kDefaultCapacity = 2), so that short sequences cross many bucket boundaries
struct BigTracked : vh::Tracked {
  char pad[256];
  BigTracked() : Tracked() {}
  BigTracked(int x) : Tracked(x) {}
};

template <typename E>
static std::string lst(const std::vector<E>& v) { std::string s; for (auto& e : v) s += " " + std::to_string(e.v); return s; }

template <typename CV, typename E>
static void checkIterators(CV& d, const std::vector<E>& r, bool& bad, vh::SplitMix& rng) {
  // iteration, indexing, reverse iteration, iterator arithmetic against index arithmetic
  size_t n = d.size();
  if (n != r.size()) { bad = true; return; }
  size_t i = 0;
  for (auto it = d.begin(); it != d.end(); ++it, ++i) if (i >= n || it->v != r[i].v) { bad = true; return; }
  if (i != n) bad = true;
  i = n;
  for (auto it = d.rbegin(); it != d.rend(); ++it) { --i; if (it->v != r[i].v) { bad = true; return; } }
  for (size_t k = 0; k < n; ++k) if (d[k].v != r[k].v || d.at(k).v != r[k].v) bad = true;
  if (n) {
    if (d.front().v != r.front().v || d.back().v != r.back().v) bad = true;
    for (int t = 0; t < 6; ++t) {
      size_t a = rng.below(n + 1), b = rng.below(n + 1);
      auto ia = d.begin() + (ssize_t)a, ib = d.begin() + (ssize_t)b;
      if ((ib - ia) != (ssize_t)b - (ssize_t)a) bad = true;
      if ((ia < ib) != (a < b) || (ia == ib) != (a == b) || (ia <= ib) != (a <= b)) bad = true;
      auto ic = ia; ic += ((ssize_t)b - (ssize_t)a);
      if (ic != ib) bad = true;
      if (a < n) { if (ia->v != r[a].v) bad = true; if (b >= a && b < n && ia[(ssize_t)(b - a)].v != r[b].v) bad = true; }
      if (a > 0) { auto id = ia; --id; if (id->v != r[a - 1].v) bad = true; auto ie = ia - 1; if (ie != id) bad = true; }
      if (a < n) { auto id = ia; ++id; if ((id - d.begin()) != (ssize_t)a + 1) bad = true; }
      auto cit = d.cbegin() + (ssize_t)a;
      if ((cit - d.cbegin()) != (ssize_t)a) bad = true;
    }
  }
}

template <typename CV, typename Tracked>
static void sequence(vh::SplitMix& rng, int maxOps, long long it, const char* traitName) {
  using RV = std::vector<Tracked>;
  std::printf("Q convec reset => ok\n");
  struct Slot { std::unique_ptr<CV> p; std::unique_ptr<RV> ref; };
  std::map<int, Slot> objs;
  int next = 0;
  long base = vh::trackStats().live;
  auto implLive = [&] { long refLive = 0; for (auto& kv : objs) refLive += (long)kv.second.ref->size(); return vh::trackStats().live - base - refLive; };
  std::string hist;
  bool bad = false;
  std::string badAt;
  int nops = 1 + (int)rng.below(maxOps);
  for (int k = 0; k < nops + 1000; ++k) {
    bool finishing = k >= nops;
    if (finishing && objs.empty()) break;
    int kind = finishing ? 28 : (int)rng.below(31);
    auto pick = [&]() -> int { if (objs.empty()) return -1; auto itr = objs.begin(); std::advance(itr, rng.below(objs.size())); return itr->first; };
    int a = pick(), b = pick();
    int x = 1 + (int)rng.below(90);
    int n = (int)rng.below(11);
    if (sizeof(Tracked) < 256 && rng.below(4) == 0) n = (int)rng.below(90);   // cross the 32-element first buckets
    std::vector<Tracked> xs; std::string xss;
    int xn = (int)rng.below(6);
    for (int i = 0; i < xn; ++i) { int v = 1 + (int)rng.below(90); xs.emplace_back(v); xss += " " + std::to_string(v); }
    char req[200];
    int dstId = -1; long pos = -1;
    std::snprintf(gLast, sizeof gLast, "traits=%s ops=%s", traitName, hist.substr(hist.size() > 500 ? hist.size() - 500 : 0).c_str());
    alarm(20);
    auto mk = [&](CV* p, RV* r) { Slot& s = objs[next]; s.p.reset(p); s.ref.reset(r); dstId = next++; };
    if (kind == 0) { std::snprintf(req, sizeof req, "mk"); mk(new CV(), new RV()); }
    else if (kind == 1) { std::snprintf(req, sizeof req, "mkSize %d", n); mk(new CV((size_t)n), new RV((size_t)n)); }
    else if (kind == 2) { std::snprintf(req, sizeof req, "mkSizeVal %d %d", n, x); mk(new CV((size_t)n, Tracked(x)), new RV((size_t)n, Tracked(x))); }
    else if (kind == 3) { std::snprintf(req, sizeof req, "mkRange%s", xss.c_str()); mk(new CV(xs.begin(), xs.end()), new RV(xs.begin(), xs.end())); }
    else if (a < 0) continue;
    else {
      CV& A = *objs[a].p; RV& RA = *objs[a].ref;
      size_t sz = RA.size();
      size_t idx = rng.below(sz + 1), j = idx + rng.below(sz - idx + 1);
      dstId = a;
      switch (kind) {
        case 4: std::snprintf(req, sizeof req, "copyCtor %d", a); mk(new CV(A), new RV(RA)); break;
        case 5: std::snprintf(req, sizeof req, "moveCtor %d", a); { CV* p = new CV(std::move(A)); RV* r = new RV(std::move(RA)); RA.clear(); mk(p, r); } break;
        case 6: std::snprintf(req, sizeof req, "assign %d %d %d", a, n, x); A.assign((size_t)n, Tracked(x)); RA.assign((size_t)n, Tracked(x)); break;
        case 7: std::snprintf(req, sizeof req, "assignRange %d%s", a, xss.c_str()); A.assign(xs.begin(), xs.end()); RA.assign(xs.begin(), xs.end()); break;
        case 8: std::snprintf(req, sizeof req, "pushBack %d %d", a, x); { auto itp = A.push_back(Tracked(x)); pos = itp - A.begin(); RA.push_back(Tracked(x)); } break;
        case 9: std::snprintf(req, sizeof req, "pushBack %d %d", a, x); { auto itp = A.emplace_back(x); pos = itp - A.begin(); RA.emplace_back(x); } break;
        case 10: std::snprintf(req, sizeof req, "growBy %d %d", a, n); { auto itp = A.grow_by((size_t)n); pos = itp - A.begin(); RA.resize(sz + n); } break;
        case 11: std::snprintf(req, sizeof req, "growByVal %d %d %d", a, n, x); { auto itp = A.grow_by((size_t)n, Tracked(x)); pos = itp - A.begin(); RA.resize(sz + n, Tracked(x)); } break;
        case 12: std::snprintf(req, sizeof req, "growByRange %d%s", a, xss.c_str()); { auto itp = A.grow_by(xs.begin(), xs.end()); pos = itp - A.begin(); RA.insert(RA.end(), xs.begin(), xs.end()); } break;
        case 13: std::snprintf(req, sizeof req, "growByVal %d %d %d", a, n, x); { auto itp = A.grow_by_generator((size_t)n, [&] { return Tracked(x); }); pos = itp - A.begin(); RA.resize(sz + n, Tracked(x)); } break;
        case 14: if (n == 0) continue; std::snprintf(req, sizeof req, "growToAtLeast %d %d", a, n); { auto itp = A.grow_to_at_least((size_t)n); pos = itp - A.begin(); if (sz < (size_t)n) RA.resize(n); } break;
        case 15: if (n == 0) continue; std::snprintf(req, sizeof req, "growToAtLeastVal %d %d %d", a, n, x); { auto itp = A.grow_to_at_least((size_t)n, Tracked(x)); pos = itp - A.begin(); if (sz < (size_t)n) RA.resize(n, Tracked(x)); } break;
        case 16: std::snprintf(req, sizeof req, "insert1 %d %zu %d", a, idx, x); { auto itp = A.insert(A.cbegin() + (ssize_t)idx, Tracked(x)); pos = itp - A.begin(); auto itr = RA.insert(RA.begin() + idx, Tracked(x)); if (pos != itr - RA.begin()) { bad = true; badAt = req; } } break;
        case 17: std::snprintf(req, sizeof req, "insertN %d %zu %d %d", a, idx, n, x); { auto itp = A.insert(A.cbegin() + (ssize_t)idx, (size_t)n, Tracked(x)); pos = itp - A.begin(); auto itr = RA.insert(RA.begin() + idx, (size_t)n, Tracked(x)); if (pos != itr - RA.begin()) { bad = true; badAt = req; } } break;
        case 18: std::snprintf(req, sizeof req, "insertRange %d %zu%s", a, idx, xss.c_str()); { auto itp = A.insert(A.cbegin() + (ssize_t)idx, xs.begin(), xs.end()); pos = itp - A.begin(); auto itr = RA.insert(RA.begin() + idx, xs.begin(), xs.end()); if (pos != itr - RA.begin()) { bad = true; badAt = req; } } break;
        case 19: std::snprintf(req, sizeof req, "erase1 %d %zu", a, idx); { auto itp = A.erase(A.cbegin() + (ssize_t)idx); pos = itp - A.begin();
                   if (idx < sz) { auto itr = RA.erase(RA.begin() + idx); if (pos != itr - RA.begin()) { bad = true; badAt = std::string(req) + " returned position differs from std::vector"; } } } break;
        case 20: std::snprintf(req, sizeof req, "eraseRange %d %zu %zu", a, idx, j); { auto itp = A.erase(A.cbegin() + (ssize_t)idx, A.cbegin() + (ssize_t)j); pos = itp - A.begin();
                   auto itr = RA.erase(RA.begin() + idx, RA.begin() + j); if (pos != itr - RA.begin()) { bad = true; badAt = std::string(req) + " returned position differs from std::vector"; } } break;
        case 21: std::snprintf(req, sizeof req, "resize %d %d", a, n); A.resize(n); RA.resize(n); break;
        case 22: std::snprintf(req, sizeof req, "resizeVal %d %d %d", a, n, x); A.resize(n, Tracked(x)); RA.resize(n, Tracked(x)); break;
        case 23: std::snprintf(req, sizeof req, "reserve %d %d", a, 4 * n); A.reserve(4 * n); RA.reserve(4 * n); if (A.capacity() < (size_t)(4 * n)) { bad = true; badAt = req; } break;
        case 24: if (sz == 0) continue; std::snprintf(req, sizeof req, "popBack %d", a); A.pop_back(); RA.pop_back(); break;
        case 25: std::snprintf(req, sizeof req, "clear %d", a); A.clear(); RA.clear(); break;
        case 26: std::snprintf(req, sizeof req, "shrinkToFit %d", a); A.shrink_to_fit(); RA.shrink_to_fit(); break;
        case 27: std::snprintf(req, sizeof req, "copyAssign %d %d", a, b); A = *objs[b].p; RA = *objs[b].ref; break;
        case 28: std::snprintf(req, sizeof req, "destroy %d", a); objs.erase(a);
                 std::printf("Q convec %s => 0 -1 %ld\n", req, implLive() - (long)xs.size()); hist += std::string(req) + ";"; continue;
        case 29: if (a == b) continue; if (rng.coin()) { std::snprintf(req, sizeof req, "moveAssign %d %d", a, b); A = std::move(*objs[b].p); RA = std::move(*objs[b].ref); objs[b].ref->clear(); }
                 else { std::snprintf(req, sizeof req, "swap %d %d", a, b); A.swap(*objs[b].p); RA.swap(*objs[b].ref); } break;
        default: std::snprintf(req, sizeof req, "cmp %d %d", a, b);
                 { CV& B = *objs[b].p; RV& RB = *objs[b].ref;
                   int c = (A == B ? 1 : 0) + (A < B ? 2 : 0), cr = (RA == RB ? 1 : 0) + (RA < RB ? 2 : 0);
                   if (c != cr || (A != B) == (A == B) || (A <= B) != (RA <= RB) || (A > B) != (RA > RB) || (A >= B) != (RA >= RB)) { bad = true; badAt = req; }
                   std::printf("Q convec %s => 0 %d %ld\n", req, c, implLive() - (long)xs.size()); hist += std::string(req) + ";"; continue; }
      }
    }
    hist += std::string(req) + ";";
    CV& d = *objs[dstId].p;
    RV& r = *objs[dstId].ref;
    std::string got;
    for (size_t i = 0; i < d.size(); ++i) got += " " + std::to_string(d[i].v);
    std::printf("Q convec %s => %zu %ld %ld%s\n", req, d.size(), pos, implLive() - (long)xs.size(), got.c_str());
    bool localBad = false;
    if (d.size() != r.size() || d.empty() != r.empty() || d.capacity() < d.size()) localBad = true;
    checkIterators(d, r, localBad, rng);
    if (localBad && !bad) { bad = true; badAt = req; }
  }
  ++cases;
  if (bad) std::printf("PFAIL ConcurrentVector differs from std::vector (contents, size, position or iterators) | traits=%s at=%s ops=%s\n", traitName, badAt.c_str(), hist.c_str());
  if (vh::trackStats().live != base)
    std::printf("PFAIL ConcurrentVector element lifetimes unbalanced | traits=%s live=%ld ops=%s\n", traitName, vh::trackStats().live - base, hist.c_str());
  if (it < 3) std::printf("SAMPLE %s %s\n", traitName, hist.c_str());
}

int main(int argc, char** argv) {
  uint64_t seed = vh::argInt(argc, argv, 1, 1);
  long long S = vh::argInt(argc, argv, 2, 300);
  int maxOps = (int)vh::argInt(argc, argv, 3, 16);
  vh::SplitMix rng(seed);
  signal(SIGALRM, onAlarm);
  // index math: bucketAndSubIndex for several first-bucket sizes
  {
    dispenso::ConcurrentVector<BigTracked> v2;
    dispenso::ConcurrentVector<int> v64(64, dispenso::ReserveTag);
    dispenso::ConcurrentVector<int> v1k(1000, dispenso::ReserveTag);
    auto probe = [&](auto& v, size_t idx) {
      auto b = v.bucketAndSubIndex(idx);
      auto c = v.bucketAndSubIndexForIndex(idx);
      std::printf("Q convec bidx %zu %zu => %zu %zu %zu\n", v.firstBucketShift_, idx, b.bucket, b.bucketIndex, b.bucketCapacity);
      if (b.bucket != c.bucket || b.bucketIndex != c.bucketIndex || b.bucketCapacity != c.bucketCapacity || b.bucketIndex >= b.bucketCapacity)
        std::printf("PFAIL ConcurrentVector bucket index out of its bucket or the two index functions disagree | index=%zu\n", idx);
    };
    for (size_t i = 0; i < 600; ++i) { probe(v2, i); probe(v64, i); }
    for (size_t i = 0; i < 5000; i += 7) probe(v1k, i);
    for (int k = 0; k < 40; ++k) { size_t b = size_t{1} << k; probe(v2, b - 1); probe(v2, b); probe(v2, b + 1); probe(v1k, b); probe(v1k, b - 1); }
    for (int k = 0; k < 300; ++k) probe(v64, rng.next() >> (20 + rng.below(30)));
  }
  for (long long it = 0; it < S; ++it) {
    switch (it % 5) {
      case 4: sequence<dispenso::ConcurrentVector<Tracked>, Tracked>(rng, maxOps, it, "default"); break;
      case 0: sequence<dispenso::ConcurrentVector<BigTracked>, BigTracked>(rng, maxOps, it, "default/big"); break;
      case 1: sequence<dispenso::ConcurrentVector<BigTracked, TraitsA>, BigTracked>(rng, maxOps, it, "A/big"); break;
      case 2: sequence<dispenso::ConcurrentVector<BigTracked, TraitsB>, BigTracked>(rng, maxOps, it, "B/big"); break;
      case 3: sequence<dispenso::ConcurrentVector<Tracked, TraitsA>, Tracked>(rng, maxOps, it, "A"); break;
    }
  }
  if (vh::trackStats().doubleDestroy || vh::trackStats().useDead)
    std::printf("PFAIL ConcurrentVector destroyed an element twice or used a dead element | dd=%lld ud=%lld\n", vh::trackStats().doubleDestroy, vh::trackStats().useDead);
  std::printf("STAT cases %lld\n", cases);
  return 0;
}
