// C15: for_each / for_each_n over random-access, bidirectional and forward iterators on real pools.
// Chunks are recovered from the identity of the functor copy that visited each element.
// usage: c15_foreach <seed> <rounds> [<mode: all|zeropool>]
#include <dispenso/for_each.h>
#include <dispenso/parallel_for.h>
#include <dispenso/thread_pool.h>
#include <signal.h>
#include <unistd.h>
#include <atomic>
#include <forward_list>
#include <list>
#include <map>
#include <vector>
#include "common.h"

static char gLast[300] = "none";
static long long cases = 0;
static std::atomic<int> gNextId{1};

struct Elem { int idx; std::atomic<int> visits{0}; std::atomic<int> by{0}; Elem() : idx(0) {} Elem(const Elem& o) : idx(o.idx) {} };

struct Fn {
  int id;
  Fn() : id(gNextId.fetch_add(1)) {}
  Fn(const Fn&) : id(gNextId.fetch_add(1)) {}     // every copy is a new chunk task
  Fn(Fn&& o) noexcept : id(o.id) {}
  void operator()(Elem& e) const { e.visits.fetch_add(1); e.by.store(id); }
};

static dispenso::ThreadPool& poolOf(int n) {
  static std::unique_ptr<dispenso::ThreadPool> pools[6];
  if (!pools[n]) pools[n].reset(new dispenso::ThreadPool((size_t)n));
  return *pools[n];
}

template <typename Cont, typename TS>
static void runOne(int n, uint32_t maxThreads, bool wait, int pool, bool nested, const char* cat) {
  Cont c;
  {
    std::vector<Elem> tmp((size_t)n);
    for (int i = 0; i < n; ++i) tmp[(size_t)i].idx = i;
    c = Cont(tmp.begin(), tmp.end());
  }
  dispenso::ForEachOptions o; o.maxThreads = maxThreads; o.wait = wait;
  std::snprintf(gLast, sizeof gLast, "cat=%s n=%d maxThreads=%u wait=%d pool=%d nested=%d", cat, n, maxThreads, wait, pool, nested);
  alarm(20);
  auto call = [&] { TS ts(poolOf(pool)); dispenso::for_each_n(ts, c.begin(), (size_t)n, Fn(), o); ts.wait(); };
  if (!nested) call();
  else {
    TS outer(poolOf(pool));
    std::atomic<int> did{0};
    dispenso::parallel_for(outer, dispenso::ChunkedRange<int>(0, 2, dispenso::ChunkedRange<int>::Static()), [&](int s, int e) {
      for (int i = s; i < e; ++i) if (i == 0 && did.fetch_add(1) == 0) call();
    });
  }
  alarm(0);
  ++cases;
  // oracle: every element exactly once
  bool ok = true;
  std::map<int, std::pair<int, int>> chunkOf;   // functor id -> (first index, count)
  int i = 0;
  for (auto& e : c) {
    if (e.visits.load() != 1) ok = false;
    auto it = chunkOf.find(e.by.load());
    if (it == chunkOf.end()) chunkOf[e.by.load()] = {i, 1};
    else { if (it->second.first + it->second.second != i) ok = false; it->second.second++; }
    ++i;
  }
  if (!ok) std::printf("PFAIL for_each did not apply the function exactly once to each element | %s\n", gLast);
  std::vector<std::pair<int, int>> chunks;
  for (auto& kv : chunkOf) chunks.push_back(kv.second);
  std::sort(chunks.begin(), chunks.end());
  std::string items;
  for (auto& p : chunks) items += " " + std::to_string(p.first) + " " + std::to_string(p.second);
  int recursive = (nested && pool >= 1) ? 1 : 0;
  std::printf("Q foreach %d %u %d %d %d => T %zu%s\n", n, maxThreads, wait ? 1 : 0, pool, recursive, chunks.size(), items.c_str());
}

static void onAlarm(int) {
  char buf[500];
  int k = std::snprintf(buf, sizeof buf, "PFAIL for_each call did not return (hang) | %s\nSTAT cases %lld\n", gLast, cases);
  if (write(1, buf, (size_t)k)) {}
  _exit(0);
}
static void onFpe(int) {
  char buf[500];
  int k = std::snprintf(buf, sizeof buf, "PFAIL for_each crashed with an arithmetic fault (division by zero) | %s\nSTAT cases %lld\n", gLast, cases);
  if (write(1, buf, (size_t)k)) {}
  _exit(0);
}

int main(int argc, char** argv) {
  uint64_t seed = vh::argInt(argc, argv, 1, 1);
  long long R = vh::argInt(argc, argv, 2, 1);
  signal(SIGALRM, onAlarm);
  signal(SIGFPE, onFpe);
  vh::SplitMix rng(seed);
  static const uint32_t mts[] = {0, 1, 2, 3, 4, 5, 6, 0x7fffffffu};
  for (long long r = 0; r < R; ++r)
    for (int n : {0, 1, 2, 3, 4, 5, 7, 8, 9, 16, 31, 64})
      for (uint32_t mt : mts)
        for (int wait = 0; wait < 2; ++wait)
          for (int pool = 0; pool < 5; ++pool) {
            bool nested = rng.below(9) == 0;
            bool cts = rng.below(3) == 0;
            int cat = (int)rng.below(3);
            if (cat == 0) { if (cts) runOne<std::vector<Elem>, dispenso::ConcurrentTaskSet>(n, mt, wait, pool, nested, "random"); else runOne<std::vector<Elem>, dispenso::TaskSet>(n, mt, wait, pool, nested, "random"); }
            else if (cat == 1) { if (cts) runOne<std::list<Elem>, dispenso::ConcurrentTaskSet>(n, mt, wait, pool, nested, "bidir"); else runOne<std::list<Elem>, dispenso::TaskSet>(n, mt, wait, pool, nested, "bidir"); }
            else { if (cts) runOne<std::forward_list<Elem>, dispenso::ConcurrentTaskSet>(n, mt, wait, pool, nested, "forward"); else runOne<std::forward_list<Elem>, dispenso::TaskSet>(n, mt, wait, pool, nested, "forward"); }
          }
  std::printf("STAT cases %lld\n", cases);
  std::fflush(stdout);
  _exit(0);
}
