// C30 / C31: graph construction, subgraph clear/rebuild, ForwardPropagator and the three executors
// on random DAGs vs the Lean model; dependency-order, run-once and closure oracles.
// usage: c30_graph <prop: C30|C31> <seed> <cases>
#include <atomic>
#include <map>
#include <mutex>
#include <set>
#include <vector>
#include "common.h"
#define private public
#define protected public
#include <dispenso/graph.h>
#include <dispenso/graph_executor.h>
#undef private
#undef protected
#include <dispenso/thread_pool.h>
#include <signal.h>
#include <unistd.h>

static std::string gProp;
static long long cases = 0;
static char gLast[200] = "none";

struct Run {
  std::mutex m;
  std::vector<int> order;
  std::atomic<long> clock{0};
  std::map<int, long> startT, endT;
  std::map<int, int> count;
};

template <typename GraphT>
struct World {
  using NodeT = typename GraphT::NodeType;
  GraphT g;
  std::vector<dispenso::SubgraphT<NodeT>*> subs;
  std::vector<NodeT*> nodes;            // by id; nullptr when destroyed
  std::vector<int> subOf;
  std::vector<std::vector<int>> preds;  // by id (live edges), for the oracle
  std::vector<int> rank;                // acyclicity: edges go from lower to higher rank
  std::vector<std::pair<int, int>> biEdges;
  std::map<const dispenso::Node*, int> idOf;
  Run* run = nullptr;
  std::string hist;
};

template <typename GraphT>
static int addNode(World<GraphT>& w, int sub, vh::SplitMix& rng) {
  int id = (int)w.nodes.size();
  Run** runp = &w.run;
  auto& n = w.subs[(size_t)sub]->addNode([runp, id] {
    Run* r = *runp;
    long t0 = r->clock.fetch_add(1);
    { std::lock_guard<std::mutex> lk(r->m); r->order.push_back(id); r->startT[id] = t0; r->count[id]++; }
    long t1 = r->clock.fetch_add(1);
    { std::lock_guard<std::mutex> lk(r->m); r->endT[id] = t1; }
  });
  w.nodes.push_back(&n); w.subOf.push_back(sub); w.preds.emplace_back(); w.rank.push_back((int)rng.below(1000));
  w.idOf[&n] = id;
  std::printf("Q graph addNode %d => %d\n", sub, id);
  w.hist += "addNode " + std::to_string(sub) + ";";
  return id;
}

template <typename GraphT>
static void dumpState(World<GraphT>& w) {
  std::string s = "S ";
  w.g.forEachNode([&](const typename GraphT::NodeType& n) {
    int id = w.idOf[&n];
    s += std::to_string(id) + " " + std::to_string(n.numPredecessors()) + " ";
    size_t inc = n.numIncompletePredecessors_.load();
    s += (inc == dispenso::Node::kCompleted) ? std::string("C") : std::to_string(inc);
    n.forEachDependent([&](const dispenso::Node& d) { s += " " + std::to_string(w.idOf[&d]); });
    s += ";";
  });
  std::printf("Q graph state => %s\n", s.c_str());
}

template <typename GraphT>
static void addEdges(World<GraphT>& w, vh::SplitMix& rng, const std::vector<int>& among, int howMany, bool biprop) {
  std::vector<int> live;
  for (int i = 0; i < (int)w.nodes.size(); ++i) if (w.nodes[(size_t)i]) live.push_back(i);
  if (live.size() < 2) return;
  for (int k = 0; k < howMany; ++k) {
    int a = among.empty() ? live[rng.below(live.size())] : among[rng.below(among.size())];
    int b = live[rng.below(live.size())];
    if (a == b || w.rank[(size_t)a] == w.rank[(size_t)b]) continue;
    int n = w.rank[(size_t)a] > w.rank[(size_t)b] ? a : b, p = (n == a) ? b : a;   // n depends on p
    bool bi = false;
    if (biprop) bi = rng.below(3) == 0;
    if (bi) { reinterpret_cast<dispenso::BiPropNode*>(w.nodes[(size_t)n])->biPropDependsOn(*reinterpret_cast<dispenso::BiPropNode*>(w.nodes[(size_t)p])); w.biEdges.push_back({n, p}); }
    else w.nodes[(size_t)n]->dependsOn(*w.nodes[(size_t)p]);
    w.preds[(size_t)n].push_back(p);
    std::printf("Q graph %s %d %d => ok\n", bi ? "bidep" : "dep", n, p);
    w.hist += std::string(bi ? "bidep " : "dep ") + std::to_string(n) + " " + std::to_string(p) + ";";
  }
}

static dispenso::ThreadPool& pool() { static dispenso::ThreadPool p(3); return p; }

// execute with the chosen executor; `expect` = nodes that must run (incomplete before the call)
template <typename GraphT>
static void execute(World<GraphT>& w, int executor, const std::set<int>& expect, const char* what) {
  Run r; w.run = &r;
  alarm(20);
  if (executor == 0) { dispenso::SingleThreadExecutor ex; ex(w.g); }
  else if (executor == 1) { dispenso::TaskSet ts(pool()); dispenso::ParallelForExecutor ex; ex(ts, w.g); }
  else { dispenso::ConcurrentTaskSet ts(pool()); dispenso::ConcurrentTaskSetExecutor ex; ex(ts, w.g); }
  alarm(0);
  std::string rs = "R";
  std::vector<int> ord = r.order;
  if (executor != 0) std::sort(ord.begin(), ord.end());
  for (int id : ord) rs += " " + std::to_string(id);
  std::printf("Q graph %s => %s\n", executor == 0 ? "exec" : "execset", rs.c_str());
  w.hist += std::string(what) + ";";
  ++cases;
  // oracle: run set == expect, each once, after all predecessors that also ran, all end complete
  bool ok = true; std::string why;
  std::set<int> ran(r.order.begin(), r.order.end());
  for (auto& kv : r.count) if (kv.second != 1) { ok = false; why = "a node ran more than once"; }
  if (ran != expect) { ok = false; why = "the set of executed nodes differs from the expected one"; }
  for (int id : ran) for (int p : w.preds[(size_t)id]) if (ran.count(p) && !(r.endT[p] < r.startT[id])) { ok = false; why = "a node started before one of its incomplete predecessors finished"; }
  for (int i = 0; i < (int)w.nodes.size(); ++i) if (w.nodes[(size_t)i] && expect.count(i) && !w.nodes[(size_t)i]->isCompleted()) { ok = false; why = "an executed node did not end complete"; }
  if (!ok) {
    const char* sig = (gProp == "C31" && std::string(what).find("partial") != std::string::npos)
        ? "partial re-evaluation did not run exactly the propagated closure in dependency order"
        : "graph executor violated run-once / dependency order / completeness";
    std::printf("PFAIL %s | executor=%d phase=%s why=%s %s ops=%s\n", sig, executor, what, why.c_str(), gLast, w.hist.substr(0, 500).c_str());
  }
  w.run = nullptr;
}

template <typename GraphT>
static std::set<int> incompleteNodes(World<GraphT>& w) {
  std::set<int> s;
  for (int i = 0; i < (int)w.nodes.size(); ++i) if (w.nodes[(size_t)i] && !w.nodes[(size_t)i]->isCompleted()) s.insert(i);
  return s;
}

template <typename GraphT>
static void oneCase(vh::SplitMix& rng, bool biprop, long long it) {
  World<GraphT> w;
  std::printf("Q graph reset %d => ok\n", biprop ? 1 : 0);
  int nsubs = (int)rng.below(3);
  w.subs.push_back(&w.g.subgraph(0));
  for (int s = 0; s < nsubs; ++s) { w.subs.push_back(&w.g.addSubgraph()); std::printf("Q graph addSubgraph => %d\n", s + 1); }
  // deque storage: addresses of earlier subgraphs stay valid
  for (size_t s = 0; s < w.subs.size(); ++s) w.subs[s] = &w.g.subgraph(s);
  int n = 1 + (int)rng.below(12);
  for (int i = 0; i < n; ++i) addNode(w, (int)rng.below(w.subs.size()), rng);
  addEdges(w, rng, {}, (int)rng.below(2 * n + 1), biprop);
  std::snprintf(gLast, sizeof gLast, "case=%lld biprop=%d nodes=%d", it, biprop, n);
  dumpState(w);
  int executor = (int)rng.below(3);
  // phase 1: the freshly built graph
  execute(w, executor, incompleteNodes(w), "fresh");
  dumpState(w);
  int phases = (int)rng.below(4);
  for (int ph = 0; ph < phases; ++ph) {
    int kind = (int)rng.below(3);
    executor = (int)rng.below(3);
    if (kind == 0) {
      setAllNodesIncomplete(w.g);
      std::printf("Q graph setAll => ok\n");
      w.hist += "setAll;";
      execute(w, executor, incompleteNodes(w), "full");
    } else if (kind == 1) {
      // partial re-evaluation
      std::vector<int> live;
      for (int i = 0; i < (int)w.nodes.size(); ++i) if (w.nodes[(size_t)i]) live.push_back(i);
      if (live.empty()) continue;
      std::set<int> marked;
      int m = 1 + (int)rng.below(2);
      for (int k = 0; k < m; ++k) { int id = live[rng.below(live.size())]; w.nodes[(size_t)id]->setIncomplete(); marked.insert(id); std::printf("Q graph setInc %d => ok\n", id); w.hist += "setInc " + std::to_string(id) + ";"; }
      dispenso::ForwardPropagator fp; fp(w.g);
      std::printf("Q graph prop => ok\n");
      w.hist += "prop;";
      dumpState(w);
      // reference: forward closure of the marked (and any other incomplete) nodes, plus whole biprop classes that intersect it
      std::set<int> clo = marked;
      std::vector<int> st(marked.begin(), marked.end());
      std::vector<std::vector<int>> deps(w.nodes.size());
      for (int i = 0; i < (int)w.nodes.size(); ++i) if (w.nodes[(size_t)i]) for (int p : w.preds[(size_t)i]) deps[(size_t)p].push_back(i);
      while (!st.empty()) { int x = st.back(); st.pop_back(); for (int d : deps[(size_t)x]) if (clo.insert(d).second) st.push_back(d); }
      if (biprop) {
        std::vector<int> uf(w.nodes.size()); for (size_t i = 0; i < uf.size(); ++i) uf[i] = (int)i;
        std::function<int(int)> find = [&](int x) { return uf[(size_t)x] == x ? x : uf[(size_t)x] = find(uf[(size_t)x]); };
        std::set<int> inSet;
        // sets only grow by declarations and shrink by individual node removal: connectivity established
        // through a node that was later cleared persists
        for (auto& e : w.biEdges) { uf[(size_t)find(e.first)] = find(e.second); if (w.nodes[(size_t)e.first]) inSet.insert(e.first); if (w.nodes[(size_t)e.second]) inSet.insert(e.second); }
        std::set<int> roots; for (int x : clo) if (inSet.count(x)) roots.insert(find(x));
        for (int i : inSet) if (roots.count(find(i))) clo.insert(i);
      }
      std::set<int> got = incompleteNodes(w);
      if (gProp == "C31" && got != clo) {
        std::string a, b; for (int x : got) a += std::to_string(x) + ","; for (int x : clo) b += std::to_string(x) + ",";
        std::printf("PFAIL ForwardPropagator marked a set different from the propagated closure | incomplete=%s expected=%s %s ops=%s\n", a.c_str(), b.c_str(), gLast, w.hist.substr(0, 500).c_str());
      }
      execute(w, executor, got, "partial");
    } else {
      // clear a subgraph and rebuild part of it
      int s = (int)rng.below(w.subs.size());
      w.subs[(size_t)s]->clear();
      std::printf("Q graph clear %d => ok\n", s);
      w.hist += "clear " + std::to_string(s) + ";";
      for (int i = 0; i < (int)w.nodes.size(); ++i) if (w.nodes[(size_t)i] && w.subOf[(size_t)i] == s) { w.idOf.erase(w.nodes[(size_t)i]); w.nodes[(size_t)i] = nullptr; }
      for (auto& pl : w.preds) pl.erase(std::remove_if(pl.begin(), pl.end(), [&](int p) { return w.nodes[(size_t)p] == nullptr; }), pl.end());
      dumpState(w);
      std::vector<int> fresh;
      int add = (int)rng.below(4);
      for (int i = 0; i < add; ++i) fresh.push_back(addNode(w, s, rng));
      if (!fresh.empty()) addEdges(w, rng, fresh, (int)rng.below(2 * add + 1), biprop);
      dumpState(w);
      if (rng.coin()) { setAllNodesIncomplete(w.g); std::printf("Q graph setAll => ok\n"); w.hist += "setAll;"; execute(w, executor, incompleteNodes(w), "rebuilt-full"); }
      else {
        // only the new nodes (and whatever became incomplete) run; completed predecessors stay complete
        dispenso::ForwardPropagator fp; fp(w.g);
        std::printf("Q graph prop => ok\n");
        w.hist += "prop;";
        execute(w, executor, incompleteNodes(w), "rebuilt-partial");
      }
    }
    dumpState(w);
  }
}

static void onAlarm(int) {
  char buf[400];
  int k = std::snprintf(buf, sizeof buf, "PFAIL graph executor did not return (hang) | %s\nSTAT cases %lld\n", gLast, cases);
  if (write(1, buf, (size_t)k)) {}
  _exit(0);
}

int main(int argc, char** argv) {
  gProp = vh::argOr(argc, argv, 1, "C30");
  uint64_t seed = vh::argInt(argc, argv, 2, 1);
  long long N = vh::argInt(argc, argv, 3, 100);
  signal(SIGALRM, onAlarm);
  vh::SplitMix rng(seed);
  for (long long it = 0; it < N; ++it) {
    if (it % 2 == 0) oneCase<dispenso::Graph>(rng, false, it); else oneCase<dispenso::BiPropGraph>(rng, true, it);
  }
  std::printf("STAT cases %lld\n", cases);
  std::fflush(stdout);
  _exit(0);
}
