// C17: static chunking arithmetic. Differential records against the Lean model + property oracle.
// usage: c17_chunk <seed> <N exhaustive bound> <random count>
#include <dispenso/parallel_for.h>
#include <dispenso/for_each.h>
#include "common.h"

using dispenso::detail::staticChunkSize;
using dispenso::detail::staticChunkSizeGranular;
using dispenso::detail::StaticChunkMapper;

static long long cases = 0;

// (t = 0, c) denotes the same partition as (t = chunks, c - unit): print the canonical form
static void canon(long long chunks, long long g, long long& t, long long& c) {
  if (t == 0) { t = chunks; c -= g; }
}

static void oracle(const char* what, long long items, long long chunks, long long g, long long t, long long c) {
  // property, evaluated directly: t in (0,chunks], sizes >=0, multiples of g, sum == items
  ++cases;
  bool ok = t >= 0 && t <= chunks && c >= 0 && (c % g) == 0;
  long long small = c - g;
  if (t < chunks && small < 0) ok = false;
  __int128 sum = (__int128)t * c + (__int128)(chunks - t) * small;
  if (sum != items) ok = false;
  if (!ok) {
    std::printf("PFAIL %s sizes do not partition | items=%lld chunks=%lld g=%lld t=%lld c=%lld\n", what, items, chunks, g, t, c);
  }
}

template <typename T>
static void mapperCase(long long s, long long e, long long n, long long g, const char* tn) {
  // the recipe of parallel_for_staticImpl
  using size_type = typename dispenso::ChunkedRange<T>::size_type;
  auto chunking = (g > 1) ? staticChunkSizeGranular(e - s, n, static_cast<uint32_t>(g)) : staticChunkSize(e - s, n);
  T chunkSize = static_cast<T>(chunking.ceilChunkSize);
  bool perfectlyChunked = static_cast<size_type>(chunking.transitionTaskIndex) == static_cast<size_type>(n);
  T chunkStep = g > 1 ? static_cast<T>(g) : T{1};
  T smallChunk = static_cast<T>(chunkSize - (perfectlyChunked ? T{0} : chunkStep));
  StaticChunkMapper<T> m{static_cast<size_type>(n), chunkSize, smallChunk,
                         perfectlyChunked ? static_cast<size_type>(n) : static_cast<size_type>(chunking.transitionTaskIndex),
                         static_cast<T>(s), static_cast<T>(e)};
  long long prev = s;
  bool ok = true;
  for (long long i = 0; i < n; ++i) {
    auto p = m(static_cast<size_type>(i));
    std::printf("Q chunk map %lld %lld %lld %lld %lld => %lld %lld\n", s, e, n, g, i, (long long)p.first, (long long)p.second);
    if ((long long)p.first != prev || (long long)p.second < (long long)p.first) ok = false;
    prev = (long long)p.second;
  }
  if (prev != e) ok = false;
  ++cases;
  if (!ok) std::printf("PFAIL mapper<%s> chunks not contiguous | s=%lld e=%lld n=%lld g=%lld\n", tn, s, e, n, g);
}

int main(int argc, char** argv) {
  uint64_t seed = vh::argInt(argc, argv, 1, 1);
  long long N = vh::argInt(argc, argv, 2, 60);
  long long R = vh::argInt(argc, argv, 3, 2000);
  vh::SplitMix rng(seed);
  for (long long items = 0; items <= N; ++items)
    for (long long chunks = 1; chunks <= N; ++chunks) {
      auto r = staticChunkSize(items, chunks);
      long long t = r.transitionTaskIndex, c = r.ceilChunkSize;
      oracle("staticChunkSize", items, chunks, 1, t, c);
      canon(chunks, 1, t, c);
      std::printf("Q chunk scs %lld %lld => %lld %lld\n", items, chunks, t, c);
    }
  long long NG = N / 3 + 2;
  for (long long g = 1; g <= 9; ++g)
    for (long long u = 0; u <= NG; ++u)
      for (long long chunks = 1; chunks <= NG; ++chunks) {
        auto r = staticChunkSizeGranular(u * g, chunks, static_cast<uint32_t>(g));
        long long t = r.transitionTaskIndex, c = r.ceilChunkSize;
        oracle("staticChunkSizeGranular", u * g, chunks, g, t, c);
        canon(chunks, g, t, c);
        std::printf("Q chunk scsg %lld %lld %lld => %lld %lld\n", u * g, chunks, g, t, c);
      }
  // random large values inside the no-overflow domain
  for (long long k = 0; k < R; ++k) {
    int sh1 = (int)rng.below(62) + 1, sh2 = (int)rng.below(62) + 1;
    long long items = (long long)(rng.next() >> (64 - sh1));
    long long chunks = (long long)(rng.next() >> (64 - sh2)) + 1;
    if ((__int128)items + chunks > INT64_MAX) continue;
    auto r = staticChunkSize(items, chunks);
    {
      long long t = r.transitionTaskIndex, c = r.ceilChunkSize;
      oracle("staticChunkSize", items, chunks, 1, t, c);
      canon(chunks, 1, t, c);
      std::printf("Q chunk scs %lld %lld => %lld %lld\n", items, chunks, t, c);
    }
    long long g = (long long)rng.below(64) + 2;
    long long gi = (items / g) * g;
    auto r2 = staticChunkSizeGranular(gi, chunks, static_cast<uint32_t>(g));
    {
      long long t = r2.transitionTaskIndex, c = r2.ceilChunkSize;
      oracle("staticChunkSizeGranular", gi, chunks, g, t, c);
      canon(chunks, g, t, c);
      std::printf("Q chunk scsg %lld %lld %lld => %lld %lld\n", gi, chunks, g, t, c);
    }
  }
  // mapper: small exhaustive over int8_t/uint8_t ranges + random wider
  for (long long s = -128; s <= 127; s += 17)
    for (long long e = s; e <= 127; e += 5)
      for (long long n = 1; n <= 6 && n <= std::max<long long>(1, e - s); ++n) {
        mapperCase<int8_t>(s, e, n, 1, "int8");
        for (long long g : {2, 3, 4}) {
          long long ee = s + ((e - s) / g) * g;
          long long nn = std::min<long long>(n, std::max<long long>(1, (ee - s) / g));
          mapperCase<int8_t>(s, ee, nn, g, "int8");
        }
      }
  for (long long s = 0; s <= 255; s += 31)
    for (long long e = s; e <= 255; e += 7)
      for (long long n = 1; n <= 5 && n <= std::max<long long>(1, e - s); ++n) mapperCase<uint8_t>(s, e, n, 1, "uint8");
  for (long long k = 0; k < R / 4; ++k) {
    long long s = rng.range(-2000000000ll, 2000000000ll);
    long long len = (long long)rng.below(1000000);
    long long n = rng.range(1, 17);
    if (len < n) n = std::max<long long>(1, len);
    mapperCase<int64_t>(s, s + len, n, 1, "int64");
    long long g = rng.range(2, 16);
    long long ee = s + (len / g) * g;
    long long nn = std::min<long long>(n, std::max<long long>(1, (ee - s) / g));
    mapperCase<int64_t>(s, ee, nn, g, "int64");
    if (s >= -2147483648ll && s + len <= 2147483647ll) mapperCase<int32_t>(s, s + len, n, 1, "int32");
  }
  // for_each offsets: the random-access recipe of for_each_n
  for (long long n = 1; n <= N; ++n)
    for (long long nt = 1; nt <= 8 && nt <= n; ++nt) {
      auto chunking = staticChunkSize(n, nt);
      size_t chunkSize = chunking.ceilChunkSize;
      bool perfectlyChunked = chunking.transitionTaskIndex == nt;
      ssize_t transitionIdx = chunking.transitionTaskIndex;
      size_t smallChunkSize = chunkSize - !perfectlyChunked;
      long long prev = 0;
      bool ok = true;
      for (long long idx = 0; idx < nt; ++idx) {
        ssize_t offset, thisChunkSize;
        if (idx < transitionIdx) {
          offset = idx * static_cast<ssize_t>(chunkSize);
          thisChunkSize = static_cast<ssize_t>(chunkSize);
        } else {
          offset = transitionIdx * static_cast<ssize_t>(chunkSize) + (idx - transitionIdx) * static_cast<ssize_t>(smallChunkSize);
          thisChunkSize = static_cast<ssize_t>(smallChunkSize);
        }
        std::printf("Q chunk feo %lld %lld %lld => %lld %lld\n", n, nt, idx, (long long)offset, (long long)thisChunkSize);
        if (offset != prev || thisChunkSize < 0) ok = false;
        prev = offset + thisChunkSize;
      }
      if (prev != n) ok = false;
      ++cases;
      if (!ok) std::printf("PFAIL for_each offsets do not partition | n=%lld threads=%lld\n", n, nt);
    }
  std::printf("STAT cases %lld\n", cases);
  return 0;
}
