// C37 (table layer): the buffer-pointer tables of ConcurrentObjectArena against Model/ArenaTables.lean.
// A lock-free reader (operator[] / getBuffer) is two steps: load buffers_, then read the table entry.  The
// harness plays readers that are suspended between the two steps while the arena grows: `load r` keeps the
// table pointer a reader would hold, `index r i` reads entry i of *that* table later (ASan: a retired table
// that was freed is a heap-use-after-free) and checks that it still leads to the same buffer.
// usage: c37_tables <seed> <sequences> <max ops>
#include <map>
#include <memory>
#include <vector>
#include "common.h"
#define private public
#include <dispenso/concurrent_object_arena.h>
#undef private

struct E {
  int v;
  E() : v(7) {}
};
using A = dispenso::ConcurrentObjectArena<E>;

int main(int argc, char** argv) {
  uint64_t seed = vh::argInt(argc, argv, 1, 1);
  long long S = vh::argInt(argc, argv, 2, 300);
  int maxOps = (int)vh::argInt(argc, argv, 3, 30);
  vh::SplitMix rng(seed * 7919 + 13);
  long long cases = 0;
  for (long long it = 0; it < S; ++it) {
    std::printf("Q arenatbl reset => ok\n");
    size_t B = size_t{1} << rng.below(3);
    std::unique_ptr<A> a(new A(B));   // the constructor runs allocateBuffer() once
    std::printf("Q arenatbl alloc => table %zu %zu %zu\n", (size_t)a->buffersSize_, (size_t)a->buffersPos_.load(), a->deleteLater_.size());
    struct Snap { E** table; size_t used; std::vector<E*> bufs; };
    std::map<int, Snap> snaps;
    std::string hist = "B=" + std::to_string(B) + ";";
    bool bad = false;
    std::string why;
    int nops = 1 + (int)rng.below(maxOps);
    size_t maxTables = 0;
    for (int k = 0; k < nops && a; ++k) {
      int kind = (int)rng.below(10);
      if (kind < 5) {
        // grow by exactly one buffer: one allocateBuffer() call
        size_t before = a->buffersPos_.load();
        size_t need = a->capacity() - a->size();   // grow_by(need) makes old + delta == allocated: one more buffer
        a->grow_by(need);
        size_t after = a->buffersPos_.load();
        hist += "grow;";
        for (size_t j = before; j < after; ++j)
          std::printf("Q arenatbl alloc => table %zu %zu %zu\n", (size_t)a->buffersSize_, j + 1,
                      j + 1 == after ? a->deleteLater_.size() : a->deleteLater_.size());
        if (after != before + 1) { bad = true; why = "grow_by(capacity-size) did not allocate exactly one buffer"; }
        maxTables = std::max(maxTables, a->deleteLater_.size() + 1);
      } else if (kind < 8) {
        int r = (int)rng.below(4);
        Snap s;
        s.table = a->buffers_.load(std::memory_order_acquire);
        s.used = a->buffersPos_.load();
        for (size_t j = 0; j < s.used; ++j) s.bufs.push_back(s.table[j]);
        snaps[r] = s;
        hist += "load" + std::to_string(r) + ";";
        std::printf("Q arenatbl load %d => ok\n", r);
      } else if (kind < 9 || k + 1 < nops) {
        int r = (int)rng.below(4);
        auto itr = snaps.find(r);
        size_t i = itr == snaps.end() ? 0 : rng.below(itr->second.used + 1);
        hist += "index" + std::to_string(r) + "," + std::to_string(i) + ";";
        if (itr == snaps.end() || i >= itr->second.used) {
          std::printf("Q arenatbl index %d %zu => rejected\n", r, i);
        } else {
          // the second half of operator[]: plain read of the entry of the table loaded earlier
          E* buf = *const_cast<E* volatile*>(&itr->second.table[i]);
          bool same = buf == itr->second.bufs[i] && buf == a->getBuffer(i);
          int v = i * a->kBufferSize < a->size() ? buf[0].v : 7;   // the newest buffer may hold no constructed element yet
          if (!same || v != 7) { bad = true; why = "a table loaded before growth no longer leads to the element's buffer"; }
          std::printf("Q arenatbl index %d %zu => %s\n", r, i, same ? "ok" : "uaf");
          snaps.erase(itr);
        }
      } else {
        hist += "destroy;";
        if (!snaps.empty()) {
          std::printf("Q arenatbl destroy => rejected\n");   // contract: not while a reader is inside operator[]
        } else {
          a.reset();
          std::printf("Q arenatbl destroy => ok\n");
        }
      }
    }
    a.reset();
    ++cases;
    if (bad) std::printf("PFAIL ConcurrentObjectArena reference to an existing element invalidated by growth (retired table) | why=%s ops=%s\n", why.c_str(), hist.c_str());
    std::printf("NT B%zu tables%zu\n", B, maxTables);
    if (it < 3) std::printf("SAMPLE %s\n", hist.c_str());
  }
  std::printf("STAT cases %lld\n", cases);
  return 0;
}
