// C29 (native, AddressSanitizer + LeakSanitizer): pipelines whose stages throw, on real threads.
// Every item owns a heap block, so an item that the pipeline forgets is a LeakSanitizer report at exit
// (and a PFAIL from the ledger right away); a stage that runs on a destroyed pipe is an ASan report.
// usage: c29_pipeline_native <seed> <rounds>
#include <atomic>
#include <cstdio>
#include <memory>
#include <optional>
#include <stdexcept>
#include <dispenso/pipeline.h>
#include "common.h"

namespace {
std::atomic<long> g_live{0};
struct Item {
  int tag;
  std::unique_ptr<int> heap;
  explicit Item(int t) : tag(t), heap(new int(t)) { g_live.fetch_add(1, std::memory_order_relaxed); }
  Item(Item&& o) noexcept : tag(o.tag), heap(std::move(o.heap)) { g_live.fetch_add(1, std::memory_order_relaxed); }
  Item(const Item&) = delete;
  ~Item() { g_live.fetch_sub(1, std::memory_order_relaxed); }
};
struct Boom {
  int stage, tag;
};
}  // namespace

int main(int argc, char** argv) {
  uint64_t seed = vh::argInt(argc, argv, 1, 1);
  long long rounds = vh::argInt(argc, argv, 2, 200);
  vh::SplitMix rng(seed);
  long long cases = 0, threw = 0;
  for (long long it = 0; it < rounds; ++it) {
    int poolThreads = (int)rng.below(4);
    int items = 1 + (int)rng.below(40);
    int throwStage = (int)rng.below(3);
    int throwTag = (int)rng.below(items);
    ssize_t l1 = rng.below(3) == 0 ? dispenso::kStageNoLimit : (ssize_t)(1 + rng.below(3));
    ssize_t l2 = rng.below(3) == 0 ? dispenso::kStageNoLimit : (ssize_t)(1 + rng.below(3));
    ssize_t lg = (ssize_t)(1 + rng.below(3));
    size_t mul = rng.below(3) == 0 ? 1 : 32;
    {
      dispenso::ThreadPool pool(poolThreads, mul);
      std::atomic<int> next{0};
      std::atomic<int> sunk{0};
      bool caught = false;
      try {
        dispenso::pipeline(
            pool,
            dispenso::stage(
                [&]() -> dispenso::OpResult<Item> {
                  int t = next.fetch_add(1, std::memory_order_relaxed);
                  if (t >= items) return {};
                  if (throwStage == 0 && t == throwTag) throw Boom{0, t};
                  return Item(t);
                },
                lg),
            dispenso::stage(
                [&](Item in) -> std::optional<Item> {
                  if (throwStage == 1 && in.tag == throwTag) throw Boom{1, in.tag};
                  if (in.tag % 7 == 3) return std::nullopt;
                  return Item(in.tag);
                },
                l1),
            dispenso::stage(
                [&](Item in) {
                  if (throwStage == 2 && in.tag == throwTag) throw Boom{2, in.tag};
                  sunk.fetch_add(1, std::memory_order_relaxed);
                },
                l2));
      } catch (const Boom&) {
        caught = true;
      }
      if (caught) ++threw;
      // the pool must still work
      std::atomic<int> again{0};
      int n2 = 0;
      dispenso::pipeline(
          pool, [&]() -> dispenso::OpResult<int> { if (n2 < 8) return n2++; return {}; },
          [&](int) { again.fetch_add(1, std::memory_order_relaxed); });
      if (again.load() != 8)
        std::printf("PFAIL pool not usable after pipeline | native round %lld seed %llu: %d of 8\n", it,
                    (unsigned long long)seed, again.load());
    }  // pool joined: nothing of the pipeline can still hold an item
    ++cases;
    if (g_live.load() != 0) {
      std::printf("PFAIL pipeline item objects not released (constructed != destroyed) | native round %lld seed %llu pool=%d items=%d "
                  "throw=%d@%d: live=%ld\n", it, (unsigned long long)seed, poolThreads, items, throwStage, throwTag, g_live.load());
      g_live.store(0);
    }
  }
  std::printf("STAT cases %lld\n", cases);
  std::printf("STAT threw %lld\n", threw);
  return 0;
}
