// C44: bit-math helpers vs the Lean model / specs.
// usage: c44_bits <seed> <random count> <exhaustive32: 0|1>
#include <dispenso/detail/math.h>
#include <dispenso/platform.h>
#include <dispenso/util.h>
#include "common.h"
#include <set>

using namespace dispenso::detail;
static long long cases = 0;

static uint32_t refLog2(uint64_t v) { uint32_t r = 0; while (v >>= 1) ++r; return r; }
static int refCtz(uint64_t v) { int c = 0; while (!(v & 1)) { v >>= 1; ++c; } return c; }
static int refPop(uint64_t v) { int c = 0; while (v) { c += v & 1; v >>= 1; } return c; }

static void one(uint64_t v, bool emit) {
  ++cases;
  if (v >= 1 && v <= (1ull << 63)) {
    uint64_t r = nextPow2(v);
    if (emit) std::printf("Q bits np2 %" PRIu64 " => %" PRIu64 "\n", v, r);
    bool ok = r >= v && (r & (r - 1)) == 0 && (r == 1 || (r >> 1) < v);
    if (!ok) std::printf("PFAIL nextPow2 not least power of two | v=%" PRIu64 " r=%" PRIu64 "\n", v, r);
  }
  if (v != 0) {
    uint32_t a = log2const(v), b = log2(v);
    if (emit) std::printf("Q bits l2c64 %" PRIu64 " => %u\n", v, a);
    if (emit) std::printf("Q bits log2 %" PRIu64 " => %u\n", v, b);
    if (a != refLog2(v)) std::printf("PFAIL log2const(uint64) wrong | v=%" PRIu64 " r=%u\n", v, a);
    if (b != refLog2(v)) std::printf("PFAIL log2(uint64) wrong | v=%" PRIu64 " r=%u\n", v, b);
    int c = countTrailingZeros(v);
    if (emit) std::printf("Q bits ctz %" PRIu64 " => %d\n", v, c);
    if (c != refCtz(v)) std::printf("PFAIL countTrailingZeros wrong | v=%" PRIu64 " r=%d\n", v, c);
    if (v <= 0xFFFFFFFFull) {
      uint32_t v32 = (uint32_t)v;
      uint32_t a32 = log2const(v32), b32 = log2(v32);
      if (emit) std::printf("Q bits l2c32 %u => %u\n", v32, a32);
      if (a32 != refLog2(v32)) std::printf("PFAIL log2const(uint32) wrong | v=%u r=%u\n", v32, a32);
      if (b32 != refLog2(v32)) std::printf("PFAIL log2(uint32) wrong | v=%u r=%u\n", v32, b32);
    }
  }
  int p = countSetBits(v);
  if (emit) std::printf("Q bits pop %" PRIu64 " => %d\n", v, p);
  if (p != refPop(v)) std::printf("PFAIL countSetBits wrong | v=%" PRIu64 " r=%d\n", v, p);
  if (v <= UINT64_MAX - 64) {
    uint64_t a = alignToCacheLine(v);
    if (emit) std::printf("Q bits a2c %" PRIu64 " => %" PRIu64 "\n", v, a);
    if (a % 64 != 0 || a < v || a >= v + 64) std::printf("PFAIL alignToCacheLine wrong | v=%" PRIu64 " r=%" PRIu64 "\n", v, a);
  }
}

int main(int argc, char** argv) {
  uint64_t seed = vh::argInt(argc, argv, 1, 1);
  long long R = vh::argInt(argc, argv, 2, 3000);
  int ex32 = (int)vh::argInt(argc, argv, 3, 0);
  vh::SplitMix rng(seed);
  // structured: single bits, 2^k±1, masks, small values
  for (uint64_t v = 0; v <= 1100; ++v) one(v, true);
  for (int k = 0; k < 64; ++k) {
    uint64_t b = 1ull << k;
    one(b, true); one(b - 1, true); one(b + 1, true); one(~b, true); one(b | (b >> 1), true);
    one(~0ull << k, true); one(~0ull >> k, true);
  }
  for (long long i = 0; i < R; ++i) {
    int sh = (int)rng.below(64);
    one(rng.next() >> sh, true);
  }
  if (ex32) {
    // exhaustive over all 2^32 32-bit inputs: oracle only (no model lines), intrinsic vs reference
    for (uint64_t v = 1; v <= 0xFFFFFFFFull; ++v) {
      uint32_t v32 = (uint32_t)v;
      uint32_t a = log2const(v32), b = log2(v32), c = log2const((uint64_t)v), d = log2((uint64_t)v);
      uint32_t ref = 31 - (uint32_t)__builtin_clz(v32);
      if (a != ref || b != ref || c != ref || d != ref) { std::printf("PFAIL log2 family wrong (exhaustive32) | v=%u\n", v32); break; }
      if (countTrailingZeros(v) != __builtin_ctzll(v) || countSetBits(v) != __builtin_popcountll(v)) { std::printf("PFAIL ctz/popcount wrong (exhaustive32) | v=%u\n", v32); break; }
    }
    cases += 0xFFFFFFFFll;
    std::printf("STAT exhaustive32 1\n");
  }
  // alignedMalloc: all power-of-two alignments up to 2^16, several sizes; real allocations
  for (int k = 0; k <= 16; ++k)
    for (size_t bytes : {1ul, 7ul, 64ul, 1000ul, 65536ul}) {
      size_t al = 1ul << k;
      void* p = alignedMalloc(bytes, al);
      uintptr_t a = reinterpret_cast<uintptr_t>(p);
      uintptr_t base = *reinterpret_cast<uintptr_t*>(a - sizeof(uintptr_t));
      ++cases;
      std::printf("Q bits amal %" PRIu64 " %zu => %" PRIu64 " %" PRIu64 "\n", (uint64_t)base, al, (uint64_t)a, (uint64_t)(a - 8));
      size_t eff = al < 8 ? 8 : al;
      if (a % al != 0 || a < base + 8 || a + bytes > base + bytes + eff)
        std::printf("PFAIL alignedMalloc misaligned or out of allocation | align=%zu bytes=%zu addr%%align=%zu\n", al, bytes, (size_t)(a % al));
      std::memset(p, 0xAB, bytes);  // ASan checks the block really is inside the allocation
      alignedFree(p);
    }
  std::printf("STAT cases %lld\n", cases);
  return 0;
}
