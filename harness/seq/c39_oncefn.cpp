// C39: OnceFunction over a generated family of callables (sizes across the inline/spill boundary and
// all small-buffer classes, alignments up to 256) with move chains; vs the Lean model.
// usage: c39_oncefn <seed> <rounds>
#include <dispenso/once_function.h>
#include <dispenso/small_buffer_allocator.h>
#include <map>
#include <memory>
#include <vector>
#include "common.h"

struct Rec {
  long constructed = 0, destroyed = 0, calls = 0;
  const void* storedAt = nullptr;   // address of the most recently constructed copy
  size_t misaligned = 0;
};

template <size_t Size, size_t Align>
struct alignas(Align) Callable {
  static Rec*& cur() { static Rec* r = nullptr; return r; }  // one callable of each type is alive at a time
  char pad[Size];
  void note() {
    Rec* rec = cur();
    ++rec->constructed;
    rec->storedAt = this;
    if (reinterpret_cast<uintptr_t>(this) % Align != 0) ++rec->misaligned;
    std::memset(pad, 0x5A, sizeof pad);
  }
  Callable() { note(); }
  Callable(const Callable&) { note(); }
  Callable(Callable&&) noexcept { note(); }
  ~Callable() { ++cur()->destroyed; }
  void operator()() {
    Rec* rec = cur();
    ++rec->calls;
    if (reinterpret_cast<uintptr_t>(this) % Align != 0) ++rec->misaligned;
    for (size_t i = 0; i < sizeof pad; ++i) if (pad[i] != 0x5A) ++rec->misaligned;  // payload survived the moves
  }
};
static_assert(sizeof(Callable<8, 8>) == 8, "size");
static_assert(sizeof(Callable<64, 64>) == 64, "size");
static_assert(sizeof(Callable<56, 8>) == 56, "size");
static_assert(sizeof(Callable<57, 1>) == 57 && alignof(Callable<57, 1>) == 1, "size");

struct Obj { alignas(dispenso::OnceFunction) char buf[sizeof(dispenso::OnceFunction)]; dispenso::OnceFunction* p = nullptr; Rec* rec = nullptr; bool inlineStored = false; };

static long long cases = 0;
static std::vector<std::unique_ptr<Rec>> recs;

template <size_t Size, size_t Align>
static void family(vh::SplitMix& rng) {
  using C = Callable<Size, Align>;
  static_assert(sizeof(C) == Size && alignof(C) == Align, "family member has the requested size/alignment");
  std::printf("Q oncefn reset => ok\n");
  std::map<int, Obj> objs;
  int next = 0;
  auto spilledLive = [&] { long n = 0; for (auto& kv : objs) if (kv.second.rec && !kv.second.inlineStored) ++n; return n; };
  auto report = [&](const char* req, Obj* o, Rec* r) {
    int inl = 0; size_t a = 0;
    (void)o;
    std::printf("Q oncefn %s => %d %zu %ld %ld %ld\n", req, inl, a, r ? r->calls : 0, r ? (r->destroyed - (r->constructed - 1) > 0 ? 1L : 0L) : 0L, spilledLive());
  };
  // create
  recs.emplace_back(new Rec());
  Rec* rec = recs.back().get();
  C::cur() = rec;
  {
    Obj& o = objs[next];
    o.p = new (o.buf) dispenso::OnceFunction(C());
    o.rec = rec;
    const char* b = reinterpret_cast<const char*>(o.p);
    const char* st = static_cast<const char*>(rec->storedAt);
    o.inlineStored = st >= b && st < b + sizeof(dispenso::OnceFunction);
    size_t allocSize = (size_t)dispenso::detail::nextPow2(std::max(Size, Align));
    size_t a = o.inlineStored ? 0 : ((reinterpret_cast<uintptr_t>(st) % allocSize) == 0 ? allocSize : 1);
    long live = rec->constructed - rec->destroyed;
    if (live != 1) std::printf("PFAIL OnceFunction construction left %ld copies of the callable alive | size=%zu align=%zu\n", live, Size, Align);
    std::printf("Q oncefn create %zu %zu => %d %zu 0 0 %ld\n", Size, Align, o.inlineStored ? 1 : 0, a, spilledLive());
    ++next;
  }
  int cur = 0;
  int moves = (int)rng.below(4);
  for (int m = 0; m < moves; ++m) {
    if (rng.coin()) {
      Obj& src = objs[cur];
      Obj& dst = objs[next];
      dst.p = new (dst.buf) dispenso::OnceFunction(std::move(*src.p));
      dst.rec = src.rec; dst.inlineStored = src.inlineStored; src.rec = nullptr;
      char req[64]; std::snprintf(req, sizeof req, "moveCtor %d", cur);
      report(req, &dst, rec);
      cur = next++;
    } else {
      Obj& dst = objs[next];
      dst.p = new (dst.buf) dispenso::OnceFunction();
      std::printf("Q oncefn mkEmpty => 0 0 0 0 %ld\n", spilledLive());
      int d = next++;
      Obj& src = objs[cur];
      *objs[d].p = std::move(*src.p);
      objs[d].rec = src.rec; objs[d].inlineStored = src.inlineStored; src.rec = nullptr;
      char req[64]; std::snprintf(req, sizeof req, "moveAssign %d %d", d, cur);
      report(req, &objs[d], rec);
      cur = d;
    }
  }
  bool invoke = rng.below(4) != 0;
  {
    Obj& o = objs[cur];
    if (invoke) (*o.p)(); else o.p->cleanupNotRun();
    o.rec = nullptr;
    char req[64]; std::snprintf(req, sizeof req, "%s %d", invoke ? "invoke" : "cleanup", cur);
    long live = rec->constructed - rec->destroyed;
    std::printf("Q oncefn %s => 0 0 %ld %ld %ld\n", req, rec->calls, live == 0 ? 1L : 0L, spilledLive());
    if (rec->calls != (invoke ? 1 : 0) || live != 0)
      std::printf("PFAIL OnceFunction did not invoke/destroy its callable exactly once | size=%zu align=%zu calls=%ld live=%ld invoke=%d\n", Size, Align, rec->calls, live, invoke ? 1 : 0);
  }
  if (rec->misaligned)
    std::printf("PFAIL OnceFunction stored or invoked its callable at a misaligned or corrupted location | size=%zu align=%zu\n", Size, Align);
  ++cases;
}

template <size_t Align>
static void sizesFor(vh::SplitMix& rng) {
  family<(Align > 8 ? Align : 8), Align>(rng);
  family<(16 > Align ? 16 : Align), Align>(rng);
  family<((24 + Align - 1) / Align) * Align, Align>(rng);
  family<((48 + Align - 1) / Align) * Align, Align>(rng);
  family<((56 + Align - 1) / Align) * Align, Align>(rng);
  family<((57 + Align - 1) / Align) * Align, Align>(rng);
  family<((64 + Align - 1) / Align) * Align, Align>(rng);
  family<((100 + Align - 1) / Align) * Align, Align>(rng);
  family<((128 + Align - 1) / Align) * Align, Align>(rng);
  family<((200 + Align - 1) / Align) * Align, Align>(rng);
  family<((256 + Align - 1) / Align) * Align, Align>(rng);
  family<((257 + Align - 1) / Align) * Align, Align>(rng);
  family<((320 + Align - 1) / Align) * Align, Align>(rng);
}

int main(int argc, char** argv) {
  uint64_t seed = vh::argInt(argc, argv, 1, 1);
  long long R = vh::argInt(argc, argv, 2, 3);
  vh::SplitMix rng(seed);
  for (size_t b : {1ul, 2ul, 4ul, 8ul, 16ul, 32ul, 33ul, 64ul, 100ul, 128ul, 255ul, 256ul})
    std::printf("Q oncefn ord %zu => %zu\n", b, dispenso::detail::getOrdinal(b));
  for (long long r = 0; r < R; ++r) {
    sizesFor<8>(rng); sizesFor<16>(rng); sizesFor<32>(rng); sizesFor<64>(rng); sizesFor<128>(rng); sizesFor<256>(rng);
    family<8, 1>(rng); family<8, 2>(rng); family<8, 4>(rng); family<60, 4>(rng); family<56, 1>(rng); family<57, 1>(rng);
  }
  std::printf("STAT cases %lld\n", cases);
  return 0;
}
