// C40: detail::OpResult<Tracked> vs std::optional<Tracked> vs the Lean model.
// usage: c40_opresult <seed> <sequences> <max ops>
#include <dispenso/detail/op_result.h>
#include <map>
#include <memory>
#include <optional>
#include "common.h"

using vh::Tracked;
using OR = dispenso::detail::OpResult<Tracked>;
using SO = std::optional<Tracked>;

int main(int argc, char** argv) {
  uint64_t seed = vh::argInt(argc, argv, 1, 1);
  long long N = vh::argInt(argc, argv, 2, 300);
  int maxOps = (int)vh::argInt(argc, argv, 3, 14);
  vh::SplitMix rng(seed);
  long long cases = 0;
  for (long long it = 0; it < N; ++it) {
    std::printf("Q opres reset => ok\n");
    // impl objects live in raw storage so that we control construction/destruction explicitly
    struct Slot { alignas(OR) char buf[sizeof(OR)]; OR* p = nullptr; std::unique_ptr<SO> ref; };
    std::map<int, Slot> objs;
    int next = 0;
    long implBase = vh::trackStats().live;  // live Tracked objects before this sequence
    auto implLive = [&] {
      long refLive = 0;
      for (auto& kv : objs) refLive += (kv.second.ref && kv.second.ref->has_value()) ? 1 : 0;
      return vh::trackStats().live - implBase - refLive;  // contained objects held by OpResults (+ leaks)
    };
    std::string hist;
    int nops = 1 + (int)rng.below(maxOps);
    bool mismatchRef = false;
    for (int k = 0; k < nops + 1000; ++k) {
      bool finishing = k >= nops;
      if (finishing && objs.empty()) break;
      int kind = finishing ? 7 : (int)rng.below(9);
      auto pick = [&]() -> int {
        if (objs.empty()) return -1;
        auto itr = objs.begin();
        std::advance(itr, rng.below(objs.size()));
        return itr->first;
      };
      int a = pick(), b = pick();
      int v = 1 + (int)rng.below(90);
      char req[96];
      OR* dst = nullptr;
      int dstId = -1;
      if (kind == 0) { std::snprintf(req, sizeof req, "mkEmpty"); Slot& s = objs[next]; s.p = new (s.buf) OR(); s.ref.reset(new SO()); dst = s.p; dstId = next++; }
      else if (kind == 1) { std::snprintf(req, sizeof req, "mkVal %d", v); Slot& s = objs[next]; s.p = new (s.buf) OR(Tracked(v)); s.ref.reset(new SO(Tracked(v))); dst = s.p; dstId = next++; }
      else if (a < 0) continue;
      else if (kind == 2) { std::snprintf(req, sizeof req, "copyCtor %d", a); Slot& src = objs[a]; Slot& s = objs[next]; s.p = new (s.buf) OR(*src.p); s.ref.reset(new SO(*src.ref)); dst = s.p; dstId = next++; }
      else if (kind == 3) { std::snprintf(req, sizeof req, "moveCtor %d", a); Slot& src = objs[a]; Slot& s = objs[next]; s.p = new (s.buf) OR(std::move(*src.p)); s.ref.reset(new SO(std::move(*src.ref))); src.ref->reset(); dst = s.p; dstId = next++; }
      else if (kind == 4) { std::snprintf(req, sizeof req, "copyAssign %d %d", a, b); *objs[a].p = *objs[b].p; *objs[a].ref = *objs[b].ref; dst = objs[a].p; dstId = a; }
      else if (kind == 5) { std::snprintf(req, sizeof req, "moveAssign %d %d", a, b); *objs[a].p = std::move(*objs[b].p); if (a != b) { *objs[a].ref = std::move(*objs[b].ref); objs[b].ref->reset(); } dst = objs[a].p; dstId = a; }
      else if (kind == 6) { std::snprintf(req, sizeof req, "emplace %d %d", a, v); objs[a].p->emplace(v); objs[a].ref->emplace(v); dst = objs[a].p; dstId = a; }
      else if (kind == 7) { std::snprintf(req, sizeof req, "destroy %d", a); objs[a].p->~OR(); objs.erase(a);
        std::printf("Q opres %s => 0 0 %ld\n", req, implLive()); hist += std::string(req) + ";"; continue; }
      else { std::snprintf(req, sizeof req, "query %d", a); dst = objs[a].p; dstId = a; }
      hist += std::string(req) + ";";
      bool eng = dst->has_value();
      int val = eng ? dst->value().v : 0;
      std::printf("Q opres %s => %d %d %ld\n", req, eng ? 1 : 0, val, implLive());
      // oracle 1: destination agrees with std::optional
      SO& r = *objs[dstId].ref;
      if (r.has_value() != eng || (eng && r->v != val)) mismatchRef = true;
    }
    ++cases;
    if (mismatchRef) std::printf("PFAIL OpResult destination differs from std::optional | ops=%s\n", hist.c_str());
    // oracle 2: every contained object destroyed exactly once
    if (vh::trackStats().live != implBase)
      std::printf("PFAIL OpResult contained object not destroyed (lifetimes unbalanced) | live=%ld ops=%s\n",
                  vh::trackStats().live - implBase, hist.c_str());
    if (it < 3) std::printf("SAMPLE %s\n", hist.c_str());
    implBase = vh::trackStats().live;
  }
  if (vh::trackStats().doubleDestroy || vh::trackStats().useDead)
    std::printf("PFAIL OpResult destroyed an object twice or used a dead object | dd=%lld ud=%lld\n", vh::trackStats().doubleDestroy, vh::trackStats().useDead);
  std::printf("STAT cases %lld\n", cases);
  return 0;
}
