#!/bin/sh
# Build /repo's current working tree in a scratch directory with the verification guard OFF
# (DISPENSO_VERIF undefined) and run the pinned test suite. Removes the scratch directory afterwards.
set -e
REPO="${VERIF_REPO:-/repo}"
SCRATCH="$(mktemp -d /var/tmp/dispenso_baseline.XXXXXX)"
trap 'rm -rf "$SCRATCH"' EXIT
rsync -a --exclude _build --exclude .git "$REPO"/ "$SCRATCH/src/"
cmake -G Ninja -S "$SCRATCH/src" -B "$SCRATCH/build" -DCMAKE_BUILD_TYPE=RelWithDebInfo -DDISPENSO_BUILD_TESTS=ON \
  -DCMAKE_CXX_FLAGS=-Wno-error > "$SCRATCH/cmake.log" 2>&1 || { cat "$SCRATCH/cmake.log"; exit 1; }
cmake --build "$SCRATCH/build" -j16 > "$SCRATCH/build.log" 2>&1 || { tail -50 "$SCRATCH/build.log"; exit 1; }
ctest --test-dir "$SCRATCH/build" -j8 --timeout 900 --output-junit "$SCRATCH/junit.xml" | tail -15
