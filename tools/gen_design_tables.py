#!/usr/bin/env python3
"""Fill the generated tables of DESIGN.md Part I (tools/design_partI.md is the source of Part I) from
tools/registry.py, known_findings.json, seeded/*/meta.json and tools/props/*.py, and splice Part I into
DESIGN.md between the title block and the round-0 text (marked by the PART-I markers)."""
import glob
import importlib
import json
import os
import re
import sys

V = os.path.dirname(os.path.dirname(os.path.abspath(__file__)))
sys.path.insert(0, os.path.join(V, "tools"))
import registry  # noqa: E402

props = {}
for l in open(os.path.join(V, "properties.jsonl")):
    p = json.loads(l)
    props[p["id"]] = p
kf = json.load(open(os.path.join(V, "known_findings.json")))["findings"]


def theorems(pid):
    try:
        m = importlib.import_module("props." + pid.lower())
        return list(getattr(m, "THEOREMS", []))
    except Exception:
        return []


# findings
rows = ["| property | status | what failed | commit / why recorded |", "|---|---|---|---|"]
for f in kf:
    if f["status"] == "fixed":
        rows.append("| %s | fixed | %s | %s |" % (f["property"], f["signature"], f.get("commit", "see `git log` in /repo")))
for f in kf:
    if f["status"] == "known":
        why = f["description"]
        rows.append("| %s | **known finding** | %s | %s |" % (f["property"], f["signature"], why.replace("|", "/")))
findings = "\n".join(rows)

# seeds
rows = ["| seed | property | mechanism (short) | detected by our check |", "|---|---|---|---|"]
for d in sorted(glob.glob(os.path.join(V, "seeded", "*"))):
    mp = os.path.join(d, "meta.json")
    if not os.path.exists(mp):
        continue
    m = json.load(open(mp))
    chk = (m.get("confirmed_by_us") or {}).get("check") or {}
    det = chk.get("rc") == 1 if chk else m.get("detected")
    how = next((l for l in chk.get("lines", []) if l.startswith("INFO:")), "")[6:]
    rows.append("| %s | %s | %s | %s |" % (os.path.basename(d), m.get("property", "?"),
                                        (m.get("title") or m.get("mechanism", ""))[:140].replace("|", "/"),
                                        ("yes" if det else "**no**") + (" (thorough tier only)" if (m.get("confirmed_by_us") or {}).get("check_tier") == "thorough" else "") + (" — " + how[:120] if how else "") + ((" (not a violation of this property's subject; caught by the " + m["detected_by_other_property"] + " check)") if m.get("detected_by_other_property") else "")))
seeds = "\n".join(rows)

# status
rows = ["| id | title | theorems | tie / oracle (technique) | outcome on this tree |", "|---|---|---|---|---|"]
for pid in registry.ALL:
    c = registry.CLAIMED.get(pid)
    title = props[pid]["title"]
    if not c:
        rows.append("| %s | %s | – | not claimed: %s | – |" % (pid, title, registry.NOT_CLAIMED.get(pid, "")[:200]))
        continue
    fx = [f for f in kf if f["property"] == pid and f["status"] == "fixed"]
    kn = [f for f in kf if f["property"] == pid and f["status"] == "known"]
    out = []
    if fx:
        out.append("%d defect(s) fixed" % len(fx))
    if kn:
        out.append("%d known finding(s)" % len(kn))
    if not out:
        out.append("holds on everything explored")
    rows.append("| %s | %s | %d | %s | %s |" % (pid, title, len(theorems(pid)), c["technique"], "; ".join(out)))
status = "\n".join(rows)

part = open(os.path.join(V, "tools", "design_partI.md")).read()
part = part.replace("@@FINDINGS@@", findings).replace("@@SEEDS@@", seeds).replace("@@STATUS@@", status)
dp = os.path.join(V, "DESIGN.md")
s = open(dp).read()
B, E_ = "<!-- PART-I-BEGIN -->", "<!-- PART-I-END -->"
block = B + "\n" + part + "\n" + E_ + "\n\n# Part II — the round-0 design (rationale; deviations are listed in Part I)\n"
if B in s:
    s = re.sub(re.escape(B) + r".*?" + re.escape(E_) + r"\n\n# Part II[^\n]*\n", lambda m: block, s, flags=re.S)
else:
    i = s.index("## 1. What was read")
    s = s[:i] + block + "\n" + s[i:]
open(dp, "w").write(s)
print("DESIGN.md updated: %d findings, %d seeds" % (len(kf), len(glob.glob(os.path.join(V, 'seeded', '*')))))
