#!/usr/bin/env python3
import json
import os
import sys

sys.path.insert(0, os.path.dirname(os.path.abspath(__file__)))
import registry  # noqa: E402

V = os.path.dirname(os.path.dirname(os.path.abspath(__file__)))
m = json.load(open(os.path.join(V, "MANIFEST.json")))
checks = []
for pid in registry.ALL:
    c = registry.CLAIMED.get(pid)
    if not c:
        continue
    checks.append({
        "property_id": pid,
        "quick_cmd": "python3 tools/check.py --property %s --tier quick" % pid,
        "thorough_cmd": "python3 tools/check.py --property %s --tier thorough" % pid,
        "evidence_file": "evidence/%s.json" % pid,
        "replay_cmd_template": "python3 tools/check.py --property %s --replay {path}" % pid,
        "engine": "lean-proof+correspondence",
        "level_claimed": {"category": "proof", "text": c["text"], "design_ref": c["design_ref"]},
        "level_note": c["note"],
        "technique": c["technique"],
    })
m["checks"] = checks
m["engines"][0]["serves_properties"] = [c["property_id"] for c in checks]
m["not_applicable"] = [{"property_id": p, "reason": registry.NOT_CLAIMED[p]} for p in registry.ALL if p not in registry.CLAIMED]
json.dump(m, open(os.path.join(V, "MANIFEST.json"), "w"), indent=1)
print("claimed %d, not claimed %d" % (len(checks), len(m["not_applicable"])))
