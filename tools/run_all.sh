#!/bin/sh
# run every claimed property's check (tier from $1, default quick) and print one status line each
TIER="${1:-quick}"
cd "$(dirname "$0")/.."
for p in $(python3 -c "
import sys; sys.path.insert(0,'tools'); import registry; print(' '.join(p for p in registry.ALL if p in registry.CLAIMED))"); do
  python3 tools/check.py --property $p --tier $TIER 2>&1 | grep -E "^(OK|FAIL|VIOLATION|KNOWN-FINDING)" | cut -c1-160
done
