#!/usr/bin/env python3
"""Single entry point: python3 tools/check.py --property C17 --tier quick|thorough [--replay FILE]
Environment: VERIF_SEED (int), VERIF_TIER, VERIF_REPO (default /repo)."""
import argparse
import importlib
import json
import os
import sys
import traceback

sys.path.insert(0, os.path.dirname(os.path.abspath(__file__)))
import vlib  # noqa: E402


def setup():
    rc, log = vlib.lake_build(["DispensoVerif", "dvdriver"], timeout=7200)
    sys.stdout.write(log[-3000:])
    if rc != 0:
        print("setup: lake build failed")
        return 1
    print("setup: ok")
    return 0


def main():
    ap = argparse.ArgumentParser()
    ap.add_argument("--property")
    ap.add_argument("--tier", default=os.environ.get("VERIF_TIER", "quick"))
    ap.add_argument("--replay")
    ap.add_argument("--setup", action="store_true")
    a = ap.parse_args()
    if a.setup:
        return setup()
    if not a.property:
        ap.error("--property required")
    try:
        seed = int(os.environ.get("VERIF_SEED", "1"))
    except ValueError:
        seed = 1
    tier = a.tier if a.tier in ("quick", "thorough") else "quick"
    pid = a.property.upper()
    ctx = vlib.Ctx(pid, tier, seed)
    try:
        mod = importlib.import_module("props." + pid.lower())
    except ImportError as e:
        print("no check registered for %s (%s)" % (pid, e))
        return 2
    replay = None
    if a.replay:
        try:
            replay = json.load(open(a.replay))
        except (OSError, ValueError) as e:
            print("cannot read replay file: %s" % e)
            return 2
    try:
        mod.run(ctx, replay)
    except Exception:
        tb = traceback.format_exc()
        ctx.broken.append(("machinery:" + pid, "check crashed: " + tb[-1500:]))
        sys.stderr.write(tb)
    return ctx.finish()


if __name__ == "__main__":
    sys.exit(main())
