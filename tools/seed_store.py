#!/usr/bin/env python3
"""usage: seed_store.py <worktree> <seed-name> <property> <ctest-regex> [--full]
Confirms a seeded defect in its scratch worktree (patch applies, builds, related tests [or the full
non-flaky suite] pass, demo fails with / passes without the patch), runs the property's quick check
against the worktree with the patch applied (VERIF_REPO), and stores everything under
/verif/seeded/<property>-<seed-name>/."""
import json, os, shutil, subprocess, sys
V = os.path.dirname(os.path.dirname(os.path.abspath(__file__)))
wt, name, prop, rx = sys.argv[1:5]
full = "--full" in sys.argv
sd = os.path.join(wt, "seed", name)
def sh(cmd, cwd=None, timeout=3600):
    p = subprocess.run(cmd, shell=True, cwd=cwd, stdout=subprocess.PIPE, stderr=subprocess.STDOUT, text=True, timeout=timeout)
    return p.returncode, p.stdout
res = {}
sh("git checkout -q -- .", wt)
rc, out = sh("git apply --check %s/patch.diff" % sd, wt)
if rc: print("patch does not apply:", out); sys.exit(1)
demo_cmd = ("g++ -std=c++17 -O1 -g -pthread -I {wt} -I {wt}/dispenso/third-party {sd}/demo.cpp {wt}/_b/dispenso/libdispenso.so "
            "-Wl,-rpath,{wt}/_b/dispenso -o {sd}/demo.bin && timeout 400 {sd}/demo.bin").format(wt=wt, sd=sd)
if os.environ.get("SEED_DEMO_CMD"):   # demonstrations that need a non-default build configuration
    demo_cmd = os.environ["SEED_DEMO_CMD"].format(wt=wt, sd=sd)
    res["demo_cmd"] = os.environ["SEED_DEMO_CMD"]
sh("git apply %s/patch.diff" % sd, wt)
rc, out = sh("cmake --build _b -j8", wt)
res["builds_with_patch"] = rc == 0
if rc: print("build fails with patch"); sh("git checkout -q -- .", wt); sys.exit(1)
sel = "-LE flaky" if full else "-R '%s'" % rx
rc, out = sh("ctest --test-dir _b -j6 --timeout 600 %s 2>&1 | grep -E 'tests passed|tests failed|Failed' | head -8" % sel, wt)
res["tests_with_patch"] = out.strip()
rc, out = sh(demo_cmd, wt)
res["demo_with_patch"] = {"rc": rc, "tail": out[-300:]}
sh("git checkout -q -- .", wt)
sh("cmake --build _b -j8", wt)
rc2, out2 = sh(demo_cmd, wt)
res["demo_without_patch"] = {"rc": rc2, "tail": out2[-300:]}
try: os.unlink(os.path.join(sd, "demo.bin"))
except OSError: pass
# run our check against the seed's own worktree with the patch applied (never touches /repo, so checks that
# other sessions run against /repo meanwhile are not disturbed); evidence is restored afterwards
head_repo = sh("git -C /repo rev-parse HEAD")[1].strip(); head_wt = sh("git rev-parse HEAD", wt)[1].strip()
if head_repo != head_wt:
    sh("git checkout -q --detach %s" % head_repo, wt)   # evaluate against the current /repo HEAD if the patch still applies
rc, out = sh("git apply %s/patch.diff" % sd, wt)
if rc and head_repo != head_wt:
    sh("git checkout -q --detach %s" % head_wt, wt)      # otherwise against the commit the seed was written for
    res["check_base"] = head_wt
    rc, out = sh("git apply %s/patch.diff" % sd, wt)
if rc:
    res["check"] = "patch does not apply to /repo HEAD: " + out[-300:]
else:
    ev = os.path.join(V, "evidence", "%s.json" % prop)
    keep = open(ev).read() if os.path.exists(ev) else None
    try:
        tier = os.environ.get("SEED_TIER", "quick")
        res["check_tier"] = tier
        rc, out = sh("VERIF_REPO=%s python3 tools/check.py --property %s --tier %s" % (wt, prop, tier), V, timeout=6000)
        res["check"] = {"rc": rc, "lines": [l[:300] for l in out.split("\n") if l.startswith(("VIOLATION", "OK ", "FAIL ", "KNOWN", "INFO"))][:8]}
    finally:
        sh("git checkout -q -- .", wt)
        if keep is not None:
            open(ev, "w").write(keep)
dst = os.path.join(V, "seeded", "%s-%s" % (prop, name))
os.makedirs(dst, exist_ok=True)
for f in ("patch.diff", "demo.cpp"):
    shutil.copy(os.path.join(sd, f), os.path.join(dst, f))
meta = {}
try: meta = json.load(open(os.path.join(sd, "meta.json")))
except Exception as e: meta = {"note": "agent meta unreadable: %s" % e}
meta["property"] = prop
meta["confirmed_by_us"] = res
json.dump(meta, open(os.path.join(dst, "meta.json"), "w"), indent=1)
ok_demo = res["demo_with_patch"]["rc"] != 0 and res["demo_without_patch"]["rc"] == 0
detected = isinstance(res.get("check"), dict) and res["check"]["rc"] != 0
print("%s-%s: builds=%s tests=[%s] demo_fails_with=%s demo_passes_without=%s DETECTED=%s" % (
    prop, name, res["builds_with_patch"], res["tests_with_patch"].replace("\n", " | ")[:120], res["demo_with_patch"]["rc"] != 0,
    res["demo_without_patch"]["rc"] == 0, detected))
if not ok_demo: print("  WARNING: demonstration not confirmed")
