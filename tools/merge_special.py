#!/usr/bin/env python3
"""merge Plugins.lean (union) and registry claims (by property id) from an agent copy:
   merge_special.py <agent_dir> <pid,pid,...>"""
import re, sys
A = sys.argv[1]; pids = [p for p in sys.argv[2].split(",") if p]
V = "/verif"
# --- Plugins.lean: union of imports and entries
def parse(p):
    s = open(p).read()
    imps = re.findall(r"^import (Driver\.Plug\.\w+)$", s, re.M)
    ents = re.findall(r'\("(\w+)",\s*(Driver\.\w+\.plug\w*)\)', s)
    return imps, ents
vi, ve = parse(V + "/lean/Driver/Plugins.lean")
ai, ae = parse(A + "/lean/Driver/Plugins.lean")
imps = list(dict.fromkeys(vi + ai)); ents = list(dict.fromkeys(ve + ae))
out = "import Driver.Plugin\n" + "".join("import %s\n" % i for i in imps)
out += "/-! The list of plug-in models (one import and one entry per model). -/\nnamespace Driver\n\ndef plugins : List (String × Plug) := [\n"
out += ",\n".join('  ("%s", %s)' % e for e in ents) + "\n]\n\nend Driver\n"
open(V + "/lean/Driver/Plugins.lean", "w").write(out)
print("plugins:", [e[0] for e in ents])
# --- registry claims
def blocks(s):
    res = {}
    for m in re.finditer(r'^claim\(\n    "(C\d\d)",\n.*?^\)\n', s, re.M | re.S):
        res[m.group(1)] = m.group(0)
    return res
vs = open(V + "/tools/registry.py").read(); as_ = open(A + "/tools/registry.py").read()
vb, ab = blocks(vs), blocks(as_)
for pid in pids:
    if pid not in ab:
        print("registry: agent has no claim for", pid); continue
    if pid in vb:
        vs = vs.replace(vb[pid], ab[pid]); print("registry: replaced", pid)
    else:
        marker = 'ALL = ["C%02d" % i for i in range(1, 49)]'
        vs = vs.replace(marker, ab[pid] + "\n" + marker); print("registry: added", pid)
open(V + "/tools/registry.py", "w").write(vs)
