#!/bin/sh
# usage: seed_confirm.sh <worktree> <seed-name> <ctest-regex>
# Confirms a seeded defect: applies the patch in the scratch worktree, rebuilds, runs the related tests,
# runs the demo with and without the patch. Prints a summary; leaves the worktree unmodified.
WT="$1"; SD="$WT/seed/$2"; RX="$3"
cd "$WT" || exit 2
git checkout -q -- . ; git apply --check "$SD/patch.diff" || { echo "PATCH-DOES-NOT-APPLY"; exit 1; }
demo() { g++ -std=c++17 -O1 -g -pthread -I "$WT" -I "$WT/dispenso/third-party" "$SD/demo.cpp" "$WT/_b/dispenso/libdispenso.so" -Wl,-rpath,"$WT/_b/dispenso" -o "$SD/demo.bin" 2>"$SD/demo.build.log" || { echo "demo build failed"; tail -3 "$SD/demo.build.log"; return 9; }; timeout 300 "$SD/demo.bin" > "$SD/demo.out" 2>&1; rc=$?; tail -2 "$SD/demo.out" | cut -c1-200; return $rc; }
git apply "$SD/patch.diff"
cmake --build _b -j8 > _b.log 2>&1 || { echo "BUILD-FAILS-WITH-PATCH"; tail -5 _b.log; git checkout -q -- .; exit 1; }
echo "== tests with patch ($RX)"; ctest --test-dir _b -j6 --timeout 600 -R "$RX" 2>&1 | grep -E "tests passed|tests failed" 
echo "== demo with patch"; demo; echo "rc=$?"
git checkout -q -- .
cmake --build _b -j8 > _b.log 2>&1
echo "== demo without patch"; demo; echo "rc=$?"
rm -f "$SD/demo.bin"
