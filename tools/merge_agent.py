#!/usr/bin/env python3
"""merge an agent's working copy of /verif back: merge_agent.py <agent_dir> <base_commit> [--apply]"""
import os, subprocess, sys, filecmp, shutil, tempfile
A, base = sys.argv[1], sys.argv[2]
apply = "--apply" in sys.argv
V = "/verif"
SKIP_DIRS = ("evidence", ".build", "lean/.lake", "deliver", "__pycache__", ".git", "seeded")
SKIP_FILES = ("MANIFEST.json", "lean/DispensoVerif.lean", "lean/lake-manifest.json")
def base_content(rel):
    r = subprocess.run(["git", "-C", V, "show", "%s:%s" % (base, rel)], capture_output=True)
    return r.stdout if r.returncode == 0 else None
for root, dirs, files in os.walk(A):
    rel_root = os.path.relpath(root, A)
    if any(rel_root == d or rel_root.startswith(d + "/") for d in SKIP_DIRS) or "__pycache__" in rel_root:
        dirs[:] = []
        continue
    for f in files:
        rel = os.path.normpath(os.path.join(rel_root, f))
        if rel in SKIP_FILES or rel.endswith(".pyc"):
            continue
        a = os.path.join(A, rel); v = os.path.join(V, rel)
        b = base_content(rel)
        ac = open(a, "rb").read()
        if b is not None and ac == b:
            continue  # agent did not change it
        if not os.path.exists(v):
            print("NEW   ", rel)
            if apply:
                os.makedirs(os.path.dirname(v), exist_ok=True); shutil.copy2(a, v)
            continue
        vc = open(v, "rb").read()
        if vc == ac:
            continue
        if b is not None and vc == b:
            print("TAKE  ", rel)
            if apply: shutil.copy2(a, v)
            continue
        if b is None:
            print("BOTH-NEW (manual)", rel)
            continue
        with tempfile.NamedTemporaryFile(delete=False) as tb: tb.write(b)
        with tempfile.NamedTemporaryFile(delete=False) as ta: ta.write(ac)
        if apply:
            r = subprocess.run(["git", "merge-file", "-L", "verif", "-L", "base", "-L", "agent", v, tb.name, ta.name])
            print("MERGE ", rel, "conflicts=%d" % r.returncode)
        else:
            tv = tempfile.NamedTemporaryFile(delete=False); tv.write(vc); tv.close()
            r = subprocess.run(["git", "merge-file", "-p", tv.name, tb.name, ta.name], capture_output=True)
            print("MERGE ", rel, "conflicts=%d" % r.returncode)
