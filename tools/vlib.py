"""Shared machinery for the dispenso Lean-4 verification checks.

Every check goes through `Ctx`:
  1. proof obligations: `lake build` of the property's module(s) + axiom audit (`#print axioms`)
     + source grep for sorry/admit/axiom/native_decide/...
  2. tie: build the C++ harness from $VERIF_REPO's *current* sources, run it, and compare the
     implementation's outputs with the executable Lean model (dvdriver) on the same operations
  3. oracle: the property itself evaluated on the implementation's outputs (independent of the model)
  4. verdict, replay files, evidence/<id>.json
"""
import fcntl
import hashlib
import json
import os
import re
import subprocess
import sys
import time

VERIF = os.path.dirname(os.path.dirname(os.path.abspath(__file__)))
LEAN_DIR = os.path.join(VERIF, "lean")
BUILD = os.path.join(VERIF, ".build")
EVIDENCE = os.path.join(VERIF, "evidence")
REPLAYS = os.path.join(EVIDENCE, "replays")
HARNESS = os.path.join(VERIF, "harness")
GUARD = "DISPENSO_VERIF"

ALLOWED_AXIOMS = {"propext", "Classical.choice", "Quot.sound"}
FORBIDDEN_SRC = re.compile(
    r"\b(sorry|admit|native_decide|implemented_by|bv_decide)\b|^\s*axiom\s|^\s*unsafe\s|maxHeartbeats\s+0\b"
)


def repo_path():
    return os.environ.get("VERIF_REPO", "/repo")


def sh(cmd, cwd=None, timeout=None, env=None, input=None):
    """run a command, return (rc, stdout, stderr); never raises on non-zero"""
    try:
        p = subprocess.run(
            cmd, cwd=cwd, timeout=timeout, env=env, input=input,
            stdout=subprocess.PIPE, stderr=subprocess.PIPE, text=True, errors="replace",
        )
        return p.returncode, p.stdout, p.stderr
    except subprocess.TimeoutExpired as e:
        out = e.stdout.decode(errors="replace") if isinstance(e.stdout, bytes) else (e.stdout or "")
        err = e.stderr.decode(errors="replace") if isinstance(e.stderr, bytes) else (e.stderr or "")
        return 124, out, err + "\n[timeout]"


class Lock:
    def __init__(self, name):
        os.makedirs(BUILD, exist_ok=True)
        self.path = os.path.join(BUILD, name + ".lock")

    def __enter__(self):
        self.f = open(self.path, "w")
        fcntl.flock(self.f, fcntl.LOCK_EX)
        return self

    def __exit__(self, *a):
        fcntl.flock(self.f, fcntl.LOCK_UN)
        self.f.close()


def strip_lean_comments(src):
    # remove block comments (nested) and line comments
    out = []
    i = 0
    depth = 0
    n = len(src)
    while i < n:
        if src.startswith("/-", i):
            depth += 1
            i += 2
            continue
        if depth > 0 and src.startswith("-/", i):
            depth -= 1
            i += 2
            continue
        if depth > 0:
            if src[i] == "\n":
                out.append("\n")
            i += 1
            continue
        if src.startswith("--", i):
            while i < n and src[i] != "\n":
                i += 1
            continue
        out.append(src[i])
        i += 1
    return "".join(out)


def lean_sources():
    res = []
    for root, _, files in os.walk(LEAN_DIR):
        if ".lake" in root:
            continue
        for f in files:
            if f.endswith(".lean"):
                res.append(os.path.join(root, f))
    return sorted(res)


def grep_forbidden():
    hits = []
    for p in lean_sources():
        body = strip_lean_comments(open(p).read())
        for ln, line in enumerate(body.split("\n"), 1):
            if FORBIDDEN_SRC.search(line):
                hits.append("%s:%d: %s" % (os.path.relpath(p, VERIF), ln, line.strip()))
    return hits


def lake_build(targets, timeout=3000):
    with Lock("lake"):
        rc, out, err = sh(["lake", "build"] + targets, cwd=LEAN_DIR, timeout=timeout)
    return rc, out + err


def driver_path():
    return os.path.join(LEAN_DIR, ".lake", "build", "bin", "dvdriver")


def print_axioms(module, theorems):
    """returns dict theorem -> list of axioms, or None when the theorem does not exist/compile"""
    os.makedirs(os.path.join(BUILD, "audit"), exist_ok=True)
    fn = os.path.join(BUILD, "audit", module.replace(".", "_") + "_%d.lean" % os.getpid())
    with open(fn, "w") as f:
        f.write("import %s\n" % module)
        for t in theorems:
            f.write("#print axioms %s\n" % t)
    rc, out, err = sh(["lake", "env", "lean", fn], cwd=LEAN_DIR, timeout=1200)
    try:
        os.unlink(fn)
    except OSError:
        pass
    res = {}
    text = out + "\n" + err
    flat = re.sub(r"\s+", " ", text)
    for t in theorems:
        m = re.search(r"'%s' depends on axioms: \[([^\]]*)\]" % re.escape(t), flat)
        if m:
            res[t] = [a.strip() for a in m.group(1).split(",") if a.strip()]
        elif re.search(r"'%s' does not depend on any axioms" % re.escape(t), flat):
            res[t] = []
        else:
            res[t] = None
    return res, text


def file_hash(paths, extra=""):
    h = hashlib.sha256()
    h.update(extra.encode())
    for p in sorted(paths):
        h.update(p.encode())
        try:
            with open(p, "rb") as f:
                h.update(f.read())
        except OSError:
            h.update(b"<missing>")
    return h.hexdigest()[:20]


def repo_sources():
    r = os.path.join(repo_path(), "dispenso")
    res = []
    for root, _, files in os.walk(r):
        if "third-party" in root:
            continue
        for f in files:
            if f.endswith((".h", ".cpp")):
                res.append(os.path.join(root, f))
    return sorted(res)


SAN_FLAGS = ["-fsanitize=address,undefined", "-fno-sanitize-recover=all", "-fno-omit-frame-pointer"]


def repo_includes():
    r = repo_path()
    return ["-I" + r, "-I" + os.path.join(r, "dispenso", "third-party")]


def build_lib(flags, compiler="g++", tag="lib"):
    """compile $VERIF_REPO/dispenso/*.cpp into a static library (cached by source hash + flags)"""
    r = repo_path()
    cpps = sorted(
        os.path.join(r, "dispenso", f) for f in os.listdir(os.path.join(r, "dispenso")) if f.endswith(".cpp")
    ) + sorted(
        os.path.join(r, "dispenso", "detail", f)
        for f in os.listdir(os.path.join(r, "dispenso", "detail")) if f.endswith(".cpp")
    )
    hh = file_hash(repo_sources(), " ".join(flags) + compiler)
    d = os.path.join(BUILD, "lib", "%s_%s" % (tag, hh))
    lib = os.path.join(d, "libdispenso.a")
    with Lock("lib_" + tag + hh):
        if os.path.exists(lib):
            os.utime(lib)
            return lib, ""
        os.makedirs(d, exist_ok=True)
        procs = []
        objs = []
        for c in cpps:
            o = os.path.join(d, ("detail_" if os.sep + "detail" + os.sep in c else "") + os.path.basename(c)[:-4] + ".o")
            objs.append(o)
            cmd = [compiler, "-std=c++14", "-c", c, "-o", o, "-pthread", "-D%s=1" % GUARD] + flags + repo_includes()
            procs.append((c, subprocess.Popen(cmd, stdout=subprocess.PIPE, stderr=subprocess.STDOUT, text=True)))
        log = ""
        ok = True
        for c, p in procs:
            out, _ = p.communicate()
            if p.returncode != 0:
                ok = False
                log += "compile failed: %s\n%s\n" % (c, out[-3000:])
        if not ok:
            return None, log
        rc, out, err = sh(["ar", "rcs", lib] + objs)
        if rc != 0:
            return None, out + err
        prune_dir(os.path.join(BUILD, "lib"), keep=6)
        return lib, log


def prune_dir(d, keep):
    try:
        ents = [os.path.join(d, e) for e in os.listdir(d)]
    except OSError:
        return
    ents.sort(key=lambda p: os.path.getmtime(p), reverse=True)
    for p in ents[keep:]:
        sh(["rm", "-rf", p])


def build_harness(src, flags, name=None, compiler="g++", lib=None, std="c++17", extra_srcs=()):
    """compile one harness program against $VERIF_REPO; cached by hash of harness + repo sources"""
    name = name or os.path.basename(src).rsplit(".", 1)[0]
    deps = [src] + list(extra_srcs) + repo_sources()
    hdir = os.path.dirname(src)
    for f in os.listdir(hdir):
        if f.endswith(".h"):
            deps.append(os.path.join(hdir, f))
    hh = file_hash(deps, " ".join(flags) + compiler + std + str(lib))
    d = os.path.join(BUILD, "bin")
    os.makedirs(d, exist_ok=True)
    exe = os.path.join(d, "%s_%s" % (name, hh))
    with Lock("bin_" + name + hh):
        if os.path.exists(exe):
            os.utime(exe)
            return exe, ""
        cmd = (
            [compiler, "-std=" + std, src] + list(extra_srcs) + ["-o", exe + ".tmp", "-pthread", "-D%s=1" % GUARD,
             "-I" + HARNESS]
            + flags + repo_includes()
        )
        if lib:
            cmd += [lib]
        rc, out, err = sh(cmd, timeout=1200)
        if rc != 0:
            return None, (out + err)[-6000:]
        os.rename(exe + ".tmp", exe)
        # keep the cache small: at most 4 binaries per harness name
        olds = sorted(
            (p for p in (os.path.join(d, e) for e in os.listdir(d)) if os.path.basename(p).startswith(name + "_")),
            key=os.path.getmtime, reverse=True,
        )
        for p in olds[4:]:
            try:
                os.unlink(p)
            except OSError:
                pass
        return exe, out + err


def run_driver(lines, timeout=1800):
    """feed request lines to the Lean model driver, return reply lines"""
    data = "\n".join(lines) + "\n"
    rc, out, err = sh([driver_path()], input=data, timeout=timeout)
    if rc != 0:
        raise RuntimeError("dvdriver failed rc=%s: %s" % (rc, err[-2000:]))
    res = out.split("\n")
    if res and res[-1] == "":
        res.pop()
    return res


def load_known_findings():
    p = os.path.join(VERIF, "known_findings.json")
    try:
        return json.load(open(p)).get("findings", [])
    except (OSError, ValueError):
        return []


class Ctx:
    def __init__(self, pid, tier, seed):
        self.pid = pid
        self.tier = tier
        self.seed = seed
        self.t0 = time.time()
        self.violations = []      # (signature, description, replay_path, found_input)
        self.known_hits = []      # (signature, description)
        self.obligations = []     # names
        self.discharged = []
        self.broken = []          # (name, detail)
        self.axioms = {}
        self.cov = {
            "evaluations": 0, "distinct_nontrivial": 0, "rule": "", "samples": [],
            "traces_validated_against_impl": 0,
        }
        self.assumptions = []
        self.trusted = [
            "Lean 4.33.0 kernel; axioms allowed: propext, Classical.choice, Quot.sound",
            "hand-written Lean model, tied to the code by the differential/trace correspondence run of this check",
            "g++ 12 / clang 14 code generation and sanitizer runtimes",
        ]
        self.checker_cmds = []
        self.notes = {}
        self.known = [k for k in load_known_findings() if k.get("property") == pid]
        os.makedirs(REPLAYS, exist_ok=True)
        os.makedirs(BUILD, exist_ok=True)

    # ---------- proof side ----------
    def prove(self, module, theorems, extra_allowed=()):
        """build `module`, audit the axioms of `theorems`. Registers each theorem as an obligation."""
        self.checker_cmds.append("cd lean && lake build %s dvdriver && #print axioms (tools/vlib.py:print_axioms)" % module)
        for t in theorems:
            self.obligations.append(module + ":" + t)
        rc, log = lake_build([module, "dvdriver"])
        if rc != 0:
            errs = "\n".join(l for l in log.split("\n") if "error" in l.lower())[:3000]
            for t in theorems:
                self.broken.append((module + ":" + t, "lake build failed: " + errs))
            return False
        hits = grep_forbidden()
        if hits:
            for t in theorems:
                self.broken.append((module + ":" + t, "forbidden construct in Lean sources: " + "; ".join(hits[:5])))
            return False
        ax, text = print_axioms(module, theorems)
        ok = True
        allowed = ALLOWED_AXIOMS | set(extra_allowed)
        for t in theorems:
            a = ax.get(t)
            if a is None:
                self.broken.append((module + ":" + t, "theorem missing or not checkable: " + text[-800:]))
                ok = False
            elif not set(a) <= allowed:
                self.broken.append((module + ":" + t, "unexpected axioms: %s" % a))
                ok = False
            else:
                self.axioms[t] = a
                self.discharged.append(module + ":" + t)
        return ok

    # ---------- reporting ----------
    def add_samples(self, samples, limit=6):
        for s in samples:
            if len(self.cov["samples"]) < limit:
                self.cov["samples"].append(s)

    def write_replay(self, name, obj):
        p = os.path.join(REPLAYS, "%s_%s.json" % (self.pid, name))
        obj = dict(obj)
        obj.setdefault("property", self.pid)
        obj.setdefault("seed", self.seed)
        obj.setdefault("tier", self.tier)
        with open(p, "w") as f:
            json.dump(obj, f, indent=1, default=str)
        return p

    def fail(self, signature, description, replay_obj, found_input=True):
        """a property failure on the implementation (found_input) or a broken obligation/tie.
        `signature` identifies the failing input/call site/history class for known_findings."""
        for k in self.known:
            if k.get("status") == "known" and k.get("signature") == signature:
                if (signature, k.get("description", description)) not in self.known_hits:
                    self.known_hits.append((signature, k.get("description", description)))
                return "known"
        name = re.sub(r"[^A-Za-z0-9]+", "_", signature)
        if len(name) > 60:   # distinct long signatures must not share one replay file
            import hashlib
            name = name[:52] + "_" + hashlib.sha1(signature.encode()).hexdigest()[:7]
        path = self.write_replay(name, dict(replay_obj, signature=signature, description=description))
        if not any(v[0] == signature for v in self.violations):
            self.violations.append((signature, description, path, found_input))
        return "violation"

    def finish(self):
        # broken obligations that no concrete failing input explains
        if self.broken and not any(v[3] for v in self.violations):
            names = [b[0] for b in self.broken]
            path = self.write_replay(
                "obligation", {"kind": "obligation", "broken": [{"name": n, "detail": d} for n, d in self.broken]}
            )
            self.violations.append(("obligation:" + ",".join(names)[:200], "proof obligation / correspondence no longer checks", path, False))
        wall = time.time() - self.t0
        cov = dict(self.cov)
        cov["obligations"] = len(self.obligations)
        cov["discharged"] = len(self.discharged)
        cov["obligation_names"] = self.obligations
        cov["axioms"] = self.axioms
        cov["checker_cmd"] = " ; ".join(dict.fromkeys(self.checker_cmds)) or "n/a"
        cov["trusted_base"] = self.trusted
        cov["broken"] = [{"name": n, "detail": d[:500]} for n, d in self.broken]
        cov["known_findings_reproduced"] = [s for s, _ in self.known_hits]
        cov.update(self.notes)
        ev = {
            "property_id": self.pid,
            "tier": self.tier,
            "seed": self.seed,
            "level": "proof",
            "coverage": cov,
            "assumptions": self.assumptions,
            "wall_s": round(wall, 2),
            "violations": len(self.violations),
        }
        os.makedirs(EVIDENCE, exist_ok=True)
        tmp = os.path.join(EVIDENCE, ".%s.json.%d" % (self.pid, os.getpid()))
        with open(tmp, "w") as f:
            json.dump(ev, f, indent=1, default=str)
        os.replace(tmp, os.path.join(EVIDENCE, "%s.json" % self.pid))
        for sig, desc in self.known_hits:
            print("KNOWN-FINDING: property=%s %s — %s" % (self.pid, sig, desc))
        for sig, desc, path, found in self.violations:
            tail = "" if found else " no-failing-input-found"
            print("INFO: %s: %s" % (sig, desc))
            print("VIOLATION property=%s replay=%s%s" % (self.pid, path, tail))
        print(
            "%s %s tier=%s seed=%d obligations=%d/%d evaluations=%d distinct=%d wall=%.1fs"
            % ("FAIL" if self.violations else "OK", self.pid, self.tier, self.seed, len(self.discharged),
               len(self.obligations), cov["evaluations"], cov["distinct_nontrivial"], wall)
        )
        sys.stdout.flush()
        return 1 if self.violations else 0


class SplitMix:
    def __init__(self, seed):
        self.s = (seed * 0x9E3779B97F4A7C15 + 0x1234567) & 0xFFFFFFFFFFFFFFFF

    def next(self):
        self.s = (self.s + 0x9E3779B97F4A7C15) & 0xFFFFFFFFFFFFFFFF
        z = self.s
        z = ((z ^ (z >> 30)) * 0xBF58476D1CE4E5B9) & 0xFFFFFFFFFFFFFFFF
        z = ((z ^ (z >> 27)) * 0x94D049BB133111EB) & 0xFFFFFFFFFFFFFFFF
        return z ^ (z >> 31)

    def below(self, n):
        return self.next() % n

    def choice(self, l):
        return l[self.below(len(l))]


def harness_diff(ctx, tie, exe, args, timeout=1200, env=None, max_mismatch=5, prefix_filter=None):
    """Run a C++ harness and compare with the Lean model.

    Harness stdout protocol (one record per line):
      Q <request…> => <impl reply>     differential record: <request> is sent to dvdriver verbatim
      PFAIL <signature> | <details>    the property oracle failed on the implementation
      STAT <key> <int>                 coverage statistics (summed)
      SAMPLE <text>                    a case worth showing in the evidence
      NT <key>                         a distinct non-trivial case key (deduplicated, counted)
    Anything else is ignored (kept in the log tail for diagnostics).
    Returns dict(ok, mismatches, pfails, stats, rc, tail)."""
    e = dict(os.environ)
    e.setdefault("ASAN_OPTIONS", "detect_leaks=1:abort_on_error=0:allocator_may_return_null=1")
    e.setdefault("UBSAN_OPTIONS", "print_stacktrace=1:halt_on_error=1")
    if env:
        e.update(env)
    rc, out, err = sh([exe] + [str(a) for a in args], timeout=timeout, env=e)
    reqs, impl = [], []
    pfails, stats, nts = [], {}, set()
    for line in out.split("\n"):
        if line.startswith("Q "):
            body = line[2:]
            k = body.rfind(" => ")
            if k < 0:
                continue
            reqs.append(body[:k])
            impl.append(body[k + 4:].strip())
        elif line.startswith("PFAIL "):
            sig, _, det = line[6:].partition(" | ")
            pfails.append((sig.strip(), det.strip()))
        elif line.startswith("STAT "):
            p = line.split()
            if len(p) == 3:
                try:
                    stats[p[1]] = stats.get(p[1], 0) + int(p[2])
                except ValueError:
                    pass
        elif line.startswith("SAMPLE "):
            ctx.add_samples([line[7:]])
        elif line.startswith("NT "):
            nts.add(line[3:].strip())
    mism = []
    if reqs:
        model = run_driver(reqs)
        if len(model) != len(reqs):
            mism.append({"request": "<driver>", "impl": "%d lines" % len(reqs), "model": "%d lines" % len(model)})
        else:
            for r, a, b in zip(reqs, impl, model):
                b = b.strip()
                if a != b:
                    mism.append({"request": r, "impl": a, "model": b})
                    if len(mism) >= max_mismatch:
                        break
        if len(ctx.cov["samples"]) < 4 and reqs:
            ctx.add_samples(["%s => %s" % (reqs[0], impl[0]), "%s => %s" % (reqs[len(reqs) // 2], impl[len(reqs) // 2])])
    crashed = rc != 0
    tail = (out[-1500:] + "\n" + err[-3000:]) if crashed else ""
    if crashed:
        # a long sanitizer report (alloc / free stacks, shadow bytes) pushes its headline out of the tail
        hm = re.search(r"^.*(?:ERROR: \w+Sanitizer: |runtime error: )[^\n]*", err, re.M)
        if hm and hm.group(0) not in tail:
            tail = err[hm.start():hm.start() + 1500] + "\n[...]\n" + tail
    ctx.cov["evaluations"] += len(reqs) + stats.get("cases", 0)
    ctx.cov["distinct_nontrivial"] += len(nts) if nts else len(set(reqs))
    ctx.cov["traces_validated_against_impl"] += len(reqs)
    for k, v in stats.items():
        ctx.notes.setdefault("stats", {})
        ctx.notes["stats"][tie + "." + k] = ctx.notes["stats"].get(tie + "." + k, 0) + v
    return {"ok": not mism and not pfails and not crashed, "mismatches": mism, "pfails": pfails,
            "stats": stats, "rc": rc, "tail": tail, "crashed": crashed, "nreq": len(reqs)}


def standard_verdict(ctx, tie, res, args, harness_name):
    """turn a harness_diff result into violations / broken-tie records"""
    for sig, det in res["pfails"]:
        ctx.fail(sig, det, {"kind": "input", "harness": harness_name, "args": [str(a) for a in args], "detail": det})
    if res["crashed"]:
        m = re.search(r"(ERROR: \w+Sanitizer: [^\n]*|runtime error: [^\n]*|Assertion [^\n]*failed[^\n]*|LeakSanitizer[^\n]*)", res["tail"])
        what = m.group(1) if m else "exit code %s" % res["rc"]
        ctx.fail("crash:%s:%s" % (harness_name, re.sub(r"0x[0-9a-f]+|\d+", "N", what)[:80]),
                 "harness %s terminated abnormally: %s" % (harness_name, what),
                 {"kind": "input", "harness": harness_name, "args": [str(a) for a in args], "log_tail": res["tail"]})
    if res["mismatches"]:
        ctx.broken.append(("tie:" + tie, "model and implementation disagree: " + json.dumps(res["mismatches"][:3])))
        ctx.write_replay("tie_" + tie, {"kind": "ops", "harness": harness_name, "args": [str(a) for a in args],
                                        "mismatches": res["mismatches"]})


# ---------------------------------------------------------------- dsched (trace validation) support
TSAN_CXX = "clang++-14"


def build_dsched_runtime():
    src = os.path.join(HARNESS, "dsched", "dsched.cpp")
    hh = file_hash([src, os.path.join(HARNESS, "dsched", "dsched.h")])
    d = os.path.join(BUILD, "dsched")
    os.makedirs(d, exist_ok=True)
    obj = os.path.join(d, "dsched_%s.o" % hh)
    with Lock("dsched_rt"):
        if not os.path.exists(obj):
            rc, out, err = sh(["g++", "-std=c++17", "-O2", "-g", "-c", src, "-o", obj, "-I" + HARNESS])
            if rc != 0:
                return None, out + err
    return obj, ""


def build_dsched_harness(src, name=None, with_lib=False, extra_flags=(), repo_cpps=("tsan_annotations.cpp",)):
    """harness + (optionally) dispenso's .cpp files compiled with TSan instrumentation only and linked
    against the dsched runtime instead of libtsan"""
    rt, log = build_dsched_runtime()
    if not rt:
        return None, "dsched runtime: " + log
    flags = ["-O1", "-g", "-fsanitize=thread"] + list(extra_flags)
    lib = None
    if with_lib:
        lib, log = build_lib(flags, compiler=TSAN_CXX, tag="dslib")
        if not lib:
            return None, log
    name = name or ("ds_" + os.path.basename(src).rsplit(".", 1)[0])
    deps = [src, rt] + repo_sources() + [os.path.join(HARNESS, "common.h"), os.path.join(HARNESS, "dsched", "dsched.h")]
    hh = file_hash(deps, " ".join(flags) + str(lib))
    d = os.path.join(BUILD, "bin")
    os.makedirs(d, exist_ok=True)
    exe = os.path.join(d, "%s_%s" % (name, hh))
    with Lock("bin_" + name + hh):
        if os.path.exists(exe):
            os.utime(exe)
            return exe, ""
        obj = exe + ".o"
        cmd = [TSAN_CXX, "-std=c++17", "-c", src, "-o", obj, "-pthread", "-D%s=1" % GUARD, "-DDSCHED=1",
               "-I" + HARNESS] + flags + repo_includes()
        rc, out, err = sh(cmd, timeout=1200)
        if rc != 0:
            return None, (out + err)[-6000:]
        extra_objs = []
        if not lib:
            for rc_ in repo_cpps:
                eo = exe + "." + rc_.replace(".cpp", ".o")
                rc2, o2, e2 = sh([TSAN_CXX, "-std=c++17", "-c", os.path.join(repo_path(), "dispenso", rc_), "-o", eo,
                                  "-pthread", "-D%s=1" % GUARD] + flags + repo_includes(), timeout=600)
                if rc2 != 0:
                    return None, (o2 + e2)[-4000:]
                extra_objs.append(eo)
        cmd = [TSAN_CXX, obj, rt] + extra_objs + ([lib] if lib else []) + ["-o", exe + ".tmp", "-pthread", "-ldl"]
        rc, out2, err2 = sh(cmd, timeout=600)
        for o_ in [obj] + extra_objs:
            try:
                os.unlink(o_)
            except OSError:
                pass
        if rc != 0:
            return None, (out2 + err2)[-6000:]
        os.rename(exe + ".tmp", exe)
        olds = sorted((p for p in (os.path.join(d, e) for e in os.listdir(d)) if os.path.basename(p).startswith(name + "_")),
                      key=os.path.getmtime, reverse=True)
        for p in olds[4:]:
            try:
                os.unlink(p)
            except OSError:
                pass
        return exe, ""


def trace_validate(ctx, tie, exe, args, timeout=1200, max_report=3):
    """Run a dsched harness. Its stdout contains, besides PFAIL/STAT/SAMPLE/NT records,
         TRACE-BEGIN <protocol> <params…>
         T <event line>            (repeated)
         TRACE-END <description>
       blocks. Every block is replayed through the Lean model (dvdriver `trace begin` / `T`);
       a line the model does not accept is a correspondence failure."""
    rc, out, err = sh([exe] + [str(a) for a in args], timeout=timeout)
    lines = out.split("\n")
    reqs = []
    idx = []  # (trace number, line text)
    traces = 0
    pfails, stats, nts = [], {}, set()
    last_scn = None
    cur = None
    descs = {}
    for line in lines:
        if line.startswith("TRACE-BEGIN "):
            traces += 1
            cur = traces
            reqs.append("trace begin " + line[12:])
            idx.append((cur, line))
        elif line.startswith("TRACE-END"):
            descs[cur] = line[9:].strip()
            cur = None
        elif line.startswith("T ") and cur is not None:
            reqs.append(line)
            idx.append((cur, line))
        elif line.startswith("PFAIL "):
            sig, _, det = line[6:].partition(" | ")
            pfails.append((sig.strip(), det.strip()))
        elif line.startswith("STAT "):
            p = line.split()
            if len(p) == 3:
                try:
                    stats[p[1]] = stats.get(p[1], 0) + int(p[2])
                except ValueError:
                    pass
        elif line.startswith("SAMPLE "):
            ctx.add_samples([line[7:]])
        elif line.startswith("NT "):
            nts.add(line[3:].strip())
        elif line.startswith("SCN "):
            try:
                last_scn = int(line[4:])
            except ValueError:
                pass
    mism = []
    accepted = 0
    if reqs:
        rep = run_driver(reqs)
        bad_traces = set()
        if len(rep) != len(reqs):
            mism.append({"trace": 0, "line": "<driver>", "model": "reply count %d != %d" % (len(rep), len(reqs))})
        else:
            for pos, ((tn, text), r) in enumerate(zip(idx, rep)):
                if r not in ("ok", "skip") and tn not in bad_traces:
                    bad_traces.add(tn)
                    if len(mism) < max_report:
                        ctxl = [t for (n, t) in idx[:pos + 1] if n == tn]
                        k = len(ctxl) - 1
                        mism.append({"trace": tn, "desc": descs.get(tn, ""), "line": text, "model": r,
                                     "prefix": ctxl[max(0, k - 25):k + 1]})
            accepted = traces - len(bad_traces)
    crashed = rc != 0
    tail = (out[-1500:] + "\n" + err[-3000:]) if crashed else ""
    ctx.cov["evaluations"] += traces if traces else stats.get("cases", 0)
    ctx.cov["distinct_nontrivial"] += len(nts)
    ctx.cov["traces_validated_against_impl"] += accepted
    if traces and len(ctx.cov["samples"]) < 5:
        first = [t for (n, t) in idx if n == 1][:14]
        ctx.add_samples([{"trace": first, "desc": descs.get(1, "")}])
    for k, v in stats.items():
        ctx.notes.setdefault("stats", {})
        ctx.notes["stats"][tie + "." + k] = ctx.notes["stats"].get(tie + "." + k, 0) + v
    ctx.notes.setdefault("trace_events", 0)
    ctx.notes["trace_events"] += len(reqs) - traces
    return {"ok": not mism and not pfails and not crashed, "mismatches": mism, "pfails": pfails, "stats": stats,
            "rc": rc, "tail": tail, "crashed": crashed, "nreq": traces, "last_scn": last_scn}
