"""Per-property registry: what is claimed, at which level, by which method. MANIFEST.json is
generated from this (python3 tools/gen_manifest.py)."""

# pid -> dict(text, note, technique, design_ref)
CLAIMED = {}

# pid -> reason (for every property not claimed)
NOT_CLAIMED = {}


def claim(pid, text, note, technique, design_ref="DESIGN.md §5"):
    CLAIMED[pid] = dict(text=text, note=note, technique=technique, design_ref=design_ref)


claim(
    "C17",
    "Lean theorems C17_transition_range/C17_sum/C17_sizes/C17_mapper_partition/C17_static_chunks_partition/"
    "C17_no_overflow prove, for every items>=0, chunks>=1, granularity>=1 dividing items (no bound), that the "
    "chunking arithmetic yields contiguous chunks covering each item exactly once, sizes a multiple of g, differing by "
    "at most one unit, larger first, without signed overflow. The model is tied to the code by differential "
    "execution of the compiled functions (staticChunkSize, staticChunkSizeGranular, StaticChunkMapper, for_each "
    "offsets) against the Lean definitions on exhaustive small grids and random 64-bit inputs, plus an independent "
    "property oracle on the implementation's outputs.",
    "Trusted: Lean kernel; the hand-written Lean model (checked against the code only on the explored inputs); "
    "ssize_t = 64-bit. The mapper recipe of parallel_for_staticImpl is replicated in the harness; C12 covers it end to end.",
    "Lean 4 proof (induction/omega/ring) + differential correspondence",
    "DESIGN.md §5.2 C17",
)

ALL = ["C%02d" % i for i in range(1, 49)]
for _p in ALL:
    if _p not in CLAIMED:
        NOT_CLAIMED.setdefault(_p, "not claimed in this revision: model/proof/correspondence for it is not built yet (work order in DESIGN.md §11)")
