"""Per-property registry: what is claimed, at which level, by which method. MANIFEST.json is
generated from this (python3 tools/gen_manifest.py)."""

# pid -> dict(text, note, technique, design_ref)
CLAIMED = {}

# pid -> reason (for every property not claimed)
NOT_CLAIMED = {}


def claim(pid, text, note, technique, design_ref="DESIGN.md §5"):
    CLAIMED[pid] = dict(text=text, note=note, technique=technique, design_ref=design_ref)


claim(
    "C17",
    "Lean theorems C17_transition_range/C17_sum/C17_sizes/C17_mapper_partition/C17_static_chunks_partition/"
    "C17_no_overflow prove, for every items>=0, chunks>=1, granularity>=1 dividing items (no bound), that the "
    "chunking arithmetic yields contiguous chunks covering each item exactly once, sizes a multiple of g, differing by "
    "at most one unit, larger first, without signed overflow. The model is tied to the code by differential "
    "execution of the compiled functions (staticChunkSize, staticChunkSizeGranular, StaticChunkMapper, for_each "
    "offsets) against the Lean definitions on exhaustive small grids and random 64-bit inputs, plus an independent "
    "property oracle on the implementation's outputs.",
    "Trusted: Lean kernel; the hand-written Lean model (checked against the code only on the explored inputs); "
    "ssize_t = 64-bit. The mapper recipe of parallel_for_staticImpl is replicated in the harness; C12 covers it end to end.",
    "Lean 4 proof (induction/omega/ring) + differential correspondence",
    "DESIGN.md §5.2 C17",
)

claim(
    "C44",
    "Lean theorems C44_nextPow2 (least power of two >= v for 1 <= v <= 2^63), C44_log2const64/32 (= floor log2 for "
    "every non-zero input), C44_alignToCacheLine and C44_alignedMalloc (aligned result, recovery word inside the "
    "allocation, for every power-of-two alignment <= 2^16) are proved over BitVec 64/32 models that transcribe the C++ "
    "bit operations one to one, kernel-checked without native axioms. The tie runs the compiled functions against the "
    "model on structured and random inputs; the intrinsic-based log2/countTrailingZeros/countSetBits are compared with "
    "the Lean mathematical specification (thorough: all 2^32 32-bit inputs against a reference).",
    "Trusted: Lean kernel; hand-written model (checked on the explored inputs only); bsr/ctz/popcount intrinsics are "
    "compared, not proved; malloc's 16-byte alignment.",
    "Lean 4 proof (bit-level induction via testBit windows) + differential correspondence",
    "DESIGN.md §5.6 C44",
)

claim(
    "C21",
    "The Linux CompletionEventImpl/CompletionEvent/Latch are modelled at one action per atomic or futex operation "
    "(Model/Event.lean) in a generic interleaving semantics (Core/Conc.lean: any number of threads, any schedule, "
    "futex wake victims chosen arbitrarily, spurious wake-ups, time-outs). Proved for every reachable state: once the "
    "latch count is zero / the event is completed, either nobody is parked or a store+wake-all is still pending "
    "(C21_*_no_lost_wakeup), hence nobody stays blocked once the notifiers returned (C21_*_quiescent); waits return "
    "only after observing the completed value (C21_*_never_early) and the completed value is stable. The same exec "
    "function accepts or rejects traces of the real code recorded under the deterministic scheduler (field, operation, "
    "operand, observed value, woken set and return value of every call must match).",
    "Trusted: Lean kernel; dsched (our TSan-interface runtime and futex model) to report what the code did; sequential "
    "consistency (memory orders are C10's subject); thread count < 2^31; reset() racing with waiters is outside the "
    "class contract and outside the theorems. The pre-repair code's lost wake-up is kept as a proved witness "
    "(C21_old_count_down_loses_wakeup).",
    "Lean 4 proof (inductive invariant over an interleaving semantics) + trace validation under a deterministic scheduler",
    "DESIGN.md §5.3 C21",
)

claim(
    "C24",
    "AsyncRequest is modelled at one action per atomic operation (Model/AsyncReq.lean; the element's construction and "
    "move-out are atomic events because the harness payload's only member is an atomic). Proved for every run of any "
    "number of requesters, producers and consumers: the state word is a lock around the object (C24_mutex), "
    "tryEmplaceUpdate succeeds exactly when the word is needsUpdate (C24_emplace_only_when_requested), getUpdate never "
    "hands out a moved-from object (C24_take_is_fresh), and over whole histories the values taken are a prefix of the "
    "values emplaced with at most one outstanding (C24_history: each emplaced value is returned at most once, only "
    "after an emplace). Traces of the real code under the deterministic scheduler are replayed through the same exec.",
    "Trusted: Lean kernel; dsched; SC reading; std::optional<Payload> instantiation (C++17). The original "
    "load/move/store getUpdate is kept as protoOld with the proved double-delivery witness C24_old_double_delivery.",
    "Lean 4 proof (invariant + history induction) + trace validation under a deterministic scheduler",
    "DESIGN.md §5.3 C24",
)

claim(
    "C35",
    "SPSCRingBuffer is modelled at one action per atomic operation / element access (Model/Spsc.lean; single and batch "
    "push and pop, observers, destructor; any buffer size K >= 2). C35_fifo proves for every run with one producer "
    "thread and one consumer thread: the values popped are a prefix of the values pushed (exactly once, in order), at "
    "most K-1 elements are ever written and not yet taken, and a pop never yields a moved-from slot; "
    "C35_push_reject_iff_full / C35_pop_reject_iff_empty: a call is rejected exactly when the index it read says "
    "full/empty. Traces of the real code (capacities 1..4, exact and power-of-two sizes) under the deterministic "
    "scheduler are replayed through the same exec; the harness oracle checks prefix-FIFO, occupancy and lifetimes.",
    "Trusted: Lean kernel; dsched; SC reading (orders are C10's); element accesses are visible only because the harness "
    "payload's member is an atomic; index wrap beyond 2^64 operations is irrelevant (indices are reduced mod K).",
    "Lean 4 proof (ghost absolute counters + history induction) + trace validation under a deterministic scheduler",
    "DESIGN.md §5.5 C35",
)

claim(
    "C22",
    "RWLockImpl is modelled at one action per atomic / futex operation (Model/RWLock.lean: lock, try_lock with its 16 "
    "drain probes and roll-back, unlock, lock_shared with optimistic increment / back-out / spin, try_lock_shared, "
    "unlock_shared, lock_upgrade, lock_downgrade), with the usage contract in `entry`. Proved for every reachable state "
    "and any number of threads: a write holder excludes every other holder (C22_exclusion); the word is "
    "readerUnits + W*[bit owner], the owner is unique (C22_word); successful try variants really hold "
    "(C22_try_sound); a failed try_lock removes exactly the bit it set (C22_failed_try_lock_restores); if the draining "
    "writer is parked while the word is exactly W a wake is pending (C22_no_lost_wakeup), and when nobody holds or is "
    "inside a call nobody is parked (C22_no_deadlock). Traces of the real code under the deterministic scheduler are "
    "replayed through the same exec.",
    "Trusted: Lean kernel; dsched; SC reading; fewer than 2^30 threads. Progress of the spin loops (fetch_or / load "
    "retries) is not formalised; the documented two-upgrader hazard is exhibited as C22_two_upgraders_stuck and excluded "
    "from the harness scenarios, as the class documentation requires.",
    "Lean 4 proof (counting invariant over an interleaving semantics) + trace validation under a deterministic scheduler",
    "DESIGN.md §5.3 C22",
)

claim(
    "C36",
    "ChaseLevDeque is modelled at one action per atomic operation, fence and slot access (Model/ChaseLev.lean: try_push, "
    "try_pop, try_pop_into, try_steal, observers; any capacity). Proved for every run with one owner thread and any "
    "number of thieves: bottom - top <= capacity (C36_bounds); with distinct pushed tags no element is returned twice and "
    "every returned element was pushed (C36_exactly_once), in every reachable state taken ++ deque contents is a "
    "permutation of the successfully pushed values (C36_conservation, _quiescent); a successful steal removes the oldest "
    "and an owner pop the newest element (C36_order, C36_steal_oldest, C36_pop_newest), including the last-element CAS "
    "race. Traces of the real code under the deterministic scheduler are replayed through the same exec.",
    "Trusted: Lean kernel; dsched; sequential consistency (the seq_cst fences make it the intended reading; declared "
    "orders are C10's subject); counters unbounded; slot data accesses are plain memory, not visible in the trace and "
    "executed with the preceding atomic step during replay.",
    "Lean 4 proof (ghost-free invariant + permutation accounting over runs) + trace validation under a deterministic scheduler",
    "DESIGN.md §5.5 C36",
)

claim(
    "C34",
    "MpmcRingBuffer is modelled at one action per atomic operation / element access (Model/Mpmc.lean: emplaceImpl, the "
    "three pop variants, try_push_batch with its validation loop + single CAS + per-slot publish, observers; any buffer "
    "size K >= 2, the code's own static_assert). Proved for every reachable state and any number of producers and "
    "consumers: head <= tail <= head + K (C34_bounds); a position is owned by at most one pusher and one popper "
    "(C34_claim_unique, C34_slot_exclusive); a stale batch/single validation is still true when the CAS succeeds "
    "(C34_*_claim_validated); the take at position p sees seq = p+1 and a real value, and element slots are written only "
    "by the position's owner (C34_pop_gets_pushed_value, C34_data_written_by_owner, C34_full_unowned); over whole "
    "histories the element popped at claim position p is exactly the element pushed at claim position p, each at most "
    "once (C34_fifo_history, _fun, _complete); at quiescence pop succeeds iff non-empty and push iff not full "
    "(C34_quiescent*). Traces of the real code under the deterministic scheduler are replayed through the same exec.",
    "Trusted: Lean kernel; dsched; SC reading; counters unbounded (2^64 wrap excluded); element accesses visible because "
    "the harness payload's member is an atomic. K = 1 is outside the class (static_assert) and the model (a proved "
    "counterexample is kept in Props/C34.lean).",
    "Lean 4 proof (Vyukov life-cycle invariant + history logs) + trace validation under a deterministic scheduler",
    "DESIGN.md §5.5 C34",
)

claim(
    "C23",
    "DistributedRWLockImpl<N> is modelled at one action per atomic / futex operation (Model/DistRWLock.lean: two-phase "
    "lock(), try_lock() with roll-back, unlock(), readers on arbitrary slots), for every N >= 1. Proved for every "
    "reachable state and any number of threads: an exclusive holder excludes every reader on every slot and every other "
    "writer (C23_exclusion); each writer bit has a unique owner and is set iff owned (C23_bit_owner_unique); a failed "
    "try_lock's roll-back steps subtract exactly the bits it took and leave every other word unchanged "
    "(C23_failed_try_lock_leaves_no_trace); only the draining writer parks and a wake is pending whenever its slot is "
    "already exactly W (C23_no_lost_wakeup, C23_only_draining_writer_parks); when nobody holds or is inside a call nobody "
    "is parked (C23_quiescent_not_blocked). Traces of the real code (N in {1,2,4,16}) under the deterministic scheduler "
    "are replayed through the same exec.",
    "Trusted: Lean kernel; dsched; SC reading; fewer than 2^30 threads. Spin-loop progress (ordered bit acquisition "
    "between blocking writers) is not formalised beyond the no-parked-at-quiescence theorem; the scheduler's livelock "
    "detector covers it on the explored schedules.",
    "Lean 4 proof (per-slot counting invariant, all N) + trace validation under a deterministic scheduler",
    "DESIGN.md §5.3 C23",
)

claim(
    "C45",
    "threadId() is modelled with the global counter as memory field 0 and the thread-local cache as part of each thread's "
    "local state (Model/ThreadId.lean). Proved for any number of threads and any interleaving: ids of distinct threads "
    "differ (C45_unique), an id never changes once assigned (C45_stable), ids lie in [start, counter) and the counter is "
    "monotone. Traces of the real code (1..64 concurrently created threads) under the deterministic scheduler are "
    "replayed through the same exec.",
    "Trusted: Lean kernel; dsched; fewer than 2^64-1 threads (counter unbounded in the model).",
    "Lean 4 proof (invariant over an interleaving semantics) + trace validation under a deterministic scheduler",
    "DESIGN.md §5.6 C45",
)

claim(
    "C40",
    "OpResult is modelled as a pool of optional values with a ledger of contained objects that follows the code's "
    "placement-new / destructor calls (Model/OpResult.lean). Proved for every operation sequence: the number of live "
    "contained objects equals the number of engaged wrappers, so once all wrappers are destroyed nothing is left alive "
    "(C40_ledger, C40_all_destroyed); each operation has std::optional's effect on its destination and leaves all "
    "other objects untouched (C40_sem_*; the moved-from source is disengaged, which the property leaves open). The tie "
    "runs random operation sequences on OpResult<Tracked>, std::optional<Tracked> and the model and compares engaged "
    "flag, value and live-object count after every operation (ASan/UBSan/LSan build).",
    "Trusted: Lean kernel; hand-written model checked against the code on the explored sequences; the state of a "
    "moved-from OpResult is treated as unspecified. The original leak is kept as the proved witness C40_old_leaks.",
    "Lean 4 proof (ledger invariant by induction over operation sequences) + differential correspondence",
    "DESIGN.md §5.5 C40",
)

claim(
    "C38",
    "SmallVector is modelled as contents + heap flag + capacity per vector, each operation written as the loop the C++ "
    "performs, with ledgers of element objects and heap buffers (Model/SmallVec.lean). Proved for every operation "
    "sequence and inline capacity: every element constructed is destroyed exactly once and every heap buffer freed "
    "exactly once (C38_ledger, C38_all_destroyed); size <= capacity and inline vectors have capacity N (C38_capacity); "
    "each operation has std::vector's effect on contents (C38_sem_*); element addresses are aligned when the buffer "
    "address is (C38_elem_aligned). The tie compares size, capacity, contents and live count with the model and "
    "contents/positions with std::vector after every operation for N in {1,2,4,8}; separate streams check alignment "
    "for element types aligned to 16..128 bytes (non-ASan build) and push_back(v[i]) with an aliasing argument.",
    "Trusted: Lean kernel; hand-written model checked on the explored sequences; the alignment of the allocation call "
    "(operator new / alignedMalloc) is observed by the alignment stream, the theorem covers only the address arithmetic.",
    "Lean 4 proof (ledger/capacity invariants by induction over operation sequences) + differential correspondence",
    "DESIGN.md §5.5 C38",
)

claim(
    "C32",
    "ConcurrentVector used sequentially is modelled in three layers. (1) Bucket layout (Model/ConVec.lean): index -> "
    "(bucket, sub-index) is a bijection with sub-index < bucket capacity and buckets tiling the index space, for every "
    "first-bucket size (C32_sub_lt_cap, C32_index_decomp, C32_bucket_inverse, C32_buckets_tile, C32_bucket_injective). "
    "(2) The container as a value with a ledger of element objects: for every operation sequence the number of live "
    "elements equals the total size, so every element constructed is destroyed exactly once (C32_ledger, "
    "C32_all_destroyed); every operation has std::vector's effect on contents and returns std::vector's position "
    "(C32_sem_* for all constructors, assign, push, grow_by family, grow_to_at_least, insert x3, erase x2, resize, "
    "reserve, pop_back, clear, shrink_to_fit, copy/move assignment, swap; frame lemma). (3) Capacity / allocation "
    "(Model/ConVecAlloc.lean): per vector firstBucketShift_, size, which buffers_[b] are non-null, the shouldDealloc_ "
    "flags, a ghost 'start of a live malloc block' bit per bucket and the cv::alloc/cv::dealloc counters; "
    "allocAsNecessaryImpl (single-index and range variant with counting pass, single allocation, tryAssignBuffer pass "
    "and wait loops), reserve, shrink_to_fit, clear, the reserving constructor, move/swap, for every realloc strategy, "
    "first-bucket shift, kMaxBuffers >= 2 and inline/heap table. Proved for every operation sequence: the invariant "
    "(allocated buckets are a prefix containing buckets 0 and 1; once the index at allocCheckIndex of bucket b is in use "
    "bucket b+1 exists) holds and no operation ever waits for a missing bucket (C32_alloc_inv_reachable, "
    "C32_alloc_never_hangs, C32_alloc_ahead, C32_alloc_prefix); every index <= size lies in an allocated bucket "
    "(C32_alloc_index_allocated); capacity() counts exactly the indices with allocated storage and size <= capacity "
    "(C32_alloc_capacity); reserve(n) ends with capacity >= n (C32_alloc_reserve); growth only stores into null entries "
    "and never drops a bucket (C32_alloc_growth_monotone); the range variant visits bucket b+1 whenever the trigger index "
    "of b is in the range and computes that bucket's capacity for it (C32_alloc_range_targets); ledger: allocs = frees + "
    "first block (+ table) + block-start buckets, shouldDealloc_ = block start on allocated buckets, no block start is ever "
    "dropped unfreed, no non-start pointer is ever freed, the destructor balances allocs and frees "
    "(C32_alloc_ledger, C32_alloc_destroy_balanced, C32_alloc_all_freed). The tie runs random operation sequences on "
    "ConcurrentVector<Tracked,Traits> for 10 trait/element combinations (first buckets of 1, 4 and 32 elements, all three "
    "strategies, inline and heap table, both iterator kinds), std::vector and both models: size, returned position, "
    "contents, live count after every operation; white-box firstBucketShift_, capacity(), non-null buffers_ mask, "
    "shouldDealloc_ mask, block-start mask and the malloc/free log (calls, element slots requested) after every "
    "operation; iteration/indexing/reverse iteration/iterator arithmetic against std::vector; the bucket index functions "
    "against the model (ASan/UBSan). Oracle: contents vs std::vector, element lifetimes, hang watchdog, bucket storage "
    "inside live blocks and pairwise disjoint, all blocks freed at the end of every sequence.",
    "Trusted: Lean kernel; the models are hand-written and checked on the explored sequences only; iterator arithmetic of "
    "concurrent_vector_impl2.h is compared with std::vector, not modelled; which buckets share one malloc block is not "
    "modelled (use-after-free of a carved bucket is left to ASan and the storage oracle); cachedPtrs_ is not modelled "
    "(operator[] reads are compared); sizes beyond kMaxVectorSize (buffers_[kMaxBuffers]) are rejected by the model; "
    "custom SizeTraits cannot be instantiated (the iterator type hard-codes the default ones), so small buckets are reached "
    "with 64- and 256-byte elements. The allocation log intercepts ::malloc/::free textually in dispenso's inline "
    "alignedMalloc/alignedFree.",
    "Lean 4 proof (bucket bijection, ledger invariant, per-operation list semantics, allocation invariant over all "
    "operation sequences) + differential correspondence (black-box and white-box)",
    "DESIGN.md §5.5 C32",
)

claim(
    "C39",
    "OnceFunction is modelled as the storage decision plus a state machine with ledgers (Model/OnceFn.lean). Proved: "
    "inline storage is chosen only for size <= 56 and alignment <= 64 and the 64-aligned inline buffer satisfies any such "
    "alignment (C39_plan_inline, C39_inline_aligned); a spilled callable gets a power-of-two block >= its size whose own "
    "alignment is a multiple of the callable's (C39_plan_spill, C39_spill_aligned, built on C44_nextPow2), size classes "
    "map 4..256 to ordinals 0..6 (C39_getOrdinal); for every operation sequence each callable is invoked at most once and "
    "destroyed exactly once, on invoke or cleanupNotRun, moves transfer the obligation, and spill blocks are returned "
    "(C39_exactly_once, C39_invoke, C39_cleanup, C39_move_transfers*, C39_blocks_ledger, C39_rejects_reuse). The tie runs a "
    "generated family of callables (sizes 8..320, alignments 1..256) through random move chains and compares storage "
    "decision, alignment, call and destruction counts with the model (ASan/UBSan build).",
    "Trusted: Lean kernel; hand-written model checked on the explored family; that allocSmallBuffer<N> returns N-aligned "
    "blocks is C41's subject; byte-wise relocation of the callable is assumed valid for the callable (documented contract).",
    "Lean 4 proof (arithmetic of the storage plan + ledger invariant) + differential correspondence",
    "DESIGN.md §5.5 C39",
)

claim(
    "C37",
    "ConcurrentObjectArena is modelled as a value (sequential operations) and as a protocol at one action per atomic "
    "operation with the resize mutex (Model/Arena.lean). Proved: grow_by returns the old size, appends default elements, "
    "keeps earlier elements and the invariant allocated = bufSize*buffers, pos < allocated, so every index < size lies in "
    "an allocated buffer (C37_seq_growBy, C37_seq_index_in_buffer, C37_seq_mk); copies, assignments and swap yield equal "
    "size and contents and every buffer is freed exactly once (C37_sem_*, C37_buffers_ledger, C37_pool_inv); for any "
    "number of concurrent growers, in every reachable state pos < allocated <= B*buffersPos with mutual exclusion of the "
    "resize section (C37_conc_inv, C37_conc_index_in_buffer, C37_conc_local), and over whole histories the claimed ranges "
    "tile [0, size) so each index is claimed exactly once (C37_ranges_tile, C37_ranges_cover_once, "
    "C37_grow_returns_claim). The buffer-pointer tables are modelled separately (Model/ArenaTables.lean: table identities, "
    "deleteLater_, reader snapshots between the two halves of operator[]): in every history no reader ever indexes a freed "
    "table and, while the arena is alive, every table ever published is current or retained (C37_tables_no_uaf, "
    "C37_tables_retained; C37_tables_refine_seq: its alloc step moves capacity and entries exactly as the value model's "
    "allocateBuffer); tie: white-box sequential harness playing suspended readers across re-allocations (capacity, "
    "entries, deleteLater_ size per allocateBuffer; ASan on the retired tables). Sequential tie: differential vs the value model under ASan; concurrent tie: traces under "
    "the deterministic scheduler replayed through the protocol model; native tie: the real ThreadSanitizer on lock-free "
    "readers (operator[], getBuffer) running against growers that cross table-capacity boundaries, which reports any read "
    "of a retired buffer-pointer table that is not ordered before its release.",
    "Trusted: Lean kernel; dsched; ThreadSanitizer's happens-before detector; SC reading; the mutex is modelled as an atomic test-and-set word whose acquisition has no "
    "trace event; element construction is not visible in traces (checked by the harness oracle: all elements default).",
    "Lean 4 proof (value semantics + interleaving invariant + history tiling) + differential and trace correspondence",
    "DESIGN.md §5.5 C37",
)

claim(
    "C42",
    "PoolAllocatorT is modelled as a value (slabs from allocFunc numbered in order of first use, reuse list, free stack, "
    "chunks handed out, allocFunc/deallocFunc counters) plus the spin lock of the thread-safe variant as an interleaving "
    "protocol (Model/PoolAlloc.lean). Proved for every alloc/dealloc/clear/destroy sequence with >= 1 chunk per slab: every "
    "free or handed-out chunk lies in an active slab with index < chunksPerAlloc and slab ids are exactly the allocFunc "
    "calls (C42_chunks_valid), no chunk is free and handed out or handed out twice (C42_exclusive, C42_alloc_fresh), "
    "clear() moves every slab to the reuse list and alloc consumes it before calling allocFunc again (C42_clear_reuses, "
    "C42_alloc_prefers_reuse), destruction releases each slab exactly once (C42_ledger, C42_balance_any); the lock word "
    "admits at most one thread in a critical section for any number of threads (C42_lock_mutex). Ties: differential on "
    "NoLockPoolAllocator with logging alloc functions (ASan), and lock-word traces of PoolAllocator under the "
    "deterministic scheduler replayed through the protocol model.",
    "Trusted: Lean kernel; dsched; allocSize >= chunkSize and no chunk in use at clear() are class preconditions; the "
    "critical-section bodies of the concurrent variant are covered by the harness oracle (no chunk twice, inside a slab), "
    "not by the trace model.",
    "Lean 4 proof (value invariant + lock mutual exclusion) + differential and trace correspondence",
    "DESIGN.md §5.5 C42",
)

claim(
    "C43",
    "CpuSet (Linux backing), parseLinuxCpuList and buildGroupsFromCacheTopology are transcribed into Lean "
    "(Model/CpuSet.lean, the parser mirroring strchr/strtol). Proved: add/addRange/remove/removeRange/contains/count are "
    "the set operations on ids in [0, 1024) and ignore everything outside (C43_add … C43_out_of_range); for every string of "
    "the cpu-list grammar the parser yields exactly the denoted in-range ids (C43_parse_grammar, no bound on list length "
    "or numbers); the groups are a permutation of the CPUs of the L2 atoms, never split an atom, stay within "
    "max(maxGroupSize, largest atom) and never contain two atoms with distinct known L3 groups (C43_groups_*; Array.qsort's "
    "permutation property is proved from scratch). Tie: differential on boundary-biased id operations, every string over "
    "{0,1,9,-,','} up to the length bound, random grammar strings and a malformed stream, and random synthetic topologies.",
    "Trusted: Lean kernel; hand-written transcription checked on the explored inputs; an atom's L3 is that of its first "
    "CPU, as in the code; CPU ids in synthetic topologies are non-negative.",
    "Lean 4 proof (set algebra, parser correctness by structural induction, grouping fold invariant) + differential correspondence",
    "DESIGN.md §5.6 C43",
)

claim(
    "C15",
    "The planning logic of for_each_n is modelled (Model/ForEach.lean) on top of the proved static chunking (C17). Proved "
    "for every n >= 0, maxThreads (including 0 and 1), wait and pool size (including zero-thread pools): the chunks tile "
    "[0, n), so the function is applied exactly once per element (C15_partition, C15_exactly_once); the chunk count is >= 1 "
    "(no division by zero), <= max(maxThreads,1) and <= poolThreads+1 (C15_numThreads_pos, C15_tasks_bound); n = 0, "
    "maxThreads = 0 or a nested call run serially (C15_serial). Tie: for_each_n on real pools (0..4 threads) over random "
    "access / bidirectional / forward iterators, TaskSet / ConcurrentTaskSet, nesting; chunks recovered from the functor "
    "copy that visited each element are compared with the plan; oracle: every element visited exactly once.",
    "Trusted: Lean kernel; that all applications have finished when the call / wait() returns is the task-set barrier "
    "(C02), exercised here only by the oracle; ASan/UBSan build.",
    "Lean 4 proof (plan partition via C17) + differential correspondence on real pools",
    "DESIGN.md §5.2 C15",
)

claim(
    "C12",
    "The planning logic of parallel_for (computeGranularity, adjustChunkSizing, calcChunkSize, the static mapper, dynamic "
    "chunks, stripe boundaries and stripe chunks) is modelled as a function from the configuration to the list of body "
    "invocations (Model/ParFor.lean). C12_partition proves, for every configuration with start < stop (all modes: serial, "
    "static with tail, static no-wait with folded tail, dynamic, stripes; any maxThreads, minItemsPerChunk, granularity, "
    "pool size, nesting), that the invocations tile [start, stop): every index exactly once, none outside "
    "(C12_exactly_once); empty ranges give no invocation (C12_empty). Tie: parallel_for on real pools over all eight "
    "integer types (edge-biased and huge ranges, the 8-bit (start,end) grid), sorted invocation lists compared exactly with "
    "the model, plus a partition oracle.",
    "Trusted: Lean kernel; index arithmetic is unbounded Int in the model (end - start < 2^63); which thread claims a "
    "dynamic/stripe chunk is not modelled (the atomic cursors only decide who runs a chunk); completion at return / wait() "
    "is C02's barrier. Known finding (recorded, not repaired): adaptive wait=true 64-bit ranges ending at the type maximum "
    "overflow the stripe cursor.",
    "Lean 4 proof (case analysis of the plan, tilings) + differential correspondence on real pools",
    "DESIGN.md §5.2 C12",
)

claim(
    "C13",
    "On the same plan model: with granularity g > 1 and no explicit chunk size, every invocation except the last one in "
    "range order has a size that is a multiple of g, and the last one ends at the range end (C13_granularity, "
    "C13_last_ends_at_stop), for every start offset, size, chunking mode, wait mode and pool size. Tie and oracle as C12, "
    "with the granularity oracle evaluated on the real invocation lists.",
    "Trusted: as C12.",
    "Lean 4 proof (plan case analysis, divisibility) + differential correspondence on real pools",
    "DESIGN.md §5.2 C13",
)

claim(
    "C48",
    "On the parallel_for plan model (Model/ParFor.lean): the number of loop tasks (scheduled tasks plus the caller when it "
    "participates; each runs one body invocation at a time) is at most max(maxThreads, 1) and at most poolThreads + 1, no "
    "tail is run concurrently with scheduled chunks, and maxThreads in {0, 1} gives the serial plan (C48_tasks_bound, "
    "C48_tasks_pool, C48_tail_not_concurrent, C48_serial), for every chunking mode, wait mode, granularity and pool size; "
    "for for_each the same bound is C15_tasks_bound. Tie as C12; oracle: the maximum number of simultaneously active body "
    "invocations observed on real pools (bodies spin 30 us) never exceeds max(maxThreads, 1).",
    "Trusted: as C12; that each task runs its invocations sequentially is structural (one functor per task). The original "
    "overwrite of the budget for small explicitly chunked ranges is kept as planOld with proved counterexamples.",
    "Lean 4 proof (plan case analysis) + differential correspondence and concurrency oracle on real pools",
    "DESIGN.md §5.2 C48",
)

claim(
    "C30",
    "Graphs, subgraph clearing, setAllNodesIncomplete and the wave executor are modelled with the code's counters and "
    "dependents lists (Model/Graph.lean). Proved: for every acyclic graph in a consistent counter state the executor runs "
    "exactly the incomplete nodes, each once, every node after all of its incomplete predecessors, and everything ends "
    "complete; complete nodes are not run (C30_execute, C30_execute_skips_completed); every graph built from the empty graph "
    "by addSubgraph / addNode / dependsOn / biPropDependsOn is in such a state, so it can be executed directly "
    "(C30_construction_consistent, C30_construction_execute), as is any graph after setAllNodesIncomplete "
    "(C30_setAll_consistent); Subgraph::clear removes exactly the edges touching the cleared nodes and keeps numPredecessors "
    "equal to the in-degree (C30_clear, including the swap-with-last removal with early exit). Tie: random DAGs with "
    "subgraphs, clear/rebuild sequences and all three executors on a real pool; counters, dependents lists, run order "
    "(single-thread) / run set (parallel executors) compared with the model after every step; oracle: run-once, dependency "
    "order by timestamps, completeness.",
    "Trusted: Lean kernel; hand-written model checked on the explored graphs; fewer than 2^64-1 edges (EdgeBound); the "
    "parallel_for and ConcurrentTaskSet executors are modelled by the same wave semantics (their run *set* and final state "
    "are compared, the dependency order of their concurrent runs is checked by the oracle only).",
    "Lean 4 proof (loop invariants of the wave executor, construction and clear) + differential correspondence",
    "DESIGN.md §5.4 C30",
)

claim(
    "C31",
    "ForwardPropagator and the BiProp set bookkeeping are modelled (Model/Graph.lean). Proved: after propagation the "
    "incomplete nodes are exactly the forward-dependency closure of the marked nodes (C31_propagate), for BiProp graphs "
    "plus every member of a set that intersects the closure (C31_propagate_biprop), and the counters are consistent, so the "
    "executor then re-runs exactly that set in dependency order (C31_reexecute, C31_reexecute_biprop); "
    "setAllNodesIncomplete gives a full evaluation (C31_setAll_full); set merging keeps sets as equivalence classes — all "
    "members of both sets are repointed (C31_sets_ok, C31_sets_merge). Tie as C30, with the set of incomplete nodes after "
    "propagation compared against an independent closure computed by the harness (union-find over the declared BiProp "
    "edges).",
    "Trusted: as C30. For BiProp graphs dependents of set members that were only pulled in by the set stay complete (the "
    "proved statement says what holds instead of Closed).",
    "Lean 4 proof (BFS invariant, closure characterisation) + differential correspondence",
    "DESIGN.md §5.4 C31",
)

claim(
    "C33",
    "Concurrent growth of ConcurrentVector is modelled at the granularity of one action per atomic operation "
    "(Model/ConVecGrow.lean, generic interleaving semantics Core/Conc.lean): size_, buffers_[b] and one tag per element; "
    "emplace_back/push_back (fetch_add(1), the single-index allocAsNecessaryImpl with its load-then-store at the trigger "
    "index and its spin on the own bucket, the iterator's pointer fetch, the element construction), the grow_by family "
    "(fetch_add(d), the range variant: counting pass, one allocation, tryAssignBuffer pass = load then store, wait loops "
    "over the buckets of the range, pointer fetch, d constructions), grow_to_at_least (load, then grow_by or an iterator; "
    "the code has no CAS loop) and readers of elements that existed before; parameters: realloc strategy, first-bucket "
    "shift, initial size, initially allocated buckets, iterator kind. Proved for every number of threads and every "
    "interleaving: the fetch_adds return consecutive ranges, i.e. reservations are pairwise disjoint, tile [n0, size) and "
    "final size = initial size + total growth (C33_reservations_tile); reservations held by different threads are "
    "disjoint at every moment (C33_reservations_disjoint); whenever a thread is about to store buffers_[k] it is still "
    "null, the trigger index of k lies in that thread's reservation and no other thread is about to store it — no double "
    "allocation although tryAssignBuffer is not a CAS (C33_bucket_stored_once); a non-null bucket pointer never changes "
    "again, so references and iterators stay valid (C33_buffers_stable); whenever a thread constructs index x, x lies in "
    "its reservation, the bucket of x is allocated, the slot was never constructed and no other thread constructs x "
    "(C33_element_written_once, C33_range_allocated); a constructed element never changes and the initial elements keep "
    "their values (C33_elements_stable); a returned call's d elements hold exactly its tags (C33_call_result); in a "
    "quiescent state every index below size is constructed (C33_quiescent_complete); a reader of an initial element sees "
    "its initial value (C33_reader); if the vector starts in a state the sequential operations produce (bucket 0 and "
    "every bucket whose trigger index is below the initial size exist, C32_alloc_ahead), then whenever a thread spins on "
    "a null bucket pointer another thread, which is not waiting itself, is on its way to publish exactly that bucket "
    "(C33_wait_has_owner: no cyclic wait, no bucket nobody will allocate). Tie (trace validation): the real ConcurrentVector runs under the deterministic "
    "scheduler (8 trait sets: 3 strategies x inline/heap table x both iterator kinds, first buckets of 1, 2, 4 or a "
    "reserved capacity; random sequential prefix incl. reserve/shrink_to_fit; 2..4 threads x 1..3 operations with amounts "
    "crossing bucket boundaries); every atomic event on size_, buffers_[b] and the elements, every call/return and the "
    "final memory are replayed through the proved model (pointers compared for null/non-null, declared release/acquire "
    "orders of the bucket publication required). Oracle on the implementation: every call's unique tags sit at its "
    "returned position, final size = initial + total growth, initial elements / saved references / saved iterators "
    "unchanged, readers see the right values, iteration agrees with indexing, every bucket pointer stored at most once, "
    "bucket storage inside live malloc blocks and disjoint, every block referenced and freed at destruction, element "
    "lifetimes balanced, no operation hangs (scheduler livelock/deadlock report).",
    "Trusted: Lean kernel; hand-written model, tied to the code on the explored scenarios only; sequentially consistent "
    "interleaving semantics (memory orders are only checked as declared, C10); cachedPtrs_ (plain mirror of buffers_) and "
    "shouldDealloc_ are outside the concurrent model (operator[] results and the allocation log are checked by the "
    "oracle); termination of the wait loops is proved only in the form 'every awaited bucket has a non-waiting owner' "
    "(C33_wait_has_owner) — that the owner is eventually scheduled (fairness) is not formalised; the "
    "counting pass / assigning pass agreement (the block requested is exactly the block carved) is observed through the "
    "allocation log, not proved; element tags are non-zero; size stays below 2^63. grow_to_at_least may grow more than "
    "needed when called concurrently (load + fetch_add): the theorems and the oracle only require size >= n and exact "
    "accounting of what was added.",
    "Lean 4 proof (inductive invariant over all interleavings: reservation disjointness, trigger ownership, per-location "
    "facts; history lemma for the fetch_adds) + trace validation under dsched",
    "DESIGN.md §5.5 C33",
)


_SCHED_TIE = ("The tie runs random programs (0..3 pool threads, 0..2 extra producers, pool / TaskSet / ConcurrentTaskSet single, "
              "force-queued and bulk submissions, nested submissions, cancel, throwing bodies, wait / tryWait, concurrent resize incl. "
              "to zero, setSignalingWake, destruction) on the real code under the deterministic scheduler; every guarded observation hook "
              "(DISPENSO_VERIF_HOOK) and harness call / body marker is replayed through the same `step`; an event the ledger does not "
              "enable is a correspondence failure routed to the property whose rule rejected it. ")
_SCHED_NOTE = "Trusted: Lean kernel; the hand-written ledger model (tied to the code only on the explored programs and schedules); the observation hooks report each operation atomically with it (hook placement is part of the tie: a hook in the wrong place makes traces of the unchanged code unacceptable); dsched; sequential consistency; moodycamel's queue and the rings are abstract multiset tiers here (ring semantics: C34). Task identity at dequeue is resolved by the body that then begins (or, for a skipped cancelled task, by its set only)."

claim(
    "C01",
    "Model/Sched.lean is a ledger automaton over the events of ThreadPool + task sets (submission calls, workRemaining_ "
    "updates, pushes to and takes from the central queue / rings / steal rings, body begin/end, resize and destructor phases). "
    "Proved for every accepted trace of any length, any number of threads, sets and tasks: task ids begin at most once, only "
    "after submission, and end only after they began (C01_at_most_once); the destructor's final event is enabled only when "
    "every tier is empty and nothing is reserved, taken or running (C01_dtor_end_empty); tasks handed to the pool directly are "
    "never skipped or dropped (C01_pool_never_drops); hence once ~ThreadPool has returned every task handed to the pool "
    "directly has begun and ended exactly once (C01_exactly_once, C01_exactly_once_at_dtor, C01_quiescent_all_ran), nothing can "
    "be submitted afterwards (C01_no_submission_after_dtor), and for every task set bodies run + skipped-by-cancellation + "
    "dropped = submitted (C01_count_at_dtor, C01_quiescent_count). " + _SCHED_TIE + "Oracle: per-task invocation counters checked "
    "after ~ThreadPool for every pool size incl. zero, signalling and polling mode.",
    _SCHED_NOTE,
    "Lean 4 proof (inductive invariants over a ledger automaton) + trace validation of hook events under a deterministic scheduler",
    "DESIGN.md Part I, §5.1 C01",
)

claim(
    "C02",
    "Over the same ledger model: outstandingTaskCount_ of a set equals, in every reachable state, the number of its packaged "
    "tasks that are credited-but-unplaced, queued, held after the cancel guard, running, or finished but not yet decremented "
    "(C02_outstanding_exact, C02_credit_only_in_calls); therefore whenever wait / tryWait / the destructor read zero (the "
    "ts.zero hook, accepted only if the model's counter is zero: C02_zero_observed) no packaged task of the set is queued, "
    "held or running and no inline body of it can begin (C02_barrier, C02_barrier_no_inline_begin), every begun body of the "
    "set has ended and bodies + skipped + dropped = submitted (C02_bodies_complete, C02_tasks_accounted); a wait call reports "
    "completion only after such an observation made during that call (C02_wait_reports_done_only_after_zero, "
    "C02_wait_starts_unobserved). " + _SCHED_TIE +
    "Oracle: at every wait()/tryWait()==true return every task scheduled before the call has finished; no set task runs twice; "
    "tasks of never-cancelled sets all run; wait() never hangs (deadlock / livelock detection).",
    _SCHED_NOTE + " Contract assumed: nobody schedules to a ConcurrentTaskSet concurrently with wait() except tasks of the set.",
    "Lean 4 proof (counter-exactness invariant over a ledger automaton) + trace validation under a deterministic scheduler",
    "DESIGN.md Part I, §5.1 C02",
)

claim(
    "C03",
    "Safety part over the ledger model with resize events: conservation and exactly-once (C01 theorems) hold across any "
    "number of resizes; no task is ever in a per-thread ring at or above the published ring count (C03_rings_inside, "
    "C03_rings_inside_always: a push outside the ring count is rejected, C03_push_outside_rejected, and resizeLocked's "
    "publication of a ring count is rejected while a ring outside it holds work, C03_shrink_over_work_rejected), which is what "
    "lets waiters, who poll exactly the rings below numRings_, reach every ring task. " + _SCHED_TIE +
    "Oracle (resize-heavy programs): every task runs exactly once, every wait() and resize() returns (livelock detection), and "
    "after all waits no directly scheduled task is left where only the destructor will run it. Two genuine defects were found: "
    "ring pushes racing a shrinking resize (fixed: numRings_ no longer shrinks) and a task enqueued to the central queue of a "
    "pool that a concurrent resize(0) has just emptied (known finding, see known_findings.json): C03 does not hold in full on this tree.",
    _SCHED_NOTE + " 'Never strands' is stated as safety (where tasks may sit relative to who polls); fairness of the polling "
    "threads is outside the model.",
    "Lean 4 proof (ring-placement invariant + conservation over a ledger automaton) + trace validation + stranded-task / livelock oracle",
    "DESIGN.md Part I, §5.1 C03",
)

claim(
    "C04",
    "Over the ledger model: a cancel check that reads 'not cancelled' is rejected once the cancelling store has happened "
    "(C04_no_pass_after_cancel; the cancelled set only grows: C04_cancelled_monotone, C04_cancelled_monotone_run), and a body "
    "of a set task can begin only from a frame state established by such a passed check of that set in the same call / "
    "package wrapper (C04_begin_needs_guard); at trace level every accepted begin of a set task is preceded by a passed cancel "
    "check of that set by the same thread at the same stack depth, made while the set was not cancelled, with no other body "
    "begun at that depth in between (C04_body_after_passed_guard): no body starts after cancel() unless its guard point came "
    "first. " + _SCHED_TIE + "In particular the set's unpackaged inline run (ts.inline hook) is accepted only after a passed check "
    "in the same call, which is how the unguarded pool-overload branch of ConcurrentTaskSet::schedule was found (fixed). Oracle: a "
    "task whose schedule call started after cancel() returned never runs.",
    _SCHED_NOTE + " 'Start of a body' is read as the cancel check that guards it (the only reading a lock-free implementation "
    "can satisfy); in a bulk call one passed per-chunk check may cover the inline bodies of that chunk.",
    "Lean 4 proof (guard-point invariant and trace-level history theorem over a ledger automaton) + trace validation under a deterministic scheduler",
    "DESIGN.md Part I, §5.1 C04",
)

claim(
    "C05",
    "Over the ledger model's exception state machine (capture = CAS winner, rethrow in testAndResetException): a set holds at "
    "most one captured exception (C05_capture_once, C05_captured_nodup), rethrows ≤ captures ≤ rethrows + 1 in every reachable "
    "state (C05_capture_state, C05_rethrows_le_captures), a rethrow happens only in a wait call that has observed the counter at "
    "zero (C05_rethrow_after_zero), and a wait call that reports completion leaves no captured exception behind and reports an "
    "exception iff it rethrew (C05_done_delivers); the decrement owed by a throwing packaged task is tracked like any other, so "
    "C02's barrier survives exceptions. " + _SCHED_TIE + "Oracle: exceptions delivered ≤ captured, a captured exception is "
    "delivered by the next completed wait, waits still return.",
    _SCHED_NOTE + " Which exception object is delivered is not modelled (the CAS winner's, by construction of the code).",
    "Lean 4 proof (state-machine invariant over a ledger automaton) + trace validation under a deterministic scheduler",
    "DESIGN.md Part I, §5.1 C05",
)

claim(
    "C08",
    "Over the ledger model with the exact update sites of workRemaining_: in every reachable state the counter equals the "
    "credits of submission calls in progress + the number of queued tasks in all tiers + the decrements still owed by threads "
    "that took tasks (C08_accounting, C08_queue_bookkeeping); hence it is zero in every quiescent state (C08_quiescent_zero, "
    "C08_quiesce_event) and the thread that resizes the pool owes nothing when resizeLocked ends (C08_resize_end_settled). " +
    _SCHED_TIE + "Oracle: after all waits, with all directly scheduled tasks finished, the real counter (white-box read) returns "
    "to zero. The ring drains of resizeLocked / ~ThreadPool did not decrement (found by both the ledger and the oracle; fixed).",
    _SCHED_NOTE,
    "Lean 4 proof (accounting invariant over a ledger automaton) + trace validation + white-box counter oracle",
    "DESIGN.md Part I, §5.1 C08",
)

claim(
    "C47",
    "Over the ledger model: while a submission call carries ForceQueuingTag no body can begin on the calling thread "
    "(C47_fq_never_begins_inline) and neither the pool's nor the set's inline decision is enabled "
    "(C47_fq_blocks_inline_decisions); the tag of a frame is dropped only by the zero-thread path, which is enabled only when "
    "the pool has no threads or is being resized, or, for the later tasks of one bulk call, when the call found the pool "
    "without threads at its start (C47_inline0_needs_no_threads, C47_zeroPath_only_after_fq_cleared, "
    "C47_fq_cleared_only_without_threads, C47_fq_cleared_top). " + _SCHED_TIE + "Oracle: a force-queued task never runs on its submitting thread before the call "
    "returns when the pool never had zero threads.",
    _SCHED_NOTE,
    "Lean 4 proof (frame invariant over a ledger automaton) + trace validation under a deterministic scheduler",
    "DESIGN.md Part I, §5.1 C47",
)

claim(
    "C46",
    "Model/InlineDepth.lean: the per-thread stack of running bodies with the guard of every bounded inline path "
    "(canInlineSchedule / InlineDepthGuard, kMaxInlineDepth = 32). Proved for every event sequence of any length: the number "
    "of nested guarded inline executions never exceeds 32 (C46_bounded), a guarded decision at depth 32 is rejected "
    "(C46_guard_rejects), and without zero-thread decisions no unguarded inline body is ever on the stack (C46_no_unguarded). "
    "Tie: chains of 40..200 tasks, each scheduling its successor through ThreadPool::schedule / scheduleBulk, TaskSet and "
    "ConcurrentTaskSet (light, heavy) schedule / scheduleBulk on overloaded pools, run on the real code under the deterministic "
    "scheduler; the inline-decision hooks and body begin/end markers are replayed through the model (a decision taken at depth "
    "≥ 32 is a correspondence failure). Oracle: bodies nest at most 34 deep on any thread whatever the chain length. "
    "ThreadPool::schedule / TaskSet::schedule had no guard (fixed); a zero-thread pool still inlines without bound (known finding).",
    "Trusted: Lean kernel; hand-written model; hooks; dsched. Pipeline, graph and future hand-offs use the same guard and are "
    "exercised by their own properties' harnesses; a body that itself calls wait() is user recursion and is not counted.",
    "Lean 4 proof (depth invariant) + trace validation of inline decisions under a deterministic scheduler + nesting-depth oracle",
    "DESIGN.md Part I, §5.1 C46",
)

claim(
    "C14",
    "One parallel_for call with a states container is modelled as W actors (the tasks handed to scheduleBulk and, with "
    "wait=true, the caller's own share), actor a bound to states[a], plus the separately invoked granularity tail on "
    "states[0] (Model/ParForExec.lean; one action per fetch_add on the shared chunk index / exit counter and per body "
    "begin/end; static, single-group dynamic with its exit tickets, multi-group dynamic with its exit counter, stripes; the "
    "caller's barrier = the task set's wait()). Proved over every reachable state of every interleaving, for every number of "
    "actors and chunks: two different actors never use the same element at the same time and the caller's tail overlaps no "
    "invocation (C14_exclusive); while the last worker of a wait=false dynamic loop runs the tail every other worker has "
    "left its loop for good — the exit-ticket / pigeonhole argument (C14_tail_alone); the tail runs at most once "
    "(C14_tail_once); the task set's wait() returns only after every actor is done and the tail, if any, has run exactly "
    "once, so all of this holds until then, wait=false included (C14_until_wait; with wait=true already at return: "
    "C14_return_wait); for the system sysOf c of every configuration c of the planning model (sysOf_wf): every element "
    "used exists in the container left behind (C14_index_in_container), which has >= 1 element for a non-empty range "
    "(C14_states_nonempty) and exactly one per loop task, <= max(maxThreads,1) and <= pool+1, unless reuseExistingState "
    "keeps a larger one (C14_states_bound); an empty range leaves the container untouched (C14_empty_range_untouched). "
    "Tie: (D) every sampled / exhaustive-8-bit call on real pools of 0..4 and 17/20 threads reports the element each "
    "invocation was given (pointer identity) and the final container size, checked against the model's chunk->state map "
    "(exact for serial/static, range + tail-on-0 for dynamic/stripes); (V) the same call with the whole library under the "
    "deterministic scheduler: the trace of body begins/ends and of the fetch_add(1) operations on the shared chunk index "
    "(found in the raw event log; ticket values, and the declared memory order of exit tickets) is replayed through the "
    "model's step function. Oracle: per-state in-use counters in the body (native and under dsched), element inside the "
    "container, container non-empty.",
    "Trusted: Lean kernel; the hand-written model; the planning model of C12/C48 for W, chunk list and mode; the task-set "
    "specification (wait() returns only when all scheduled tasks have finished: C02) as the barrier. Sequentially "
    "consistent interleavings: the model cannot exhibit weak-memory behaviour; the one place where exclusion rests on a "
    "memory order (the exit tickets of the wait=false dynamic path must be release/acquire for the tail to be ordered "
    "after the other workers' bodies) is checked on the declared orders in the trace and currently FAILS on the unchanged "
    "code (relaxed fetch_add; ThreadSanitizer reports the race; repair delivered as a patch). Which OS thread runs an "
    "actor, the stripe / per-group cursors (abstracted to 'any unclaimed chunk'; C12 covers them) and the static path's "
    "choice of the caller's chunk are not modelled. The multi-group dynamic path (> 16 workers) is tied natively only (D), "
    "not under the scheduler. For an empty range the container is left as it was, possibly empty.",
    "Lean 4 proof (inductive invariant over all interleavings, pigeonhole on exit numbers) + differential and trace correspondence",
    "DESIGN.md §5.2 C14, A.7",
)

claim(
    "C16",
    "parallel_invoke.h's recursion (schedule the first functor with skipRecheck, recurse, call the last one directly) is "
    "modelled over an abstract task set (schedule(f) runs f inline on the caller or packages a task that is executed once; "
    "wait() returns when no task is outstanding) for arbitrary programs: any tree of nested parallel_invoke calls of any "
    "arities and depth, functors running on any threads (Model/ParInvoke.lean). Proved for every interleaving and every "
    "inline/queue choice: no functor is ever invoked twice (C16_at_most_once); when a call has returned its last functor "
    "has been invoked exactly once, on the calling thread, not as a task, and has finished, and every other functor has "
    "been run inline or handed to the task set (C16_return); once wait() has returned every functor of the whole tree has "
    "been invoked exactly once and has finished (C16_wait; flat n >= 1 case: C16_flat). Tie: random programs (flat 1..8, "
    "binary divide and conquer to depth 12, random arities, chains to depth 30) on ConcurrentTaskSet (kHeavy/kLightweight, "
    "pre-loaded or not) over pools of 0..3 threads, natively and with the whole library under the deterministic "
    "scheduler; every run's event sequence (functor begin/end with thread ids, call return, wait return) is replayed "
    "through the model's step function. Oracle: per-functor invocation counters, thread ids, global event order.",
    "Trusted: Lean kernel; the hand-written model; the abstract task-set specification (a queued task is executed exactly "
    "once and wait() waits for it: C01/C02 — the model's take/finishTask/waitDone). The schedule() calls themselves are "
    "not visible in a trace; the acceptor places a queue step at the latest point consistent with the code. parallel_invoke "
    "only accepts ConcurrentTaskSet (there is no TaskSet overload). Cancellation and throwing functors are outside the "
    "model; recursion depth of inline execution (C46) is not part of this property.",
    "Lean 4 proof (inductive invariant over all interleavings, induction over the call tree) + trace correspondence",
    "DESIGN.md §5.2 C16",
)

claim(
    "C25",
    "ResourcePool / Resource are modelled at handle level (Model/ResPool.lean): the queue of free resources is a bag of "
    "resource ids guarded by a counting semaphore (enqueue = add + signal, wait_dequeue = semaphore wait + remove, one "
    "model action each), Resource handles with acquire(), move construction, move assignment (recycle the destination, "
    "take the source, self-assignment a no-op) and destruction, pool construction and destruction; any number of threads "
    "and handles, any interleaving (inductive invariant over Reachable). Proved for every size: every constructed "
    "resource is in exactly one of {free queue, one live handle, destroyed} (C25_conservation), hence at most size are "
    "held (C25_at_most_size_held) and no resource is in two handles, or held and free/destroyed (C25_exclusive); a thread "
    "waits in acquire() on an empty semaphore only while every free resource is already claimed by an acquire that took its "
    "token or a release whose signal is pending, and with no such call in flight all size resources are held "
    "(C25_blocks_only_when_all_held; C25_acquire_enabled: with a token available the wait is enabled); once all handles "
    "are returned the destructor never blocks (C25_dtor_never_blocks) and ends with every resource destroyed exactly "
    "once, nothing destroyed earlier (C25_destroyed_once, C25_no_destroy_before_dtor). Tie: the real ResourcePool runs "
    "under the deterministic scheduler (dsched interposes sem_*; 1..4 threads, 1..4 resources, handles moved, "
    "self-assigned, handed from the main thread to workers, long holds that make waiters exhaust the spin budget and "
    "park); the call/ret trace (including which resource every acquire returned, what every handle points to after each "
    "move, which resources the destructor destroyed) is replayed through the same exec. Oracle: per-resource holder "
    "counters, construction/destruction counters, and every observation of an empty semaphore by an acquiring thread is "
    "checked against the resources certainly free at that moment.",
    "Trusted: Lean kernel; dsched; moodycamel::BlockingConcurrentQueue / LightweightSemaphore as a bag guarded by a "
    "counting semaphore (third-party, exercised not modelled: the trace is validated at call/ret level, the enqueue of a "
    "releasing call is linearised at its call event and the dequeue of an acquire at its return); class contracts: all "
    "handles returned before ~ResourcePool and no call concurrent with it, one thread per handle at a time. The model cannot "
    "exhibit a failed enqueue (allocation failure inside moodycamel, whose bool result recycle() ignores) nor spurious "
    "try_dequeue failures (the code loops on them).",
    "Lean 4 proof (inductive invariant over an interleaving semantics) + trace validation under a deterministic scheduler",
    "DESIGN.md §5.3 C25",
)

claim(
    "C41",
    "SmallBufferAllocator is modelled as a flow of block tokens (Model/SmallBuf.lean): block c*P+i is the i-th piece of the "
    "c-th slab; the central store is a bag (enqueue_bulk adds, try_dequeue_bulk removes any sub-bag of at most I blocks, "
    "possibly none), per-thread caches tlBuffers[0,tlCount), slab carving under backingStoreLock (fetch_add winner / "
    "store 0, losers spin), the bytesAllocated() CAS loop, backingStore.push_back split into read and write, dealloc on any "
    "thread with recycling of the upper half at kMaxNumTLBuffers, thread exit returning the cache, allocator calls made "
    "after that by later thread_local destructors; one action per shared-memory operation, any number of threads, any "
    "interleaving. Proved for all 1 <= I <= P: every block of every slab obtained is in exactly one place - central "
    "store, one cache or local array, or handed out (C41_conservation, C41_exclusive); alloc's last step always succeeds "
    "and returns a block that was not handed out (C41_alloc_fresh), a handed-out block leaves that state only through "
    "dealloc of it (C41_live_leaves_only_by_dealloc), tlCount <= kMaxNumTLBuffers (C41_cache_bounds); with slab bases "
    "N-aligned and slabs disjoint, blocks are N-aligned, inside their slab and pairwise disjoint "
    "(C41_blocks_aligned_disjoint, C41_live_blocks_disjoint); for every power of two N <= 256 the selected class has "
    "max(N,4) >= N bytes, a multiple of N (C41_class_size; C41_nonpow2_too_small shows the documented precondition is "
    "needed); the lock is a mutual-exclusion lock over all users including the diagnostics call and backingStore holds "
    "every slab once (C41_lock_mutex, C41_backing_complete). These hold for the repaired code; for the code as found the "
    "negative witnesses are theorems too: the CAS loop keeps the observed value as expected and enters an occupied "
    "critical section, then releases it under the owner (C41_old_lock_broken, C41_old_two_carvers), and "
    "~PerThreadQueuingData leaves tlCount unchanged so a later call on the exiting thread hands out blocks that are in the "
    "central store (C41_old_exit_double_handout). Tie: (D) per class a sequential history from the main thread and helper "
    "threads that run one at a time and exit (cross-thread frees, class 4 via N=1,2,4, late calls from a thread_local "
    "destructor), every operation compared with the model (block, tlCount, slabs, central size); (V) 2..4 threads under "
    "the deterministic scheduler, one process per scenario, call/ret events and every atomic operation on the lock word "
    "replayed through the same exec. Oracle: ownership map with canaries, alignment, inside-slab, critical-section "
    "occupancy recomputed from the lock-word events, bytesAllocated value.",
    "Trusted: Lean kernel; dsched; moodycamel::ConcurrentQueue as a linearizable bag (the result of try_dequeue_bulk is "
    "taken from the implementation's cache and checked to be a sub-bag; queue operations are not trace events: enqueues "
    "are linearised at the preceding visible event of their thread, dequeues at the following one); malloc returns "
    "disjoint 16-byte aligned regions and alignedMalloc's arithmetic (C44). Outside the model: the undefined behaviour of "
    "two racing std::vector::push_back calls (what the broken lock leads to in the real code: heap-use-after-free under "
    "ASan), use of the destroyed moodycamel tokens by late calls (the repaired destructor only guarantees the cache is "
    "empty), 2^32 lock-word wrap-around, non-power-of-two N.",
    "Lean 4 proof (token-conservation invariant over an interleaving semantics, lock mutual exclusion, address arithmetic) "
    "+ differential and trace correspondence",
    "DESIGN.md §5.5 C41",
)

claim(
    "C26",
    "One TimedTaskImpl with everybody who touches it is modelled at one action per atomic operation (Model/TimedTask.lean): "
    "the thread running kickOffTask (creator inside addTimedTask or the scheduler thread after popping the entry when "
    "next - cur < kSmallTimeBuffer for a clock value cur read in the past), any number of wrap closures on the backing "
    "schedulable (each its own thread; an inline schedulable blocks the kicker), any number of cancel()/detach()/calls() "
    "clients, one ~TimedTask, a monotone clock; timesToRun wraps at 0 as size_t does; Cfg.fixed selects the code as found or "
    "the repaired kick-off. Proved for every reachable state (all interleavings, all configurations, both variants): "
    "invocations <= timesToRun (C26_run_count); no invocation starts after a cancel() returned "
    "(C26_no_start_after_cancel_returned); none starts earlier than kSmallTimeBuffer before the first scheduled time "
    "(C26_not_before_first_time_minus_buffer); once a non-detached ~TimedTask has returned no wrap is between its start "
    "check and its inProgress decrement and none ever starts again (C26_dtor_return), and the destructor leaves its spin only "
    "when inProgress = 0 = kick-offs holding a unit + wraps not done (C26_dtor_waits); no invocation starts after a false "
    "return has been published by flags.fetch_or (C26_no_start_after_false_published_partial), and with an inline "
    "schedulable none after the false return itself (C26_no_start_after_false_inline). NOT provable, with machine-checked "
    "witnesses: with overlapping invocations one can start between another's false return and its fetch_or "
    "(C26_start_after_false_return_counterexample); the first invocation can start up to kSmallTimeBuffer (10 us) before the "
    "first scheduled time (C26_start_before_first_time_counterexample); in the code as found ~TimedTask or a false return "
    "destroys func while kickOffTask is about to call it / is inside its closure / another invocation is executing "
    "(C26_old_dtor_destroys_func_before_call, C26_old_dtor_destroys_func_during_closure, "
    "C26_old_false_return_destroys_func_in_use); for the repaired kick-off func is never used after or destroyed during a use "
    "(C26_fixed_func_safe). Tie: the real TimedTaskScheduler (own thread, queue, kickOffTask/addTimedTask from the compiled "
    "library) runs 1-2 tasks under the deterministic scheduler with virtual time on an inline schedulable, a thread per wrap "
    "or a real ThreadPool; every task's atomic operations, func accesses, clock reads, wrap/invocation markers and API calls "
    "are replayed through the same step function (operation, observed value, kick-off guard with the clock value read, "
    "declared seq_cst on the four operations of the repaired hand-shake). Oracle: invocation log with virtual timestamps, "
    "flags sampled at invocation start, running counter at destructor return, ledger of the function object inside func "
    "(use after / destruction during use), std::terminate and SIGSEGV handlers.",
    "Trusted: Lean kernel; dsched (TSan-interface runtime, futex/sleep model, virtual clock); dispenso::getTime() is replaced "
    "by the virtual clock in 2^-30 s ticks (timing.cpp not linked; makes the library's double comparisons exact), so TSC "
    "calibration and real timer accuracy are not exercised; TimedTaskScheduler::schedule()'s two statements are replicated "
    "white-box; SC reading (orders: C10); shared_ptr lifetime of the impl (the harness holds a reference); an invocation "
    "'starts' at wrap's cancelled-flag check (nothing of another thread can be observed between it and the call). The model "
    "has one impl: pop order among several queue entries is over-approximated (any ready entry), other impls only appear as "
    "the kicker being idle. The model cannot exhibit: inProgress overflow at 2^32 pending runs, a backing schedulable that "
    "drops or duplicates wraps, exceptions from the user function.",
    "Lean 4 proof (inductive invariants over an own interleaving step relation, counting lemmas) + trace validation under a "
    "deterministic scheduler with virtual time",
    "DESIGN.md §5.3 C26",
)

claim(
    "C06",
    "C06 does NOT hold in general on this tree (known finding): an acyclic program in which a task waits on a task set "
    "whose members another task scheduled can get stuck, by two mechanisms, both exhibited on the real pool by replayable "
    "schedules and both proved as reachable stuck states of the Lean model: the non-suspending helping wait buries the "
    "awaited task under a task it took from the queue (C06_buried_counterexample; holds even if every actor polls every "
    "tier), and wait()/tryWait() never poll the steal rings that placed (kHeavy / future) scheduling fills "
    "(C06_steal_ring_counterexample). What is proved is the fork-join fragment, over a Lean model of helping-wait execution "
    "(Model/Nested.lean: tasks with finite scripts of schedule / wait actions, task-set waits that run other queued tasks on "
    "the waiter's stack, future waits that run only the awaited functor or block, threads as stacks of running tasks, tiers "
    "central queue / per-thread rings / steal rings with a parametric may-poll relation, inline execution, the two-step "
    "claim-then-push protocol of placed scheduling): for every program in which each wait is on a set or future whose "
    "members the waiting task scheduled itself and each set scheduled into is waited on before its owner ends, for every "
    "number of workers (including 0) and external threads, and every interleaving, if each tier is polled by helping "
    "waiters or is filled only after a worker that polls it was claimed while its stack was empty (true of the unchanged "
    "code: C06_forkjoin_current_code), then no reachable state has an unfinished task while no thread can take a step other "
    "than spinning (C06_forkjoin_partial), and every execution has at most an explicitly bounded number of steps and can "
    "only end with every scheduled task finished (C06_forkjoin_terminates_partial). No fairness assumption enters the "
    "not-stuck theorem; that a thread with an enabled step is eventually scheduled and that a claimed worker really wakes "
    "up (C07/C09) is outside the model. Tie: generated nested-wait programs (TaskSet, light/heavy ConcurrentTaskSet, single / "
    "force-queued / bulk scheduling, inline paths, tryWait loops, waiting parallel_for, futures; pools of 0..4 threads) run "
    "on the real code under the deterministic scheduler; every run's scheduling history — schedule brackets, push / take / "
    "inline hooks, claims observed as atomic operations on the worker sleep mask, body begin / end, wait brackets — must be "
    "a history of the model under the may-poll relation of the unchanged code: a pop from a tier the model says that role "
    "does not poll, a steal-ring push without a claimed idle worker, a task started from a tier it was not pushed to, a wait "
    "returning with an unfinished member are correspondence failures; stuck runs are replayed too and the model confirms "
    "its state is stuck (and names the mechanism). Oracle: stuck detection; a stuck fork-join program is a violation, a "
    "stuck program with foreign waits reproduces the known finding.",
    "Trusted: Lean kernel; the hand-written model (checked against the code only on the explored runs); dsched as the "
    "source of interleavings; 'outstanding count = number of scheduled unfinished members' (C02). The model over-approximates: "
    "any tier without claim protocol may be chosen by any schedule call, inline execution is always allowed, tiers are "
    "unordered, a waiter may help at any time while it waits. It cannot exhibit: wake-up latency and lost wake-ups (a "
    "claimed or idle worker is simply able to run; the harness shortens the idle-sleep backstop so that these cannot look "
    "like a stuck run), cancellation, exceptions, resize, pool destruction with queued work, >64 steal rings (cross-ring "
    "stealing bitmask), memory-order effects. Waits on sets scheduled by other tasks are not covered by any theorem (they "
    "are the known finding).",
    "Lean 4 proof (inductive invariant over all interleavings with start-stamp ghost state, well-founded progress argument, "
    "termination measure; concrete reachable counterexamples) + trace validation under a deterministic scheduler",
    "DESIGN.md §5.1 C06",
)

claim(
    "C18",
    "The shared state of a dispenso::Future (FutureImplBase: status_, refCount_, the Result object in resultBuf_, "
    "exception_, the task-set counter; the functor's invocation counter and the ghost token of the scheduled closure) is "
    "modelled at one action per atomic operation / futex call (Model/Future.lean) in the generic interleaving "
    "semantics (Core/Conc.lean: any number of threads, any schedule, spurious wake-ups, time-outs). Proved for every "
    "reachable state, whoever runs the functor (closure or a waiter inline): the invocation counter is 0 or 1 and at "
    "most one thread is ever inside run(int) (C18_functor_at_most_once); kReady implies the functor ran exactly once "
    "and, while a reference exists, its Result / exception is in place (C18_ready_means_ran_once); a thread whose "
    "wait()/get()/timed wait has returned ready sees kReady (C18_waiter_returns_after_ready); every get() returns the "
    "tag of the one Result object, or rethrows iff the functor threw, and reads the live object "
    "(C18_get_same_result, C18_get_reads_live_object); refCount_ = live handles + references in flight + pending "
    "closure, dealloc() is entered once, by one thread, only at count 0, and after it nobody is at an operation on "
    "the state or owns a handle (C18_refcount, C18_no_use_after_free); the task-set counter is decremented once, after "
    "kReady (C18_taskset_counter); once kReady, nobody is parked or an unblocked thread is about to wake all (C18_no_lost_wakeup). Tie: the same exec function replays the traces (status_, refCount_, result "
    "object, invocation counter, task-set counter; operands, observed values, declared memory orders, futex wake sets, "
    "return values) of the real code run under the deterministic scheduler with ThreadPool / NewThreadInvoker / "
    "ImmediateInvoker / TaskSet / ConcurrentTaskSet / a dedicated thread, 1..4 waiter threads with their own copies, "
    "throwing and returning functors, deferred and non-deferred policy. Oracle on the implementation: invocation "
    "count, address and value of every get() result, readiness at every return, object lifetimes.",
    "Trusted: Lean kernel; dsched (our TSan-interface runtime) to report what the code did; sequential consistency "
    "(declared orders are checked against the ones the argument needs, the weak-memory question — e.g. the "
    "store(kReady)/load(thenChain_) vs push/load(status_) pattern — is C10's); the scheduled closure is invoked at most "
    "once (ghost token: OnceFunction / pool, C39/C01); each thread uses handles it owns (the client contract of "
    "Future is part of the protocol; two threads calling get() through the same Future object run the same code on "
    "the shared state and are exercised by the oracle only). Not modelled: ready-made futures (make_ready_future), "
    "spurious failure of compare_exchange_weak (a stutter step), address identity (oracle only), wrap-around of refCount_.",
    "Lean 4 proof (inductive invariants over an interleaving semantics: weighted reference count, status protocol) + "
    "trace validation under a deterministic scheduler",
    "DESIGN.md §5.3 C18",
)

claim(
    "C19",
    "Then-chain (Model/FutChain.lean: addToThenChainOrExecute with the post-push re-check, tryExecuteThenChain, run(int), "
    "wait() running the antecedent inline; the Treiber stack is modelled by the code of the whole list in the head cell, "
    "enc/dec proved inverse): for every reachable state a registered continuation is dispatched at most once "
    "(C19_dispatch_at_most_once), only when the antecedent is kReady (C19_dispatch_only_when_ready), every claimed id is "
    "in exactly one place (C19_single_owner), an undispatched one always has a responsible thread that has not returned "
    "(C19_undispatched_has_owner), hence exactly once after quiescence whether added before, during or after completion "
    "(C19_dispatch_exactly_once). That the dispatched continuation future runs its functor once and only after "
    "copy.wait() returned is C18 applied to it. when_all / when_any (Model/WhenComb.lean: shared count / winner, "
    "result status, input statuses, continuations, whenComplete incl. the inline path): the result is ready only after "
    "all inputs are (C19_when_all_ready_after_all_inputs, C19_when_all_count), resp. its value is the winner cell, the "
    "index of a ready input, set once (C19_when_any_result_is_ready_input, C19_when_any_winner). Task-set variants: the "
    "result future carries the set's counter, C18_taskset_counter. Tie: traces of status_/thenChain_/dispatch counters "
    "(1..8 continuations from 1..3 threads racing with completion, CAS contention) and — when the tree has the "
    "fut.when_all / fut.when_any observation hooks — of count/winner, result and input statuses are replayed through "
    "the models. Oracle: continuations through ImmediateInvoker/ThreadPool/NewThreadInvoker/TaskSet/ConcurrentTaskSet run "
    "once and find the antecedent ready; when_all holds the inputs in input order (identity per position), ready only "
    "after all inputs; when_any index in range and ready; taskSet.wait() returning implies ready; empty ranges.",
    "Trusted: as C18. The chain head's pointer values are not compared (the model has list codes): kind and success / "
    "failure of every operation are; a successful CAS on a recycled head address is matched by fail+retry in the model. "
    "when_all / when_any: each registered continuation is invoked at most once (ghost token; = then-chain + C18), inputs "
    "are started futures (never run inline by the combinator), only the iterator versions are traced (tuple versions: "
    "oracle), input order of the result container is checked by the oracle, not proved; without the hooks patch "
    "(deliver/hooks_future_when_all_any.patch) the combinator models are tied to the code by the oracle scenarios only.",
    "Lean 4 proof (ownership invariant of the Treiber stack, counting invariant of when_all) + trace validation under a "
    "deterministic scheduler",
    "DESIGN.md §5.3 C19",
)

claim(
    "C20",
    "CompletionEventImpl::waitFor/waitUntil (Linux futex variant) and FutureImplBase::waitFor/waitUntil are part of "
    "Model/Future.lean; the timed layer texec adds the only assumption about time — a timed FUTEX_WAIT returns ETIMEDOUT "
    "only after its relative timespec elapsed (deadline = clock at the wait + timespec; the clock is a memory cell "
    "advanced by non-negative ticks). Proved for every state reachable in the timed semantics (any interleaving, "
    "spurious wake-ups, notify racing the expiry): a thread that returned `timeout` finds the clock at least at "
    "call-time + rel (wait_for / waitFor) resp. at abs (wait_until / waitUntil) (C20_future_timeout_after_deadline, "
    "C20_event_timeout_after_deadline, C20_bound_of_wait_for, C20_bound_of_wait_until); `ready` / `true` is returned only "
    "with the status completed (C20_future_ready_means_done, C20_event_ready_means_completed); a Future timed wait is "
    "never at the CAS or inside run(int) unless allowInline_ (deferred policy) is set "
    "(C20_timed_wait_runs_functor_only_if_deferred). Tie: traces under the deterministic scheduler with virtual time; the "
    "acceptor keeps the model clock from the harness's clock notes, accepts a futex timeout only when the model "
    "deadline has passed and rejects a return whose clock is behind the model clock; timeouts zero, negative, ns..s, "
    "late / missing notify, EINTR; native real-clock waits. Oracle: elapsed virtual / real time >= requested at every "
    "timeout, readiness at every `ready`, functor not run by a timed wait unless deferred.",
    "Trusted: as C18; the futex contract above. The double -> timespec conversion of the requested duration is outside the "
    "model: the acceptor and the oracle accept the timespec the code passes if it equals the request or is 1 ns short "
    "(observed for ~4% of the requests; unobservable with a real clock, a strict reading of the property would ask for "
    "rounding up). reset() of a CompletionEvent racing with waiters is outside the class contract and the model.",
    "Lean 4 proof (timed interleaving semantics, deadline invariant; thread-local invariant for the policy rule) + trace "
    "validation under a deterministic scheduler with virtual time",
    "DESIGN.md §5.3 C20",
)

claim(
    "C07",
    "C07 DOES NOT HOLD on this tree: two known findings (known_findings.json) are reproduced by the oracle on the real pool "
    "on every run and reported as KNOWN-FINDING; any other failure is a violation. Over the same model as C09 "
    "(Model/Wake.lean) the part of the property that the wake protocol does guarantee is proved for all N, G and all "
    "interleavings (names end in _partial): no wake-up is lost between enterSleep and the futex wait - a worker that is not "
    "blocked and holds an epoch value older than its group's epoch never blocks as long as it holds that value, whatever "
    "all threads do (C07_epoch_guard_partial), every epoch bump precedes its futex wake and makes the values held by the "
    "group's workers old (C07_bump_makes_stale_partial, C07_expected_le_epoch_partial); whoever is blocked on a group futex "
    "is a worker of that group in waitFor's timed wait and blocked with the epoch it holds (C07_sleeper_state_partial); a "
    "futex wake for n >= 1 with a member blocked releases min(n, waiters) members, which continue in waitFor without a "
    "time-out (C07_wake_releases_waiter_partial); with one thread per pool thread index and G <= 64 a set sleep-mask bit "
    "means its worker is inside its sleep window and a successful claim hits such a worker, then bumps and wakes one "
    "arbitrary member (C07_mask_sound_partial, C07_claim_targets_sleeper_partial). The first known finding is exhibited as theorems about the current code: "
    "claimAndWakeOne returns thread 0 while its wake released thread 1, thread 0 stays blocked with its mask bit clear and "
    "nobody has a pending operation (C07_claimed_worker_stays_parked); wakeRange(1) / cascadeWakeSeed(1) releases thread 1 "
    "while the task sits in ring 0 (C07_range_wake_releases_wrong_member). The second finding (centralQueueNonEmpty_ hint "
    "overwritten by a racing worker) involves the central queue, which is outside this model; it is exhibited by the oracle "
    "only. Tie as C09. Oracle: real ThreadPool under the deterministic scheduler with virtual time, every worker parked, one "
    "producer, 12 submission paths (schedule, scheduleBulk, TaskSet / ConcurrentTaskSet single and bulk, force-queued, "
    "non-waiting parallel_for static / auto): every task must be started by a pool thread within 2 ms of virtual time and "
    "without a backstop firing; component: a wake call on an all-parked wake state must release at least as many workers as "
    "it claimed / counted.",
    "Trusted: as C09. Not proved: that a submission path issues enough wake calls, that woken workers find the work "
    "(rings, steal rings, central-queue hint are not modelled), that claimAndWakeOne finds a sleeper whenever one has its bit "
    "set (component oracle only). The full property is false; what is claimed is the partial guarantees and the witnesses.",
    "Lean 4 proof (partial guarantees + negative witnesses) + trace validation + schedule search reproducing known findings",
    "DESIGN.md §5.1 C07",
)

claim(
    "C09",
    "The wake protocol of the pool (PoolWakeState + EpochWaiter (Linux futex variant) + the park sequence and loop guard of "
    "ThreadPool::threadLoopImpl + the stop path 'PerThreadData::stop for every thread, then wakeAll') is modelled one action "
    "per atomic operation / futex call (Model/Wake.lean) in the generic interleaving semantics: N >= 1 workers in wake groups "
    "of G >= 1, any number of producers calling claimAndWakeOne / cascadeWake / wakeRange / cascadeWakeSeed at any time, "
    "futex wakes releasing arbitrary waiters, time-outs and spurious futex returns as explicit actions. Proved for all N, G, "
    "all interleavings and any number of threads below 2^31-1 (inductive invariant over Conc.Reachable): once some thread's "
    "stop-all + wakeAll has returned (a state that is never left, C09_stop_permanent), every running_ flag is clear, no thread "
    "is blocked on a futex so that no timeout / spurious action is even enabled (C09_no_worker_parked), a worker between its "
    "running re-check and its futex wait holds a stale epoch and cannot block (C09_futex_wait_cannot_block), and every "
    "worker that has not left its loop has an enabled action, each of its own actions decreases a measure bounded by 6, and no "
    "other thread's action changes its state (C09_stop_completes): all workers leave their loops without any time-out; a "
    "worker that left its loop has no further actions (C09_exited_is_final). The pre-repair wakeAll (futex wake only for "
    "groups with a non-empty sleep mask) is kept as protoOld with the proved witness C09_old_wakeAll_leaves_worker_parked "
    "(stop returned, a claimed-but-not-woken worker blocked with its bit clear, nobody has a pending operation). Tie: the "
    "real PoolWakeState / EpochWaiter / PerThreadData::stop run under the deterministic scheduler with named atomics "
    "(harness/conc/c09_wakestate.cpp: random worker / producer / stop scenarios incl. EINTR injection) and every atomic and "
    "futex event is replayed through Conc.exec of the model (field, operation, operand, observed value, declared memory "
    "order, woken set); when dispenso carries the wake.* observation hooks (deliver/0001-verif-hooks-wake.patch) the same is "
    "done for the real ThreadPool (real worker loop and real ~ThreadPool / resize stop path, harness/conc/c07_wake.cpp). "
    "Oracle (independent of the model): destructor, resize() and setSignalingWake() of the real pool with workers busy, "
    "spinning, parking or parked, and stop + wakeAll on the component, must finish without any futex wait ending by its "
    "100 ms backstop in virtual time, and every worker must have left its loop.",
    "Trusted: Lean kernel; the hand-written model (checked against the code on the explored schedules only); dsched's "
    "futex / virtual-time model; sequential consistency (declared orders are compared, their sufficiency is C10); the "
    "Linux EpochWaiter only. The worker's 8-line park sequence is replicated in the component harness; the real loop is "
    "exercised by c07_wake.cpp (always as oracle, as trace tie only with the hooks patch applied). Wake-API calls made by a "
    "pool thread from inside a task body are replayed as calls of a separate model thread. The model cannot exhibit: epoch "
    "wrap-around (2^32 bumps between a worker's read and its wait), more than 2^31-2 threads, task bodies that never "
    "return, a pool in polling mode (setSignalingWake(false): workers use timed polling, not this protocol), join() itself "
    "(the theorem ends at 'the worker thread has no further actions').",
    "Lean 4 proof (inductive invariant over all interleavings) + trace validation under a deterministic scheduler",
    "DESIGN.md §5.1 C09",
)

claim(
    "C27",
    "dispenso::pipeline is modelled as an interleaving system (Model/Pipeline.lean): one step per access to shared state "
    "(resources_/outstanding_ and the local queue of every LimitGatedScheduler, the generator/transform/sink pipes, the "
    "wait() drain loops, ConcurrentTaskSet's count/guard/canceled words, the pool queue, the generator's completion event) "
    "and per begin/end of a user stage function; every thread is a stack of frames (inline execution by the task set, "
    "serial hand-off, tryExecuteNext inside wait loops), exceptions unwind frame by frame. Proved for every configuration "
    "(stages, limits, filters, pool size, generator instances) and every interleaving (Reach): C27_never_twice (no item "
    "enters a stage function twice, in any reachable state), C27_drained (when pipeline() has returned and no stage threw: "
    "no generator or stage closure exists on any thread, none is queued in the pool, every local queue is empty, "
    "outstanding_ is 0 and nothing is pending), C27_exactly_once (then every generated item entered stage s exactly once "
    "iff every earlier stage forwarded it, never otherwise, and stage s+1 was handed the item exactly when stage s "
    "forwarded it). The proofs are sum invariants over all stacks (tools/gen_pipe_proofs.py generates the per-step lemmas, "
    "the kernel checks them) plus the induction Proofs/PipeCalm.lean. Tie: real pipelines (1-4 stages, limits 1..3 / "
    "unlimited / plain functions, OpResult and std::optional filters, pools 0..3, poolLoadMultiplier 32 and 1, 0..12 items) "
    "run under the deterministic scheduler; every atomic operation on the named words and every stage begin/end note must "
    "be the pending step of that thread in the model with the same values (Driver/Plug/Pipeline.lean inserts the silent "
    "queue steps and reads their outcome off the thread's next event; acceptance is Pipe.step = some _ for every label). "
    "Oracle: per-(item,stage) counts, the value each stage received, no activity after return.",
    "Trusted: Lean kernel; dsched; the white-box replica of pipeline()'s four statements in the harness (a source check "
    "fails the tie if pipeline.h changes; 1/6 of the runs call the real function, oracle only). Abstractions, all "
    "over-approximations: the task set's inline-or-queue decision is nondeterministic (load figures not modelled, inline "
    "depth unbounded); moodycamel queues and the pool are bags with spurious try_dequeue failure; closures in queues are "
    "anonymous and the item is bound when the stage function begins (the closure's identity is unobservable before); the "
    "pool's wake/sleep machinery is not modelled; 'receives its predecessor's output' is modelled as identity of the item "
    "token (the value itself is checked by the oracle only). Single-stage pipelines are exercised by the oracle, not "
    "modelled. The model cannot exhibit: weak-memory effects (SC), a pool that loses tasks, stack exhaustion.",
    "Lean 4 proof (interleaving invariants over all stacks, generated case analysis) + trace validation under a deterministic scheduler",
    "DESIGN.md §5.4 C27",
)

claim(
    "C28",
    "On the pipeline model of C27, for every configuration and every interleaving, also while stages throw and for every "
    "combination of repaired/original exception paths: C28_stage_limit (a stage with limit L - stage(f, L) or a plain "
    "function, L = 1 - never has more than L invocations of its stage function in progress; proof: resources_ + slots "
    "held + borrowed = L, resources_ + borrowed >= 0, every running invocation holds a real slot, a limited stage has no "
    "closure of the unlimited kind) and C28_generator_limit (at most max(1, min(pool threads, limit)) generator instances "
    "are inside the generator function). The trace acceptor checks every resources_ value the real code observed against "
    "the model; the oracle computes the per-stage maximum of concurrently running invocations from the begin/end notes.",
    "Trusted: as C27. The limit is on invocations between the model's begin and end steps of the stage function, which the "
    "harness emits as the first and last statement of its stage functors. Slots of closures that a canceled set drops are "
    "never returned (lost); this only lowers the concurrency.",
    "Lean 4 proof (slot-accounting invariants) + trace validation under a deterministic scheduler",
    "DESIGN.md §5.4 C28",
)

claim(
    "C29",
    "On the pipeline model of C27 with the exception machinery (trySetCurrentException as CAS/store/store, packageTask's "
    "skip branch, schedule()'s drop when canceled, wait()'s discard paths, the destructors of pipes and task set), proved "
    "for every reachable state: C29_never_twice, C29_run_or_released_once (every stage closure is entered or released, "
    "never both, at most once), C29_generator_stops (an instance that reads hasException() = true ends without another "
    "call), C29_no_forgotten_closure (with the repaired skip branch no OnceFunction is dropped unreleased), and "
    "C29_first_exception_partial (a losing CAS changes nothing, the winner stores its own exception, wait() rethrows the "
    "stored one). NOT proved: that the rethrown exception is the first CAS of the run, and that at the moment pipeline() "
    "returns after an exception every queue is empty and every item released - these are checked on the real code only "
    "(oracle: item ledger constructed == destroyed after the pool is gone, first exception rethrown, no stage activity "
    "once execute()/wait() are over, pool usable, no hang; and every trace must be accepted by the repaired model). Four "
    "genuine defects were found; the model keeps each original behaviour behind a flag with a proved witness run: "
    "C29_old_skipped_closure_leaks, C29_old_queue_left_behind, C29_old_skipped_generator_hangs, "
    "C29_old_exception_escapes_execute. A trace that only a model variant with an original behaviour accepts is reported "
    "as a violation naming that behaviour.",
    "Trusted: as C27; LeakSanitizer is not available under dsched, the ledger counts the harness's item objects (every "
    "closure the pipeline creates holds exactly one). Partial by statement: see the NOT proved list; the four defects are "
    "repaired by the patches in deliver/ (the check fails on the unrepaired tree).",
    "Lean 4 proof (interleaving invariants, witness runs by kernel evaluation) + trace validation under a deterministic scheduler",
    "DESIGN.md §5.4 C29",
)

claim(
    "C10",
    "PARTIAL (by nature). Proved (Lean, Core/HB.lean + Props/C10.lean): over every execution of the protocol models "
    "(Core/Conc.lean: any number of threads, any interleaving, futex parking/wake/time-out/spurious wake-up) projected to "
    "traces of plain payload accesses and atomic operations carrying the memory order DECLARED at the program point, with "
    "happens-before = (po U sw)+ as in C++20/RC11 (release sequences = a write followed by read-modify-writes; consume "
    "and fences give no edge), there is NO data race on the payload of: the SPSC ring slots (C10_spsc_race_free: one "
    "producer, one consumer, single and batch operations, any size), the MPMC ring slot elements (C10_mpmc_race_free: any "
    "number of producers/consumers, per-slot sequence numbers, both directions), the AsyncRequest object "
    "(C10_asyncreq_race_free), client data published through CompletionEvent (C10_event_race_free: one notifier that is "
    "the only writer; readers read after wait/waitFor/completed observed completion) and through Latch "
    "(C10_latch_race_free: participants write their own data before a single count_down/arrive_and_wait; readers read "
    "after wait/try_wait/arrive_and_wait observed zero) - whenever the declared order at every program point passes "
    "Trace.orderOK against binding.reqOrder, i.e. exactly the comparison the trace acceptor applies to every atomic "
    "operation of the real code (C10_order_check_is_acceptors). Each non-relaxed entry the theorems use is necessary: "
    "C10_<p>_order_needed gives, per entry, the source's table with THAT entry weakened to relaxed and a "
    "contract-respecting execution with a race (28 entries; decided by evaluation of the relational definition). "
    "C10_detector_sound: the vector-clock style detector the invariants are phrased with accepts no racy trace. "
    "Tie: the dsched V harnesses of Event/Latch, AsyncRequest, MPMC, SPSC (+ harness/conc/c10_variants.cpp: every "
    "push/pop overload of both rings), Chase-Lev, RWLock, DistributedRWLock, arena and pool allocator are re-run; the "
    "declared order of each real-code atomic (reported by the TSan instrumentation of its call site) is compared with "
    "the table; a weaker one is a C10 violation. Support (not proof): the whole library compiled with clang "
    "-fsanitize=thread and a native stress harness (harness/native/c10_tsan.cpp) over pool, task sets, parallel_for, "
    "for_each, futures, pipeline, graph executors, concurrent vector, rings, deque, locks, events, allocators, arena, "
    "timed tasks (36 scenarios, plain payloads, one process per scenario); every ThreadSanitizer report is a violation. "
    "A second oracle replays the dsched traces of the real SPSC / MPMC / AsyncRequest / Chase-Lev code through the "
    "proved detector (dvdriver plug-in hbdet): a payload access not ordered by happens-before on a real trace is a "
    "violation. Open findings on the unchanged tree (known_findings.json): the Chase-Lev slot races "
    "(C10_chaselev_discarded_read_races, C10_chaselev_restore_store_races are the Lean witnesses), "
    "ConcurrentObjectArena::numBuffers() reading a plain counter (patch in deliver/), and a pool destroyed while a "
    "dispenso-internal thread is still in ThreadPool::schedule's epilogue (Future::then across pools, TimedTaskScheduler).",
    "NOT covered / trusted: the rest of the library is only swept by TSan on the schedules that happen to run; "
    "executions that are not sequentially consistent per atomic location (the theorems rule out every race that needs no "
    "reordering of the atomic history itself); fence-based synchronisation (no fence edge in the model: the theorems "
    "hold a fortiori, none of the five protocols relies on a fence for its payload); under the C++11/14 rule that "
    "same-thread stores continue a release sequence there are more edges (theorems still hold; the Latch ntStore "
    "necessity witness needs the C++20 rule). The Chase-Lev deque has NO payload theorem: its thief reads the slot before "
    "the claiming CAS, a by-design racy read the source hides from TSan with IGNORE_READS/WRITES annotations, so plain "
    "race freedom is false for it; only its declared orders are checked against the table of the SC proofs (C36). The "
    "client side of CompletionEvent/Latch is a modelled contract (Proofs/HBEvent.lean), not code. RWLock / "
    "DistributedRWLock / arena / pool-allocator tables are checked by the acceptor but their critical-section theorems "
    "are not in this revision.",
    "Lean 4 proof (happens-before model, detector soundness, per-protocol inductive invariants over all interleavings, "
    "decided necessity witnesses) + declared-order trace validation under a deterministic scheduler + ThreadSanitizer sweep",
    "DESIGN.md §5.7 C10",
)

claim(
    "C11",
    "PARTIAL (by nature). Proved (Lean): the ledger and bounds theorems of the modelled components, re-checked and "
    "axiom-audited as C11 obligations - ConcurrentVector (C32_ledger, C32_all_destroyed, bucket index inside the bucket), "
    "ring indices in range (C34_bounds, C35_indices_in_range, C36_bounds), ConcurrentObjectArena (C37_buffers_ledger, "
    "indices inside allocated buffers, sequential and concurrent), SmallVector (C38_ledger, C38_all_destroyed, capacity, "
    "alignment), OnceFunction (C39_exactly_once, C39_blocks_ledger), OpResult (C40_ledger, C40_all_destroyed), "
    "PoolAllocator (C42_ledger, C42_balance_any, chunks inside slabs, exclusive) - and, in Props/C11.lean, the anchors the "
    "property names: the packaged task closure of TaskSetBase::packageTask is destroyed exactly once when the pool "
    "invokes it, whether or not the cancelled body was skipped (C11_packaged_task_destroyed_once); a OnceFunction that is "
    "never invoked is released exactly once by cleanupNotRun (C11_never_invoked_released_by_cleanup); nothing is "
    "destroyed twice and no spill block stays out once every object is empty (C11_no_double_destroy); and the negative "
    "fact that there is no releasing destructor (C11_unconsumed_is_not_released), which is why a skipped body that is "
    "itself a OnceFunction needs an explicit cleanupNotRun. Support (not proof): harness/native/c11_paths.cpp runs the "
    "error paths the property names against the real library under ASan+UBSan+LSan (g++ 12) with ledger-counted "
    "closures / elements / results, a per-size-class balance of SmallBufferAllocator chunks and allocation counting "
    "through the sanitizer malloc hooks (blocks that survive two measured passes must belong to a documented "
    "process-lifetime cache), one process per scenario (19 scenarios): throwing task bodies (TaskSet / "
    "ConcurrentTaskSet, single / bulk / inline), cancellation with queued tasks, pool destruction and resize with queued "
    "work, OnceFunction never invoked, pipelines whose stages throw or filter, futures whose functor throws or is never "
    "run, TimedTask cancel / destruction, graph executors with exceptions, parallel_for / for_each bodies that throw; "
    "every sanitizer report, ledger imbalance, chunk imbalance, unexplained allocation growth or stalled repetition is a "
    "violation (signature = kind + scenario + top dispenso frame). On the unchanged tree the sweep reports seven "
    "error-path defects (known_findings.json, each with a candidate patch in deliver/): waiting dynamic parallel_for "
    "not exception-safe on the caller, skipped OnceFunction tasks not released (lead C29), pipeline generator "
    "completion lost on skip (hang), no-wait parallel_for chunk index leak, pipeline() unwinding before its task set "
    "is drained, ~ThreadPool stranding late continuations, Future then-link returned to the wrong pool. All sequential "
    "harnesses of the other properties also run under ASan+UBSan.",
    "NOT covered / trusted: memory safety of the compiled code as such is observed on the explored runs, not proved; "
    "the models are tied to the code by the differential / trace checks of the component properties; sanitizer "
    "runtimes; only the schedules that happen to run. Components without a Lean ledger (thread pool queues = "
    "moodycamel, futures, pipeline, graph, timed tasks) are covered by the sanitizer runs only.",
    "Lean 4 proof (ledger / bounds invariants of the component models) + sanitizer-checked native error-path runs",
    "DESIGN.md §5.7 C11",
)

ALL = ["C%02d" % i for i in range(1, 49)]
for _p in ALL:
    if _p not in CLAIMED:
        NOT_CLAIMED.setdefault(_p, "not claimed in this revision: model/proof/correspondence for it is not built yet (work order in DESIGN.md §11)")
