"""Per-property registry: what is claimed, at which level, by which method. MANIFEST.json is
generated from this (python3 tools/gen_manifest.py)."""

# pid -> dict(text, note, technique, design_ref)
CLAIMED = {}

# pid -> reason (for every property not claimed)
NOT_CLAIMED = {}


def claim(pid, text, note, technique, design_ref="DESIGN.md §5"):
    CLAIMED[pid] = dict(text=text, note=note, technique=technique, design_ref=design_ref)


claim(
    "C17",
    "Lean theorems C17_transition_range/C17_sum/C17_sizes/C17_mapper_partition/C17_static_chunks_partition/"
    "C17_no_overflow prove, for every items>=0, chunks>=1, granularity>=1 dividing items (no bound), that the "
    "chunking arithmetic yields contiguous chunks covering each item exactly once, sizes a multiple of g, differing by "
    "at most one unit, larger first, without signed overflow. The model is tied to the code by differential "
    "execution of the compiled functions (staticChunkSize, staticChunkSizeGranular, StaticChunkMapper, for_each "
    "offsets) against the Lean definitions on exhaustive small grids and random 64-bit inputs, plus an independent "
    "property oracle on the implementation's outputs.",
    "Trusted: Lean kernel; the hand-written Lean model (checked against the code only on the explored inputs); "
    "ssize_t = 64-bit. The mapper recipe of parallel_for_staticImpl is replicated in the harness; C12 covers it end to end.",
    "Lean 4 proof (induction/omega/ring) + differential correspondence",
    "DESIGN.md §5.2 C17",
)

claim(
    "C44",
    "Lean theorems C44_nextPow2 (least power of two >= v for 1 <= v <= 2^63), C44_log2const64/32 (= floor log2 for "
    "every non-zero input), C44_alignToCacheLine and C44_alignedMalloc (aligned result, recovery word inside the "
    "allocation, for every power-of-two alignment <= 2^16) are proved over BitVec 64/32 models that transcribe the C++ "
    "bit operations one to one, kernel-checked without native axioms. The tie runs the compiled functions against the "
    "model on structured and random inputs; the intrinsic-based log2/countTrailingZeros/countSetBits are compared with "
    "the Lean mathematical specification (thorough: all 2^32 32-bit inputs against a reference).",
    "Trusted: Lean kernel; hand-written model (checked on the explored inputs only); bsr/ctz/popcount intrinsics are "
    "compared, not proved; malloc's 16-byte alignment.",
    "Lean 4 proof (bit-level induction via testBit windows) + differential correspondence",
    "DESIGN.md §5.6 C44",
)

claim(
    "C21",
    "The Linux CompletionEventImpl/CompletionEvent/Latch are modelled at one action per atomic or futex operation "
    "(Model/Event.lean) in a generic interleaving semantics (Core/Conc.lean: any number of threads, any schedule, "
    "futex wake victims chosen arbitrarily, spurious wake-ups, time-outs). Proved for every reachable state: once the "
    "latch count is zero / the event is completed, either nobody is parked or a store+wake-all is still pending "
    "(C21_*_no_lost_wakeup), hence nobody stays blocked once the notifiers returned (C21_*_quiescent); waits return "
    "only after observing the completed value (C21_*_never_early) and the completed value is stable. The same exec "
    "function accepts or rejects traces of the real code recorded under the deterministic scheduler (field, operation, "
    "operand, observed value, woken set and return value of every call must match).",
    "Trusted: Lean kernel; dsched (our TSan-interface runtime and futex model) to report what the code did; sequential "
    "consistency (memory orders are C10's subject); thread count < 2^31; reset() racing with waiters is outside the "
    "class contract and outside the theorems. The pre-repair code's lost wake-up is kept as a proved witness "
    "(C21_old_count_down_loses_wakeup).",
    "Lean 4 proof (inductive invariant over an interleaving semantics) + trace validation under a deterministic scheduler",
    "DESIGN.md §5.3 C21",
)

claim(
    "C24",
    "AsyncRequest is modelled at one action per atomic operation (Model/AsyncReq.lean; the element's construction and "
    "move-out are atomic events because the harness payload's only member is an atomic). Proved for every run of any "
    "number of requesters, producers and consumers: the state word is a lock around the object (C24_mutex), "
    "tryEmplaceUpdate succeeds exactly when the word is needsUpdate (C24_emplace_only_when_requested), getUpdate never "
    "hands out a moved-from object (C24_take_is_fresh), and over whole histories the values taken are a prefix of the "
    "values emplaced with at most one outstanding (C24_history: each emplaced value is returned at most once, only "
    "after an emplace). Traces of the real code under the deterministic scheduler are replayed through the same exec.",
    "Trusted: Lean kernel; dsched; SC reading; std::optional<Payload> instantiation (C++17). The original "
    "load/move/store getUpdate is kept as protoOld with the proved double-delivery witness C24_old_double_delivery.",
    "Lean 4 proof (invariant + history induction) + trace validation under a deterministic scheduler",
    "DESIGN.md §5.3 C24",
)

claim(
    "C35",
    "SPSCRingBuffer is modelled at one action per atomic operation / element access (Model/Spsc.lean; single and batch "
    "push and pop, observers, destructor; any buffer size K >= 2). C35_fifo proves for every run with one producer "
    "thread and one consumer thread: the values popped are a prefix of the values pushed (exactly once, in order), at "
    "most K-1 elements are ever written and not yet taken, and a pop never yields a moved-from slot; "
    "C35_push_reject_iff_full / C35_pop_reject_iff_empty: a call is rejected exactly when the index it read says "
    "full/empty. Traces of the real code (capacities 1..4, exact and power-of-two sizes) under the deterministic "
    "scheduler are replayed through the same exec; the harness oracle checks prefix-FIFO, occupancy and lifetimes.",
    "Trusted: Lean kernel; dsched; SC reading (orders are C10's); element accesses are visible only because the harness "
    "payload's member is an atomic; index wrap beyond 2^64 operations is irrelevant (indices are reduced mod K).",
    "Lean 4 proof (ghost absolute counters + history induction) + trace validation under a deterministic scheduler",
    "DESIGN.md §5.5 C35",
)

claim(
    "C22",
    "RWLockImpl is modelled at one action per atomic / futex operation (Model/RWLock.lean: lock, try_lock with its 16 "
    "drain probes and roll-back, unlock, lock_shared with optimistic increment / back-out / spin, try_lock_shared, "
    "unlock_shared, lock_upgrade, lock_downgrade), with the usage contract in `entry`. Proved for every reachable state "
    "and any number of threads: a write holder excludes every other holder (C22_exclusion); the word is "
    "readerUnits + W*[bit owner], the owner is unique (C22_word); successful try variants really hold "
    "(C22_try_sound); a failed try_lock removes exactly the bit it set (C22_failed_try_lock_restores); if the draining "
    "writer is parked while the word is exactly W a wake is pending (C22_no_lost_wakeup), and when nobody holds or is "
    "inside a call nobody is parked (C22_no_deadlock). Traces of the real code under the deterministic scheduler are "
    "replayed through the same exec.",
    "Trusted: Lean kernel; dsched; SC reading; fewer than 2^30 threads. Progress of the spin loops (fetch_or / load "
    "retries) is not formalised; the documented two-upgrader hazard is exhibited as C22_two_upgraders_stuck and excluded "
    "from the harness scenarios, as the class documentation requires.",
    "Lean 4 proof (counting invariant over an interleaving semantics) + trace validation under a deterministic scheduler",
    "DESIGN.md §5.3 C22",
)

claim(
    "C36",
    "ChaseLevDeque is modelled at one action per atomic operation, fence and slot access (Model/ChaseLev.lean: try_push, "
    "try_pop, try_pop_into, try_steal, observers; any capacity). Proved for every run with one owner thread and any "
    "number of thieves: bottom - top <= capacity (C36_bounds); with distinct pushed tags no element is returned twice and "
    "every returned element was pushed (C36_exactly_once), in every reachable state taken ++ deque contents is a "
    "permutation of the successfully pushed values (C36_conservation, _quiescent); a successful steal removes the oldest "
    "and an owner pop the newest element (C36_order, C36_steal_oldest, C36_pop_newest), including the last-element CAS "
    "race. Traces of the real code under the deterministic scheduler are replayed through the same exec.",
    "Trusted: Lean kernel; dsched; sequential consistency (the seq_cst fences make it the intended reading; declared "
    "orders are C10's subject); counters unbounded; slot data accesses are plain memory, not visible in the trace and "
    "executed with the preceding atomic step during replay.",
    "Lean 4 proof (ghost-free invariant + permutation accounting over runs) + trace validation under a deterministic scheduler",
    "DESIGN.md §5.5 C36",
)

claim(
    "C34",
    "MpmcRingBuffer is modelled at one action per atomic operation / element access (Model/Mpmc.lean: emplaceImpl, the "
    "three pop variants, try_push_batch with its validation loop + single CAS + per-slot publish, observers; any buffer "
    "size K >= 2, the code's own static_assert). Proved for every reachable state and any number of producers and "
    "consumers: head <= tail <= head + K (C34_bounds); a position is owned by at most one pusher and one popper "
    "(C34_claim_unique, C34_slot_exclusive); a stale batch/single validation is still true when the CAS succeeds "
    "(C34_*_claim_validated); the take at position p sees seq = p+1 and a real value, and element slots are written only "
    "by the position's owner (C34_pop_gets_pushed_value, C34_data_written_by_owner, C34_full_unowned); over whole "
    "histories the element popped at claim position p is exactly the element pushed at claim position p, each at most "
    "once (C34_fifo_history, _fun, _complete); at quiescence pop succeeds iff non-empty and push iff not full "
    "(C34_quiescent*). Traces of the real code under the deterministic scheduler are replayed through the same exec.",
    "Trusted: Lean kernel; dsched; SC reading; counters unbounded (2^64 wrap excluded); element accesses visible because "
    "the harness payload's member is an atomic. K = 1 is outside the class (static_assert) and the model (a proved "
    "counterexample is kept in Props/C34.lean).",
    "Lean 4 proof (Vyukov life-cycle invariant + history logs) + trace validation under a deterministic scheduler",
    "DESIGN.md §5.5 C34",
)

claim(
    "C23",
    "DistributedRWLockImpl<N> is modelled at one action per atomic / futex operation (Model/DistRWLock.lean: two-phase "
    "lock(), try_lock() with roll-back, unlock(), readers on arbitrary slots), for every N >= 1. Proved for every "
    "reachable state and any number of threads: an exclusive holder excludes every reader on every slot and every other "
    "writer (C23_exclusion); each writer bit has a unique owner and is set iff owned (C23_bit_owner_unique); a failed "
    "try_lock's roll-back steps subtract exactly the bits it took and leave every other word unchanged "
    "(C23_failed_try_lock_leaves_no_trace); only the draining writer parks and a wake is pending whenever its slot is "
    "already exactly W (C23_no_lost_wakeup, C23_only_draining_writer_parks); when nobody holds or is inside a call nobody "
    "is parked (C23_quiescent_not_blocked). Traces of the real code (N in {1,2,4,16}) under the deterministic scheduler "
    "are replayed through the same exec.",
    "Trusted: Lean kernel; dsched; SC reading; fewer than 2^30 threads. Spin-loop progress (ordered bit acquisition "
    "between blocking writers) is not formalised beyond the no-parked-at-quiescence theorem; the scheduler's livelock "
    "detector covers it on the explored schedules.",
    "Lean 4 proof (per-slot counting invariant, all N) + trace validation under a deterministic scheduler",
    "DESIGN.md §5.3 C23",
)

claim(
    "C45",
    "threadId() is modelled with the global counter as memory field 0 and the thread-local cache as part of each thread's "
    "local state (Model/ThreadId.lean). Proved for any number of threads and any interleaving: ids of distinct threads "
    "differ (C45_unique), an id never changes once assigned (C45_stable), ids lie in [start, counter) and the counter is "
    "monotone. Traces of the real code (1..64 concurrently created threads) under the deterministic scheduler are "
    "replayed through the same exec.",
    "Trusted: Lean kernel; dsched; fewer than 2^64-1 threads (counter unbounded in the model).",
    "Lean 4 proof (invariant over an interleaving semantics) + trace validation under a deterministic scheduler",
    "DESIGN.md §5.6 C45",
)

claim(
    "C40",
    "OpResult is modelled as a pool of optional values with a ledger of contained objects that follows the code's "
    "placement-new / destructor calls (Model/OpResult.lean). Proved for every operation sequence: the number of live "
    "contained objects equals the number of engaged wrappers, so once all wrappers are destroyed nothing is left alive "
    "(C40_ledger, C40_all_destroyed); each operation has std::optional's effect on its destination and leaves all "
    "other objects untouched (C40_sem_*; the moved-from source is disengaged, which the property leaves open). The tie "
    "runs random operation sequences on OpResult<Tracked>, std::optional<Tracked> and the model and compares engaged "
    "flag, value and live-object count after every operation (ASan/UBSan/LSan build).",
    "Trusted: Lean kernel; hand-written model checked against the code on the explored sequences; the state of a "
    "moved-from OpResult is treated as unspecified. The original leak is kept as the proved witness C40_old_leaks.",
    "Lean 4 proof (ledger invariant by induction over operation sequences) + differential correspondence",
    "DESIGN.md §5.5 C40",
)

claim(
    "C38",
    "SmallVector is modelled as contents + heap flag + capacity per vector, each operation written as the loop the C++ "
    "performs, with ledgers of element objects and heap buffers (Model/SmallVec.lean). Proved for every operation "
    "sequence and inline capacity: every element constructed is destroyed exactly once and every heap buffer freed "
    "exactly once (C38_ledger, C38_all_destroyed); size <= capacity and inline vectors have capacity N (C38_capacity); "
    "each operation has std::vector's effect on contents (C38_sem_*); element addresses are aligned when the buffer "
    "address is (C38_elem_aligned). The tie compares size, capacity, contents and live count with the model and "
    "contents/positions with std::vector after every operation for N in {1,2,4,8}; separate streams check alignment "
    "for element types aligned to 16..128 bytes (non-ASan build) and push_back(v[i]) with an aliasing argument.",
    "Trusted: Lean kernel; hand-written model checked on the explored sequences; the alignment of the allocation call "
    "(operator new / alignedMalloc) is observed by the alignment stream, the theorem covers only the address arithmetic.",
    "Lean 4 proof (ledger/capacity invariants by induction over operation sequences) + differential correspondence",
    "DESIGN.md §5.5 C38",
)

claim(
    "C32",
    "ConcurrentVector used sequentially is modelled in three layers. (1) Bucket layout (Model/ConVec.lean): index -> "
    "(bucket, sub-index) is a bijection with sub-index < bucket capacity and buckets tiling the index space, for every "
    "first-bucket size (C32_sub_lt_cap, C32_index_decomp, C32_bucket_inverse, C32_buckets_tile, C32_bucket_injective). "
    "(2) The container as a value with a ledger of element objects: for every operation sequence the number of live "
    "elements equals the total size, so every element constructed is destroyed exactly once (C32_ledger, "
    "C32_all_destroyed); every operation has std::vector's effect on contents and returns std::vector's position "
    "(C32_sem_* for all constructors, assign, push, grow_by family, grow_to_at_least, insert x3, erase x2, resize, "
    "reserve, pop_back, clear, shrink_to_fit, copy/move assignment, swap; frame lemma). (3) Capacity / allocation "
    "(Model/ConVecAlloc.lean): per vector firstBucketShift_, size, which buffers_[b] are non-null, the shouldDealloc_ "
    "flags, a ghost 'start of a live malloc block' bit per bucket and the cv::alloc/cv::dealloc counters; "
    "allocAsNecessaryImpl (single-index and range variant with counting pass, single allocation, tryAssignBuffer pass "
    "and wait loops), reserve, shrink_to_fit, clear, the reserving constructor, move/swap, for every realloc strategy, "
    "first-bucket shift, kMaxBuffers >= 2 and inline/heap table. Proved for every operation sequence: the invariant "
    "(allocated buckets are a prefix containing buckets 0 and 1; once the index at allocCheckIndex of bucket b is in use "
    "bucket b+1 exists) holds and no operation ever waits for a missing bucket (C32_alloc_inv_reachable, "
    "C32_alloc_never_hangs, C32_alloc_ahead, C32_alloc_prefix); every index <= size lies in an allocated bucket "
    "(C32_alloc_index_allocated); capacity() counts exactly the indices with allocated storage and size <= capacity "
    "(C32_alloc_capacity); reserve(n) ends with capacity >= n (C32_alloc_reserve); growth only stores into null entries "
    "and never drops a bucket (C32_alloc_growth_monotone); the range variant visits bucket b+1 whenever the trigger index "
    "of b is in the range and computes that bucket's capacity for it (C32_alloc_range_targets); ledger: allocs = frees + "
    "first block (+ table) + block-start buckets, shouldDealloc_ = block start on allocated buckets, no block start is ever "
    "dropped unfreed, no non-start pointer is ever freed, the destructor balances allocs and frees "
    "(C32_alloc_ledger, C32_alloc_destroy_balanced, C32_alloc_all_freed). The tie runs random operation sequences on "
    "ConcurrentVector<Tracked,Traits> for 10 trait/element combinations (first buckets of 1, 4 and 32 elements, all three "
    "strategies, inline and heap table, both iterator kinds), std::vector and both models: size, returned position, "
    "contents, live count after every operation; white-box firstBucketShift_, capacity(), non-null buffers_ mask, "
    "shouldDealloc_ mask, block-start mask and the malloc/free log (calls, element slots requested) after every "
    "operation; iteration/indexing/reverse iteration/iterator arithmetic against std::vector; the bucket index functions "
    "against the model (ASan/UBSan). Oracle: contents vs std::vector, element lifetimes, hang watchdog, bucket storage "
    "inside live blocks and pairwise disjoint, all blocks freed at the end of every sequence.",
    "Trusted: Lean kernel; the models are hand-written and checked on the explored sequences only; iterator arithmetic of "
    "concurrent_vector_impl2.h is compared with std::vector, not modelled; which buckets share one malloc block is not "
    "modelled (use-after-free of a carved bucket is left to ASan and the storage oracle); cachedPtrs_ is not modelled "
    "(operator[] reads are compared); sizes beyond kMaxVectorSize (buffers_[kMaxBuffers]) are rejected by the model; "
    "custom SizeTraits cannot be instantiated (the iterator type hard-codes the default ones), so small buckets are reached "
    "with 64- and 256-byte elements. The allocation log intercepts ::malloc/::free textually in dispenso's inline "
    "alignedMalloc/alignedFree.",
    "Lean 4 proof (bucket bijection, ledger invariant, per-operation list semantics, allocation invariant over all "
    "operation sequences) + differential correspondence (black-box and white-box)",
    "DESIGN.md §5.5 C32",
)

claim(
    "C39",
    "OnceFunction is modelled as the storage decision plus a state machine with ledgers (Model/OnceFn.lean). Proved: "
    "inline storage is chosen only for size <= 56 and alignment <= 64 and the 64-aligned inline buffer satisfies any such "
    "alignment (C39_plan_inline, C39_inline_aligned); a spilled callable gets a power-of-two block >= its size whose own "
    "alignment is a multiple of the callable's (C39_plan_spill, C39_spill_aligned, built on C44_nextPow2), size classes "
    "map 4..256 to ordinals 0..6 (C39_getOrdinal); for every operation sequence each callable is invoked at most once and "
    "destroyed exactly once, on invoke or cleanupNotRun, moves transfer the obligation, and spill blocks are returned "
    "(C39_exactly_once, C39_invoke, C39_cleanup, C39_move_transfers*, C39_blocks_ledger, C39_rejects_reuse). The tie runs a "
    "generated family of callables (sizes 8..320, alignments 1..256) through random move chains and compares storage "
    "decision, alignment, call and destruction counts with the model (ASan/UBSan build).",
    "Trusted: Lean kernel; hand-written model checked on the explored family; that allocSmallBuffer<N> returns N-aligned "
    "blocks is C41's subject; byte-wise relocation of the callable is assumed valid for the callable (documented contract).",
    "Lean 4 proof (arithmetic of the storage plan + ledger invariant) + differential correspondence",
    "DESIGN.md §5.5 C39",
)

claim(
    "C37",
    "ConcurrentObjectArena is modelled as a value (sequential operations) and as a protocol at one action per atomic "
    "operation with the resize mutex (Model/Arena.lean). Proved: grow_by returns the old size, appends default elements, "
    "keeps earlier elements and the invariant allocated = bufSize*buffers, pos < allocated, so every index < size lies in "
    "an allocated buffer (C37_seq_growBy, C37_seq_index_in_buffer, C37_seq_mk); copies, assignments and swap yield equal "
    "size and contents and every buffer is freed exactly once (C37_sem_*, C37_buffers_ledger, C37_pool_inv); for any "
    "number of concurrent growers, in every reachable state pos < allocated <= B*buffersPos with mutual exclusion of the "
    "resize section (C37_conc_inv, C37_conc_index_in_buffer, C37_conc_local), and over whole histories the claimed ranges "
    "tile [0, size) so each index is claimed exactly once (C37_ranges_tile, C37_ranges_cover_once, "
    "C37_grow_returns_claim). Sequential tie: differential vs the value model under ASan; concurrent tie: traces under "
    "the deterministic scheduler replayed through the protocol model.",
    "Trusted: Lean kernel; dsched; SC reading; the mutex is modelled as an atomic test-and-set word whose acquisition has no "
    "trace event; element construction is not visible in traces (checked by the harness oracle: all elements default).",
    "Lean 4 proof (value semantics + interleaving invariant + history tiling) + differential and trace correspondence",
    "DESIGN.md §5.5 C37",
)

claim(
    "C42",
    "PoolAllocatorT is modelled as a value (slabs from allocFunc numbered in order of first use, reuse list, free stack, "
    "chunks handed out, allocFunc/deallocFunc counters) plus the spin lock of the thread-safe variant as an interleaving "
    "protocol (Model/PoolAlloc.lean). Proved for every alloc/dealloc/clear/destroy sequence with >= 1 chunk per slab: every "
    "free or handed-out chunk lies in an active slab with index < chunksPerAlloc and slab ids are exactly the allocFunc "
    "calls (C42_chunks_valid), no chunk is free and handed out or handed out twice (C42_exclusive, C42_alloc_fresh), "
    "clear() moves every slab to the reuse list and alloc consumes it before calling allocFunc again (C42_clear_reuses, "
    "C42_alloc_prefers_reuse), destruction releases each slab exactly once (C42_ledger, C42_balance_any); the lock word "
    "admits at most one thread in a critical section for any number of threads (C42_lock_mutex). Ties: differential on "
    "NoLockPoolAllocator with logging alloc functions (ASan), and lock-word traces of PoolAllocator under the "
    "deterministic scheduler replayed through the protocol model.",
    "Trusted: Lean kernel; dsched; allocSize >= chunkSize and no chunk in use at clear() are class preconditions; the "
    "critical-section bodies of the concurrent variant are covered by the harness oracle (no chunk twice, inside a slab), "
    "not by the trace model.",
    "Lean 4 proof (value invariant + lock mutual exclusion) + differential and trace correspondence",
    "DESIGN.md §5.5 C42",
)

claim(
    "C43",
    "CpuSet (Linux backing), parseLinuxCpuList and buildGroupsFromCacheTopology are transcribed into Lean "
    "(Model/CpuSet.lean, the parser mirroring strchr/strtol). Proved: add/addRange/remove/removeRange/contains/count are "
    "the set operations on ids in [0, 1024) and ignore everything outside (C43_add … C43_out_of_range); for every string of "
    "the cpu-list grammar the parser yields exactly the denoted in-range ids (C43_parse_grammar, no bound on list length "
    "or numbers); the groups are a permutation of the CPUs of the L2 atoms, never split an atom, stay within "
    "max(maxGroupSize, largest atom) and never contain two atoms with distinct known L3 groups (C43_groups_*; Array.qsort's "
    "permutation property is proved from scratch). Tie: differential on boundary-biased id operations, every string over "
    "{0,1,9,-,','} up to the length bound, random grammar strings and a malformed stream, and random synthetic topologies.",
    "Trusted: Lean kernel; hand-written transcription checked on the explored inputs; an atom's L3 is that of its first "
    "CPU, as in the code; CPU ids in synthetic topologies are non-negative.",
    "Lean 4 proof (set algebra, parser correctness by structural induction, grouping fold invariant) + differential correspondence",
    "DESIGN.md §5.6 C43",
)

claim(
    "C15",
    "The planning logic of for_each_n is modelled (Model/ForEach.lean) on top of the proved static chunking (C17). Proved "
    "for every n >= 0, maxThreads (including 0 and 1), wait and pool size (including zero-thread pools): the chunks tile "
    "[0, n), so the function is applied exactly once per element (C15_partition, C15_exactly_once); the chunk count is >= 1 "
    "(no division by zero), <= max(maxThreads,1) and <= poolThreads+1 (C15_numThreads_pos, C15_tasks_bound); n = 0, "
    "maxThreads = 0 or a nested call run serially (C15_serial). Tie: for_each_n on real pools (0..4 threads) over random "
    "access / bidirectional / forward iterators, TaskSet / ConcurrentTaskSet, nesting; chunks recovered from the functor "
    "copy that visited each element are compared with the plan; oracle: every element visited exactly once.",
    "Trusted: Lean kernel; that all applications have finished when the call / wait() returns is the task-set barrier "
    "(C02), exercised here only by the oracle; ASan/UBSan build.",
    "Lean 4 proof (plan partition via C17) + differential correspondence on real pools",
    "DESIGN.md §5.2 C15",
)

claim(
    "C12",
    "The planning logic of parallel_for (computeGranularity, adjustChunkSizing, calcChunkSize, the static mapper, dynamic "
    "chunks, stripe boundaries and stripe chunks) is modelled as a function from the configuration to the list of body "
    "invocations (Model/ParFor.lean). C12_partition proves, for every configuration with start < stop (all modes: serial, "
    "static with tail, static no-wait with folded tail, dynamic, stripes; any maxThreads, minItemsPerChunk, granularity, "
    "pool size, nesting), that the invocations tile [start, stop): every index exactly once, none outside "
    "(C12_exactly_once); empty ranges give no invocation (C12_empty). Tie: parallel_for on real pools over all eight "
    "integer types (edge-biased and huge ranges, the 8-bit (start,end) grid), sorted invocation lists compared exactly with "
    "the model, plus a partition oracle.",
    "Trusted: Lean kernel; index arithmetic is unbounded Int in the model (end - start < 2^63); which thread claims a "
    "dynamic/stripe chunk is not modelled (the atomic cursors only decide who runs a chunk); completion at return / wait() "
    "is C02's barrier. Known finding (recorded, not repaired): adaptive wait=true 64-bit ranges ending at the type maximum "
    "overflow the stripe cursor.",
    "Lean 4 proof (case analysis of the plan, tilings) + differential correspondence on real pools",
    "DESIGN.md §5.2 C12",
)

claim(
    "C13",
    "On the same plan model: with granularity g > 1 and no explicit chunk size, every invocation except the last one in "
    "range order has a size that is a multiple of g, and the last one ends at the range end (C13_granularity, "
    "C13_last_ends_at_stop), for every start offset, size, chunking mode, wait mode and pool size. Tie and oracle as C12, "
    "with the granularity oracle evaluated on the real invocation lists.",
    "Trusted: as C12.",
    "Lean 4 proof (plan case analysis, divisibility) + differential correspondence on real pools",
    "DESIGN.md §5.2 C13",
)

claim(
    "C48",
    "On the parallel_for plan model (Model/ParFor.lean): the number of loop tasks (scheduled tasks plus the caller when it "
    "participates; each runs one body invocation at a time) is at most max(maxThreads, 1) and at most poolThreads + 1, no "
    "tail is run concurrently with scheduled chunks, and maxThreads in {0, 1} gives the serial plan (C48_tasks_bound, "
    "C48_tasks_pool, C48_tail_not_concurrent, C48_serial), for every chunking mode, wait mode, granularity and pool size; "
    "for for_each the same bound is C15_tasks_bound. Tie as C12; oracle: the maximum number of simultaneously active body "
    "invocations observed on real pools (bodies spin 30 us) never exceeds max(maxThreads, 1).",
    "Trusted: as C12; that each task runs its invocations sequentially is structural (one functor per task). The original "
    "overwrite of the budget for small explicitly chunked ranges is kept as planOld with proved counterexamples.",
    "Lean 4 proof (plan case analysis) + differential correspondence and concurrency oracle on real pools",
    "DESIGN.md §5.2 C48",
)

claim(
    "C30",
    "Graphs, subgraph clearing, setAllNodesIncomplete and the wave executor are modelled with the code's counters and "
    "dependents lists (Model/Graph.lean). Proved: for every acyclic graph in a consistent counter state the executor runs "
    "exactly the incomplete nodes, each once, every node after all of its incomplete predecessors, and everything ends "
    "complete; complete nodes are not run (C30_execute, C30_execute_skips_completed); every graph built from the empty graph "
    "by addSubgraph / addNode / dependsOn / biPropDependsOn is in such a state, so it can be executed directly "
    "(C30_construction_consistent, C30_construction_execute), as is any graph after setAllNodesIncomplete "
    "(C30_setAll_consistent); Subgraph::clear removes exactly the edges touching the cleared nodes and keeps numPredecessors "
    "equal to the in-degree (C30_clear, including the swap-with-last removal with early exit). Tie: random DAGs with "
    "subgraphs, clear/rebuild sequences and all three executors on a real pool; counters, dependents lists, run order "
    "(single-thread) / run set (parallel executors) compared with the model after every step; oracle: run-once, dependency "
    "order by timestamps, completeness.",
    "Trusted: Lean kernel; hand-written model checked on the explored graphs; fewer than 2^64-1 edges (EdgeBound); the "
    "parallel_for and ConcurrentTaskSet executors are modelled by the same wave semantics (their run *set* and final state "
    "are compared, the dependency order of their concurrent runs is checked by the oracle only).",
    "Lean 4 proof (loop invariants of the wave executor, construction and clear) + differential correspondence",
    "DESIGN.md §5.4 C30",
)

claim(
    "C31",
    "ForwardPropagator and the BiProp set bookkeeping are modelled (Model/Graph.lean). Proved: after propagation the "
    "incomplete nodes are exactly the forward-dependency closure of the marked nodes (C31_propagate), for BiProp graphs "
    "plus every member of a set that intersects the closure (C31_propagate_biprop), and the counters are consistent, so the "
    "executor then re-runs exactly that set in dependency order (C31_reexecute, C31_reexecute_biprop); "
    "setAllNodesIncomplete gives a full evaluation (C31_setAll_full); set merging keeps sets as equivalence classes — all "
    "members of both sets are repointed (C31_sets_ok, C31_sets_merge). Tie as C30, with the set of incomplete nodes after "
    "propagation compared against an independent closure computed by the harness (union-find over the declared BiProp "
    "edges).",
    "Trusted: as C30. For BiProp graphs dependents of set members that were only pulled in by the set stay complete (the "
    "proved statement says what holds instead of Closed).",
    "Lean 4 proof (BFS invariant, closure characterisation) + differential correspondence",
    "DESIGN.md §5.4 C31",
)

claim(
    "C33",
    "Concurrent growth of ConcurrentVector is modelled at the granularity of one action per atomic operation "
    "(Model/ConVecGrow.lean, generic interleaving semantics Core/Conc.lean): size_, buffers_[b] and one tag per element; "
    "emplace_back/push_back (fetch_add(1), the single-index allocAsNecessaryImpl with its load-then-store at the trigger "
    "index and its spin on the own bucket, the iterator's pointer fetch, the element construction), the grow_by family "
    "(fetch_add(d), the range variant: counting pass, one allocation, tryAssignBuffer pass = load then store, wait loops "
    "over the buckets of the range, pointer fetch, d constructions), grow_to_at_least (load, then grow_by or an iterator; "
    "the code has no CAS loop) and readers of elements that existed before; parameters: realloc strategy, first-bucket "
    "shift, initial size, initially allocated buckets, iterator kind. Proved for every number of threads and every "
    "interleaving: the fetch_adds return consecutive ranges, i.e. reservations are pairwise disjoint, tile [n0, size) and "
    "final size = initial size + total growth (C33_reservations_tile); reservations held by different threads are "
    "disjoint at every moment (C33_reservations_disjoint); whenever a thread is about to store buffers_[k] it is still "
    "null, the trigger index of k lies in that thread's reservation and no other thread is about to store it — no double "
    "allocation although tryAssignBuffer is not a CAS (C33_bucket_stored_once); a non-null bucket pointer never changes "
    "again, so references and iterators stay valid (C33_buffers_stable); whenever a thread constructs index x, x lies in "
    "its reservation, the bucket of x is allocated, the slot was never constructed and no other thread constructs x "
    "(C33_element_written_once, C33_range_allocated); a constructed element never changes and the initial elements keep "
    "their values (C33_elements_stable); a returned call's d elements hold exactly its tags (C33_call_result); in a "
    "quiescent state every index below size is constructed (C33_quiescent_complete); a reader of an initial element sees "
    "its initial value (C33_reader); if the vector starts in a state the sequential operations produce (bucket 0 and "
    "every bucket whose trigger index is below the initial size exist, C32_alloc_ahead), then whenever a thread spins on "
    "a null bucket pointer another thread, which is not waiting itself, is on its way to publish exactly that bucket "
    "(C33_wait_has_owner: no cyclic wait, no bucket nobody will allocate). Tie (trace validation): the real ConcurrentVector runs under the deterministic "
    "scheduler (8 trait sets: 3 strategies x inline/heap table x both iterator kinds, first buckets of 1, 2, 4 or a "
    "reserved capacity; random sequential prefix incl. reserve/shrink_to_fit; 2..4 threads x 1..3 operations with amounts "
    "crossing bucket boundaries); every atomic event on size_, buffers_[b] and the elements, every call/return and the "
    "final memory are replayed through the proved model (pointers compared for null/non-null, declared release/acquire "
    "orders of the bucket publication required). Oracle on the implementation: every call's unique tags sit at its "
    "returned position, final size = initial + total growth, initial elements / saved references / saved iterators "
    "unchanged, readers see the right values, iteration agrees with indexing, every bucket pointer stored at most once, "
    "bucket storage inside live malloc blocks and disjoint, every block referenced and freed at destruction, element "
    "lifetimes balanced, no operation hangs (scheduler livelock/deadlock report).",
    "Trusted: Lean kernel; hand-written model, tied to the code on the explored scenarios only; sequentially consistent "
    "interleaving semantics (memory orders are only checked as declared, C10); cachedPtrs_ (plain mirror of buffers_) and "
    "shouldDealloc_ are outside the concurrent model (operator[] results and the allocation log are checked by the "
    "oracle); termination of the wait loops is proved only in the form 'every awaited bucket has a non-waiting owner' "
    "(C33_wait_has_owner) — that the owner is eventually scheduled (fairness) is not formalised; the "
    "counting pass / assigning pass agreement (the block requested is exactly the block carved) is observed through the "
    "allocation log, not proved; element tags are non-zero; size stays below 2^63. grow_to_at_least may grow more than "
    "needed when called concurrently (load + fetch_add): the theorems and the oracle only require size >= n and exact "
    "accounting of what was added.",
    "Lean 4 proof (inductive invariant over all interleavings: reservation disjointness, trigger ownership, per-location "
    "facts; history lemma for the fetch_adds) + trace validation under dsched",
    "DESIGN.md §5.5 C33",
)


_SCHED_TIE = ("The tie runs random programs (0..3 pool threads, 0..2 extra producers, pool / TaskSet / ConcurrentTaskSet single, "
              "force-queued and bulk submissions, nested submissions, cancel, throwing bodies, wait / tryWait, concurrent resize incl. "
              "to zero, setSignalingWake, destruction) on the real code under the deterministic scheduler; every guarded observation hook "
              "(DISPENSO_VERIF_HOOK) and harness call / body marker is replayed through the same `step`; an event the ledger does not "
              "enable is a correspondence failure routed to the property whose rule rejected it. ")
_SCHED_NOTE = "Trusted: Lean kernel; the hand-written ledger model (tied to the code only on the explored programs and schedules); the observation hooks report each operation atomically with it (hook placement is part of the tie: a hook in the wrong place makes traces of the unchanged code unacceptable); dsched; sequential consistency; moodycamel's queue and the rings are abstract multiset tiers here (ring semantics: C34). Task identity at dequeue is resolved by the body that then begins (or, for a skipped cancelled task, by its set only)."

claim(
    "C01",
    "Model/Sched.lean is a ledger automaton over the events of ThreadPool + task sets (submission calls, workRemaining_ "
    "updates, pushes to and takes from the central queue / rings / steal rings, body begin/end, resize and destructor phases). "
    "Proved for every accepted trace of any length, any number of threads, sets and tasks: task ids begin at most once, only "
    "after submission, and end only after they began (C01_at_most_once); the destructor's final event is enabled only when "
    "every tier is empty and nothing is reserved, taken or running (C01_dtor_end_empty); tasks handed to the pool directly are "
    "never skipped or dropped (C01_pool_never_drops); hence once ~ThreadPool has returned every task handed to the pool "
    "directly has begun and ended exactly once (C01_exactly_once, C01_exactly_once_at_dtor, C01_quiescent_all_ran), nothing can "
    "be submitted afterwards (C01_no_submission_after_dtor), and for every task set bodies run + skipped-by-cancellation + "
    "dropped = submitted (C01_count_at_dtor, C01_quiescent_count). " + _SCHED_TIE + "Oracle: per-task invocation counters checked "
    "after ~ThreadPool for every pool size incl. zero, signalling and polling mode.",
    _SCHED_NOTE,
    "Lean 4 proof (inductive invariants over a ledger automaton) + trace validation of hook events under a deterministic scheduler",
    "DESIGN.md Part I, §5.1 C01",
)

claim(
    "C02",
    "Over the same ledger model: outstandingTaskCount_ of a set equals, in every reachable state, the number of its packaged "
    "tasks that are credited-but-unplaced, queued, held after the cancel guard, running, or finished but not yet decremented "
    "(C02_outstanding_exact, C02_credit_only_in_calls); therefore whenever wait / tryWait / the destructor read zero (the "
    "ts.zero hook, accepted only if the model's counter is zero: C02_zero_observed) no packaged task of the set is queued, "
    "held or running and no inline body of it can begin (C02_barrier, C02_barrier_no_inline_begin), every begun body of the "
    "set has ended and bodies + skipped + dropped = submitted (C02_bodies_complete, C02_tasks_accounted); a wait call reports "
    "completion only after such an observation made during that call (C02_wait_reports_done_only_after_zero, "
    "C02_wait_starts_unobserved). " + _SCHED_TIE +
    "Oracle: at every wait()/tryWait()==true return every task scheduled before the call has finished; no set task runs twice; "
    "tasks of never-cancelled sets all run; wait() never hangs (deadlock / livelock detection).",
    _SCHED_NOTE + " Contract assumed: nobody schedules to a ConcurrentTaskSet concurrently with wait() except tasks of the set.",
    "Lean 4 proof (counter-exactness invariant over a ledger automaton) + trace validation under a deterministic scheduler",
    "DESIGN.md Part I, §5.1 C02",
)

claim(
    "C03",
    "Safety part over the ledger model with resize events: conservation and exactly-once (C01 theorems) hold across any "
    "number of resizes; no task is ever in a per-thread ring at or above the published ring count (C03_rings_inside, "
    "C03_rings_inside_always: a push outside the ring count is rejected, C03_push_outside_rejected, and resizeLocked's "
    "publication of a ring count is rejected while a ring outside it holds work, C03_shrink_over_work_rejected), which is what "
    "lets waiters, who poll exactly the rings below numRings_, reach every ring task. " + _SCHED_TIE +
    "Oracle (resize-heavy programs): every task runs exactly once, every wait() and resize() returns (livelock detection), and "
    "after all waits no directly scheduled task is left where only the destructor will run it. Two genuine defects were found: "
    "ring pushes racing a shrinking resize (fixed: numRings_ no longer shrinks) and a task enqueued to the central queue of a "
    "pool that a concurrent resize(0) has just emptied (known finding, see known_findings.json): C03 does not hold in full on this tree.",
    _SCHED_NOTE + " 'Never strands' is stated as safety (where tasks may sit relative to who polls); fairness of the polling "
    "threads is outside the model.",
    "Lean 4 proof (ring-placement invariant + conservation over a ledger automaton) + trace validation + stranded-task / livelock oracle",
    "DESIGN.md Part I, §5.1 C03",
)

claim(
    "C04",
    "Over the ledger model: a cancel check that reads 'not cancelled' is rejected once the cancelling store has happened "
    "(C04_no_pass_after_cancel; the cancelled set only grows: C04_cancelled_monotone, C04_cancelled_monotone_run), and a body "
    "of a set task can begin only from a frame state established by such a passed check of that set in the same call / "
    "package wrapper (C04_begin_needs_guard); at trace level every accepted begin of a set task is preceded by a passed cancel "
    "check of that set by the same thread at the same stack depth, made while the set was not cancelled, with no other body "
    "begun at that depth in between (C04_body_after_passed_guard): no body starts after cancel() unless its guard point came "
    "first. " + _SCHED_TIE + "In particular the set's unpackaged inline run (ts.inline hook) is accepted only after a passed check "
    "in the same call, which is how the unguarded pool-overload branch of ConcurrentTaskSet::schedule was found (fixed). Oracle: a "
    "task whose schedule call started after cancel() returned never runs.",
    _SCHED_NOTE + " 'Start of a body' is read as the cancel check that guards it (the only reading a lock-free implementation "
    "can satisfy); in a bulk call one passed per-chunk check may cover the inline bodies of that chunk.",
    "Lean 4 proof (guard-point invariant and trace-level history theorem over a ledger automaton) + trace validation under a deterministic scheduler",
    "DESIGN.md Part I, §5.1 C04",
)

claim(
    "C05",
    "Over the ledger model's exception state machine (capture = CAS winner, rethrow in testAndResetException): a set holds at "
    "most one captured exception (C05_capture_once, C05_captured_nodup), rethrows ≤ captures ≤ rethrows + 1 in every reachable "
    "state (C05_capture_state, C05_rethrows_le_captures), a rethrow happens only in a wait call that has observed the counter at "
    "zero (C05_rethrow_after_zero), and a wait call that reports completion leaves no captured exception behind and reports an "
    "exception iff it rethrew (C05_done_delivers); the decrement owed by a throwing packaged task is tracked like any other, so "
    "C02's barrier survives exceptions. " + _SCHED_TIE + "Oracle: exceptions delivered ≤ captured, a captured exception is "
    "delivered by the next completed wait, waits still return.",
    _SCHED_NOTE + " Which exception object is delivered is not modelled (the CAS winner's, by construction of the code).",
    "Lean 4 proof (state-machine invariant over a ledger automaton) + trace validation under a deterministic scheduler",
    "DESIGN.md Part I, §5.1 C05",
)

claim(
    "C08",
    "Over the ledger model with the exact update sites of workRemaining_: in every reachable state the counter equals the "
    "credits of submission calls in progress + the number of queued tasks in all tiers + the decrements still owed by threads "
    "that took tasks (C08_accounting, C08_queue_bookkeeping); hence it is zero in every quiescent state (C08_quiescent_zero, "
    "C08_quiesce_event) and the thread that resizes the pool owes nothing when resizeLocked ends (C08_resize_end_settled). " +
    _SCHED_TIE + "Oracle: after all waits, with all directly scheduled tasks finished, the real counter (white-box read) returns "
    "to zero. The ring drains of resizeLocked / ~ThreadPool did not decrement (found by both the ledger and the oracle; fixed).",
    _SCHED_NOTE,
    "Lean 4 proof (accounting invariant over a ledger automaton) + trace validation + white-box counter oracle",
    "DESIGN.md Part I, §5.1 C08",
)

claim(
    "C47",
    "Over the ledger model: while a submission call carries ForceQueuingTag no body can begin on the calling thread "
    "(C47_fq_never_begins_inline) and neither the pool's nor the set's inline decision is enabled "
    "(C47_fq_blocks_inline_decisions); the tag of a frame is dropped only by the zero-thread path, which is enabled only when "
    "the pool has no threads or is being resized (C47_inline0_needs_no_threads, C47_fq_cleared_only_without_threads, "
    "C47_fq_cleared_top). " + _SCHED_TIE + "Oracle: a force-queued task never runs on its submitting thread before the call "
    "returns when the pool never had zero threads.",
    _SCHED_NOTE,
    "Lean 4 proof (frame invariant over a ledger automaton) + trace validation under a deterministic scheduler",
    "DESIGN.md Part I, §5.1 C47",
)

claim(
    "C46",
    "Model/InlineDepth.lean: the per-thread stack of running bodies with the guard of every bounded inline path "
    "(canInlineSchedule / InlineDepthGuard, kMaxInlineDepth = 32). Proved for every event sequence of any length: the number "
    "of nested guarded inline executions never exceeds 32 (C46_bounded), a guarded decision at depth 32 is rejected "
    "(C46_guard_rejects), and without zero-thread decisions no unguarded inline body is ever on the stack (C46_no_unguarded). "
    "Tie: chains of 40..200 tasks, each scheduling its successor through ThreadPool::schedule / scheduleBulk, TaskSet and "
    "ConcurrentTaskSet (light, heavy) schedule / scheduleBulk on overloaded pools, run on the real code under the deterministic "
    "scheduler; the inline-decision hooks and body begin/end markers are replayed through the model (a decision taken at depth "
    "≥ 32 is a correspondence failure). Oracle: bodies nest at most 34 deep on any thread whatever the chain length. "
    "ThreadPool::schedule / TaskSet::schedule had no guard (fixed); a zero-thread pool still inlines without bound (known finding).",
    "Trusted: Lean kernel; hand-written model; hooks; dsched. Pipeline, graph and future hand-offs use the same guard and are "
    "exercised by their own properties' harnesses; a body that itself calls wait() is user recursion and is not counted.",
    "Lean 4 proof (depth invariant) + trace validation of inline decisions under a deterministic scheduler + nesting-depth oracle",
    "DESIGN.md Part I, §5.1 C46",
)

ALL = ["C%02d" % i for i in range(1, 49)]
for _p in ALL:
    if _p not in CLAIMED:
        NOT_CLAIMED.setdefault(_p, "not claimed in this revision: model/proof/correspondence for it is not built yet (work order in DESIGN.md §11)")
