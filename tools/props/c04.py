from props import sched_common

THEOREMS = ["Dispenso.Sched." + t for t in ['C04_no_pass_after_cancel', 'C04_cancelled_monotone', 'C04_cancelled_monotone_run', 'C04_begin_needs_guard', 'C04_body_after_passed_guard']]
# (flavour, scenarios in the quick tier): 0 mixed, 1 without resize, 2 resize-heavy (incl. resize(0) held in join while a ring-routed bulk arrives), 3 overloaded pool + chains, 4 workers parked between submissions, 5 exception-heavy
FLAVOURS = [(1, 300), (0, 100)]


def run(ctx, replay):
    sched_common.run_sched(ctx, replay, "C04", "DispensoVerif.Props.C04", THEOREMS, FLAVOURS)
