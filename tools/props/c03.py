from props import sched_common

THEOREMS = ["Dispenso.Sched." + t for t in ['C03_rings_inside_always', 'C03_rings_inside', 'C03_push_outside_rejected', 'C03_shrink_over_work_rejected']]
# (flavour, scenarios in the quick tier): 0 mixed, 1 without resize, 2 resize-heavy (incl. resize(0) held in join while a ring-routed bulk arrives), 3 overloaded pool + chains, 4 workers parked between submissions, 5 exception-heavy
FLAVOURS = [(2, 400)]


def run(ctx, replay):
    sched_common.run_sched(ctx, replay, "C03", "DispensoVerif.Props.C03", THEOREMS, FLAVOURS)
