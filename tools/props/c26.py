import os
import re
import vlib

THEOREMS = ["Dispenso.TimedTask." + t for t in [
    "C26_run_count", "C26_no_start_after_cancel_returned", "C26_no_start_after_false_published_partial",
    "C26_no_start_after_false_inline", "C26_not_before_first_time_minus_buffer", "C26_dtor_return", "C26_dtor_waits",
    "C26_fixed_func_safe", "C26_start_after_false_return_counterexample", "C26_start_before_first_time_counterexample",
    "C26_old_dtor_destroys_func_before_call", "C26_old_dtor_destroys_func_during_closure",
    "C26_old_false_return_destroys_func_in_use"]]


def run(ctx, replay):
    ctx.cov["rule"] = ("random scenarios under the deterministic scheduler with virtual time: one real TimedTaskScheduler "
                       "(its own thread, priority queue, kickOffTask/addTimedTask from the compiled library), 1..2 timed tasks "
                       "(timesToRun 0/1/2/3/5/unbounded, first time in the past / inside the 10 us buffer / at its boundary / in "
                       "the spin, yield and sleep zones, period 0..600k ticks, steady or normal, function returning false at the "
                       "1st..3rd call, invocation durations up to 1.5 periods) on an inline schedulable, a thread per wrap, or a "
                       "real dispenso::ThreadPool(1|2); owner scripts: calls/cancel/detach/helper-thread cancel/destructor at "
                       "random times, right after the first kick-off decremented timesToRun, or while the first invocation runs; "
                       "every task's events (atomic operations on count/timesToRun/flags/inProgress, plain accesses to func, clock "
                       "values, wrap and invocation markers, API calls) are replayed through the Lean model; distinct = (backing, "
                       "timesToRun, period, falseAt, invocations, submissions, outcome flags)")
    ctx.trusted.append("dsched (our TSan-interface runtime, futex/sleep model and virtual clock); dispenso::getTime() replaced by "
                       "the virtual clock in units of 2^-30 s (timing.cpp not linked); TimedTaskScheduler::schedule()'s two "
                       "statements (private TimedTask constructor, addTimedTask) replicated in the harness")
    ctx.assumptions.append("sequentially consistent reading of the atomics (memory orders: C10); shared_ptr keeps the impl alive; "
                           "inProgress does not overflow 2^32; an invocation starts at wrap's cancelled-flag check")
    ctx.prove("DispensoVerif.Props.C26", THEOREMS)
    src = os.path.join(vlib.HARNESS, "conc", "c26_timedtask.cpp")
    exe, log = vlib.build_dsched_harness(src, with_lib=True)
    if not exe:
        ctx.broken.append(("harness:c26_timedtask", "does not compile against the current tree: " + log[-1500:]))
        return
    if replay and replay.get("args"):
        runs = [replay["args"]]
    elif ctx.tier == "quick":
        runs = [[ctx.seed, 260, 0]]
    else:
        runs = [[ctx.seed, 1200, 0], [ctx.seed + 1000, 1200, 0], [ctx.seed + 2000, 1200, 0]]
    seen = set()
    for args in runs:
        res = vlib.trace_validate(ctx, "timedtask", exe, args)
        # every oracle failure names its scenario: the replay re-runs exactly that one (<seed> 1 <scenario>)
        for sig, det in res["pfails"]:
            if sig in seen:
                continue
            seen.add(sig)
            m = re.search(r"scenario=(\d+) seed=(\d+)", det)
            one = [m.group(2), "1", m.group(1)] if m else [str(a) for a in args]
            ctx.fail(sig, det, {"kind": "input", "harness": "conc/c26_timedtask.cpp", "args": one, "detail": det})
        res["pfails"] = []
        vlib.standard_verdict(ctx, "timedtask", res, args, "conc/c26_timedtask.cpp")
