"""C10 — no data races under the weak memory model (partial: named hand-off protocols + sweeps).

(a) theorems: Props/C10.lean (happens-before model Core/HB.lean; race freedom of the payload of the
    SPSC ring, MPMC ring, AsyncRequest, CompletionEvent, Latch for every execution of the protocol
    models given the acceptor's order table; necessity witness for every non-relaxed table entry)
(b) tie: the V harnesses of the protocol properties are re-run; the trace acceptor compares the
    DECLARED order of every atomic operation of the real code (as reported by the TSan
    instrumentation of its call site) with the table the theorems are about; a rejected order is a
    C10 violation
(c) support: native stress harness under the real ThreadSanitizer over the whole library
"""
import os
import re
import time
from concurrent.futures import ThreadPoolExecutor

import vlib

THEOREMS = ["Dispenso." + t for t in [
    "C10_detector_sound", "C10_order_check_is_acceptors",
    "C10_spsc_need_le_req", "C10_spsc_race_free", "C10_spsc_order_needed",
    "C10_mpmc_need_le_req", "C10_mpmc_race_free", "C10_mpmc_order_needed",
    "C10_asyncreq_need_le_req", "C10_asyncreq_race_free", "C10_asyncreq_order_needed",
    "C10_event_need_le_req", "C10_event_race_free", "C10_event_order_needed",
    "C10_latch_need_le_req", "C10_latch_race_free", "C10_latch_order_needed",
    "C10_chaselev_discarded_read_races", "C10_chaselev_restore_store_races",
]]

# tie name (dvdriver plug-in), harness, build options, (quick args, thorough args) after the seed;
# `proved`: the payload race-freedom theorem of Props/C10.lean is about this binding's order table
V_TABLE = [
    ("event", "conc/c21_event.cpp", {}, ([150, "dfs:2:300"], [800, "dfs:3:3000"]), True),
    ("asyncreq", "conc/c24_async.cpp", {}, ([300], [2500]), True),
    ("mpmc", "conc/c34_mpmc.cpp", {}, ([300], [2000]), True),
    ("spsc", "conc/c35_spsc.cpp", {}, ([300], [2500]), True),
    ("ringvariants", "conc/c10_variants.cpp", {}, ([300], [2500]), True),
    ("chaselev", "conc/c36_chaselev.cpp", {"extra_flags": ["-O0"]}, ([300], [1200]), False),
    ("rwlock", "conc/c22_rwlock.cpp", {}, ([200], [1500]), False),
    ("distrw", "conc/c23_distrw.cpp", {}, ([200], [1500]), False),
    ("arena", "conc/c37_arena_conc.cpp", {}, ([150], [1200]), False),
    ("palloc", "conc/c42_poolalloc_conc.cpp",
     {"repo_cpps": ("tsan_annotations.cpp", "pool_allocator.cpp")}, ([200], [1500]), False),
]

# real-code happens-before oracle: the payload fields of each protocol's traces (named regions of
# the harness) are treated as plain data by the dvdriver plug-in `hbdet` (the detector HB.D)
HB_PLAIN = {"spsc": "slot", "mpmc": "data", "asyncreq": "obj", "chaselev": "slot"}

ORDER_RE = re.compile(r"declared memory order (\d+) weaker than the required (\d+): impl (\w+) (\S+)")
FENCE_RE = re.compile(r"fence declared with memory order (\d+), protocol requires (\d+)")
MO = {0: "relaxed", 1: "consume", 2: "acquire", 3: "release", 4: "acq_rel", 5: "seq_cst"}


def _order_violation(text):
    m = ORDER_RE.search(text)
    if m:
        f = re.sub(r"\+?\d+$", "", m.group(4))
        return ("%s %s" % (m.group(3), f), int(m.group(1)), int(m.group(2)))
    m = FENCE_RE.search(text)
    if m:
        return ("fence", int(m.group(1)), int(m.group(2)))
    return None


def _hb_wrapper(exe):
    """a wrapper that re-labels the trace blocks of `exe` for the `hbdet` plug-in"""
    w = exe + ".hbdet.sh"
    sed = "-E " + " ".join("-e 's/^TRACE-BEGIN %s( .*)?$/TRACE-BEGIN hbdet %s/'" % (k, v) for k, v in HB_PLAIN.items())
    with open(w, "w") as f:
        f.write("#!/bin/sh\n\"%s\" \"$@\" | grep -E '^(TRACE-|T |SCN )' | sed %s | grep -v '^TRACE-BEGIN [^h]'\n" % (exe, sed))
    os.chmod(w, 0o755)
    return w


def run_hb_oracle(ctx, tie, src, exe, args):
    """replay the same traces through the happens-before detector: a race on the payload of the REAL
    code's trace (declared orders, observed reads-from) is a C10 violation"""
    res = vlib.trace_validate(ctx, tie + ".hb", _hb_wrapper(exe), args, max_report=4)
    for mm in res["mismatches"]:
        m = re.search(r"data race: thread \d+ (\w+) ([A-Za-z]+)", mm.get("model", ""))
        what = ("%s %s" % (m.group(1), m.group(2))) if m else "access"
        sig = "hbrace:%s:%s" % (tie, what)
        ctx.fail(sig, "happens-before detector on a trace of the real code (%s): %s; trace: %s"
                 % (src, mm.get("model", ""), mm.get("desc", "")),
                 {"kind": "input", "tie": tie, "harness": src, "args": [str(a) for a in args],
                  "trace_prefix": mm.get("prefix", [])[-16:], "model_reply": mm.get("model", "")})
    return res["nreq"]


def run_order_tie(ctx, replay):
    """re-run the protocol V harnesses; a real-code atomic whose declared order is weaker than the
    table of the theorems is a C10 violation"""
    only = replay.get("tie") if replay else None
    table = [r for r in V_TABLE if only in (None, r[0])]

    def build(row):
        tie, src, kw, _, _ = row
        return row, vlib.build_dsched_harness(os.path.join(vlib.HARNESS, src), **kw)

    with ThreadPoolExecutor(max_workers=5) as ex:
        built = list(ex.map(build, table))
    checked = 0
    for (tie, src, kw, (qa, ta), proved), (exe, log) in built:
        if not exe:
            ctx.broken.append(("harness:" + os.path.basename(src), "does not compile against the current tree: " + log[-1200:]))
            continue
        if replay and replay.get("args") and only == tie:
            args = replay["args"]
        else:
            args = [ctx.seed] + (qa if ctx.tier == "quick" else ta)
        res = vlib.trace_validate(ctx, tie, exe, args, max_report=6)
        checked += res["nreq"]
        others = 0
        for mm in res["mismatches"]:
            ov = _order_violation(mm.get("model", ""))
            if ov:
                what, declared, required = ov
                sig = "order:%s:%s declared %s, required %s" % (tie, what, MO.get(declared, declared), MO.get(required, required))
                desc = ("the real code's atomic operation (%s, protocol %s) declares memory order %s but the order table "
                        "that the C10 race-freedom theorems%s presuppose requires %s; trace: %s"
                        % (what, tie, MO.get(declared, declared),
                           "" if proved else " (SC proofs of the protocol property; payload theorem pending)",
                           MO.get(required, required), mm.get("desc", "")))
                ctx.fail(sig, desc, {"kind": "input", "tie": tie, "harness": src, "args": [str(a) for a in args],
                                     "trace_prefix": mm.get("prefix", [])[-12:], "model_reply": mm.get("model", "")})
            else:
                others += 1
        if others or res["pfails"] or res["crashed"]:
            # not an order problem: reported by the protocol's own property; remembered here
            ctx.notes.setdefault("other_protocol_findings", []).append(
                {"tie": tie, "mismatches": others, "pfails": [p[0] for p in res["pfails"]][:3], "crashed": res["crashed"]})
        if tie in HB_PLAIN or tie == "ringvariants":
            ctx.notes["hb_oracle_traces"] = ctx.notes.get("hb_oracle_traces", 0) + run_hb_oracle(ctx, tie, src, exe, args)
    ctx.notes["order_tie_traces"] = checked


def run(ctx, replay):
    ctx.cov["rule"] = (
        "(1) order tie: the dsched V harnesses of Event/Latch, AsyncRequest, MPMC, SPSC, Chase-Lev, RWLock, "
        "DistributedRWLock, ConcurrentObjectArena and PoolAllocator are re-run; every atomic operation of the real "
        "code carries the memory order declared at its call site and the trace acceptor rejects one weaker than "
        "binding.reqOrder, the table the C10 theorems are stated over (harness/conc/c10_variants.cpp adds every push/pop "
        "overload of both rings); (1b) happens-before oracle: the same real-code traces of SPSC, MPMC, AsyncRequest and "
        "Chase-Lev are replayed through the proved detector HB.D (dvdriver plug-in hbdet; payload fields plain, declared "
        "orders and observed reads-from as recorded): an unordered payload access is a violation; (2) TSan sweep: a native stress harness over "
        "pool, task sets, parallel_for, futures, pipeline, graph, concurrent vector, rings, locks, allocators, timed "
        "tasks compiled (library included) with clang -fsanitize=thread; every data-race report is a violation; "
        "distinct = scenario shapes")
    ctx.assumptions += [
        "executions are sequentially consistent per atomic location (the theorems rule out races that need no "
        "reordering of the atomic history itself); fences and consume give no happens-before edge in the model",
        "client contracts of the theorems: one producer/one consumer (SPSC); one notifier that is the only writer "
        "(CompletionEvent); participants write only their own data before a single count_down (Latch)",
    ]
    ctx.trusted.append("the TSan instrumentation to report the declared order of each call site; ThreadSanitizer (clang 14) "
                       "for the native sweep, which only observes the schedules that happen to run")
    if replay and replay.get("harness", "").startswith("native/"):
        pass
    else:
        t0 = time.time()
        ctx.prove("DispensoVerif.Props.C10", THEOREMS)
        t1 = time.time()
        run_order_tie(ctx, replay)
        ctx.notes["timing_s"] = {"prove": round(t1 - t0, 1), "order_tie_and_hb_oracle": round(time.time() - t1, 1)}
        if replay:
            return
    try:
        from props import c10_tsan
    except ImportError as e:  # pragma: no cover
        ctx.broken.append(("harness:c10_tsan", "TSan sweep module missing: %s" % e))
        return
    t2 = time.time()
    c10_tsan.run_tsan(ctx, replay)
    ctx.notes.setdefault("timing_s", {})["tsan_sweep"] = round(time.time() - t2, 1)
