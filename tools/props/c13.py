import os, sys
sys.path.insert(0, os.path.dirname(os.path.abspath(__file__)))
import parfor_common

THEOREMS = ["Dispenso.ParFor." + t for t in ['C13_granularity', 'C13_last_ends_at_stop']]


def run(ctx, replay):
    parfor_common.run_parfor(ctx, replay, "C13", THEOREMS, "DispensoVerif.Props.C13", known_probe=False)
