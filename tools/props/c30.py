import os
import vlib

THEOREMS = ["Dispenso.Graph." + t for t in ['C30_execute', 'C30_execute_skips_completed', 'C30_construction_consistent', 'C30_construction_execute', 'C30_setAll_consistent', 'C30_clear', 'C30_clear_then_setAll']]
PROP = "C30"
MODULE = "DispensoVerif.Props.C30"


def run(ctx, replay):
    ctx.cov["rule"] = ("random DAGs (1..12 nodes, up to 3 subgraphs, random dependency edges against creation order, BiProp "
                       "edges for BiPropGraph), executed freshly built, after setAllNodesIncomplete, after marking random "
                       "nodes + ForwardPropagator, and after clearing and partly rebuilding a subgraph, with the "
                       "single-thread, parallel_for and ConcurrentTaskSet executors on a 3-thread pool; after every step the "
                       "counters and dependents lists of all nodes and the run order (single-thread) / run set (others) are "
                       "compared with the Lean model; oracle: run-once, dependency order, completeness, propagated closure; "
                       "distinct = distinct request lines")
    if THEOREMS:
        ctx.prove(MODULE, THEOREMS)
    else:
        vlib.lake_build(["dvdriver"])
    flags = ["-O1", "-g"] + vlib.SAN_FLAGS
    lib, log = vlib.build_lib(flags, tag="asan")
    if not lib:
        ctx.broken.append(("harness:libdispenso", "library does not compile: " + log[-1500:]))
        return
    src = os.path.join(vlib.HARNESS, "seq", "c30_graph.cpp")
    exe, log = vlib.build_harness(src, flags, lib=lib)
    if not exe:
        ctx.broken.append(("harness:c30_graph", "does not compile against the current tree: " + log[-1500:]))
        return
    q = ctx.tier == "quick"
    args = replay["args"] if replay and replay.get("args") else [PROP, ctx.seed, 300 if q else 20000]
    res = vlib.harness_diff(ctx, "graph", exe, args, timeout=3000, env={"ASAN_OPTIONS": "detect_leaks=0"})
    vlib.standard_verdict(ctx, "graph", res, args, "seq/c30_graph.cpp")
