import os
import vlib

THEOREMS = ["Dispenso.PoolAlloc." + t for t in ['C42_inv', 'C42_chunks_valid', 'C42_exclusive', 'C42_alloc_fresh', 'C42_clear_reuses', 'C42_alloc_prefers_reuse', 'C42_destroy_releases', 'C42_ledger', 'C42_balance_any', 'C42_lock_mutex', 'C42_lock_no_park']]


def run(ctx, replay):
    ctx.cov["rule"] = ("sequential layer: random alloc / dealloc / clear histories on NoLockPoolAllocator (chunk sizes 8..64 and arbitrary 1..70, "
                       "1..5 chunks per slab, slack bytes at the slab end) with logging allocFunc / deallocFunc, compared "
                       "with the Lean value model (slab, chunk index, allocFunc/deallocFunc call counts, capacity); after "
                       "each clear() the cleared slabs are drained to check reuse; concurrent layer: PoolAllocator from "
                       "2..4 threads under the deterministic scheduler (chunk 13..65536 bytes, slabs up to 128 KiB), lock-word trace replayed through the Lean model, "
                       "oracle: no chunk handed out twice, chunks inside slabs; distinct = distinct request lines / shapes")
    ctx.assumptions += ["allocSize >= chunkSize (class precondition); clear() is called with no chunk in use"]
    if THEOREMS:
        ctx.prove("DispensoVerif.Props.C42", THEOREMS)
    else:
        vlib.lake_build(["dvdriver"])
    flags = ["-O1", "-g"] + vlib.SAN_FLAGS
    lib, log = vlib.build_lib(flags, tag="asan")
    if not lib:
        ctx.broken.append(("harness:libdispenso", "library does not compile: " + log[-1500:]))
        return
    src = os.path.join(vlib.HARNESS, "seq", "c42_poolalloc.cpp")
    exe, log = vlib.build_harness(src, flags, lib=lib)
    if not exe:
        ctx.broken.append(("harness:c42_poolalloc", "does not compile against the current tree: " + log[-1500:]))
        return
    q = ctx.tier == "quick"
    args = replay["args"] if replay and replay.get("args") else [ctx.seed, 300 if q else 10000, 30 if q else 80]
    res = vlib.harness_diff(ctx, "pallocseq", exe, args)
    vlib.standard_verdict(ctx, "pallocseq", res, args, "seq/c42_poolalloc.cpp")
    if replay:
        return
    src2 = os.path.join(vlib.HARNESS, "conc", "c42_poolalloc_conc.cpp")
    exe2, log = vlib.build_dsched_harness(src2, repo_cpps=("tsan_annotations.cpp", "pool_allocator.cpp"))
    if not exe2:
        ctx.broken.append(("harness:c42_poolalloc_conc", "does not compile against the current tree: " + log[-1500:]))
        return
    a2 = [ctx.seed, 300 if q else 10000]
    res2 = vlib.trace_validate(ctx, "palloc", exe2, a2)
    vlib.standard_verdict(ctx, "palloc", res2, a2, "conc/c42_poolalloc_conc.cpp")
