import os
import vlib

THEOREMS = ["Dispenso.ConVecGrow." + t for t in [
    "C33_reservations_tile", "C33_reservations_disjoint", "C33_bucket_stored_once", "C33_buffers_stable",
    "C33_element_written_once", "C33_elements_stable", "C33_call_result", "C33_quiescent_complete",
    "C33_reader", "C33_range_allocated", "C33_wait_has_owner"]]


def run(ctx, replay):
    ctx.cov["rule"] = ("random scenarios under the deterministic scheduler: a ConcurrentVector (8 trait sets: all three "
                       "realloc strategies, inline/heap buffer table, pointer-caching/compact iterators, first buckets of "
                       "1, 2 and 4 elements or a reserved capacity) gets a random sequential prefix (initial elements, "
                       "sometimes reserve / shrink_to_fit), then 2..4 threads run 1..3 operations each out of emplace_back, "
                       "push_back, grow_by(n, t), grow_by_generator, grow_by(first, last), grow_to_at_least and reads of "
                       "initial elements, with amounts that cross bucket boundaries; every atomic event on size_, "
                       "buffers_[b] and the elements plus the final state is replayed through the Lean model; "
                       "distinct = (traits, first bucket, initial size, initial buckets, threads, final size)")
    if THEOREMS:
        ctx.prove("DispensoVerif.Props.C33", THEOREMS)
    else:
        vlib.lake_build(["dvdriver"])
    src = os.path.join(vlib.HARNESS, "conc", "c33_convec_grow.cpp")
    exe, log = vlib.build_dsched_harness(src)
    if not exe:
        ctx.broken.append(("harness:c33_convec_grow", "does not compile against the current tree: " + log[-1500:]))
        return
    args = replay["args"] if replay and replay.get("args") else [ctx.seed, 1200 if ctx.tier == "quick" else 15000]
    res = vlib.trace_validate(ctx, "cvgrow", exe, args)
    vlib.standard_verdict(ctx, "cvgrow", res, args, "conc/c33_convec_grow.cpp")
