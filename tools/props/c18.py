import os
import vlib

THEOREMS = ["Dispenso.Future." + t for t in [
    "C18_functor_at_most_once", "C18_ready_means_ran_once", "C18_waiter_returns_after_ready", "C18_get_same_result",
    "C18_get_reads_live_object", "C18_refcount", "C18_no_use_after_free", "C18_taskset_counter",
    "C18_no_lost_wakeup"]]


def run(ctx, replay):
    ctx.cov["rule"] = ("random scenarios: one Future<Payload> created through a gated schedulable / ImmediateInvoker / "
                       "TaskSet / ConcurrentTaskSet, closure released to a ThreadPool (1..3 threads), a new thread or a dedicated "
                       "thread; 1..4 threads with their own copies call wait / get / wait_for / wait_until / is_ready / "
                       "copy / destroy; deferred and non-deferred, throwing and returning functors; deterministic "
                       "scheduler (random / PCT, EINTR injection, virtual time); every trace of status_/refCount_/result/"
                       "invocation counter/task-set counter events is replayed through the Lean model; distinct = "
                       "(schedulable, waiters, policy, op sequences)")
    if THEOREMS:
        ctx.prove("DispensoVerif.Props.C18", THEOREMS)
    else:
        vlib.lake_build(["dvdriver"])
    src = os.path.join(vlib.HARNESS, "conc", "c18_future.cpp")
    exe, log = vlib.build_dsched_harness(src, with_lib=True)
    if not exe:
        ctx.broken.append(("harness:c18_future", "does not compile against the current tree: " + log[-1500:]))
        return
    args = replay["args"] if replay and replay.get("args") else [ctx.seed, 250 if ctx.tier == "quick" else 6000]
    res = vlib.trace_validate(ctx, "future", exe, args)
    vlib.standard_verdict(ctx, "future", res, args, "conc/c18_future.cpp")
