from props import wake_common
import vlib

THEOREMS = ["Dispenso.Wake." + t for t in [
    "C09_stop_completes", "C09_no_worker_parked", "C09_futex_wait_cannot_block", "C09_stop_permanent",
    "C09_exited_is_final", "C09_old_wakeAll_leaves_worker_parked"]]


def run(ctx, replay):
    ctx.cov["rule"] = wake_common.RULE
    wake_common.trusted(ctx)
    ctx.prove("DispensoVerif.Props.C09", THEOREMS)
    rargs = replay.get("args") if replay else None
    rh = replay.get("harness") if replay else None
    if not rargs or rh == wake_common.COMPONENT:
        # stop + wakeAll at random moments (mode 9) and after all-parked wake-ups (mode 7); both end with the stop path
        if rargs:
            wake_common.run_component(ctx, "C09", 0, 0, 0, rargs)
        else:
            wake_common.run_component(ctx, "C09", 9, 220, 1800)
            wake_common.run_component(ctx, "C09", 7, 120, 900)
    if not rargs or rh == wake_common.POOL:
        wake_common.run_pool(ctx, "C09", 9, 200, 1000, rargs)
