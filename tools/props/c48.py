import os, sys
sys.path.insert(0, os.path.dirname(os.path.abspath(__file__)))
import parfor_common

THEOREMS = ["Dispenso.ParFor." + t for t in ["C48_tasks_bound", "C48_serial", "C48_tasks_pool", "C48_tail_not_concurrent"]]


def run(ctx, replay):
    parfor_common.run_parfor(ctx, replay, "C48", THEOREMS, "DispensoVerif.Props.C48", known_probe=False)
