import os, sys
sys.path.insert(0, os.path.dirname(os.path.abspath(__file__)))
import pipe_common
import vlib  # noqa: F401

THEOREMS = ["Dispenso.Pipe." + t for t in ['C29_never_twice', 'C29_run_or_released_once', 'C29_generator_stops', 'C29_first_exception_partial', 'C29_no_forgotten_closure', 'C29_old_skipped_generator_hangs', 'C29_old_skipped_closure_leaks', 'C29_old_queue_left_behind', 'C29_old_exception_escapes_execute']]


def run(ctx, replay):
    ctx.cov["rule"] = ("the pipeline scenarios of C27 with one or two throwing stages (generator, transform, filter or sink; "
                       "first / middle / last item); oracle: first exception rethrown, no (item, stage) twice, no stage activity "
                       "once execute()/wait() are over, ledger of item objects (constructed == destroyed after the pool is "
                       "gone), a second pipeline on the same pool delivers everything, no run hangs; traces replayed through the "
                       "Lean model of the repaired code - a trace that only a variant with an original (unrepaired) behaviour "
                       "accepts is a violation; distinct = (stages, pool, items, unlimited pattern, throw plan, outcome)")
    q = ctx.tier == "quick"
    plan = [(1, 800 if q else 10000, 40 if q else 100)]
    pipe_common.run_pipe(ctx, "C29", THEOREMS, "DispensoVerif.Props.C29", plan, replay, variant_is_violation=True)
    if replay:
        return
    # native runs under AddressSanitizer + LeakSanitizer (real threads, items own heap memory)
    import os
    flags = ["-O1", "-g"] + vlib.SAN_FLAGS
    lib, log = vlib.build_lib(flags, tag="asan")
    if not lib:
        ctx.broken.append(("harness:libdispenso", "library does not compile: " + log[-1500:]))
        return
    src = os.path.join(vlib.HARNESS, "seq", "c29_pipeline_native.cpp")
    exe, log = vlib.build_harness(src, flags, lib=lib)
    if not exe:
        ctx.broken.append(("harness:c29_pipeline_native", "does not compile against the current tree: " + log[-1500:]))
        return
    args = [ctx.seed, 150 if q else 3000]
    tmo = 90 if q else 900
    res = vlib.harness_diff(ctx, "pipe_native", exe, args, timeout=tmo)
    if res["rc"] == 124:
        # a native run that does not finish: the same failure the deterministic scheduler reports as a stuck run
        ctx.fail("pipeline() never returns", "native (ASan) pipeline runs did not finish within %d s: args %s" % (tmo, args),
                 {"kind": "input", "harness": "seq/c29_pipeline_native.cpp", "args": [str(a) for a in args]})
        res["crashed"] = False
    vlib.standard_verdict(ctx, "pipe_native", res, args, "seq/c29_pipeline_native.cpp")
