"""Shared check logic of the pool / task-set cluster (C01, C02, C03, C04, C05, C08, C47): one harness
(harness/conc/c01_sched.cpp) runs the real ThreadPool + TaskSet + ConcurrentTaskSet under the
deterministic scheduler; its event traces are replayed through the Lean ledger model (Model/Sched.lean)
and its oracles print PFAIL records.  Every property of the cluster runs the same scenarios; failures are
routed to the property whose statement they contradict."""
import os
import re
import vlib

# oracle signature -> property
PFAIL_ROUTE = [
    ("task handed to the pool did not run exactly once", "C01"),
    ("task-set task ran more than once", "C02"),
    ("task of a never-cancelled task set did not run", "C02"),
    ("task-set wait returned", ("C02", "C05")),
    ("pool / task-set operation never returns while the pool is being resized", "C03"),
    ("pool / task-set operation never returns", "C02"),
    ("task stranded", "C03"),
    ("task scheduled after cancel() returned was executed", "C04"),
    ("more exceptions delivered", "C05"),
    ("captured exception never delivered", "C05"),
    ("exception thrown by a task of the set was never delivered", "C05"),
    ("task scheduled by a task that resize() itself ran", "C03"),
    ("pool pending-work counter not zero at quiescence", "C08"),
    ("ForceQueuingTag task ran on the scheduling caller", "C47"),
]

# rejected trace event -> properties whose theorems rest on the ledger rule that rejected it
EVENT_ROUTE = [
    (r"^T \d+ begin ", ("C01", "C02")),
    (r"^T \d+ h pool\.dtor\.end|^T \d+ ret pooldtor", ("C01",)),
    (r"^T \d+ h pool\.resize\.end", ("C08", "C03")),
    (r"^T \d+ h pool\.count|^T \d+ quiesce", ("C08",)),
    (r"^T \d+ h pool\.push\.ring", ("C01", "C02", "C03", "C08")),
    (r"^T \d+ h pool\.push|^T \d+ h pool\.take|^T \d+ ret sched|^T \d+ ret bulk|^T \d+ gen ", ("C01", "C02", "C08")),
    (r"^T \d+ h ts\.zero|^T \d+ ret wait", ("C02", "C05")),
    (r"^T \d+ h ts\.dec|^T \d+ h ts\.inc|^T \d+ end ", ("C02",)),
    (r"^T \d+ h ts\.inline|^T \d+ h ts\.guard|^T \d+ ret cancel", ("C04",)),
    (r"^T \d+ h ts\.capture|^T \d+ h ts\.rethrow", ("C05",)),
    (r"^T \d+ h pool\.inline", ("C47",)),
    (r"^T \d+ h pool\.rings|^T \d+ h pool\.ctor", ("C03",)),
]


def route_pfail(sig):
    for pre, pid in PFAIL_ROUTE:
        if sig.startswith(pre):
            return pid if isinstance(pid, tuple) else (pid,)
    return ("C01",)


def route_event(line):
    for rx, pids in EVENT_ROUTE:
        if re.search(rx, line):
            return pids
    return ("C01",)


RULE = ("random programs on the real ThreadPool (0..3 threads, load multipliers 1/2/32, signalling or polling wake) with "
        "0..2 extra producer threads: pool schedule / ForceQueuingTag / scheduleBulk, TaskSet and ConcurrentTaskSet "
        "(light and heavy cost, small load factors forcing the inline paths) single / force-queued / bulk / bulk "
        "force-queued submissions, nested submissions and nested task sets from task bodies, cancel(), throwing "
        "bodies (also after cancelling their own set), lingering bodies, kOn child sets created inside tasks, chains of tasks that "
        "schedule their successor on an overloaded pool, workers parked between submissions (steal rings), wait / tryWait, "
        "concurrent resize() (incl. to zero, incl. resize(0) held in join() while a ring-routed bulk arrives) and "
        "setSignalingWake, pool destruction with and without prior quiescence; run under "
        "the deterministic scheduler (random and PCT schedules); every hook / call / body event is replayed through "
        "the Lean ledger model; distinct = (pool size, load, producers, resize, throwing, task-count buckets)")


def run_sched(ctx, replay, pid, module, theorems, flavours):
    ctx.cov["rule"] = RULE
    ctx.assumptions += ["ConcurrentTaskSet::wait() is not called concurrently with schedule() from other threads "
                        "(class contract); task bodies of directly submitted pool tasks do not submit further work "
                        "while the pool is being destroyed"]
    if theorems:
        ctx.prove(module, theorems)
    else:
        vlib.lake_build(["dvdriver"])
    src = os.path.join(vlib.HARNESS, "conc", "c01_sched.cpp")
    # the library's own tuning knob: workers park after a short spin, so that parked-worker paths (proactive
    # wake, steal rings) are reached within a few hundred scheduling steps
    exe, log = vlib.build_dsched_harness(src, with_lib=True, extra_flags=("-DDISPENSO_TUNE_FIXED_SPIN_ITERS=72",))
    if not exe:
        ctx.broken.append(("harness:c01_sched", "does not compile against the current tree: " + log[-1500:]))
        return
    q = ctx.tier == "quick"
    if replay and replay.get("args"):
        runs = [list(replay["args"])]
    else:
        runs = [[ctx.seed, n if q else n * 25, fl, 0] for fl, n in flavours]
    for args in runs:
        args = [int(a) for a in args] + [0] * (4 - len(args))
        total = args[1]
        guard = 0
        while args[3] < total and guard < 40:
            guard += 1
            res = vlib.trace_validate(ctx, "sched", exe, args)
            mine = {"ok": True, "pfails": [], "mismatches": [], "crashed": res["crashed"], "rc": res["rc"], "tail": res["tail"]}
            for sig, det in res["pfails"]:
                if pid in route_pfail(sig):
                    mine["pfails"].append((sig, det))
                else:
                    ctx.notes.setdefault("failures_routed_to_other_properties", {})
                    k = "/".join(route_pfail(sig)) + ": " + sig
                    ctx.notes["failures_routed_to_other_properties"][k] = ctx.notes["failures_routed_to_other_properties"].get(k, 0) + 1
            for m in res["mismatches"]:
                if pid in route_event(m["line"]):
                    mine["mismatches"].append(m)
                else:
                    ctx.notes.setdefault("failures_routed_to_other_properties", {})
                    k = "/".join(route_event(m["line"])) + ": ledger rejected " + " ".join(m["line"].split()[2:4])
                    ctx.notes["failures_routed_to_other_properties"][k] = ctx.notes["failures_routed_to_other_properties"].get(k, 0) + 1
            vlib.standard_verdict(ctx, "sched", mine, args, "conc/c01_sched.cpp")
            # a run that got stuck ends the process: continue after the stuck scenario
            stuck = any("never returns" in s for s, _ in res["pfails"])
            if not stuck:
                break
            last = res.get("last_scn")
            if last is None:
                break
            args = [args[0], total, args[2], last + 1]
