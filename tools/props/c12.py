import os, sys
sys.path.insert(0, os.path.dirname(os.path.abspath(__file__)))
import parfor_common

THEOREMS = ["Dispenso.ParFor." + t for t in ['C12_partition', 'C12_exactly_once', 'C12_empty']]


def run(ctx, replay):
    parfor_common.run_parfor(ctx, replay, "C12", THEOREMS, "DispensoVerif.Props.C12", known_probe=True)
