import os, sys
sys.path.insert(0, os.path.dirname(os.path.abspath(__file__)))
import pipe_common
import vlib  # noqa: F401

THEOREMS = ["Dispenso.Pipe." + t for t in ['C27_never_twice', 'C27_drained', 'C27_exactly_once']]


def run(ctx, replay):
    ctx.cov["rule"] = ("random pipelines on the real code under the deterministic scheduler: 1..4 stages, stage limits 1..3 / "
                       "unlimited / plain functions, transform / OpResult / std::optional filter stages, pool sizes 0..3 with "
                       "poolLoadMultiplier 32 or 1, 0..12 items, no throwing stage; most runs use a white-box replica of "
                       "pipeline()'s four statements so that resources_/outstanding_ of every stage and the task set's words are "
                       "traced, and each such trace (atomic operations + stage begin/end notes) is replayed through the Lean model; "
                       "oracle on every run: per-(item,stage) counts, values, no activity after return; "
                       "distinct = (stages, pool, items, unlimited pattern, delivered count)")
    q = ctx.tier == "quick"
    plan = [(0, 700 if q else 9000, 100 if q else 500)]
    pipe_common.run_pipe(ctx, "C27", THEOREMS, "DispensoVerif.Props.C27", plan, replay, variant_is_violation=False)
