import os
import vlib

THEOREMS = ["Dispenso.SmallVec." + t for t in ["C38_ledger", "C38_all_destroyed", "C38_capacity", "C38_elem_aligned", "C38_wf_reachable", "C38_sem_mkCount", "C38_sem_copyCtor", "C38_sem_moveCtor", "C38_sem_copyAssign", "C38_sem_moveAssign", "C38_sem_pushBack", "C38_sem_popBack", "C38_sem_resize", "C38_sem_reserve", "C38_sem_reserve_cap", "C38_sem_clear", "C38_sem_erase", "C38_sem_frame"]]


def run(ctx, replay):
    ctx.cov["rule"] = ("random operation sequences (constructors, copy/move construct and assign incl. self-assignment, "
                       "push/emplace/pop, resize, reserve, clear, erase, destroy) over pools of SmallVector<Tracked,N>, "
                       "N in {1,2,4,8}, mirrored on std::vector<Tracked> and on the Lean model (size, capacity, contents, "
                       "live-element count compared after every operation); plus an alignment stream with element types "
                       "over-aligned to 16..128 bytes in a build without ASan, and a stream of push_back(v[i]) with an aliasing argument; distinct = distinct request lines")
    if THEOREMS:
        ctx.prove("DispensoVerif.Props.C38", THEOREMS)
    else:
        vlib.lake_build(["dvdriver"])
    src = os.path.join(vlib.HARNESS, "seq", "c38_smallvec.cpp")
    exe, log = vlib.build_harness(src, ["-O1", "-g"] + vlib.SAN_FLAGS)
    if not exe:
        ctx.broken.append(("harness:c38_smallvec", "does not compile against the current tree: " + log[-1500:]))
        return
    q = ctx.tier == "quick"
    args = replay["args"] if replay and replay.get("args") else [ctx.seed, 300 if q else 10000, 16 if q else 40, "ops"]
    if args[-1] == "ops":
        res = vlib.harness_diff(ctx, "svec", exe, args)
        vlib.standard_verdict(ctx, "svec", res, args, "seq/c38_smallvec.cpp")
    if not replay or args[-1] == "selfref":
        a3 = args if (replay and args[-1] == "selfref") else [ctx.seed, 100 if q else 5000, 0, "selfref"]
        res3 = vlib.harness_diff(ctx, "svec_selfref", exe, a3)
        vlib.standard_verdict(ctx, "svec_selfref", res3, a3, "seq/c38_smallvec.cpp")
    if not replay or args[-1] == "align":
        exe2, log = vlib.build_harness(src, ["-O1", "-g"], name="c38_smallvec_plain")
        if not exe2:
            ctx.broken.append(("harness:c38_smallvec_plain", log[-1500:]))
            return
        a2 = args if (replay and args[-1] == "align") else [ctx.seed, 60 if q else 2000, 0, "align"]
        res2 = vlib.harness_diff(ctx, "svec_align", exe2, a2)
        vlib.standard_verdict(ctx, "svec_align", res2, a2, "seq/c38_smallvec.cpp")
