import os
import vlib

THEOREMS = ["Dispenso.Bits.C44_nextPow2", "Dispenso.Bits.C44_log2const64", "Dispenso.Bits.C44_log2const32",
            "Dispenso.Bits.C44_alignToCacheLine", "Dispenso.Bits.C44_alignedMalloc"]


def run(ctx, replay):
    ctx.cov["rule"] = ("structured (all values <= 1100, single bits, 2^k±1, masks) plus random 64-bit inputs through the "
                       "compiled functions vs the Lean model (nextPow2, log2const, alignToCacheLine, alignedMalloc "
                       "arithmetic) or vs the Lean mathematical spec (intrinsic-based log2/ctz/popcount); thorough adds "
                       "all 2^32 32-bit inputs against a reference; distinct = distinct request lines")
    ctx.assumptions += ["log2/countTrailingZeros/countSetBits use bsr/ctz/popcount intrinsics: compared with the Lean "
                        "specification on the explored inputs, not proved", "malloc returns 16-byte aligned blocks"]
    ctx.prove("DispensoVerif.Props.C44", THEOREMS)
    src = os.path.join(vlib.HARNESS, "seq", "c44_bits.cpp")
    exe, log = vlib.build_harness(src, ["-O1", "-g"] + vlib.SAN_FLAGS)
    if not exe:
        ctx.broken.append(("harness:c44_bits", "does not compile against the current tree: " + log[-1500:]))
        return
    args = replay["args"] if replay and replay.get("args") else [ctx.seed, 3000 if ctx.tier == "quick" else 300000, 0]
    res = vlib.harness_diff(ctx, "bits", exe, args)
    vlib.standard_verdict(ctx, "bits", res, args, "seq/c44_bits.cpp")
    if ctx.tier == "thorough" and not replay:
        exe2, log = vlib.build_harness(src, ["-O2"], name="c44_bits_fast")
        if exe2:
            a2 = [ctx.seed, 10, 1]
            res2 = vlib.harness_diff(ctx, "bits32", exe2, a2, timeout=3000)
            vlib.standard_verdict(ctx, "bits32", res2, a2, "seq/c44_bits.cpp")
            ctx.notes["exhaustive_32bit"] = True
