import os
import vlib

THEOREMS = ["Dispenso.Mpmc." + t for t in ['C34_bounds', 'C34_claim_unique', 'C34_slot_exclusive', 'C34_pop_gets_pushed_value', 'C34_data_written_by_owner', 'C34_full_unowned', 'C34_batch_claims_validated', 'C34_push_claim_validated', 'C34_pop_claim_validated', 'C34_quiescent', 'C34_quiescent_push_succeeds', 'C34_quiescent_push_fails', 'C34_quiescent_pop_succeeds', 'C34_quiescent_pop_fails', 'C34_fifo_history', 'C34_fifo_history_fun', 'C34_history_complete']]


def run(ctx, replay):
    ctx.cov["rule"] = ('1..3 producers (try_push / try_push_batch with unique tags) and 1..3 consumers (try_pop / try_pop_into / size) on MpmcRingBuffer with capacities 2,3,4,5,8 (exact and power-of-two) under the deterministic scheduler, then a quiescent fill and drain; every trace replayed through the Lean model; oracle: no element twice or invented, size <= capacity, quiescent acceptance = free space, lifetimes balance; distinct = (K, producers, consumers, #pushed, #popped)')
    if THEOREMS:
        ctx.prove("DispensoVerif.Props.C34", THEOREMS)
    else:
        vlib.lake_build(["dvdriver"])
    src = os.path.join(vlib.HARNESS, "conc", "c34_mpmc.cpp")
    exe, log = vlib.build_dsched_harness(src)
    if not exe:
        ctx.broken.append(("harness:c34_mpmc", "does not compile against the current tree: " + log[-1500:]))
        return
    args = replay["args"] if replay and replay.get("args") else [ctx.seed, 400 if ctx.tier == "quick" else 20000]
    res = vlib.trace_validate(ctx, "mpmc", exe, args)
    vlib.standard_verdict(ctx, "mpmc", res, args, "conc/c34_mpmc.cpp")
