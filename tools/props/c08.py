from props import sched_common

THEOREMS = ["Dispenso.Sched." + t for t in ['C08_accounting', 'C08_queue_bookkeeping', 'C08_quiescent_zero', 'C08_quiesce_event', 'C08_resize_end_settled']]
# (flavour, scenarios in the quick tier): 0 mixed, 1 without resize, 2 resize-heavy (incl. resize(0) held in join while a ring-routed bulk arrives), 3 overloaded pool + chains, 4 workers parked between submissions, 5 exception-heavy
FLAVOURS = [(2, 160), (0, 120), (1, 40), (4, 80)]


def run(ctx, replay):
    sched_common.run_sched(ctx, replay, "C08", "DispensoVerif.Props.C08", THEOREMS, FLAVOURS)
