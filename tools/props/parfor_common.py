import os
import vlib


PROBE64_SIG = "parallel_for adaptive wait=true 64-bit range ending at the type maximum (stripe cursor overflow)"


def run_parfor(ctx, replay, prop, theorems, module, known_probe=False, thorough_samples=4000, thorough_stride=1):
    ctx.cov["rule"] = ("parallel_for calls on real pools of 0..4 threads over all eight integer index types: edge-biased "
                       "(start, end) pairs (type limits, +-1, zero, random; lengths from empty to 2^62), chunking mode "
                       "(static / adaptive / explicit 1..5), maxThreads (0,1,2,3,4,5,8,INT32_MAX), wait, minItemsPerChunk, "
                       "granularity, nesting, TaskSet / ConcurrentTaskSet, stateful / stateless; quick samples the 8-bit "
                       "(start,end) grid with a stride, thorough visits every pair; the sorted list of body invocations of "
                       "every call is compared with the Lean plan model and the property's oracle is evaluated on it; "
                       "distinct = distinct request lines")
    if theorems:
        ctx.prove(module, theorems)
    else:
        vlib.lake_build(["dvdriver"])
    src = os.path.join(vlib.HARNESS, "seq", "c12_parfor.cpp")
    flags = ["-O1", "-g"] + vlib.SAN_FLAGS
    lib, log = vlib.build_lib(flags, tag="asan")
    if not lib:
        ctx.broken.append(("harness:libdispenso", "library does not compile: " + log[-1500:]))
        return
    from concurrent.futures import ThreadPoolExecutor
    types = [("int8_t", "int8", 8, 1), ("uint8_t", "uint8", 8, 0), ("int16_t", "int16", 16, 1), ("uint16_t", "uint16", 16, 0),
             ("int32_t", "int32", 32, 1), ("uint32_t", "uint32", 32, 0), ("int64_t", "int64", 64, 1), ("uint64_t", "uint64", 64, 0)]

    def build(t):
        f = flags + ["-DPF_T=" + t[0], '-DPF_NAME="%s"' % t[1], "-DPF_BITS=%d" % t[2], "-DPF_SIGNED=%d" % t[3]]
        return vlib.build_harness(src, f, name="c12_parfor_" + t[1], lib=lib)

    with ThreadPoolExecutor(8) as ex:
        exes = list(ex.map(build, types))
    for (exe, log), t in zip(exes, types):
        if not exe:
            ctx.broken.append(("harness:c12_parfor_" + t[1], "does not compile against the current tree: " + log[-1500:]))
            return
    q = ctx.tier == "quick"
    env = {"ASAN_OPTIONS": "detect_leaks=0"}
    jobs = []
    if replay and replay.get("args"):
        jobs = [(replay.get("type_index", 0), replay["args"])]
    else:
        for i, t in enumerate(types):
            jobs.append((i, [prop, ctx.seed, 120 if q else thorough_samples, "sample"]))
            if t[2] == 8:
                jobs.append((i, [prop, ctx.seed, 97 if q else thorough_stride, "exh8"]))

    def runjob(j):
        i, args = j
        sub = vlib.Ctx(ctx.pid, ctx.tier, ctx.seed)   # private accumulator, merged below
        res = vlib.harness_diff(sub, "parfor", exes[i][0], args, timeout=3000, env=env)
        return i, args, res, sub

    with ThreadPoolExecutor(8) as ex:
        results = list(ex.map(runjob, jobs))
    for i, args, res, sub in results:
        for k in ("evaluations", "distinct_nontrivial", "traces_validated_against_impl"):
            ctx.cov[k] += sub.cov[k]
        ctx.add_samples(sub.cov["samples"][:1])
        for k, v in sub.notes.get("stats", {}).items():
            ctx.notes.setdefault("stats", {})
            ctx.notes["stats"][k] = ctx.notes["stats"].get(k, 0) + v
        vlib.standard_verdict(ctx, "parfor", res, args, "seq/c12_parfor.cpp (type %s)" % types[i][1])
        for v in ctx.violations:
            pass
    if known_probe and not replay:
        args = [prop, ctx.seed, 1, "probe64"]
        res = vlib.harness_diff(ctx, "parfor_probe64", exes[6][0], args, timeout=60, env=env)
        if res["pfails"] or res["crashed"]:
            what = res["pfails"][0][1] if res["pfails"] else "sanitizer abort: " + (res["tail"].split("runtime error:")[-1][:160] if "runtime error:" in res["tail"] else "exit %s" % res["rc"])
            ctx.fail(PROBE64_SIG, "parallel_for(adaptive, wait=true) over [INT64_MAX-1000, INT64_MAX): the stripe cursor "
                     "fetch_add runs past the type maximum (signed overflow / wrap): " + what,
                     {"kind": "input", "harness": "seq/c12_parfor.cpp", "args": [str(a) for a in args]})
        ctx.notes["probe64_reproduced"] = bool(res["pfails"] or res["crashed"])
