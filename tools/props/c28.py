import os, sys
sys.path.insert(0, os.path.dirname(os.path.abspath(__file__)))
import pipe_common
import vlib  # noqa: F401

THEOREMS = ["Dispenso.Pipe." + t for t in ['C28_stage_limit', 'C28_generator_limit']]


def run(ctx, replay):
    ctx.cov["rule"] = ("the pipeline scenarios of C27, half of them with throwing stages; oracle: per-stage maximum of "
                       "concurrently running stage functions (from the begin/end notes of the run, which are totally ordered "
                       "under the deterministic scheduler) against the stage limit, generator instances against its limit; "
                       "traces replayed through the Lean model, which checks every resources_ value the code observed; "
                       "distinct = (stages, pool, items, unlimited pattern, throw plan, delivered count)")
    q = ctx.tier == "quick"
    plan = [(0, 300 if q else 4000, 100 if q else 500), (1, 400 if q else 5000, 40 if q else 100)]
    pipe_common.run_pipe(ctx, "C28", THEOREMS, "DispensoVerif.Props.C28", plan, replay, variant_is_violation=False)
