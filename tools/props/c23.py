import os
import vlib

THEOREMS = []


def run(ctx, replay):
    ctx.cov["rule"] = ("random producer plans (try_push / try_push_batch) and consumer plans (try_pop / try_pop_batch / "
                       "size, empty, full) for capacities 1..4 (exact and power-of-two buffer sizes) under the deterministic "
                       "scheduler; element construction/move are atomic events; every trace is replayed through the Lean "
                       "model; oracle: popped sequence is a prefix of the pushed sequence, occupancy <= capacity, "
                       "rejections only when full/empty at call start, lifetimes balance; distinct = (K, #pushed, #popped)")
    if THEOREMS:
        ctx.prove("DispensoVerif.Props.C23", THEOREMS)
    else:
        vlib.lake_build(["dvdriver"])
    src = os.path.join(vlib.HARNESS, "conc", "c23_distrw.cpp")
    exe, log = vlib.build_dsched_harness(src)
    if not exe:
        ctx.broken.append(("harness:c23_distrw", "does not compile against the current tree: " + log[-1500:]))
        return
    args = replay["args"] if replay and replay.get("args") else [ctx.seed, 400 if ctx.tier == "quick" else 20000]
    res = vlib.trace_validate(ctx, "distrw", exe, args)
    vlib.standard_verdict(ctx, "distrw", res, args, "conc/c23_distrw.cpp")
