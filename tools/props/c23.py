import os
import vlib

THEOREMS = ["Dispenso.DistRWLock." + t for t in ['C23_exclusion', 'C23_bit_owner_unique', 'C23_failed_try_lock_leaves_no_trace', 'C23_no_lost_wakeup', 'C23_only_draining_writer_parks', 'C23_quiescent_not_blocked']]


def run(ctx, replay):
    ctx.cov["rule"] = ('2..4 threads performing random sequences of lock / try_lock / lock_shared(i) / try_lock_shared(i) with arbitrary slot indices on DistributedRWLockImpl<N>, N in {1,2,4,16}, under the deterministic scheduler; every trace replayed through the Lean model; oracle: occupancy counters, every slot word zero at the end (a failed try_lock leaves no trace), deadlock/livelock detector; distinct = (N, threads, plan)')
    if THEOREMS:
        ctx.prove("DispensoVerif.Props.C23", THEOREMS)
    else:
        vlib.lake_build(["dvdriver"])
    src = os.path.join(vlib.HARNESS, "conc", "c23_distrw.cpp")
    exe, log = vlib.build_dsched_harness(src)
    if not exe:
        ctx.broken.append(("harness:c23_distrw", "does not compile against the current tree: " + log[-1500:]))
        return
    args = replay["args"] if replay and replay.get("args") else [ctx.seed, 400 if ctx.tier == "quick" else 20000]
    res = vlib.trace_validate(ctx, "distrw", exe, args)
    vlib.standard_verdict(ctx, "distrw", res, args, "conc/c23_distrw.cpp")
