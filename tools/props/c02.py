from props import sched_common

THEOREMS = ["Dispenso.Sched." + t for t in ['C02_outstanding_exact', 'C02_credit_only_in_calls', 'C02_barrier', 'C02_barrier_no_inline_begin', 'C02_zero_observed', 'C02_wait_reports_done_only_after_zero', 'C02_wait_starts_unobserved', 'C02_bodies_complete', 'C02_tasks_accounted']]
# (flavour, scenarios in the quick tier): 0 mixed, 1 without resize, 2 resize-heavy (incl. resize(0) held in join while a ring-routed bulk arrives), 3 overloaded pool + chains, 4 workers parked between submissions, 5 exception-heavy
FLAVOURS = [(0, 130), (1, 110), (3, 60), (4, 50), (5, 50)]


def run(ctx, replay):
    sched_common.run_sched(ctx, replay, "C02", "DispensoVerif.Props.C02", THEOREMS, FLAVOURS)
