from props import sched_common

THEOREMS = ["Dispenso.Sched." + t for t in ['C02_outstanding_exact', 'C02_credit_only_in_calls', 'C02_barrier', 'C02_barrier_no_inline_begin', 'C02_zero_observed', 'C02_wait_reports_done_only_after_zero', 'C02_wait_starts_unobserved', 'C02_bodies_complete', 'C02_tasks_accounted']]
# (flavour, scenarios in the quick tier): 0 mixed, 1 without resize, 2 resize-heavy, 3 overloaded pool + chains, 4 workers parked between submissions
FLAVOURS = [(0, 150), (1, 130), (3, 70), (4, 50)]


def run(ctx, replay):
    sched_common.run_sched(ctx, replay, "C02", "DispensoVerif.Props.C02", THEOREMS, FLAVOURS)
