from props import sched_common

THEOREMS = []
# (flavour, scenarios in the quick tier): 0 mixed, 1 without resize, 2 resize-heavy
FLAVOURS = [(0, 200), (1, 200)]


def run(ctx, replay):
    sched_common.run_sched(ctx, replay, "C02", "DispensoVerif.Props.C02", THEOREMS, FLAVOURS)
