import os
import vlib

THEOREMS = ["Dispenso.Future." + t for t in [
    "C20_future_timeout_after_deadline", "C20_event_timeout_after_deadline", "C20_bound_of_wait_for",
    "C20_bound_of_wait_until", "C20_future_ready_means_done", "C20_event_ready_means_completed",
    "C20_timed_wait_runs_functor_only_if_deferred"]]


def run(ctx, replay):
    ctx.cov["rule"] = ("CompletionEvent scenarios: a notifier (immediate / late in virtual time / never) against 1..4 waiters "
                       "calling wait / waitFor / waitUntil / completed with zero, negative, tiny, ordinary and multi-second "
                       "timeouts, EINTR injection, random / PCT schedules; Future scenarios (the C18 harness) with wait_for / "
                       "wait_until on deferred and non-deferred futures, slow functors and late closures; every trace is "
                       "replayed through the Lean model with the timed layer (timeout accepted only after the model "
                       "deadline, clock notes never behind the model clock); native real-clock waits at the end; "
                       "distinct = distinct scenario descriptions")
    ctx.assumptions += ["futex contract: a timed FUTEX_WAIT returns ETIMEDOUT only after its relative timespec elapsed",
                        "the double -> timespec conversion of the requested duration is outside the model (checked by the "
                        "oracle: exact or 1 ns short)"]
    if THEOREMS:
        ctx.prove("DispensoVerif.Props.C20", THEOREMS)
    else:
        vlib.lake_build(["dvdriver"])
    q = ctx.tier == "quick"
    src = os.path.join(vlib.HARNESS, "conc", "c20_timed.cpp")
    exe, log = vlib.build_dsched_harness(src)
    if not exe:
        ctx.broken.append(("harness:c20_timed", "does not compile against the current tree: " + log[-1500:]))
        return
    args = replay["args"] if replay and replay.get("args") else [ctx.seed, 300 if q else 8000]
    if not replay or replay.get("harness", "").endswith("c20_timed.cpp"):
        res = vlib.trace_validate(ctx, "futevt", exe, args)
        vlib.standard_verdict(ctx, "futevt", res, args, "conc/c20_timed.cpp")
    if replay and not replay.get("harness", "").endswith("c18_future.cpp"):
        return
    src2 = os.path.join(vlib.HARNESS, "conc", "c18_future.cpp")
    exe2, log = vlib.build_dsched_harness(src2, with_lib=True)
    if not exe2:
        ctx.broken.append(("harness:c18_future", "does not compile against the current tree: " + log[-1500:]))
        return
    a2 = replay["args"] if replay and replay.get("args") else [ctx.seed + 7919, 120 if q else 3000]
    res2 = vlib.trace_validate(ctx, "future", exe2, a2)
    vlib.standard_verdict(ctx, "future", res2, a2, "conc/c18_future.cpp")
