import os
import vlib

THEOREMS = ["Dispenso.SmallBuf." + t for t in [
    "C41_conservation", "C41_exclusive", "C41_alloc_fresh", "C41_live_leaves_only_by_dealloc", "C41_cache_bounds",
    "C41_blocks_aligned_disjoint", "C41_live_blocks_disjoint", "C41_class_size", "C41_nonpow2_too_small",
    "C41_lock_mutex", "C41_backing_complete", "C41_old_lock_broken", "C41_old_two_carvers",
    "C41_old_exit_double_handout"]]


def run(ctx, replay):
    ctx.cov["rule"] = ("sequential layer: for each of the 7 size classes a random history of allocSmallBuffer / "
                       "deallocSmallBuffer / approxBytesAllocatedSmallBuffer bursts on the main thread and on helper "
                       "threads that run one at a time and exit (cross-thread frees, cache returned at thread exit; "
                       "class 4 is reached through N = 1, 2, 4; every other helper thread allocates again from a thread_local destructor that runs after the allocator's per-thread data was destroyed), every operation compared with the Lean block-token model "
                       "(block returned, tlCount, slabs, central-store size; the result of try_dequeue_bulk is taken from "
                       "the implementation and checked to be a sub-bag of the model's central store) + address oracle; "
                       "concurrent layer: 2..4 threads under the deterministic scheduler (allocs, cross-thread frees "
                       "through a shared pool of live blocks, threads exiting - some with late allocator calls from a thread_local destructor -, concurrent approxBytesAllocatedSmallBuffer), "
                       "one process per scenario, call/ret events and every atomic operation on backingStoreLock replayed "
                       "through the same model; oracle: ownership map, canaries, critical-section occupancy from the "
                       "lock-word events; distinct = (class, threads, shape of the scenario / request lines)")
    ctx.assumptions += ["kBlockSize is a power of two (documented precondition of allocSmallBuffer)"]
    ctx.trusted += ["moodycamel::ConcurrentQueue is a linearizable bag (third-party; exercised, not modelled)",
                    "malloc returns pairwise disjoint, 16-byte aligned regions"]
    if THEOREMS:
        ctx.prove("DispensoVerif.Props.C41", THEOREMS)
    else:
        vlib.lake_build(["dvdriver"])
    q = ctx.tier == "quick"
    if not (replay and replay.get("harness", "").startswith("conc/")):
        flags = ["-O1", "-g"] + vlib.SAN_FLAGS
        lib, log = vlib.build_lib(flags, tag="asan")
        if not lib:
            ctx.broken.append(("harness:libdispenso", "library does not compile: " + log[-1500:]))
            return
        src = os.path.join(vlib.HARNESS, "seq", "c41_smallbuf.cpp")
        exe, log = vlib.build_harness(src, flags, lib=lib)
        if not exe:
            ctx.broken.append(("harness:c41_smallbuf", "does not compile against the current tree: " + log[-1500:]))
            return
        args = replay["args"] if replay and replay.get("args") else [ctx.seed, 300 if q else 6000]
        res = vlib.harness_diff(ctx, "smallbuf", exe, args)
        vlib.standard_verdict(ctx, "smallbuf", res, args, "seq/c41_smallbuf.cpp")
        if replay:
            return
    src2 = os.path.join(vlib.HARNESS, "conc", "c41_smallbuf_conc.cpp")
    exe2, log = vlib.build_dsched_harness(src2, with_lib=True)
    if not exe2:
        ctx.broken.append(("harness:c41_smallbuf_conc", "does not compile against the current tree: " + log[-1500:]))
        return
    a2 = replay["args"] if replay and replay.get("args") else [ctx.seed, 120 if q else 1500]
    res2 = vlib.trace_validate(ctx, "smallbuf", exe2, a2)
    vlib.standard_verdict(ctx, "smallbuf", res2, a2, "conc/c41_smallbuf_conc.cpp")
