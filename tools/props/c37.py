import os
import vlib

THEOREMS = ["Dispenso.Arena." + t for t in ['C37_seq_growBy', 'C37_seq_index_in_buffer', 'C37_seq_mk', 'C37_buffers_ledger', 'C37_pool_inv', 'C37_sem_copyCtor', 'C37_sem_copyAssign', 'C37_sem_moveAssign', 'C37_sem_swap', 'C37_sem_moveCtor', 'C37_sem_growBy', 'C37_conc_inv', 'C37_conc_index_in_buffer', 'C37_conc_local', 'C37_ranges_tile', 'C37_ranges_cover_once', 'C37_grow_returns_claim']]


def run(ctx, replay):
    ctx.cov["rule"] = ("sequential layer: random operation sequences over pools of ConcurrentObjectArena (construction with "
                       "min buffer sizes 1..6 and initial sizes, grow_by, element writes, copy construction, copy/move "
                       "assignment, swap, destruction) compared with the Lean value model (size, capacity, number of buffers, "
                       "returned position, last-buffer size, contents) under ASan/LSan; concurrent layer: 2..4 threads calling "
                       "grow_by with amounts crossing buffer boundaries (buffer sizes 1,2,4,8) under the deterministic "
                       "scheduler, traces replayed through the Lean protocol model; oracle: returned ranges tile [0,size), "
                       "elements default-constructed, references stable; distinct = distinct request lines / scenario shapes")
    if THEOREMS:
        ctx.prove("DispensoVerif.Props.C37", THEOREMS)
    else:
        vlib.lake_build(["dvdriver"])
    src = os.path.join(vlib.HARNESS, "seq", "c37_arena.cpp")
    exe, log = vlib.build_harness(src, ["-O1", "-g"] + vlib.SAN_FLAGS)
    if not exe:
        ctx.broken.append(("harness:c37_arena", "does not compile against the current tree: " + log[-1500:]))
        return
    args = replay["args"] if replay and replay.get("args") else [ctx.seed, 400 if ctx.tier == "quick" else 20000, 14 if ctx.tier == "quick" else 40]
    res = vlib.harness_diff(ctx, "arenaseq", exe, args)
    vlib.standard_verdict(ctx, "arenaseq", res, args, "seq/c37_arena.cpp")
    src2 = os.path.join(vlib.HARNESS, "conc", "c37_arena_conc.cpp")
    exe2, log = vlib.build_dsched_harness(src2)
    if not exe2:
        ctx.broken.append(("harness:c37_arena_conc", "does not compile against the current tree: " + log[-1500:]))
        return
    a2 = [ctx.seed, 300 if ctx.tier == "quick" else 10000]
    res2 = vlib.trace_validate(ctx, "arena", exe2, a2)
    vlib.standard_verdict(ctx, "arena", res2, a2, "conc/c37_arena_conc.cpp")
