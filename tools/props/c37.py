import os
import vlib

THEOREMS = ["Dispenso.Arena." + t for t in ['C37_seq_growBy', 'C37_seq_index_in_buffer', 'C37_seq_mk', 'C37_buffers_ledger', 'C37_pool_inv', 'C37_sem_copyCtor', 'C37_sem_copyAssign', 'C37_sem_moveAssign', 'C37_sem_swap', 'C37_sem_moveCtor', 'C37_sem_growBy', 'C37_conc_inv', 'C37_conc_index_in_buffer', 'C37_conc_local', 'C37_ranges_tile', 'C37_ranges_cover_once', 'C37_grow_returns_claim']] + ["Dispenso.Arena.Tables." + t for t in ['C37_tables_no_uaf', 'C37_tables_retained', 'C37_tables_refine_seq']]


def run(ctx, replay):
    ctx.cov["rule"] = ("sequential layer: random operation sequences over pools of ConcurrentObjectArena (construction with "
                       "min buffer sizes 1..6 and initial sizes, grow_by, element writes, copy construction, copy/move "
                       "assignment, swap, destruction) compared with the Lean value model (size, capacity, number of buffers, "
                       "returned position, last-buffer size, contents) under ASan/LSan; concurrent layer: 2..4 threads calling "
                       "grow_by with amounts crossing buffer boundaries (buffer sizes 1,2,4,8) under the deterministic "
                       "scheduler, traces replayed through the Lean protocol model; oracle: returned ranges tile [0,size), "
                       "elements default-constructed, references stable; distinct = distinct request lines / scenario shapes; "
                       "table layer: readers suspended between the two halves of operator[] (load of the table pointer, read of "
                       "the table entry) across any number of table re-allocations, compared with the table ledger model "
                       "(capacity, entries, deleteLater_ size per allocateBuffer; a freed table is an ASan report); "
                       "native layer: the real ThreadSanitizer on the object_arena scenario of harness/native/c10_tsan.cpp "
                       "(readers inside operator[] / getBuffer while other threads grow the arena across table-capacity "
                       "boundaries): a reader that indexes a retired buffer-pointer table races with whoever frees it")
    if THEOREMS:
        ctx.prove("DispensoVerif.Props.C37", THEOREMS)
    else:
        vlib.lake_build(["dvdriver"])
    src = os.path.join(vlib.HARNESS, "seq", "c37_arena.cpp")
    exe, log = vlib.build_harness(src, ["-O1", "-g"] + vlib.SAN_FLAGS)
    if not exe:
        ctx.broken.append(("harness:c37_arena", "does not compile against the current tree: " + log[-1500:]))
        return
    args = replay["args"] if replay and replay.get("args") else [ctx.seed, 400 if ctx.tier == "quick" else 20000, 14 if ctx.tier == "quick" else 40]
    res = vlib.harness_diff(ctx, "arenaseq", exe, args)
    vlib.standard_verdict(ctx, "arenaseq", res, args, "seq/c37_arena.cpp")
    # table layer: readers suspended between the two halves of operator[] while the arena grows
    src3 = os.path.join(vlib.HARNESS, "seq", "c37_tables.cpp")
    exe3, log = vlib.build_harness(src3, ["-O1", "-g"] + vlib.SAN_FLAGS)
    if not exe3:
        ctx.broken.append(("harness:c37_tables", "does not compile against the current tree: " + log[-1500:]))
        return
    a3 = [ctx.seed, 400 if ctx.tier == "quick" else 20000, 30 if ctx.tier == "quick" else 80]
    if not (replay and replay.get("args")):
        res3 = vlib.harness_diff(ctx, "arenatbl", exe3, a3)
        vlib.standard_verdict(ctx, "arenatbl", res3, a3, "seq/c37_tables.cpp")
    src2 = os.path.join(vlib.HARNESS, "conc", "c37_arena_conc.cpp")
    exe2, log = vlib.build_dsched_harness(src2)
    if not exe2:
        ctx.broken.append(("harness:c37_arena_conc", "does not compile against the current tree: " + log[-1500:]))
        return
    a2 = [ctx.seed, 300 if ctx.tier == "quick" else 10000]
    res2 = vlib.trace_validate(ctx, "arena", exe2, a2)
    vlib.standard_verdict(ctx, "arena", res2, a2, "conc/c37_arena_conc.cpp")
    # native layer: lock-free readers against growth.  The window between operator[]'s load of the table
    # pointer and the plain read of the table entry is not a scheduling point under dsched (the tables are
    # re-allocated inside the arena and cannot be registered as plain regions); the happens-before detector
    # of the real ThreadSanitizer does not need the window to be hit: any read of a retired table that is
    # not ordered before its release is reported.
    if not (replay and replay.get("args")):
        try:
            from props import c10_tsan
        except Exception as e:
            ctx.broken.append(("harness:c10_tsan", "TSan sweep module missing: %s" % e))
            return
        rounds = 6 if ctx.tier == "quick" else 60
        c10_tsan.run_tsan(ctx, {"args": [ctx.seed, rounds, "object_arena"]}, tie="arena_tsan", include_findings=False, jobs=1)
