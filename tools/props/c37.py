import os
import vlib

THEOREMS = []


def run(ctx, replay):
    ctx.cov["rule"] = ("random operation sequences (construct empty/from value, copy/move construct, copy/move assign incl. "
                       "self-assignment, emplace, destroy, query) over a pool of OpResult<Tracked> objects, each mirrored on "
                       "std::optional<Tracked> and on the Lean model; every sequence ends by destroying all objects; "
                       "distinct = distinct request lines")
    if THEOREMS:
        ctx.prove("DispensoVerif.Props.C37", THEOREMS)
    else:
        vlib.lake_build(["dvdriver"])
    src = os.path.join(vlib.HARNESS, "seq", "c37_arena.cpp")
    exe, log = vlib.build_harness(src, ["-O1", "-g"] + vlib.SAN_FLAGS)
    if not exe:
        ctx.broken.append(("harness:c37_arena", "does not compile against the current tree: " + log[-1500:]))
        return
    args = replay["args"] if replay and replay.get("args") else [ctx.seed, 400 if ctx.tier == "quick" else 20000, 14 if ctx.tier == "quick" else 40]
    res = vlib.harness_diff(ctx, "arenaseq", exe, args)
    vlib.standard_verdict(ctx, "arenaseq", res, args, "seq/c37_arena.cpp")
    src2 = os.path.join(vlib.HARNESS, "conc", "c37_arena_conc.cpp")
    exe2, log = vlib.build_dsched_harness(src2)
    if not exe2:
        ctx.broken.append(("harness:c37_arena_conc", "does not compile against the current tree: " + log[-1500:]))
        return
    a2 = [ctx.seed, 300 if ctx.tier == "quick" else 10000]
    res2 = vlib.trace_validate(ctx, "arena", exe2, a2)
    vlib.standard_verdict(ctx, "arena", res2, a2, "conc/c37_arena_conc.cpp")
