import os
import vlib

THEOREMS = ["Dispenso.InlineDepth." + t for t in ["C46_bounded", "C46_guard_rejects", "C46_no_unguarded"]]


def run(ctx, replay):
    ctx.cov["rule"] = ("chains of 40..200 tasks in which every body schedules its successor through one of 7 paths "
                       "(ThreadPool::schedule / scheduleBulk, TaskSet / ConcurrentTaskSet (light, heavy) schedule / scheduleBulk) "
                       "on pools of 0..2 threads kept overloaded by blocked filler tasks and task sets with load multiplier 0, "
                       "under the deterministic scheduler; inline-decision hooks and body begin/end markers are replayed "
                       "through the Lean depth-guard model; oracle: bodies nest at most kMaxInlineDepth + 2 deep on a thread's "
                       "stack whatever the chain length; distinct = (threads, path, length bucket, depth bucket)")
    ctx.assumptions += ["depth counts dispenso-induced inline nesting only; a body that itself calls wait() is user recursion",
                        "pipeline / graph / future hand-offs use the same guard (InlineDepthGuard) and are exercised by "
                        "their own properties' harnesses, not here"]
    ctx.prove("DispensoVerif.Props.C46", THEOREMS)
    src = os.path.join(vlib.HARNESS, "conc", "c46_inline.cpp")
    exe, log = vlib.build_dsched_harness(src, with_lib=True)
    if not exe:
        ctx.broken.append(("harness:c46_inline", "does not compile against the current tree: " + log[-1500:]))
        return
    args = replay["args"] if replay and replay.get("args") else [ctx.seed, 60 if ctx.tier == "quick" else 1500]
    res = vlib.trace_validate(ctx, "inlinedepth", exe, args)
    vlib.standard_verdict(ctx, "inlinedepth", res, args, "conc/c46_inline.cpp")
