import os
import vlib

THEOREMS = ["Dispenso.ChaseLev." + t for t in [
    "C36_bounds", "C36_bounds_outside_pop", "C36_exactly_once", "C36_taken_not_in_deque", "C36_conservation",
    "C36_conservation_quiescent", "C36_order", "C36_steal_oldest", "C36_pop_newest"]]


def run(ctx, replay):
    ctx.cov["rule"] = ("one owner performing random try_push / try_pop / try_pop_into sequences and 1..3 thieves calling "
                       "try_steal (capacities 2, 4, 8) under the deterministic scheduler, followed by a quiescent drain; every "
                       "trace replayed through the Lean model; oracle: every pushed element returned exactly once, owner pops "
                       "return the newest remaining element, size <= capacity, drain count = contents; distinct = (capacity, "
                       "thieves, #pushed, #taken)")
    if THEOREMS:
        ctx.prove("DispensoVerif.Props.C36", THEOREMS)
    else:
        vlib.lake_build(["dvdriver"])
    src = os.path.join(vlib.HARNESS, "conc", "c36_chaselev.cpp")
    exe, log = vlib.build_dsched_harness(src, extra_flags=["-O0"])
    if not exe:
        ctx.broken.append(("harness:c36_chaselev", "does not compile against the current tree: " + log[-1500:]))
        return
    args = replay["args"] if replay and replay.get("args") else [ctx.seed, 400 if ctx.tier == "quick" else 20000]
    res = vlib.trace_validate(ctx, "chaselev", exe, args)
    vlib.standard_verdict(ctx, "chaselev", res, args, "conc/c36_chaselev.cpp")
