import os
import vlib

THEOREMS = ["Dispenso.AsyncReq." + t for t in [
    "C24_mutex", "C24_emplace_only_when_requested", "C24_take_is_fresh", "C24_history", "C24_old_double_delivery"]]


def run(ctx, replay):
    ctx.cov["rule"] = ("random scenarios of 1..3 consumers (requestUpdate + getUpdate polls) and 1..3 producers "
                       "(updateRequested + tryEmplaceUpdate with unique tags) under the deterministic scheduler; the "
                       "payload's only member is an atomic so object construction/move are scheduling points and trace "
                       "events; every trace is replayed through the Lean model; distinct = (threads, rounds, outcome counts)")
    if THEOREMS:
        ctx.prove("DispensoVerif.Props.C24", THEOREMS)
    else:
        vlib.lake_build(["dvdriver"])
    src = os.path.join(vlib.HARNESS, "conc", "c24_async.cpp")
    exe, log = vlib.build_dsched_harness(src)
    if not exe:
        ctx.broken.append(("harness:c24_async", "does not compile against the current tree: " + log[-1500:]))
        return
    args = replay["args"] if replay and replay.get("args") else [ctx.seed, 400 if ctx.tier == "quick" else 20000]
    res = vlib.trace_validate(ctx, "asyncreq", exe, args)
    vlib.standard_verdict(ctx, "asyncreq", res, args, "conc/c24_async.cpp")
