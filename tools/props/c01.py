from props import sched_common

THEOREMS = ["Dispenso.Sched." + t for t in ['C01_at_most_once', 'C01_dtor_end_empty', 'C01_quiescent_count', 'C01_pool_never_drops', 'C01_quiescent_all_ran', 'C01_exactly_once', 'C01_exactly_once_at_dtor', 'C01_count_at_dtor', 'C01_no_submission_after_dtor']]
# (flavour, scenarios in the quick tier): 0 mixed, 1 without resize, 2 resize-heavy (incl. resize(0) held in join while a ring-routed bulk arrives), 3 overloaded pool + chains, 4 workers parked between submissions, 5 exception-heavy
FLAVOURS = [(0, 180), (1, 120), (3, 50), (4, 50)]


def run(ctx, replay):
    sched_common.run_sched(ctx, replay, "C01", "DispensoVerif.Props.C01", THEOREMS, FLAVOURS)
