from props import sched_common

THEOREMS = []
# (flavour, scenarios in the quick tier): 0 mixed, 1 without resize, 2 resize-heavy
FLAVOURS = [(0, 250), (1, 150)]


def run(ctx, replay):
    sched_common.run_sched(ctx, replay, "C01", "DispensoVerif.Props.C01", THEOREMS, FLAVOURS)
